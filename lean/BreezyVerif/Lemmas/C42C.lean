import BreezyVerif.Lemmas.C42B
/-!
C42 — helper lemmas, part 3: uniqueness and ordering of the emitted items.
-/
namespace BreezyVerif.C42

theorem WF_unpack {t : List CEnt} (h : WF t = true) :
    (∀ c ∈ t, c.cpath.all goodName = true) ∧ (t.map (·.cpath)).Nodup ∧ parentsFirst [] t = true := by
  unfold WF at h
  simp only [Bool.and_eq_true, List.all_eq_true, decide_eq_true_eq] at h
  exact ⟨fun c hc => List.all_eq_true.mpr (h.1.1 c hc), h.1.2, h.2⟩

theorem filterMap_congr' {α β : Type} {f g : α → Option β} {l : List α}
    (h : ∀ a ∈ l, f a = g a) : l.filterMap f = l.filterMap g := by
  induction l with
  | nil => rfl
  | cons a l ih =>
    rw [List.filterMap_cons, List.filterMap_cons, h a List.mem_cons_self,
      ih (fun x hx => h x (List.mem_cons_of_mem _ hx))]

theorem nodup_filterMap_on {α β γ : Type} [DecidableEq γ] (f : α → Option β) (g : α → γ) :
    ∀ l : List α, (l.map g).Nodup →
      (∀ a ∈ l, ∀ a' ∈ l, ∀ b, f a = some b → f a' = some b → g a = g a') →
      (l.filterMap f).Nodup := by
  intro l
  induction l with
  | nil => intro _ _; simp
  | cons a l ih =>
    intro hn hinj
    rw [List.map_cons, List.nodup_cons] at hn
    have ih' := ih hn.2 (fun x hx y hy b h1 h2 =>
      hinj x (List.mem_cons_of_mem _ hx) y (List.mem_cons_of_mem _ hy) b h1 h2)
    cases hfa : f a with
    | none => simpa [List.filterMap_cons, hfa] using ih'
    | some b =>
      rw [List.filterMap_cons, hfa]
      simp only
      rw [List.nodup_cons]
      refine ⟨?_, ih'⟩
      intro hb
      obtain ⟨a', ha', hfa'⟩ := List.mem_filterMap.mp hb
      have := hinj a List.mem_cons_self a' (List.mem_cons_of_mem _ ha') b hfa hfa'
      exact hn.1 (List.mem_map.mpr ⟨a', ha', this.symm⟩)

theorem inj_of_nodup_map {α γ : Type} (g : α → γ) :
    ∀ l : List α, (l.map g).Nodup → ∀ a ∈ l, ∀ b ∈ l, g a = g b → a = b := by
  intro l
  induction l with
  | nil => intro _ a ha; cases ha
  | cons x l ih =>
    intro hn a ha b hb hg
    rw [List.map_cons, List.nodup_cons] at hn
    rcases List.mem_cons.mp ha with rfl | ha'
    · rcases List.mem_cons.mp hb with rfl | hb'
      · rfl
      · exact absurd (List.mem_map.mpr ⟨b, hb', hg.symm⟩) hn.1
    · rcases List.mem_cons.mp hb with rfl | hb'
      · exact absurd (List.mem_map.mpr ⟨a, ha', hg⟩) hn.1
      · exact ih hn.2 a ha' b hb' hg

/-- in a parents-first stream every entry deeper than the top level has its
parent directory in the stream (or among the entries seen before) -/
theorem parent_mem_of_parentsFirst :
    ∀ (t seen : List CEnt), parentsFirst seen t = true → ∀ c ∈ t, 2 ≤ c.cpath.length →
      ∃ d, (d ∈ seen ∨ d ∈ t) ∧ d.cpath = c.cpath.dropLast ∧ d.kind = .dir := by
  intro t
  induction t with
  | nil => intro _ _ c hc; cases hc
  | cons x t ih =>
    intro seen h c hc hl
    unfold parentsFirst at h
    rw [Bool.and_eq_true] at h
    rcases List.mem_cons.mp hc with rfl | hc'
    · have h1 := h.1
      rw [Bool.or_eq_true] at h1
      rcases h1 with h1 | h1
      · simp at h1; omega
      · obtain ⟨d, hd, hd2⟩ := List.any_eq_true.mp h1
        simp only [Bool.and_eq_true, beq_iff_eq] at hd2
        exact ⟨d, Or.inl hd, hd2.1, hd2.2⟩
    · obtain ⟨d, hd, hd2⟩ := ih (x :: seen) h.2 c hc' hl
      refine ⟨d, ?_, hd2⟩
      rcases hd with hd | hd
      · rcases List.mem_cons.mp hd with rfl | hd'
        · exact Or.inr List.mem_cons_self
        · exact Or.inl hd'
      · exact Or.inr (List.mem_cons_of_mem _ hd)

theorem parent_mem {t : List CEnt} (h : WF t = true) {c : CEnt} (hc : c ∈ t) (hl : 2 ≤ c.cpath.length) :
    ∃ d ∈ t, d.cpath = c.cpath.dropLast ∧ d.kind = .dir := by
  obtain ⟨d, hd, hd2⟩ := parent_mem_of_parentsFirst t [] (WF_unpack h).2.2 c hc hl
  rcases hd with hd | hd
  · cases hd
  · exact ⟨d, hd, hd2⟩

theorem below_iff {s p : List Name} : below s p = true ↔ ∃ r, r ≠ [] ∧ p = s ++ r := by
  unfold below
  rw [Bool.and_eq_true, List.isPrefixOf_iff_prefix, decide_eq_true_eq]
  constructor
  · rintro ⟨⟨r, hr⟩, hl⟩
    refine ⟨r, ?_, hr.symm⟩
    intro e
    subst e
    simp at hr
    subst hr
    omega
  · rintro ⟨r, hr, rfl⟩
    refine ⟨⟨r, rfl⟩, ?_⟩
    have : r.length > 0 := List.length_pos_iff.mpr hr
    simp
    omega

/-- nothing lies below an entry that is not a directory -/
theorem nothing_below_nondir {t : List CEnt} (h : WF t = true) {c : CEnt} (hc : c ∈ t)
    (hk : c.kind ≠ .dir) (hne : c.cpath ≠ []) :
    ∀ (n : Nat) (c' : CEnt), c' ∈ t → c'.cpath.length ≤ n → below c.cpath c'.cpath = false := by
  intro n
  induction n with
  | zero =>
    intro c' _ hl
    cases hb : below c.cpath c'.cpath
    · rfl
    · obtain ⟨r, hr, he⟩ := below_iff.mp hb
      have h1 := congrArg List.length he
      have : r.length > 0 := List.length_pos_iff.mpr hr
      rw [List.length_append] at h1
      omega
  | succ n ih =>
    intro c' hc' hl
    cases hb : below c.cpath c'.cpath
    · rfl
    · obtain ⟨r, hr, he⟩ := below_iff.mp hb
      have hrl : r.length > 0 := List.length_pos_iff.mpr hr
      have hcl : c.cpath.length > 0 := List.length_pos_iff.mpr hne
      have hl2 : 2 ≤ c'.cpath.length := by rw [he]; simp; omega
      obtain ⟨d, hd, hdp, hdk⟩ := parent_mem h hc' hl2
      have hdl : d.cpath = c.cpath ++ r.dropLast := by
        rw [hdp, he, List.dropLast_append_of_ne_nil hr]
      by_cases hr1 : r.dropLast = []
      · -- the parent is `c` itself
        rw [hr1, List.append_nil] at hdl
        have := inj_of_nodup_map (·.cpath) t (WF_unpack h).2.1 d hd c hc hdl
        rw [this] at hdk
        exact absurd hdk hk
      · have : below c.cpath d.cpath = true := below_iff.mpr ⟨r.dropLast, hr1, hdl⟩
        have hdlen : d.cpath.length ≤ n := by
          rw [hdp]; simp; omega
        rw [ih d hd hdlen] at this
        cases this

theorem pathStr_dropLast_prefix (p : List Name) : pathStr p.dropLast <+: pathStr p := by
  induction p with
  | nil => exact List.prefix_refl _
  | cons a p ih =>
    cases p with
    | nil => simp [pathStr]
    | cons b r =>
      by_cases hr : r = []
      · subst hr
        simp [pathStr]
      · have h1 : (b :: r).dropLast ≠ [] := by
          cases r with
          | nil => exact absurd rfl hr
          | cons c r => simp
        have e : (a :: b :: r).dropLast = a :: (b :: r).dropLast := by simp
        rw [e, pathStr_cons a h1, pathStr_cons a (by simp : b :: r ≠ [])]
        apply (List.prefix_append_right_inj a).mpr
        exact (List.prefix_cons_inj '/').mpr ih

/-- the parent of an emitted item is emitted too, as a directory, under the
parent of the item's name -/
theorem parent_item {special : Str → Bool} (hm : Mono special) (sub : Option (List Name))
    {c d : CEnt} {i : SItem} (hi : specStep special sub c = some i) (hl : 2 ≤ i.final.length)
    (hdp : d.cpath = c.cpath.dropLast) (hdk : d.kind = .dir) :
    ∃ j, specStep special sub d = some j ∧ j.final = i.final.dropLast ∧ j.ent.kind = .dir := by
  unfold specStep at hi
  split at hi
  · cases hi
  · rename_i h0
    split at hi
    · cases hi
    · rename_i hsp
      have hdsp : ¬ special (pathStr d.cpath) = true := by
        intro e
        apply hsp
        apply hm _ _ e
        rw [hdp]
        exact pathStr_dropLast_prefix _
      cases sub with
      | none =>
        simp only at hi
        cases hi
        simp only at hl
        have hd0 : d.cpath ≠ [] := by
          rw [hdp]
          intro e
          have := congrArg List.length e
          simp at this
          omega
        refine ⟨⟨d.cpath, d⟩, ?_, hdp, hdk⟩
        unfold specStep
        simp [hd0, hdsp]
      | some s =>
        simp only at hi
        split at hi
        · split at hi
          · cases hi
          · cases hi
            simp at hl
        · rename_i hne
          split at hi
          · rename_i hb
            cases hi
            simp only at hl
            obtain ⟨r, hr, he⟩ := below_iff.mp hb
            have hrl : 2 ≤ r.length := by
              rw [he] at hl; simpa using hl
            have hr1 : r.dropLast ≠ [] := by
              intro e
              have := congrArg List.length e
              simp at this
              omega
            have hdl : d.cpath = s ++ r.dropLast := by
              rw [hdp, he, List.dropLast_append_of_ne_nil hr]
            have hd0 : d.cpath ≠ [] := by rw [hdl]; simp [hr1]
            have hds : d.cpath ≠ s := by
              rw [hdl]
              intro e
              have := congrArg List.length e
              simp at this
              have : r.dropLast.length > 0 := List.length_pos_iff.mpr hr1
              omega
            have hdb : below s d.cpath = true := below_iff.mpr ⟨r.dropLast, hr1, hdl⟩
            refine ⟨⟨d.cpath.drop s.length, d⟩, ?_, ?_, hdk⟩
            · unfold specStep
              simp [hd0, hdsp, hds, hdb]
            · simp only [hdl, he, List.drop_left]
          · cases hi

theorem itemsParentsFirst_exportSpec {special : Str → Bool} (hm : Mono special) (sub : Option (List Name)) :
    ∀ (t seenE : List CEnt) (seenI : List SItem), parentsFirst seenE t = true →
      (∀ d ∈ seenE, ∀ j, specStep special sub d = some j → j ∈ seenI) →
      itemsParentsFirst seenI (exportSpec special sub t) = true := by
  intro t
  induction t with
  | nil => intro _ _ _ _; rfl
  | cons c t ih =>
    intro seenE seenI hp hs
    unfold parentsFirst at hp
    rw [Bool.and_eq_true] at hp
    unfold exportSpec
    rw [List.filterMap_cons]
    cases hc : specStep special sub c with
    | none =>
      simp only
      apply ih (c :: seenE) seenI hp.2
      intro d hd j hj
      rcases List.mem_cons.mp hd with rfl | hd'
      · rw [hc] at hj; cases hj
      · exact hs d hd' j hj
    | some i =>
      simp only
      unfold itemsParentsFirst
      rw [Bool.and_eq_true]
      constructor
      · rw [Bool.or_eq_true]
        by_cases hl : i.final.length ≤ 1
        · left; simpa using hl
        · right
          have hl2 : 2 ≤ i.final.length := by omega
          -- the entry itself is deeper than the top level
          have hcl : 2 ≤ c.cpath.length := by
            unfold specStep at hc
            split at hc
            · cases hc
            · split at hc
              · cases hc
              · cases sub with
                | none => simp only at hc; cases hc; exact hl2
                | some s =>
                  simp only at hc
                  split at hc
                  · split at hc
                    · cases hc
                    · cases hc; simp at hl2
                  · split at hc
                    · cases hc
                      simp only [List.length_drop] at hl2
                      omega
                    · cases hc
          have h1 := hp.1
          rw [Bool.or_eq_true] at h1
          rcases h1 with h1 | h1
          · simp at h1; omega
          · obtain ⟨d, hd, hd2⟩ := List.any_eq_true.mp h1
            simp only [Bool.and_eq_true, beq_iff_eq] at hd2
            obtain ⟨j, hj, hjf, hjk⟩ := parent_item hm sub hc hl2 hd2.1 hd2.2
            apply List.any_eq_true.mpr
            exact ⟨j, hs d hd j hj, by simp [hjf, hjk]⟩
      · apply ih (c :: seenE) (i :: seenI) hp.2
        intro d hd j hj
        rcases List.mem_cons.mp hd with rfl | hd'
        · rw [hc] at hj; cases hj; exact List.mem_cons_self
        · exact List.mem_cons_of_mem _ (hs d hd' j hj)

end BreezyVerif.C42
