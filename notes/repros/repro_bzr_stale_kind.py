"""families bzr-stale-kind-dir-not-scanned / bzr-stale-kind-listdir-crash: _SmartAddHelper.add walks a
versioned entry with the kind recorded in the inventory, not with what is on disk.
 (a) a versioned file replaced by a directory: `add` / `add k` does not descend into it;
 (b) a versioned directory replaced by a file: `add` raises NotADirectoryError (os.listdir).
Run: /venv/bin/python repro_bzr_stale_kind.py   (VERIF_REPO=<tree> for another tree); exit 1 = defect."""
from repro_common import *
bad = False
wt = mktree("2a"); r = wt.basedir
write(r, "k"); wt.add(["k"]); os.unlink(os.path.join(r, "k")); write(r, "k/inner"); write(r, "k/sub/deep")
WorkingTree.open(r).smart_add([r])
v = versioned(wt); print("(a) add . ->", v)
bad |= "k/inner" not in v
wt = mktree("2a"); r = wt.basedir
write(r, "d/x"); write(r, "u"); wt.add(["d", "d/x"]); shutil.rmtree(os.path.join(r, "d")); write(r, "d")
try:
    WorkingTree.open(r).smart_add([r])
    print("(b) add . ->", versioned(wt))
except NotADirectoryError as e:
    print("(b) add . raised NotADirectoryError:", e); bad = True
done(bad)
