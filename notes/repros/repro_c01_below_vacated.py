"""commit(specific_files=['e/d/b']) also commits the unselected, newly added 'e/d/c':
the directory c/d was renamed (via its parent) onto the path 'e/d' that the selected file vacated."""
import os, sys, tempfile
h = tempfile.mkdtemp(dir="/var/tmp/imp-C01C02/c01")
os.environ.update(HOME=h, BRZ_HOME=h, BRZ_EMAIL="t <t@example.com>")
sys.path.insert(0, os.environ.get("VERIF_REPO", "/repo"))
import breezy; breezy.initialize()
import breezy.bzr, breezy.git, breezy.bzr.bzrdir, breezy.bzr.workingtree_4, breezy.bzr.groupcompress_repo
from breezy.controldir import ControlDir, format_registry
wt = ControlDir.create_standalone_workingtree(os.path.join(h, "t"), format=format_registry.make_controldir("2a"))
b = wt.basedir
os.mkdir(b + "/e"); open(b + "/e/d", "w").write("x"); os.mkdir(b + "/c"); os.mkdir(b + "/c/d")
wt.add(["e", "e/d", "c", "c/d"])
wt.commit("1")
open(b + "/c/d/new", "w").write("unselected")
wt.add(["c/d/new"])
wt.rename_one("e", "z"); wt.rename_one("c", "e"); wt.rename_one("z/d", "e/d/b")
with wt.lock_read():
    bt = wt.basis_tree()
    with bt.lock_read():
        print("iter_changes(specific_files=['e/d/b']):", [c.path for c in wt.iter_changes(bt, specific_files=["e/d/b"])])
rid = wt.commit("2", specific_files=["e/d/b"])
t = wt.branch.repository.revision_tree(rid)
with t.lock_read():
    paths = sorted(p for p, ie in t.iter_entries_by_dir())
print(paths)
if "e/d/new" in paths:
    print("VIOLATION: the unselected new file e/d/new was committed")
    sys.exit(1)
