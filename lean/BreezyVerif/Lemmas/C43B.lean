import BreezyVerif.Lemmas.C43
/-!
C43 — helper lemmas, part 2: the rename phase of the uploader as two rounds of
independent top-level moves.
-/
namespace BreezyVerif.C43

/-- the name of the k-th temporary -/
def sname (k : Nat) : String := s!".tmp.{k}"

theorem stamp_eq (k : Nat) : stamp k = [sname k] := rfl

/-- the renames `(old name, new name)` of top-level entries as delta records -/
def toRenamed (rs : List (String × String)) : List Renamed :=
  rs.map fun r => ⟨[r.1], [r.2], false⟩

def stageMoves : List (String × String) → Nat → List (String × String)
  | [], _ => []
  | (o, _) :: r, k => (o, sname k) :: stageMoves r (k + 1)

def finishMoves : List (String × String) → Nat → List (String × String)
  | [], _ => []
  | (_, n) :: r, k => (sname k, n) :: finishMoves r (k + 1)

def pendOf : List (String × String) → Nat → List (Nat × Path)
  | [], _ => []
  | (_, n) :: r, k => (k, [n]) :: pendOf r (k + 1)

theorem stageMoves_srcs (rs : List (String × String)) (k : Nat) :
    (stageMoves rs k).map (·.1) = rs.map (·.1) := by
  induction rs generalizing k with
  | nil => rfl
  | cons r rs ih => obtain ⟨o, n⟩ := r; simp [stageMoves, ih]

theorem finishMoves_dsts (rs : List (String × String)) (k : Nat) :
    (finishMoves rs k).map (·.2) = rs.map (·.2) := by
  induction rs generalizing k with
  | nil => rfl
  | cons r rs ih => obtain ⟨o, n⟩ := r; simp [finishMoves, ih]

theorem finishMoves_srcs (rs : List (String × String)) (k : Nat) :
    (finishMoves rs k).map (·.1) = (stageMoves rs k).map (·.2) := by
  induction rs generalizing k with
  | nil => rfl
  | cons r rs ih => obtain ⟨o, n⟩ := r; simp [finishMoves, stageMoves, ih]

/-- every rename goes through one temporary name -/
theorem via_stamp (rs : List (String × String)) (k : Nat) (r : String × String) (hr : r ∈ rs) :
    ∃ s, (r.1, s) ∈ stageMoves rs k ∧ (s, r.2) ∈ finishMoves rs k := by
  induction rs generalizing k with
  | nil => cases hr
  | cons r0 rs ih =>
    obtain ⟨o, n⟩ := r0
    rcases List.mem_cons.mp hr with rfl | h
    · exact ⟨sname k, by simp [stageMoves], by simp [finishMoves]⟩
    · obtain ⟨s, h1, h2⟩ := ih (k + 1) h
      exact ⟨s, by simp [stageMoves, h1], by simp [finishMoves, h2]⟩

theorem ignored_nil (p : Path) : ignored [] p = false := by
  unfold ignored
  induction p with
  | nil => rfl
  | cons a p ih => simp [List.any_cons]

theorem run_append (c : Cfg) (t : Tree) (s : State) (xs ys : List Step) :
    run c t s (xs ++ ys) =
      (match run c t s xs with
        | (s', none) => run c t s' ys
        | (s', some e) => (s', some e)) := by
  induction xs generalizing s with
  | nil => simp [run]
  | cons x xs ih =>
    simp only [List.cons_append, run]
    cases h : exec c t s x with
    | mk s' e =>
      cases e with
      | none => simp only [ih]
      | some e => rfl

/-- the staging steps of the plan, executed: the renames to the temporary
names, one after the other, remembering where each has to go -/
theorem run_stage (c : Cfg) (t : Tree) (rs : List (String × String)) (k : Nat) (s : State) (root' : Node)
    (h : seqRename s.root (stageMoves rs k) = (root', none)) :
    run c t s (renameSteps [] (toRenamed rs) k) =
      ({ s with root := root', pendingRen := s.pendingRen ++ pendOf rs k }, none) := by
  induction rs generalizing k s with
  | nil =>
    simp only [stageMoves, seqRename] at h
    cases h
    simp [toRenamed, renameSteps, run, pendOf]
  | cons r rs ih =>
    obtain ⟨o, n⟩ := r
    simp only [stageMoves, seqRename] at h
    cases hr : tRename s.root [o] [sname k] with
    | error e => rw [hr] at h; cases h
    | ok r1 =>
      rw [hr] at h
      simp only at h
      simp only [toRenamed, List.map_cons, renameSteps, ignored_nil, Bool.false_and, Bool.false_eq_true,
        if_false, List.nil_append, run, exec, stamp_eq, hr]
      have := ih (k + 1) { s with root := r1, pendingRen := s.pendingRen ++ [(k, [n])] } h
      simp only [toRenamed] at this
      rw [this]
      simp [pendOf, List.append_assoc]

theorem finishRen_eq (root : Node) (rs : List (String × String)) (k : Nat) :
    finishRen root (pendOf rs k) = seqRename root (finishMoves rs k) := by
  induction rs generalizing k root with
  | nil => rfl
  | cons r rs ih =>
    obtain ⟨o, n⟩ := r
    simp only [pendOf, finishRen, finishMoves, seqRename, stamp_eq]
    cases tRename root [sname k] [n] with
    | error e => rfl
    | ok r1 => exact ih r1 (k + 1)

theorem inj_of_nodup_map {α γ : Type} (g : α → γ) :
    ∀ l : List α, (l.map g).Nodup → ∀ a ∈ l, ∀ b ∈ l, g a = g b → a = b := by
  intro l
  induction l with
  | nil => intro _ a ha; cases ha
  | cons x l ih =>
    intro hn a ha b hb hg
    rw [List.map_cons, List.nodup_cons] at hn
    rcases List.mem_cons.mp ha with rfl | ha'
    · rcases List.mem_cons.mp hb with rfl | hb'
      · rfl
      · exact absurd (List.mem_map.mpr ⟨b, hb', hg.symm⟩) hn.1
    · rcases List.mem_cons.mp hb with rfl | hb'
      · exact absurd (List.mem_map.mpr ⟨a, ha', hg⟩) hn.1
      · exact ih hn.2 a ha' b hb' hg

/-- the target of a move receives what was at its source -/
theorem movesSpec_dst {V : Type} (G : String → Option V) (ms : List (String × String)) (h : Independent ms)
    (a b : String) (hm : (a, b) ∈ ms) : movesSpec G ms b = G a := by
  unfold movesSpec
  cases hf : ms.find? (fun m => m.2 == b) with
  | none =>
    rw [List.find?_eq_none] at hf
    exact absurd (by simp) (hf (a, b) hm)
  | some m' =>
    have h1 := List.mem_of_find?_eq_some hf
    have h2 := List.find?_some hf
    simp only [beq_iff_eq] at h2
    have := inj_of_nodup_map (·.2) ms h.2.1 m' h1 (a, b) hm h2
    subst this
    rfl

/-- a name that is no target keeps its content unless it is a source -/
theorem movesSpec_not_dst {V : Type} (G : String → Option V) (ms : List (String × String)) (x : String)
    (hx : x ∉ ms.map (·.2)) :
    movesSpec G ms x = if x ∈ ms.map (·.1) then none else G x := by
  unfold movesSpec
  have hf : ms.find? (fun m => m.2 == x) = none := by
    rw [List.find?_eq_none]
    intro m hm hc
    simp only [beq_iff_eq] at hc
    exact hx (List.mem_map.mpr ⟨m, hm, hc⟩)
  rw [hf]
  simp only
  by_cases hs : x ∈ ms.map (·.1)
  · obtain ⟨m, hm, he⟩ := List.mem_map.mp hs
    have : ms.any (fun m => m.1 == x) = true := List.any_eq_true.mpr ⟨m, hm, by simp [he]⟩
    simp [this, hs]
  · have : ms.any (fun m => m.1 == x) = false := by
      rw [List.any_eq_false]
      intro m hm hc
      simp only [beq_iff_eq] at hc
      exact hs (List.mem_map.mpr ⟨m, hm, hc⟩)
    simp [this, hs]

end BreezyVerif.C43
