import BreezyVerif.Model.C39
import BreezyVerif.Lemmas.C39Text
import BreezyVerif.Lemmas.C39Header
/-! C39 helper lemmas: whole patches parse back to their hunks. -/
namespace BreezyVerif.C39

theorem carriable_of_head (l : Bytes) (c : UInt8) (t : Bytes) (hl : l = c :: t) (hc : c ≠ 92) :
    carriable l = true := by
  subst hl
  unfold carriable
  rw [decide_eq_true_eq]
  simp only [noNl, List.cons_append]
  constructor <;> (intro h; simp only [List.cons.injEq] at h; exact hc h.1)

theorem carriable_hline (l : HLine) : carriable (hlineBytes l) = true := by
  cases l with
  | ctx x => exact carriable_of_head _ spB x rfl (by decide)
  | ins x => exact carriable_of_head _ plusB x rfl (by decide)
  | rem x => exact carriable_of_head _ minusB x rfl (by decide)

/-- a hunk whose header numbers are its line counts, fit in an i32, and whose tail has no newline -/
def tailOk : Option Bytes → Bool
  | some t => nlB ∉ t
  | none => true

def wfHunk (h : Hunk) : Bool :=
  h.origRange = origCount h.lines ∧ h.modRange = modCount h.lines ∧ small h ∧ tailOk h.tail

/-- the logical lines of a list of hunks under a header printer -/
def rawHunks (H : Hunk → Bytes) (hs : List Hunk) : List Bytes :=
  hs.flatMap (fun h => H h :: h.lines.map hlineBytes)

theorem iterHunks_nil : iterHunks [] = .ok [] := by rw [iterHunks]

theorem iterHunks_blank : iterHunks [[nlB]] = .ok [] := by
  rw [iterHunks]; simp [iterHunks_nil]

theorem iterHunks_printed (H : Hunk → Bytes) (hs : List Hunk) (tl : List Bytes)
    (htl : tl = [] ∨ tl = [[nlB]])
    (hH : ∀ h ∈ hs, hunkFromHeader (H h) = .ok { h with lines := [] } ∧ H h ≠ [nlB])
    (hwf : ∀ h ∈ hs, wfHunk h = true) :
    iterHunks (rawHunks H hs ++ tl) = .ok hs := by
  induction hs with
  | nil =>
    rcases htl with rfl | rfl
    · simp [rawHunks, iterHunks_nil]
    · simp [rawHunks, iterHunks_blank]
  | cons h hs ih =>
    have hh := hH h (by simp)
    have hw := hwf h (by simp)
    simp only [wfHunk, Bool.decide_and, Bool.and_eq_true, decide_eq_true_eq] at hw
    have ih' := ih (fun x hx => hH x (List.mem_cons_of_mem _ hx)) (fun x hx => hwf x (List.mem_cons_of_mem _ hx))
    have hrl := readLines_printed h.lines 0 0 (rawHunks H hs ++ tl)
    simp only [Nat.zero_add] at hrl
    rw [← hw.1, ← hw.2.1] at hrl
    simp only [rawHunks, List.flatMap_cons, List.cons_append, List.append_assoc]
    rw [iterHunks]
    simp only [hh.2, if_false, hh.1]
    split
    · rename_i e heq
      simp only [rawHunks] at hrl
      rw [hrl] at heq; simp at heq
    · rename_i hls rest' heq
      simp only [rawHunks] at hrl ih'
      rw [hrl] at heq
      simp only [Except.ok.injEq, Prod.mk.injEq] at heq
      rw [← heq.1, ← heq.2, ih']

theorem writeLine_endsNl (l : Bytes) (h : endsNl l = true) : writeLine l = [l] := by
  simp [writeLine, h]

theorem endsNl_headerFull (h : Hunk) : endsNl (headerFull h) = true := by
  unfold endsNl headerFull
  rw [List.getLast?_append]; simp

theorem endsNl_headerShort (h : Hunk) : endsNl (headerShort h) = true := by
  unfold endsNl headerShort
  rw [List.getLast?_append]; simp

theorem rawHunks_written (H : Hunk → Bytes) (hH : ∀ h, endsNl (H h) = true) (hs : List Hunk) :
    (rawHunks H hs).flatMap writeLine =
      hs.flatMap (fun h => H h :: h.lines.flatMap (fun l => writeLine (hlineBytes l))) := by
  induction hs with
  | nil => simp [rawHunks]
  | cons h hs ih =>
    simp only [rawHunks] at ih
    simp only [rawHunks, List.flatMap_cons, List.flatMap_append, ih, writeLine_endsNl _ (hH h),
      List.flatMap_map, List.cons_append, List.nil_append]

theorem carriable_rawHunks (H : Hunk → Bytes) (hH : ∀ h, carriable (H h) = true) (hs : List Hunk) :
    ∀ l ∈ rawHunks H hs, carriable l = true := by
  intro l hl
  simp only [rawHunks, List.mem_flatMap, List.mem_cons, List.mem_map] at hl
  obtain ⟨h, _, rfl | ⟨x, _, rfl⟩⟩ := hl
  · exact hH h
  · exact carriable_hline x

theorem patchNames_labels (rest : List Bytes) : patchNames (oldLabel :: newLabel :: rest) = .ok rest := by
  have h0 : ([66, 105, 110, 97, 114, 121, 32, 102, 105, 108, 101, 115, 32] : Bytes).isPrefixOf oldLabel = false := by
    decide
  have h1 : nameLine [45, 45, 45, 32] oldLabel .header = .ok () := by decide
  have h2 : nameLine [43, 43, 43, 32] newLabel .header = .ok () := by decide
  simp [patchNames, h0, h1, h2]

theorem carriable_headerFull (h : Hunk) : carriable (headerFull h) = true :=
  carriable_of_head _ atB _ (by simp [headerFull]; rfl) (by decide)

theorem carriable_headerShort (h : Hunk) : carriable (headerShort h) = true :=
  carriable_of_head _ atB _ (by simp [headerShort]; rfl) (by decide)

theorem headerFull_ne_blank (h : Hunk) : headerFull h ≠ [nlB] := by
  simp [headerFull]

theorem headerShort_ne_blank (h : Hunk) : headerShort h ≠ [nlB] := by
  simp [headerShort]

/-- parsing the text `internal_diff` writes gives back exactly the hunks -/
theorem parsePatch_diffLines (hs : List Hunk) (hne : hs ≠ [])
    (hwf : ∀ h ∈ hs, wfHunk h = true ∧ h.tail = none) : parsePatch (diffLines hs) = .ok hs := by
  have hd : diffLines hs = ([oldLabel, newLabel] ++ rawHunks headerFull hs ++ [[nlB]]).flatMap writeLine := by
    simp only [diffLines, hne, if_false, List.flatMap_append, rawHunks_written headerFull endsNl_headerFull]
    have e1 : writeLine oldLabel = [oldLabel] := writeLine_endsNl _ (by decide)
    have e2 : writeLine newLabel = [newLabel] := writeLine_endsNl _ (by decide)
    have e3 : writeLine [nlB] = [[nlB]] := writeLine_endsNl _ (by decide)
    simp [e1, e2, e3]
  unfold parsePatch
  rw [hd, handleNl_written]
  · simp only [List.cons_append, List.nil_append, patchNames_labels]
    apply iterHunks_printed headerFull hs [[nlB]] (Or.inr rfl)
    · intro h hh
      have hw := (hwf h hh).1
      simp only [wfHunk, Bool.decide_and, Bool.and_eq_true, decide_eq_true_eq] at hw
      refine ⟨?_, headerFull_ne_blank h⟩
      rw [hunkFromHeader_full h hw.2.2.1, ← (hwf h hh).2]
    · exact fun h hh => (hwf h hh).1
  · intro l hl
    simp only [List.cons_append, List.nil_append, List.mem_cons, List.mem_append, List.mem_singleton,
      List.not_mem_nil, or_false] at hl
    rcases hl with rfl | rfl | hl | rfl
    · decide
    · decide
    · exact carriable_rawHunks headerFull carriable_headerFull hs l hl
    · decide

/-- parsing `Patch.as_bytes()` gives back exactly the hunks -/
theorem parsePatch_patchLines (hs : List Hunk) (hwf : ∀ h ∈ hs, wfHunk h = true) :
    parsePatch (patchLines hs) = .ok hs := by
  have hd : patchLines hs = ([oldLabel, newLabel] ++ rawHunks headerShort hs).flatMap writeLine := by
    have hg : getStr = fun l => writeLine (hlineBytes l) := rfl
    simp only [patchLines, hg, List.flatMap_append, rawHunks_written headerShort endsNl_headerShort]
    have e1 : writeLine oldLabel = [oldLabel] := writeLine_endsNl _ (by decide)
    have e2 : writeLine newLabel = [newLabel] := writeLine_endsNl _ (by decide)
    simp [e1, e2]
  unfold parsePatch
  rw [hd, handleNl_written]
  · simp only [List.cons_append, List.nil_append, patchNames_labels]
    have := iterHunks_printed headerShort hs [] (Or.inl rfl) (by
      intro h hh
      have hw := hwf h hh
      simp only [wfHunk, Bool.decide_and, Bool.and_eq_true, decide_eq_true_eq] at hw
      refine ⟨?_, headerShort_ne_blank h⟩
      rw [hunkFromHeader_short h hw.2.2.1]
      intro t ht
      have := hw.2.2.2
      rw [ht] at this
      simpa [tailOk] using this) hwf
    simpa using this
  · intro l hl
    simp only [List.cons_append, List.nil_append, List.mem_cons] at hl
    rcases hl with rfl | rfl | hl
    · decide
    · decide
    · exact carriable_rawHunks headerShort carriable_headerShort hs l hl

end BreezyVerif.C39
