"""C11 — adding files versions exactly the intended paths.

Mechanism: breezy/bzr/inventorytree.py (_SmartAddHelper.add, _add_one_and_parent,
_gather_dirs_to_add), breezy/add.py (AddAction.skip_file, default: never),
breezy/git/workingtree.py (GitWorkingTree.smart_add).

T2: the layouts of the C46 check (versioned / unknown / ignored files and
    directories, nested .bzr/.git control directories at several depths, fake
    control names, links) plus recorded text / contents conflicts with their
    helper files are materialised in real 2a and git trees; every flag of every
    entry (kind, versioned, is_ignored, recognised control dir, conflict helper)
    is read back from the real tree.  For every single named path of the
    layout (and the tree root) and sampled pairs, with recurse on and off, the
    real smart_add runs on a fresh copy and the set of newly versioned paths
    is compared with the Lean model `smartAdd`; ~10 % of the cases name a
    missing path or a path in the control directory and are compared on the
    error kind.
Oracle (independent of the model, from the statement): let N = named paths.
    Every named path is versioned afterwards (bzr: with all its parents; git:
    files and links - directories are not index entries); every newly versioned
    path is a named path / parent of one, or (recursing) lies below a named
    directory D with: itself not ignored, not a conflict helper, not a control
    directory, not a nested tree, and every directory strictly between D and
    it not ignored-and-unversioned (git: not ignored), not a nested tree, not a
    helper; D itself not a nested tree / helper.  Conversely every such
    descendant is versioned afterwards.  Nothing versioned before is lost.
    A named control file must be refused.

    The same call repeated versions nothing more (idempotence, observed only).

Found by this check: GitWorkingTree.smart_add versioned an explicitly named file inside .git
    (repaired in /repo, fix: 31d8912; not classified any more - a recurrence is a plain VIOLATION;
    the model keeps the flag `gitRefusesCtl`, probed by `git_fmt_char`).
Known finding (family computed from the failing case, committed in known_findings.json):
    bzr-named-dir-below-blocked-named-dir: `add D0 D` with D inside D0 and a nested tree or
      conflict helper between them: D is dropped from the scan list and never scanned.
SCENARIOS pins layouts every seed must cover (ignored directory whose files are not themselves
ignored in a git and a bzr tree; helper files; nested trees; a named control file).

Mutants this was built against (scratch worktree; caught by the oracle with a concrete case):
  m1 bzr walk: ignored *directories* no longer skipped (`and not isdir`)      -> needs an ignored dir with content
  m2 bzr walk: conflict-helper test only for directories (helper files added)
  m3 bzr walk: sub_tree true only for unversioned, un-named directories (nested trees entered)
  m4 git walk: ignore test after the directory test (ignored directories entered)
     -> needs an ignored directory whose files are not themselves ignored (`old~/a`); seed dependent
        before the ignored-directory scenario was added to the generator, caught with seeds 0 and 2 now
  m5 bzr phase 1: named ignored files skipped
  m6 git walk: conflict-helper test not applied to files
  h1 harmless: set comprehension for conflicts_related, inverted if/else with continue (clean)
  fix: ForbiddenControlFileError for named control paths in GitWorkingTree.smart_add (clean, mode `H`)
  s1 seeded: _gather_dirs_to_add uses `path.startswith(prev_dir)` - needs two named sibling directories,
     one name a string prefix of the other (doc/docs, lib/lib64, src/src-old); covered on every seed by
     the pinned scenario + corpus/C11/prefix-sibling-named-dirs.json and by generated prefix families
     (pd, pd2, pd-x, pdd ...) named in pairs in both orders and in triples
"""
import itertools
import os
import shutil

from vlib import env
from checks import c46

THEOREMS = [
    "smartAdd_ok", "smartAdd_error", "pass_shape", "add_exact", "versioned_untouched", "add_named",
    "add_named_git", "walk_child_exact", "idle_child_exact", "add_nothing_else",
    "git_named_control_file_witness", "bzr_named_dir_below_blocked_witness",
]
RULE = ("case = (format, layout, named paths (<= 2, or the root), recurse); all single named paths of every layout "
        "are enumerated with recurse on and off, pairs are sampled; non-trivial = something becomes versioned and "
        "something unversioned stays unversioned; distinct by (format, layout with flags, names, recurse)")
ASSUMPTIONS = [
    "at most two named paths per call, or three sibling directories (with three or more names of which one lies "
    "inside another, _gather_dirs_to_add's prev_dir test can scan the inner directory a second time; the model "
    "scans it once)",
    "default AddAction (skip_file never skips); versioned entries have the same kind on disk as in the inventory",
    "tree.is_ignored is a parameter (C48) read from the real tree; ControlDirFormat.find_format(dir) succeeds iff "
    "dir holds a recognised .bzr/.git entry (as checked by C46 on the same layouts)",
]
TRUSTED = ["the layout forest of Model/C46.lean; names are ASCII/NFC, no case-insensitive file system"]


def add_conflicts_to_spec(rng, spec):
    """extend a C46 layout with recorded conflicts and their helper files"""
    spec = dict(spec, entries=[list(e) for e in spec["entries"]], conflicts=[])
    used = set(e[0] for e in spec["entries"])
    dirs = [""] + [e[0] for e in spec["entries"] if e[1] == "d"]
    if rng.random() < 0.45:
        # an ignored directory (user ignore `*~`, or a rule of the tree) with plain files in it,
        # optionally with one versioned file (so that the directory itself is / counts as versioned)
        d = rng.choice(dirs)
        pre = d + "/" if d else ""
        name = rng.choice(["bak~", "old~", "build", "ig"])
        p = pre + name
        if p not in used and not any(e[0].startswith(p + "/") for e in spec["entries"]):
            if name == "build" and "build" not in spec["rules"]:
                spec["rules"] = spec["rules"] + ["build"]
            if name == "ig" and "ig/" not in spec["rules"]:
                spec["rules"] = spec["rules"] + ["ig/"]
            pv = d == "" or next(e[2] for e in spec["entries"] if e[0] == d) or spec["fmt"] == "git"
            v = pv and rng.random() < 0.4
            spec["entries"].append([p, "d", bool(v and spec["fmt"] != "git")])
            spec["entries"].append([p + "/a", "f", bool(v)])
            spec["entries"].append([p + "/README", "f", False])
            spec["entries"].append([p + "/s", "d", False])
            spec["entries"].append([p + "/s/b.txt", "f", False])
            used.update([p, p + "/a", p + "/README", p + "/s", p + "/s/b.txt"])
            dirs.append(p)
    if rng.random() < 0.5:
        # sibling directories where one name is a string prefix of the next in sorted order without
        # being its parent (_gather_dirs_to_add compares sorted neighbours)
        d = rng.choice(dirs)
        pre = d + "/" if d else ""
        pv = d == "" or next((e[2] for e in spec["entries"] if e[0] == d), False) or spec["fmt"] == "git"
        fam = rng.choice([["pd", "pd2", "pd-x", "pdd"], ["doc", "docs"], ["lib", "lib64", "lib.old"], ["src", "src-old"]])
        group = []
        for name in fam:
            p = pre + name
            if p in used:
                continue
            used.add(p)
            group.append(p)
            spec["entries"].append([p, "d", bool(pv and spec["fmt"] != "git" and rng.random() < 0.3)])
            for fn in rng.sample(["guide.txt", "a", "c.o", "x~"], rng.randint(1, 2)):
                spec["entries"].append([p + "/" + fn, "f", False])
                used.add(p + "/" + fn)
            if rng.random() < 0.3:
                spec["entries"].append([p + "/s", "d", False])
                spec["entries"].append([p + "/s/b.txt", "f", False])
                used.update([p + "/s", p + "/s/b.txt"])
        spec["prefix_group"] = group
    for _ in range(rng.choice([0, 1, 1, 2])):
        d = rng.choice(dirs)
        pre = d + "/" if d else ""
        base = pre + rng.choice(["m", "cf"])
        if base in used:
            continue
        kind = rng.choice(["text", "text", "contents"])
        dv = d == "" or next(e[2] for e in spec["entries"] if e[0] == d) or spec["fmt"] == "git"
        spec["entries"].append([base, "f", bool(dv)])
        used.add(base)
        for suf in (".THIS", ".BASE", ".OTHER"):
            p = base + suf
            if p in used:
                continue
            used.add(p)
            if suf == ".OTHER" and rng.random() < 0.3:
                spec["entries"].append([p, "d", False])
                spec["entries"].append([p + "/inner", "f", False])
                used.add(p + "/inner")
            else:
                spec["entries"].append([p, "f", dv and rng.random() < 0.2])
        spec["conflicts"].append([kind, base])
    return spec


def materialise(spec, root, outside):
    wt = c46.materialise(spec, root, outside)
    if spec.get("conflicts"):
        if spec["fmt"] == "2a":
            from breezy.bzr.conflicts import ContentsConflict, TextConflict
        else:
            from breezy.git.workingtree import ContentsConflict, TextConflict
        cs = []
        for kind, path in spec["conflicts"]:
            cs.append(TextConflict(path) if kind == "text" else ContentsConflict(path))
        try:
            wt.add_conflicts(cs)
        except Exception:      # noqa  (git refuses some; the flags are read back anyway)
            pass
        from breezy.workingtree import WorkingTree
        wt = WorkingTree.open(root)
    return wt


def valid_for_add(root, rel, kind):
    """the model's `valid` flag for smart_add: an entry that makes
    ControlDirFormat.find_format(parent) succeed (any `.git` file or directory; a
    `.bzr` directory with a branch-format file).  Checked against the real
    find_format on every directory of every layout (run_layout)."""
    name = rel.rsplit("/", 1)[-1]
    if name == ".git":
        return kind in ("d", "f")
    if name == ".bzr":
        return kind == "d" and os.path.isfile(os.path.join(root, rel, "branch-format"))
    return False


def nested_for_add(root, snap):
    """directories on which ControlDirFormat.find_format succeeds"""
    from breezy import errors
    from breezy import transport as _mod_transport
    from breezy.controldir import ControlDirFormat
    out = []
    for rel, k in snap.items():
        if k != "d":
            continue
        try:
            ControlDirFormat.find_format(_mod_transport.get_transport_from_path(os.path.join(root, rel)))
        except errors.NotBranchError:
            continue
        except Exception:      # noqa
            pass
        out.append(rel)
    return sorted(out)


def helpers_of(wt):
    out = set()
    with wt.lock_read():
        for c in wt.conflicts():
            out.update(c.associated_filenames())
    return out


def versioned_set(wt, snap, fmt):
    out = set()
    with wt.lock_read():
        for rel, k in snap.items():
            if fmt == "git" and k == "d":
                continue
            try:
                if wt.is_versioned(rel):
                    out.add(rel)
            except Exception:      # noqa
                pass
    return out


def run_real(root, names, recurse):
    from breezy import errors
    from breezy.transport import NoSuchFile
    from breezy.workingtree import WorkingTree
    wt = WorkingTree.open(root)
    try:
        wt.smart_add([os.path.join(root, n) if n != "." else root for n in names], recurse=recurse)
    except errors.ForbiddenControlFileError:
        return "E:ForbiddenControlFile"
    except NoSuchFile:
        return "E:NoSuchFile"
    except Exception as e:      # noqa
        return "E:%s" % type(e).__name__
    return "ok"


_GITMODE = []


def git_fmt_char():
    """'G': GitWorkingTree.smart_add versions an explicitly named control file (as found);
    'H': it refuses with ForbiddenControlFileError (repaired) — probed on an empty git tree"""
    if not _GITMODE:
        base = env.fresh_dir("c11probe")
        root = os.path.join(base, "P")
        shutil.copytree(c46._templates()["git"], root, symlinks=True)
        _GITMODE.append("H" if run_real(root, [".git/HEAD"], False) == "E:ForbiddenControlFile" else "G")
        shutil.rmtree(base, ignore_errors=True)
    return _GITMODE[0]


def under(a, b):
    return a == "" or b == a or b.startswith(a + "/")


def parents(p):
    parts = p.split("/")
    return ["/".join(parts[:k]) for k in range(1, len(parts))]


def expected_by_statement(fmt, info, nroots, own_ctl, names, recurse, before):
    """the set the statement asks for, computed without the model"""
    git = fmt == "git"
    must = set()
    for n in names:
        if n == ".":
            continue
        if not (git and info[n][1] == "d"):
            must.add(n)
        if not git:
            must.update(parents(n))
    if recurse:
        def blocked_dir(d, named):
            """the walk does not enter directory d"""
            if d == "":
                return False
            _rel, k, v, ig, _va, h = info[d]
            if k != "d":
                return True
            if d in nroots:
                return True                      # nested tree
            if h and not git:
                return True                      # conflict helper (git: helper test is for files only)
            if named:
                return False
            v = v or d in must
            return ig and (git or not v)         # ignored directory
        for n in names:
            d = "" if n == "." else n
            if d != "" and info[d][1] != "d":
                continue
            if blocked_dir(d, True):
                continue
            for q in info:
                if q == d or not under(d, q):
                    continue
                if q == own_ctl or q.startswith(own_ctl + "/"):
                    continue
                mids = [m for m in parents(q) if under(d, m) and m != d]
                if any(blocked_dir(m, False) for m in mids):
                    continue
                _rel, k, v, ig, _va, h = info[q]
                v = v or q in must
                if h:
                    continue
                if ig and (git or not v):
                    continue
                if k == "d":
                    if git or q in nroots:
                        continue
                must.add(q)
    return must


def run_layout(ctx, spec, viol, cases, lines, outs, choices=None):
    fmt = spec["fmt"]
    own_ctl = c46._ctlname(fmt)
    base = env.fresh_dir("c11")
    root = os.path.join(base, "P")
    outside = os.path.join(base, "outside")
    wt = materialise(spec, root, outside)
    snap = c46.snapshot(root, own_ctl)
    # one real file of the tree's own control directory, so that it can be named
    ctl_file = own_ctl + "/" + ("README" if fmt == "2a" else "HEAD")
    snap[ctl_file] = "f"
    rows = c46.read_flags(wt, root, snap, helper=helpers_of(wt))
    rows = [(rel, k, v, ig, valid_for_add(root, rel, k), h) for rel, k, v, ig, _va, h in rows]
    info = {r[0]: r for r in rows}
    layout = c46.enc_layout(rows)
    nroots = nested_for_add(root, snap)
    # the model derives "find_format succeeds" from the flags: check that assumption on this layout
    derived = sorted(d for d, k in snap.items() if k == "d" and any(
        (d + "/" + c) in info and info[d + "/" + c][4] for c in (".bzr", ".git")))
    if derived != nroots:
        ctx.mismatch(dict(spec=spec, assumption="find_format"), "nested trees %r" % nroots,
                     "derived from flags %r" % derived, tie="T2 assumption: find_format")
    before = versioned_set(wt, snap, fmt)
    if choices is None:
        cands = [e[0] for e in spec["entries"] if e[0] in snap and not e[0].startswith(own_ctl + "/")]
        inner = [p for p in snap if "/.bzr/" in p or "/.git/" in p]
        if inner:
            cands.append(ctx.rng.choice(sorted(inner)))
        choices = [(["."], True), (["."], False)]
        for cnd in cands:
            choices.append(([cnd], True))
            if ctx.rng.random() < 0.5:
                choices.append(([cnd], False))
        for _ in range(min(8, len(cands))):
            a, b = ctx.rng.choice(cands), ctx.rng.choice(cands + ["."])
            if a != b:
                choices.append(([a, b], ctx.rng.random() < 0.8))
        group = [g for g in spec.get("prefix_group", []) if g in snap]
        pairs = list(itertools.permutations(group, 2))
        if len(pairs) > 6 and not ctx.thorough():
            srt = sorted(group)
            pairs = [p for k in range(len(srt) - 1) for p in ((srt[k], srt[k + 1]), (srt[k + 1], srt[k]))]
        for a, b in pairs:
            choices.append(([a, b], True))
        if len(group) >= 3:
            tri = group[:3]
            choices.append((tri, True))
            choices.append((tri[::-1], True))
        # malformed stream: missing paths and control files
        for _ in range(max(1, len(choices) // 10)):
            bad = ctx.rng.choice(["nope", "d/nope", own_ctl + "/" + ("README" if fmt == "2a" else "HEAD"), own_ctl])
            other = [ctx.rng.choice(cands)] if cands and ctx.rng.random() < 0.5 else []
            names = other + [bad] if ctx.rng.random() < 0.5 else [bad] + other
            choices.append((names, ctx.rng.random() < 0.5))
    for names, recurse in choices:
        target = os.path.join(base, "Q")
        shutil.copytree(root, target, symlinks=True)
        res = run_real(target, names, recurse)
        case = dict(spec=spec, names=names, recurse=recurse)
        line = "add %s %s %s %s" % ("B" if fmt == "2a" else git_fmt_char(), "T" if recurse else "F",
                                     ",".join(names), layout)
        if res == "ok":
            from breezy.workingtree import WorkingTree
            after = versioned_set(WorkingTree.open(target), snap, fmt)
            new = after - before
            out = "ok " + c46.showpaths(new)
            # ---- oracle
            lost = before - after
            if lost:
                viol.append((case, "paths no longer versioned after add: %r" % sorted(lost), None))
            # idempotence (not proved, observed): the same call again versions nothing more
            if run_real(target, names, recurse) == "ok":
                again = versioned_set(WorkingTree.open(target), snap, fmt)
                if again != after:
                    viol.append((case, "second identical add changed the versioned set: +%r -%r"
                                 % (sorted(again - after), sorted(after - again)), None))
            ctl_named = [n for n in names if n == own_ctl or n.startswith(own_ctl + "/")]
            if any(n in after for n in ctl_named):
                # repaired in /repo (31d8912): a recurrence is a plain violation
                viol.append((case, "control file(s) %r became versioned" % [n for n in ctl_named if n in after], None))
            elif all(n == "." or n in info for n in names):
                want = expected_by_statement(fmt, info, nroots, own_ctl, names, recurse, before)
                want_new = set(w for w in want if w not in before)
                # entries that carry a control-directory name without being one (empty `.bzr`
                # directory, `.bzr` file ...): the statement does not say; neither demanded nor refused
                fake = [q for q in info if q.rsplit("/", 1)[-1] in (".bzr", ".git") and not info[q][4]
                        and q not in names]
                # bzr: a *versioned* directory holding a `.bzr` directory that is not a control
                # directory is a tree reference for the tree itself (kind()) but not for find_format:
                # whether its content belongs to this tree is not for the statement to say
                fake += [x.rsplit("/", 1)[0] for x in list(fake)
                         if fmt == "2a" and x.endswith("/.bzr") and info[x][1] == "d"
                         and x.rsplit("/", 1)[0] in before]
                dontcare = set(q for q in info if any(under(x, q) for x in fake))
                if new - want_new - dontcare:
                    viol.append((case, "versioned although the statement excludes it: %r"
                                 % sorted(new - want_new - dontcare), None))
                if want_new - new - dontcare:
                    missing = sorted(want_new - new - dontcare)
                    fam = None
                    if fmt == "2a" and len(names) >= 2:
                        # a named directory D below another named directory D0, with a nested tree or a
                        # conflict helper on the way from D0 down to D (D excluded): _gather_dirs_to_add
                        # drops D and the walk of D0 never reaches it
                        for d in names:
                            for d0 in names:
                                if d == d0 or d == "." or not under("" if d0 == "." else d0, d):
                                    continue
                                d0p = "" if d0 == "." else d0
                                way = [m for m in [d0p] + parents(d) if m != "" and under(d0p, m) and m != d]
                                if any(m in nroots or info[m][5] for m in way) and all(under(d, x) for x in missing):
                                    fam = "bzr-named-dir-below-blocked-named-dir"
                    viol.append((case, "not versioned although the statement asks for it: %r" % missing, fam))
            ctx.case(["add", fmt, layout, names, recurse],
                     nontrivial=bool(new) and any(not r[2] and r[0] not in after for r in rows))
            ctx.count("added:%d" % min(len(new), 6))
        else:
            out = res
            ctx.case(["add", fmt, layout, names, recurse], nontrivial=False)
            ctx.count(res)
        ctx.count("names:%d" % len(names))
        ctx.count("recurse:%s" % recurse)
        cases.append(case)
        lines.append(line)
        outs.append(out)
        shutil.rmtree(target)
    ctx.count("fmt:" + fmt)
    ctx.count("conflicts:%d" % len(spec.get("conflicts", [])))
    shutil.rmtree(base, ignore_errors=True)


def _sc(fmt, entries, rules=(), conflicts=()):
    return dict(fmt=fmt, entries=[list(e) for e in entries], rules=list(rules), ignore_versioned=True,
                conflicts=[list(c) for c in conflicts])


# fixed layouts + calls, run first on every seed
SCENARIOS = [
    # git: `old~` is ignored by the user rule *~ but old~/a is not; `ig/` by a tree rule; helper files; nested trees
    (_sc("git", [["v", "f", True], ["old~", "d", False], ["old~/a", "f", False], ["old~/s", "d", False],
                 ["old~/s/b.txt", "f", False], ["ig", "d", False], ["ig/k", "f", True], ["ig/new", "f", False],
                 ["m", "f", True], ["m.THIS", "f", False], ["m.BASE", "f", False], ["m.OTHER", "f", False],
                 ["n", "d", False], ["n/.git", "G", False], ["n/x", "f", False],
                 ["b", "d", False], ["b/.bzr", "B", False], ["b/x", "f", False], ["u", "f", False]],
         ["ig/"], [["text", "m"]]),
     [(["."], True), (["old~"], True), (["old~/a", "ig"], True), ([".git/HEAD"], False), (["n"], True), (["b", "u"], True)]),
    (_sc("2a", [["v", "f", True], ["old~", "d", False], ["old~/a", "f", False], ["build", "d", True],
                ["build/k", "f", True], ["build/new", "f", False], ["m", "f", True], ["m.THIS", "f", False],
                ["m.BASE", "f", False], ["m.OTHER", "d", False], ["m.OTHER/inner", "f", False],
                ["n", "d", False], ["n/.git", "G", False], ["n/x", "f", False],
                ["w", "d", True], ["w/f", "f", True], ["w/.git", "G", False], ["w/e", "d", False], ["w/e/y", "f", False],
                ["c.o", "f", False]],
         ["build", "*.o"], [["text", "m"]]),
     [(["."], True), (["old~"], True), (["c.o"], False), (["build"], True), (["n"], True), (["n/x"], True),
      (["m.OTHER"], True), (["w/e"], True), (["w/e", "."], True), ([".bzr/README"], True)]),
    # named sibling directories whose names are string prefixes of each other (seeded change:
    # `path.startswith(prev_dir)` in _gather_dirs_to_add)
    (_sc("2a", [["v", "f", True], ["doc", "d", False], ["doc/index.txt", "f", False], ["docs", "d", False],
                ["docs/guide.txt", "f", False], ["docs/s", "d", False], ["docs/s/b.txt", "f", False],
                ["lib", "d", True], ["lib/x", "f", True], ["lib/new", "f", False], ["lib64", "d", False],
                ["lib64/so", "f", False], ["src", "d", False], ["src/a", "f", False], ["src-old", "d", False],
                ["src-old/a", "f", False], ["src/src2", "d", False], ["src/src2/c", "f", False]]),
     [(["doc", "docs"], True), (["docs", "doc"], True), (["lib", "lib64"], True), (["lib64", "lib"], True),
      (["src", "src-old"], True), (["src-old", "src"], True), (["doc", "docs", "lib64"], True),
      (["src", "src/src2"], True), (["doc", "docs"], False)]),
    (_sc("git", [["v", "f", True], ["doc", "d", False], ["doc/index.txt", "f", False], ["docs", "d", False],
                 ["docs/guide.txt", "f", False], ["lib", "d", False], ["lib/x", "f", True], ["lib/new", "f", False],
                 ["lib64", "d", False], ["lib64/so", "f", False]]),
     [(["doc", "docs"], True), (["docs", "doc"], True), (["lib", "lib64"], True), (["doc", "docs", "lib64"], True)]),
]


def run(ctx):
    viol, cases, lines, outs = [], [], [], []
    specs = []
    pinned = [(spec, list(choices)) for spec, choices in SCENARIOS]
    cdir = os.path.join(env.VERIF, "corpus", "C11")
    if os.path.isdir(cdir):
        import json
        for fn in sorted(os.listdir(cdir)):
            if fn.endswith(".json"):
                rec = json.load(open(os.path.join(cdir, fn)))
                if rec.get("calls"):
                    item = (rec["spec"], [(n, bool(r)) for n, r in rec["calls"]])
                    if not any(item[0] == p[0] for p in pinned):
                        pinned.insert(0, item)
                else:
                    specs.append(rec["spec"])
    for spec, choices in pinned:
        run_layout(ctx, spec, viol, cases, lines, outs, choices=choices)
    ctx.extra["git_named_control_file"] = {"G": "versioned (as found)", "H": "refused"}[git_fmt_char()]
    for _ in range(ctx.pick(5, 70)):
        for fmt in ("2a", "git"):
            specs.append(add_conflicts_to_spec(ctx.rng, c46.gen_spec(ctx.rng, fmt)))
    for spec in specs:
        run_layout(ctx, spec, viol, cases, lines, outs)
    ctx.diff(cases, lines, outs)
    seen = set()
    for case, what, fam in sorted(viol, key=lambda v: (v[2] is not None,)):
        key = (fam, what) if fam is None else (fam,)
        if fam is not None:
            ctx.count("finding:" + fam)
        if key in seen:
            continue
        seen.add(key)
        ctx.violation(case, what, family=fam)


def widen(ctx):
    ctx.tier = "thorough"
    run(ctx)


def replay(ctx, case):
    viol, cases, lines, outs = [], [], [], []
    run_layout(ctx, case["spec"], viol, cases, lines, outs, choices=[(case["names"], case["recurse"])])
    m = ctx.model(lines)[0]
    for c, what, fam in viol:
        ctx.violation(c, what, family=fam)
    return dict(case=case, impl=outs[0], model=m, line=lines[0],
                oracle_failures=[dict(what=w, family=f) for _c, w, f in viol])
