import BreezyVerif.Model.C37
import BreezyVerif.Lemmas.C37
/-!
C37 — conditional git ref updates: theorems.  All statements are for every
store (any number of loose / packed / symbolic refs), every name and every
value; the two-updater statements are for every pair of updaters.
-/
namespace BreezyVerif.C37

/-! ### set_if_equals -/

/-- `set_if_equals` succeeds exactly when no expected value is given or the ref
that is compared — the end of the symref chain; loose value, else packed value,
else `ZERO_SHA` — currently holds it -/
theorem cas_success_iff (s : Store) (n : Nat) (old : Option Nat) (new : Nat) :
    (setIfEquals s n old new).1 = true ↔
      (old = none ∨ ∃ o, old = some o ∧ current s (realName s n) = .sha o) := by
  unfold setIfEquals
  cases old with
  | none => simp
  | some o =>
    by_cases h : current s (realName s n) = .sha o
    · simp [h]
    · simp [h]

/-- … and otherwise reports failure and leaves the store unchanged -/
theorem cas_fail_unchanged (s : Store) (n : Nat) (old : Option Nat) (new : Nat)
    (h : (setIfEquals s n old new).1 = false) : (setIfEquals s n old new).2 = s := by
  unfold setIfEquals at h ⊢
  cases old with
  | none => simp at h
  | some o =>
    by_cases hc : current s (realName s n) = .sha o
    · simp [hc] at h
    · simp [hc]

/-- a successful `set_if_equals` writes the new value to the real name and
changes no other ref (loose or packed) -/
theorem cas_success_writes (s : Store) (n : Nat) (old : Option Nat) (new : Nat)
    (h : (setIfEquals s n old new).1 = true) :
    readRef (setIfEquals s n old new).2 (realName s n) = some (.sha new) ∧
      (∀ m, m ≠ realName s n → readRef (setIfEquals s n old new).2 m = readRef s m) ∧
      (setIfEquals s n old new).2.packed = s.packed := by
  have hs : (setIfEquals s n old new).2 = write s (realName s n) new := by
    unfold setIfEquals at h ⊢
    cases old with
    | none => rfl
    | some o =>
      by_cases hc : current s (realName s n) = .sha o
      · simp [hc]
      · simp [hc] at h
  rw [hs]
  exact ⟨readRef_write_same _ _ _, fun m hm => readRef_write_other _ _ _ _ hm, rfl⟩

/-- after a successful `set_if_equals` the name resolves (through its symbolic
refs) to the new value, for every chain within the symref depth limit -/
theorem cas_success_resolves (s : Store) (n : Nat) (old : Option Nat) (new : Nat)
    (names : List Nat) (res : Option Nat) (hf : follow s n = some (names, res)) (hlen : names.length ≤ 5)
    (h : (setIfEquals s n old new).1 = true) :
    resolve (setIfEquals s n old new).2 n = some new := by
  obtain ⟨r, hr, _, _⟩ := followAux_last s 5 n [] names res hf
  have hreal : realName s n = r := by simp [realName, hf, hr]
  have hs : (setIfEquals s n old new).2 = write s r new := by
    unfold setIfEquals at h ⊢
    rw [hreal] at h ⊢
    cases old with
    | none => rfl
    | some o =>
      by_cases hc : current s r = .sha o
      · simp [hc]
      · simp [hc] at h
  rw [hs]
  unfold resolve follow
  rw [followAux_write s 5 n [] names res r new hf hr (by simpa using hlen)]

example : follow ⟨[(0, .sym 1)], [(1, 7)]⟩ 0 = some ([0, 1], some 7) ∧
    setIfEquals ⟨[(0, .sym 1)], [(1, 7)]⟩ 0 (some 7) 8 = (true, ⟨[(0, .sym 1), (1, .sha 8)], [(1, 7)]⟩) ∧
    setIfEquals ⟨[(0, .sym 1)], [(1, 7)]⟩ 0 (some 6) 8 = (false, ⟨[(0, .sym 1)], [(1, 7)]⟩) := by decide

/-! ### remove_if_equals -/

theorem remove_cas_success_iff (s : Store) (n : Nat) (old : Option Nat) :
    (removeIfEquals s n old).1 = true ↔ (old = none ∨ ∃ o, old = some o ∧ current s n = .sha o) := by
  unfold removeIfEquals
  cases old with
  | none => simp
  | some o =>
    by_cases h : current s n = .sha o
    · simp [h]
    · simp [h]

theorem remove_cas_fail_unchanged (s : Store) (n : Nat) (old : Option Nat)
    (h : (removeIfEquals s n old).1 = false) : (removeIfEquals s n old).2 = s := by
  unfold removeIfEquals at h ⊢
  cases old with
  | none => simp at h
  | some o =>
    by_cases hc : current s n = .sha o
    · simp [hc] at h
    · simp [hc]

/-- a successful removal makes the name absent (loose and packed) and changes no other ref -/
theorem remove_cas_success_removes (s : Store) (n : Nat) (old : Option Nat)
    (h : (removeIfEquals s n old).1 = true) :
    readRef (removeIfEquals s n old).2 n = none ∧
      (∀ m, m ≠ n → readRef (removeIfEquals s n old).2 m = readRef s m) := by
  have hs : (removeIfEquals s n old).2 = del s n := by
    unfold removeIfEquals at h ⊢
    cases old with
    | none => rfl
    | some o =>
      by_cases hc : current s n = .sha o
      · simp [hc]
      · simp [hc] at h
  rw [hs]
  exact ⟨readRef_del_same _ _, fun m hm => readRef_del_other _ _ _ hm⟩

/-! ### add_if_new -/

/-- `add_if_new` never changes a ref that exists -/
theorem add_if_new_never_overwrites (s s' : Store) (n v : Nat) (b : Bool) (h : addIfNew s n v = some (b, s'))
    (m : Nat) (x : Val) (hx : readRef s m = some x) : readRef s' m = some x := by
  unfold addIfNew at h
  cases hf : follow s n with
  | none => simp [hf] at h
  | some p =>
    obtain ⟨names, contents⟩ := p
    simp only [hf] at h
    cases contents with
    | some c =>
      simp only [Option.some.injEq, Prod.mk.injEq] at h
      rw [← h.2]; exact hx
    | none =>
      simp only [Option.some.injEq, Prod.mk.injEq] at h
      obtain ⟨r, hr, hterm, _⟩ := followAux_last s 5 n [] names none hf
      simp only [hr] at h
      rw [← h.2]
      have hne : m ≠ r := by
        intro e; subst e
        rw [hx] at hterm; simp at hterm
      rw [readRef_write_other _ _ _ _ hne]; exact hx

/-- it adds exactly when the name resolves to nothing -/
theorem add_if_new_success_iff (s s' : Store) (n v : Nat) (b : Bool) (h : addIfNew s n v = some (b, s')) :
    b = true ↔ resolve s n = none := by
  unfold addIfNew at h
  unfold resolve
  cases hf : follow s n with
  | none => simp [hf] at h
  | some p =>
    obtain ⟨names, contents⟩ := p
    simp only [hf] at h
    cases contents with
    | some c =>
      simp only [Option.some.injEq, Prod.mk.injEq] at h
      simp [← h.1]
    | none =>
      simp only [Option.some.injEq, Prod.mk.injEq] at h
      simp [← h.1]

/-! ### two updaters -/

/-- with the read and write phases of an updater executed together (as under a
per-ref lock) an updater is one atomic `set_if_equals` -/
theorem cas_linearizable_under_lock (s : Store) (u : Upd) :
    let r1 := stepUpd s u .idle
    let r2 := stepUpd r1.1 u r1.2
    r2 = ((setIfEquals s u.name (some u.old) u.new).2, .done (setIfEquals s u.name (some u.old) u.new).1) := by
  simp only [stepUpd, setIfEquals]
  by_cases h : current s (realName s u.name) = .sha u.old
  · simp [h, stepUpd]
  · simp [h, stepUpd]

/-- consequently the schedules that do not split an updater give a sequential order -/
theorem cas_atomic_schedules (s : Store) (a b : Upd) :
    runSched a b [false, false, true, true] (s, .idle, .idle) =
      (let ra := setIfEquals s a.name (some a.old) a.new
       let rb := setIfEquals ra.2 b.name (some b.old) b.new
       (rb.2, .done ra.1, .done rb.1)) := by
  have ha := cas_linearizable_under_lock s a
  have hb := cas_linearizable_under_lock (setIfEquals s a.name (some a.old) a.new).2 b
  simp only at ha hb
  simp only [runSched, ha, hb]

/-- two atomic compare-and-swaps expecting the same old value cannot both
succeed (the second sees the first one's value), for every chain within the
symref depth limit or failing to resolve -/
theorem cas_atomic_second_fails (s : Store) (n o a b : Nat) (ha : a ≠ o)
    (hchain : follow s n = none ∨ ∃ names res, follow s n = some (names, res) ∧ names.length ≤ 5)
    (h1 : (setIfEquals s n (some o) a).1 = true) :
    (setIfEquals (setIfEquals s n (some o) a).2 n (some o) b).1 = false := by
  have hs : (setIfEquals s n (some o) a).2 = write s (realName s n) a := by
    unfold setIfEquals at h1 ⊢
    by_cases hc : current s (realName s n) = .sha o
    · simp [hc]
    · simp [hc] at h1
  rw [hs]
  have hreal : realName (write s (realName s n) a) n = realName s n := by
    rcases hchain with hf | ⟨names, res, hf, hlen⟩
    · have hrn : realName s n = n := by simp [realName, hf]
      rw [hrn]
      have : follow (write s n a) n = some ([n], some a) := by
        unfold follow followAux
        simp [readRef_write_same]
      simp [realName, this]
    · obtain ⟨r, hr, _, _⟩ := followAux_last s 5 n [] names res hf
      have hrn : realName s n = r := by simp [realName, hf, hr]
      rw [hrn]
      have := followAux_write s 5 n [] names res r a hf hr (by simpa using hlen)
      simp [realName, follow, this, hr]
  unfold setIfEquals
  simp only [hreal, current_write_same]
  have : (Val.sha a = Val.sha o) = False := by simp [ha]
  simp [ha]

example : follow ⟨[(1, .sha 7)], []⟩ 1 = some ([1], some 7) ∧ (8 : Nat) ≠ 7 ∧
    (setIfEquals ⟨[(1, .sha 7)], []⟩ 1 (some 7) 8).1 = true := by decide

/-- without a lock a lost update is reachable: both updaters compare, then both
write; both report success and the first write is lost, which no sequential
order of two compare-and-swaps produces -/
theorem cas_race_witness :
    let s : Store := ⟨[(1, .sha 7)], []⟩
    let a : Upd := ⟨1, 7, 8⟩
    let b : Upd := ⟨1, 7, 9⟩
    runSched a b [false, true, false, true] (s, .idle, .idle) = (⟨[(1, .sha 9)], []⟩, .done true, .done true) ∧
      (setIfEquals (setIfEquals s 1 (some 7) 8).2 1 (some 7) 9).1 = false ∧
      (setIfEquals (setIfEquals s 1 (some 7) 9).2 1 (some 7) 8).1 = false := by decide

/-- the code as found (F2) is not a compare-and-swap: with a non-matching
expected value it reports success and overwrites / deletes -/
theorem cas_legacy_witness :
    setIfEqualsLegacy ⟨[(1, .sha 7)], []⟩ 1 (some 6) 8 = (true, ⟨[(1, .sha 8)], []⟩) ∧
      setIfEquals ⟨[(1, .sha 7)], []⟩ 1 (some 6) 8 = (false, ⟨[(1, .sha 7)], []⟩) ∧
      removeIfEqualsLegacy true ⟨[(1, .sha 7)], []⟩ 1 (some 6) = (true, ⟨[], []⟩) ∧
      removeIfEquals ⟨[(1, .sha 7)], []⟩ 1 (some 6) = (false, ⟨[(1, .sha 7)], []⟩) := by decide

end BreezyVerif.C37
