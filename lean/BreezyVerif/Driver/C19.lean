import BreezyVerif.Common
import BreezyVerif.Model.C19
/-
C19 driver.

  lines   = `_` (no line) | hex,hex,…            (a line is never empty)
  regions = `_` | region;region;…   region = u:L | a:L | s:L | b:L | c:B:L:L   (B = `~` | lines)
  bytes   = hex | `-` (empty);  optional bytes: `~` = absent
  slot    = <file> <p.BASE> <p.THIS> <p.OTHER> <record ~|text|contents> <id item|this|other|base|none>

  tm <reprocess T|F> <showbase T|F> <base lines> <this lines> <other lines> <regions>
        -> `ok <flag T|F> <lines>` | `E:…`
  mf <reprocess> <showbase> <base lines> <this lines> <other lines> <regions>
        -> slot after the merge (Outcome.slot) | `E:…`
  rt <this|other> <slot>   -> slot | `E:Malformed`       (TextConflict take-this / take-other)
  rc <this|other> <slot>   -> slot                       (ContentsConflict take-this / take-other)
  sl <bytes>               -> lines                      (split_lines)
  fi <showbase> <base lines> <this lines> <other lines> <regions> -> T|F   (hypothesis FromInputs)
  mk <base lines> <this lines> <other lines>             -> bytes  (the start marker text_merge uses)

  loc     = <dir number>:<name hex>
  files   = `_` | loc:<content bytes>,…   (sorted by directory number, then name bytes)
  placed  = <files> <record ~|text:loc|contents:loc> <file id at ~|loc> <path conflict T|F>
  pl <reprocess> <showbase> <base loc | ~ (not in BASE)> <this loc> <other loc> <base lines> <this lines> <other lines> <regions>
        -> placed | `E:…`                                 (mergeEntry: name merge + content merge + helper names)
  rp <this|other> <placed> -> placed | `E:Malformed`      (resolve by the recorded path)
-/
namespace BreezyVerif.C19

def parseLines (s : String) : Option (List Line) :=
  if s == "_" then some [] else (s.splitOn ",").mapM fromHex

def showLines (ls : List Line) : String :=
  if ls.isEmpty then "_" else ",".intercalate (ls.map toHex)

def parseRegion (s : String) : Option Region :=
  match s.splitOn ":" with
  | ["u", l] => (parseLines l).map .unchanged
  | ["a", l] => (parseLines l).map .a
  | ["s", l] => (parseLines l).map .same
  | ["b", l] => (parseLines l).map .b
  | ["c", b, x, y] => do
    let bl ← if b == "~" then some none else (parseLines b).map some
    pure (.conflict bl (← parseLines x) (← parseLines y))
  | _ => none

def parseRegions (s : String) : Option (List Region) :=
  if s == "_" then some [] else (s.splitOn ";").mapM parseRegion

def showErr : Err → String
  | .cantReprocessAndShowBase => "E:CantReprocessAndShowBase"
  | .assertion => "E:Assertion"
  | .malformed => "E:Malformed"

def parseOptBytes (s : String) : Option (Option Bytes) :=
  if s == "~" then some none else (fromHex s).map some

def showOptBytes : Option Bytes → String
  | none => "~"
  | some b => toHex b

def parseKind (s : String) : Option (Option Kind) :=
  if s == "~" then some none else if s == "text" then some (some .text)
  else if s == "contents" then some (some .contents) else none

def showKind : Option Kind → String
  | none => "~" | some .text => "text" | some .contents => "contents"

def parseId (s : String) : Option IdLoc :=
  match s with
  | "item" => some .item | "this" => some .hThis | "other" => some .hOther
  | "base" => some .hBase | "none" => some .nowhere | _ => none

def showId : IdLoc → String
  | .item => "item" | .hThis => "this" | .hOther => "other" | .hBase => "base" | .nowhere => "none"

def showSlot (s : Slot) : String :=
  s!"{showOptBytes s.file} {showOptBytes s.hBase} {showOptBytes s.hThis} {showOptBytes s.hOther} {showKind s.record} {showId s.idOn}"

def parseSlot (f b t o k i : String) : Option Slot := do
  pure ⟨← parseOptBytes f, ← parseOptBytes b, ← parseOptBytes t, ← parseOptBytes o, ← parseKind k, ← parseId i⟩

def parseSide (s : String) : Option Side :=
  if s == "this" then some .this else if s == "other" then some .other else none

def parseLoc2 (d n : String) : Option Loc := do
  pure ⟨← d.toNat?, ← fromHex n⟩

def parseLoc (s : String) : Option Loc :=
  match s.splitOn ":" with
  | [d, n] => parseLoc2 d n
  | _ => none

def showLoc (l : Loc) : String := s!"{l.parent}:{toHex l.name}"

def parseFile (s : String) : Option (Loc × Bytes) :=
  match s.splitOn ":" with
  | [d, n, c] => do pure (← parseLoc2 d n, ← fromHex c)
  | _ => none

def parseFiles (s : String) : Option (List (Loc × Bytes)) :=
  if s == "_" then some [] else (s.splitOn ",").mapM parseFile

def bytesLe : Bytes → Bytes → Bool
  | [], _ => true
  | _ :: _, [] => false
  | a :: as, b :: bs => if a < b then true else if a = b then bytesLe as bs else false

def locLe (a b : Loc) : Bool :=
  decide (a.parent < b.parent) || (decide (a.parent = b.parent) && bytesLe a.name b.name)

def showFiles (fs : List (Loc × Bytes)) : String :=
  if fs.isEmpty then "_"
  else ",".intercalate ((fs.mergeSort fun a b => locLe a.1 b.1).map fun f => s!"{showLoc f.1}:{toHex f.2}")

def parseRec (s : String) : Option (Option (Kind × Loc)) :=
  match s.splitOn ":" with
  | ["~"] => some none
  | ["text", d, n] => (parseLoc2 d n).map fun l => some (.text, l)
  | ["contents", d, n] => (parseLoc2 d n).map fun l => some (.contents, l)
  | _ => none

def showRec : Option (Kind × Loc) → String
  | none => "~"
  | some (.text, l) => s!"text:{showLoc l}"
  | some (.contents, l) => s!"contents:{showLoc l}"

def parseOptLoc (s : String) : Option (Option Loc) :=
  if s == "~" then some none else (parseLoc s).map some

def showOptLoc : Option Loc → String
  | none => "~"
  | some l => showLoc l

def showPlaced (p : Placed) : String :=
  s!"{showFiles p.files} {showRec p.record} {showOptLoc p.idAt} {showBool p.pathConflict}"

def handle : List String → String
  | ["pl", r, s, bl, tl, ol, base, this, other, regions] =>
    match parseBool r, parseBool s, parseOptLoc bl, parseLoc tl, parseLoc ol,
          parseLines base, parseLines this, parseLines other, parseRegions regions with
    | some r, some s, some bl, some tl, some ol, some base, some this, some other, some regions =>
      -- an entry absent from BASE (`~`) has no BASE text either
      if bl.isNone && !base.isEmpty then "bad-op" else
      let b : Option (Loc × List Line) := bl.map fun l => (l, base)
      match mergeEntry ⟨r, s⟩ b tl ol this other regions with
      | some p => showPlaced p
      | none =>
        match mergeFileOpt ⟨r, s⟩ (b.map (·.2)) this other regions with
        | .error e => showErr e
        | _ => "bad-op"
    | _, _, _, _, _, _, _, _, _ => "bad-op"
  | ["rp", w, files, rec, idAt, pc] =>
    match parseSide w, parseFiles files, parseRec rec, parseOptLoc idAt, parseBool pc with
    | some w, some files, some rec, some idAt, some pc =>
      match resolvePlaced w ⟨files, rec, idAt, pc⟩ with
      | .error e => showErr e
      | .ok p => showPlaced p
    | _, _, _, _, _ => "bad-op"
  | ["tm", r, s, base, this, other, regions] =>
    match parseBool r, parseBool s, parseLines base, parseLines this, parseLines other, parseRegions regions with
    | some r, some s, some base, some this, some other, some regions =>
      match textMerge ⟨r, s⟩ base this other regions with
      | .error e => showErr e
      | .ok (ls, flag) => s!"ok {showBool flag} {showLines ls}"
    | _, _, _, _, _, _ => "bad-op"
  | ["mf", r, s, base, this, other, regions] =>
    match parseBool r, parseBool s, parseLines base, parseLines this, parseLines other, parseRegions regions with
    | some r, some s, some base, some this, some other, some regions =>
      match mergeFile ⟨r, s⟩ base this other regions with
      | .error e => showErr e
      | out =>
        match out.slot with
        | some sl => showSlot sl
        | none => "bad-op"
    | _, _, _, _, _, _ => "bad-op"
  | ["rt", w, f, b, t, o, k, i] =>
    match parseSide w, parseSlot f b t o k i with
    | some w, some sl =>
      match resolveText w sl with
      | .error e => showErr e
      | .ok s' => showSlot s'
    | _, _ => "bad-op"
  | ["rc", w, f, b, t, o, k, i] =>
    match parseSide w, parseSlot f b t o k i with
    | some w, some sl => showSlot (resolveContents w sl)
    | _, _ => "bad-op"
  | ["sl", t] =>
    match fromHex t with
    | some t => showLines (splitLines t)
    | none => "bad-op"
  | ["fi", s, base, this, other, regions] =>
    match parseBool s, parseLines base, parseLines this, parseLines other, parseRegions regions with
    | some s, some base, some this, some other, some regions =>
      showBool (decide (FromInputs s base this other regions))
    | _, _, _, _, _ => "bad-op"
  | ["mk", base, this, other] =>
    match parseLines base, parseLines this, parseLines other with
    | some base, some this, some other => toHex (freshMarker base other this)
    | _, _, _ => "bad-op"
  | _ => "bad-op"

end BreezyVerif.C19

def main : IO Unit := BreezyVerif.runDriver BreezyVerif.C19.handle
