import BreezyVerif.Model.C09
import BreezyVerif.Lemmas.C10
import BreezyVerif.Lemmas.C09
import BreezyVerif.Lemmas.C09Git
import BreezyVerif.Lemmas.C09Path
/-!
C09 — theorems about the working-tree step machine.  All states, all
operations, all operation lists (no bound).
-/
namespace BreezyVerif.C09
open BreezyVerif.C10

/-- **Re-opening is the identity** on the abstract state (everything observable
is persisted). -/
theorem reopen_id (fl : Flavour) (s : State) : step fl s .reopen = (s, .ok) := by
  simp [step, stepOk]

/-- running op lists composes (the induction principle behind the per-step comparison) -/
theorem run_append (fl : Flavour) (s : State) (a b : List Op) :
    run fl s (a ++ b) = run fl (run fl s a) b := by
  induction a generalizing s with
  | nil => rfl
  | cons x rest ih => simp [run, ih]

/-- **Errors leave the state unchanged**, for every operation, both flavours. -/
theorem step_error_unchanged (fl : Flavour) (s : State) (op : Op)
    (h : (step fl s op).2 = .err) : (step fl s op).1 = s := by
  unfold step at h ⊢
  split at h
  · cases h
  · rfl

/-- non-vacuity: operations that fail -/
example : (step .bzr init (.add ["zz"])).2 = .err := by decide +kernel

/-- `mkdir` below a directory that is not versioned fails and leaves nothing
behind (instance of `step_error_unchanged`; the real code used to leave the
directory on disk — fixed in /repo, kept as a regression statement) -/
theorem mkdir_error_no_leftover :
    (step .bzr (run .bzr init [.mkdir ["b"], .remove ["b"] false]) (.mkdir ["b", "c"])).2 = .err ∧
    (step .bzr (run .bzr init [.mkdir ["b"], .remove ["b"] false]) (.mkdir ["b", "c"])).1
      = run .bzr init [.mkdir ["b"], .remove ["b"] false] := by
  have h : (step .bzr (run .bzr init [.mkdir ["b"], .remove ["b"] false]) (.mkdir ["b", "c"])).2 = .err := by
    decide +kernel
  exact ⟨h, step_error_unchanged _ _ _ h⟩

/-- renaming a path that is not on disk fails in both flavours, whatever is at
the target (git's `rename_one` used to version an unversioned target file) -/
theorem rename_missing_source_fails (fl : Flavour) (s : State) (a b : Path)
    (h : idAt s.disk a = none) : step fl s (.rename a b) = (s, .err) := by
  simp [step, stepOk, h]

/-- non-vacuity: a missing source with an existing unversioned target -/
example : idAt (run .git init [.mkfile ["a"] "78"]).disk ["zz"] = none ∧
    (idAt (run .git init [.mkfile ["a"] "78"]).disk ["a"]).isSome = true := by decide +kernel

/-- `unversion` of a path that is on disk but not versioned fails (NoSuchFile), where
`remove` silently does nothing -/
theorem unversion_not_versioned_fails (fl : Flavour) (s : State) (p : Path) (i : Id)
    (h : idAt s.disk p = some i) (hv : isVer s i = false) :
    step fl s (.unversion p) = (s, .err) ∧ step fl s (.remove p false) = (s, .ok) := by
  simp [step, stepOk, h, hv]

/-- on a versioned path `unversion` is `remove(keep_files=True)`: same state, both succeed -/
theorem unversion_eq_remove_keep (fl : Flavour) (s : State) (p : Path) (i : Id)
    (h : idAt s.disk p = some i) (hv : isVer s i = true) (hr : (get s.disk i).bind (·.parent) ≠ none) :
    step fl s (.unversion p) = step fl s (.remove p false) ∧ (step fl s (.unversion p)).2 = .ok := by
  simp [step, stepOk, h, hv, hr]

/-- non-vacuity: an unversioned file on disk; a versioned directory with a versioned grandchild -/
example : (step .git (run .git init [.mkfile ["a"] "78"]) (.unversion ["a"])).2 = .err := by decide +kernel
example :
    let s := run .bzr init [.mkdir ["d"], .mkdir ["d", "e"], .mkfile ["d", "e", "f"] "78", .add ["d", "e", "f"]]
    ((listing (wtTree s)).length, (listing (wtTree (step .bzr s (.unversion ["d"])).1)).length,
      (listing (step .bzr s (.unversion ["d"])).1.disk).length) = (4, 1, 4) := by decide +kernel

theorem contentChanged_self (n : Node) : contentChanged n n = false := by
  cases n <;> simp [contentChanged]

/-- an id with the same entry in both trees is never reported -/
theorem change_eq_unchanged {src tgt : Tree} {i : Id} {c : Change} (h : change src tgt i = some c)
    (heq : get src i = get tgt i) : c.isChanged = false := by
  unfold change at h
  rw [heq] at h
  split at h
  · cases h
  · rename_i hs ht; rw [hs] at ht; cases ht
  · rename_i hs ht; rw [hs] at ht; cases ht
  · rename_i a b hs ht
    rw [hs] at ht; cases ht
    simp at h; subst h
    have hp : pathOf src i = pathOf src i := rfl
    simp [Change.isChanged, contentChanged_self]

/-- comparing a tree with itself reports nothing -/
theorem changesOf_self (t : Tree) : changesOf t t = [] := by
  unfold changesOf
  rw [List.filter_eq_nil_iff]
  intro c hc
  unfold allRecords at hc
  rw [List.mem_filterMap] at hc
  obtain ⟨i, _, hi⟩ := hc
  simp [change_eq_unchanged hi rfl]

/-- **commit ⇒ empty status**, in every state, both flavours -/
theorem commit_status_empty (fl : Flavour) (s : State) : status (step fl s .commit).1 = [] := by
  simp only [step, stepOk, status, wtTree]
  exact changesOf_self _

/-- **status is sound and complete with respect to the basis**: an id is
reported exactly when its entry in the working tree differs from its entry in
the basis (absent counts as different from present). -/
theorem status_sound_complete (s : State) :
    (∀ c ∈ status s, get s.basis c.id ≠ get (wtTree s) c.id) ∧
    (∀ i, get s.basis i ≠ get (wtTree s) i → ∃ c ∈ status s, c.id = i) := by
  constructor
  · intro c hc heq
    have ⟨h1, h2⟩ := changesOf_true hc
    rw [change_eq_unchanged h1 heq] at h2
    cases h2
  · intro i hne
    cases hc : change s.basis (wtTree s) i with
    | none =>
      obtain ⟨a, b⟩ := change_none_iff.mp hc
      exact absurd (by rw [a, b]) hne
    | some c =>
      by_cases hch : c.isChanged = true
      · exact ⟨c, mem_changesOf hc hch, change_id hc⟩
      · exact absurd (unchanged_noop' hc (by simpa using hch)) hne

/-- non-vacuity for `status_sound_complete`: a state with a non-empty status -/
example : (status (run .bzr init [.mkdir ["a"], .commit, .mkfile ["a", "f"] "78", .add ["a", "f"]])).map (·.id)
    = ["n1"] := by decide +kernel

/-! ### revert -/

/-- **revert restores the versioned part**: every id of the basis is versioned
again with exactly its basis entry (position, kind, content, executable bit),
in every state, for both flavours, with and without backups. -/
theorem revert_restores (fl : Flavour) (b : Bool) (s : State) (i : Id) (hi : i ∈ ids s.basis) :
    get (wtTree (revert fl b s)) i = get s.basis i := by
  rw [get_wtTree]
  have hv : (revert fl b s).ver.contains i = true := by
    simp only [List.contains_eq_mem, decide_eq_true_eq]
    exact mem_revert_ver.mpr (Or.inl hi)
  simp only [hv, if_true]
  exact revert_disk_get fl b s i hi

/-- … and nothing else is versioned after revert (apart from the root) -/
theorem revert_only_basis (fl : Flavour) (b : Bool) (s : State) (i : Id) (hi : i ∉ ids s.basis) (hr : i ≠ rootId) :
    get (wtTree (revert fl b s)) i = none := by
  rw [get_wtTree]
  have hv : (revert fl b s).ver.contains i = false := by
    simp only [List.contains_eq_mem, decide_eq_false_iff_not]
    intro h
    rcases mem_revert_ver.mp h with h | h
    · exact hi h
    · exact hr h
  rw [hv]; rfl

/-- **backups do not change what is restored**: the versioned part after
`revert(backups=True)` is entry for entry (position, kind, content, executable
bit) the versioned part after `revert(backups=False)` — the backup copies are
extra unversioned objects only.  (The root is covered as soon as it is part of
the basis, i.e. after the first commit.) -/
theorem revert_backups_same_versioned (fl : Flavour) (s : State) (i : Id)
    (hr : i ≠ rootId ∨ rootId ∈ ids s.basis) :
    get (wtTree (revert fl true s)) i = get (wtTree (revert fl false s)) i := by
  by_cases hi : i ∈ ids s.basis
  · rw [revert_restores fl true s i hi, revert_restores fl false s i hi]
  · have hne : i ≠ rootId := by
      rcases hr with h | h
      · exact h
      · exact fun he => hi (he ▸ h)
    rw [revert_only_basis fl true s i hi hne, revert_only_basis fl false s i hi hne]

/-- non-vacuity: a state where the two reverts differ on disk (a backup is made) but not in
what is versioned -/
example :
    let s := run .bzr init [.mkfile ["f"] "78", .add ["f"], .commit, .write ["f"] "79", .chmod ["f"] true]
    ((listing (revert .bzr true s).disk).length, (listing (revert .bzr false s).disk).length,
      decide (listing (wtTree (revert .bzr true s)) = listing (wtTree (revert .bzr false s)))) = (3, 2, true) := by
  decide +kernel

/-- non-vacuity: a revert that has something to restore (a removed file comes back) -/
example :
    let s := run .bzr init [.mkfile ["f"] "78", .add ["f"], .commit, .remove ["f"] true]
    ((listing (wtTree s)).length, (listing (wtTree (step .bzr s (.revert false)).1)).length) = (1, 2) := by decide +kernel

/-! #### the same for the operation `revert` of the step machine (`step`, i.e. including
git's pruning of directories without versioned files) -/

/-- the `revert` step never fails -/
theorem step_revert_ok (fl : Flavour) (b : Bool) (s : State) :
    step fl s (.revert b) = (finish fl (revert fl b s), .ok) := by
  simp [step, stepOk]

/-- the `revert` step leaves the basis alone -/
theorem step_revert_basis (fl : Flavour) (b : Bool) (s : State) : (step fl s (.revert b)).1.basis = s.basis := by
  rw [step_revert_ok]
  cases fl <;> rfl

/-- after the `revert` step nothing outside the basis is versioned (apart from the
root), both flavours -/
theorem step_revert_only_basis (fl : Flavour) (b : Bool) (s : State) (i : Id)
    (hi : i ∉ ids s.basis) (hr : i ≠ rootId) :
    get (wtTree (step fl s (.revert b)).1) i = none := by
  rw [step_revert_ok, get_wtTree]
  have hv : (finish fl (revert fl b s)).ver.contains i = false := by
    simp only [List.contains_eq_mem, decide_eq_false_iff_not]
    intro h
    rcases mem_revert_ver.mp (finish_ver_subset fl _ i h) with h | h
    · exact hi h
    · exact hr h
  rw [hv]; rfl

/-- bzr: after the `revert` step every id of the basis is versioned with exactly
its basis entry (position, kind, content, executable bit) -/
theorem step_revert_restores_bzr (b : Bool) (s : State) (i : Id) (hi : i ∈ ids s.basis) :
    get (wtTree (step .bzr s (.revert b)).1) i = get s.basis i := by
  rw [step_revert_ok]
  exact revert_restores .bzr b s i hi

/-- git: after the `revert` step every file and symbolic link of the basis is
versioned with exactly its basis entry (position, content, executable bit) —
the pruning of directories never touches them -/
theorem step_revert_restores_git_nondir (b : Bool) (s : State) (i : Id) (e : Entry)
    (he : get s.basis i = some e) (hk : e.node.kind ≠ .dir) :
    get (wtTree (step .git s (.revert b)).1) i = get s.basis i := by
  have hi : i ∈ ids s.basis := mem_ids_of_get he
  rw [step_revert_ok, get_wtTree]
  have hd : get (revert .git b s).disk i = some e := by rw [revert_disk_get .git b s i hi, he]
  have hv : (finish .git (revert .git b s)).ver.contains i = true := by
    simp only [List.contains_eq_mem, decide_eq_true_eq, finish, pruneGit, List.mem_filter]
    refine ⟨mem_revert_ver.mpr (Or.inl hi), ?_⟩
    have : isDir (revert .git b s).disk i = false := by
      simp only [isDir, hd]
      simpa using hk
    simp [this]
  simp only [hv, if_true, finish_disk]
  rw [hd, he]

/-- git: a directory of the basis is versioned again with its basis entry as soon
as the pruning keeps it -/
theorem step_revert_restores_git_kept (b : Bool) (s : State) (i : Id) (hi : i ∈ ids s.basis)
    (hkeep : i ∈ (pruneGit (revert .git b s)).ver) :
    get (wtTree (step .git s (.revert b)).1) i = get s.basis i := by
  rw [step_revert_ok, get_wtTree]
  have hv : (finish .git (revert .git b s)).ver.contains i = true := by
    simpa [finish] using hkeep
  simp only [hv, if_true, finish_disk]
  exact revert_disk_get .git b s i hi

/-- **revert ⇒ empty status** (bzr), whenever the basis has the root entry (i.e.
after the first commit), with and without backups -/
theorem step_revert_status_empty_bzr (b : Bool) (s : State) (hroot : rootId ∈ ids s.basis) :
    status (step .bzr s (.revert b)).1 = [] := by
  unfold status
  apply changesOf_eq_nil
  intro i
  rw [step_revert_basis]
  by_cases hi : i ∈ ids s.basis
  · rw [step_revert_restores_bzr b s i hi]
  · have hr : i ≠ rootId := fun h => hi (h ▸ hroot)
    rw [step_revert_only_basis .bzr b s i hi hr]
    exact get_none_of_not_mem hi

/-- **revert ⇒ empty status** (git), when the basis has the root entry and the
pruning keeps every directory of the basis (`gitKeeps`: see `gitKeeps_of_closed`
for a condition on the basis alone) -/
theorem step_revert_status_empty_git (b : Bool) (s : State) (hroot : rootId ∈ ids s.basis)
    (hkeep : ∀ i ∈ ids s.basis, i ∈ (pruneGit (revert .git b s)).ver) :
    status (step .git s (.revert b)).1 = [] := by
  unfold status
  apply changesOf_eq_nil
  intro i
  rw [step_revert_basis]
  by_cases hi : i ∈ ids s.basis
  · rw [step_revert_restores_git_kept b s i hi (hkeep i hi)]
  · have hr : i ≠ rootId := fun h => hi (h ▸ hroot)
    rw [step_revert_only_basis .git b s i hi hr]
    exact get_none_of_not_mem hi

/-- git: after the `revert` step EVERY entry of a git-representable basis (unique
ids; every directory has a file or link of the basis below it) is versioned
with exactly its basis entry -/
theorem step_revert_restores_git (b : Bool) (s : State) (i : Id) (hi : i ∈ ids s.basis)
    (hn : (ids s.basis).Nodup) (hc : gitClosed s.basis = true) :
    get (wtTree (step .git s (.revert b)).1) i = get s.basis i :=
  step_revert_restores_git_kept b s i hi (gitKeeps_of_closed b s hn hc i hi)

/-- **revert ⇒ empty status** (git), for every git-representable basis with a root -/
theorem step_revert_status_empty_git_closed (b : Bool) (s : State) (hroot : rootId ∈ ids s.basis)
    (hn : (ids s.basis).Nodup) (hc : gitClosed s.basis = true) :
    status (step .git s (.revert b)).1 = [] :=
  step_revert_status_empty_git b s hroot (gitKeeps_of_closed b s hn hc)

/-- non-vacuity: a basis made by a git commit (with a directory that is only kept because of
the file below it) satisfies the hypotheses; revert has a rename and an edit to undo -/
example :
    let s := run .git init [.mkdir ["d"], .mkfile ["d", "f"] "78", .add ["d", "f"], .commit, .mkdir ["e"],
      .rename ["d", "f"] ["e", "g"], .write ["e", "g"] "79"]
    (decide (rootId ∈ ids s.basis), decide (ids s.basis).Nodup, gitClosed s.basis, s.basis.length,
      (pathStatus s).length, (pathStatus (step .git s (.revert true)).1).length) = (true, true, true, 3, 4, 0) := by
  decide +kernel

/-- non-vacuity: states with a committed root in which revert has work to do (content and
mode edited; backups on) -/
example :
    let s := run .bzr init [.mkfile ["f"] "78", .add ["f"], .commit, .write ["f"] "79", .chmod ["f"] true]
    (decide (rootId ∈ ids s.basis), (status s).length, (status (step .bzr s (.revert true)).1).length) = (true, 1, 0) := by
  decide +kernel

example :
    let s := run .git init [.mkdir ["d"], .mkfile ["d", "f"] "78", .add ["d", "f"], .commit, .write ["d", "f"] "79",
      .chmod ["d", "f"] true]
    (decide (rootId ∈ ids s.basis), decide (∀ i ∈ ids s.basis, i ∈ (pruneGit (revert .git true s)).ver),
      (pathStatus s).length, (status (step .git s (.revert true)).1).length) = (true, true, 1, 0) := by
  decide +kernel

/-- the backup keeps what the edited file held: content AND executable bit, under the
name `f.~1~`, unversioned, while the versioned file has the basis content and bit again -/
example :
    let s := run .bzr init [.mkfile ["f"] "78", .add ["f"], .commit, .write ["f"] "79", .chmod ["f"] true]
    (listing (step .bzr s (.revert true)).1.disk, listing (wtTree (step .bzr s (.revert true)).1)) =
      ([([], .dir), (["f"], .file "78" false), (["f.~1~"], .file "79" true)],
       [([], .dir), (["f"], .file "78" false)]) := by
  decide +kernel

/-! ### revert of one file -/

/-- **selective revert restores exactly that entry**: when `revert([p], backups=False)`
succeeds on an object that is the basis entry `i` at `p` (always the case for bzr; git:
unless the path was re-populated), afterwards `i` sits where it was with the
content / target / executable bit of the basis, every other object on disk is
untouched, the same ids are versioned and the basis is unchanged. -/
theorem revertPath_restores_entry (fl : Flavour) (s s' : State) (p : Path) (i : Id)
    (hb : idAt s.basis p = some i) (hd : idAt s.disk p = some i)
    (h : revertPath fl s p false = some s') :
    ∃ be de, get s.basis i = some be ∧ get s.disk i = some de ∧
      get s'.disk i = some { de with node := be.node } ∧
      (∀ k, k ≠ i → get s'.disk k = get s.disk k) ∧ (∀ k, k ∈ s'.ver ↔ k ∈ s.ver) ∧ s'.basis = s.basis := by
  unfold revertPath at h
  rw [hb, hd] at h
  simp only at h
  cases hbe : get s.basis i with
  | none => rw [hbe] at h; cases h
  | some be =>
    cases hde : get s.disk i with
    | none => rw [hbe, hde] at h; cases h
    | some de =>
      rw [hbe, hde] at h
      simp only at h
      split at h
      · simp only [beq_self_eq_true, if_true, Bool.false_and, Bool.false_eq_true, if_false, renameIds_nil,
          Option.some.injEq] at h
        subst h
        refine ⟨be, de, rfl, rfl, ?_, ?_, ?_, rfl⟩
        · simp only [get_setNode, if_true, hde, Option.map_some]
        · intro k hk
          simp only [get_setNode, hk, if_false]
        · intro k
          exact mem_substVer_nil s.ver k
      · cases h

/-- non-vacuity: a selective revert inside the envelope, undoing a content and a mode edit
while another edited file stays as it is -/
example :
    let s := run .bzr init [.mkfile ["f"] "78", .mkfile ["g"] "78", .add ["f"], .add ["g"], .commit, .write ["f"] "79",
      .chmod ["f"] true, .write ["g"] "7a"]
    (idAt s.basis ["f"], idAt s.disk ["f"], (revertPath .bzr s ["f"] false).map fun s' => listing (wtTree s')) =
      (some "n0", some "n0", some [([], .dir), (["f"], .file "78" false), (["g"], .file "7a" false)]) := by
  decide +kernel

/-! ### status in path space (the git comparison) -/

/-- **path-space status is complete**: a path whose entry (kind, content, executable
bit; absent counts as different from present) differs between the basis and the
working tree is named by a record -/
theorem pathStatus_complete (s : State) (p : Path)
    (h : lookup (listing s.basis) p ≠ lookup (listing (wtTree s)) p) : ∃ c ∈ pathStatus s, c.path = p := by
  rw [pathStatus_eq]
  exact pstat_complete _ _ p h

/-- **path-space status is sound**: every record names a path whose entries differ
(for a basis that lists no path twice — any well-formed tree) -/
theorem pathStatus_sound (s : State) (hn : ((listing s.basis).map (·.1)).Nodup) (c : PathChange)
    (hc : c ∈ pathStatus s) : lookup (listing s.basis) c.path ≠ lookup (listing (wtTree s)) c.path := by
  rw [pathStatus_eq] at hc
  exact pstat_sound _ _ hn c hc

/-- the path-space status is empty exactly when the two listings agree at every path -/
theorem pathStatus_nil_iff (s : State) (hn : ((listing s.basis).map (·.1)).Nodup) :
    pathStatus s = [] ↔ ∀ p, lookup (listing s.basis) p = lookup (listing (wtTree s)) p := by
  constructor
  · intro h p
    by_cases hp : lookup (listing s.basis) p = lookup (listing (wtTree s)) p
    · exact hp
    · obtain ⟨c, hc, _⟩ := pathStatus_complete s p hp
      rw [h] at hc; cases hc
  · intro h
    cases hps : pathStatus s with
    | nil => rfl
    | cons c rest =>
      have hc : c ∈ pathStatus s := by rw [hps]; simp
      exact absurd (h c.path) (pathStatus_sound s hn c hc)

/-- non-vacuity: a basis without duplicate paths and a status with all three kinds of record -/
example :
    let s := run .git init [.mkfile ["a"] "78", .mkfile ["b"] "78", .add ["a"], .add ["b"], .commit,
      .write ["a"] "79", .remove ["b"] true, .mkfile ["c"] "7a", .add ["c"]]
    (decide ((listing s.basis).map (·.1)).Nodup, pathStatus s) =
      (true, [.modified ["a"], .removed ["b"] .file, .added ["c"] .file]) := by
  decide +kernel

end BreezyVerif.C09
