import BreezyVerif.Lemmas.C48
import BreezyVerif.Lemmas.C48Gen
import BreezyVerif.Lemmas.C48Lex
/-!
C48 — theorems.  Everything is universally quantified over pattern lists of any
length, group sizes `g > 0` (the code uses 99) and file names of any length.
The selection theorems hold for ARBITRARY compiled patterns (any token lists),
hence in particular for the ones the lexer produces.

The LIVE model functions (the code since ac6b52e, every extension alternative
carries its own `.*\.`) are `globsterMatchO` / `exceptionMatchO`; the headline
theorems are about them.  The theorems named `…_greedy` / `…_partial` and
`group_size_witness` concern `globsterMatch` / `exceptionMatch`, the shared
greedy extension prefix of the code before ac6b52e (historical; the harness
reports a tie break if the live code has that shape again).  Both sets are
instances of the generic theorems of Lemmas/C48Gen.lean.
-/
namespace BreezyVerif.C48

/-- the first pattern, in type order (extension, basename, fullpath; list order
within a type), that matches — what a Globster without grouping limit reports
when the extension prefix cannot pick between two dots -/
def firstInTypeOrder (cps : List CPat) (name : List Char) : Option CPat :=
  (ofKind .ext cps ++ (ofKind .base cps ++ ofKind .full cps)).find? fun p => cpMatches p name

/-- at most one dot-suffix of the last component is matched by an extension pattern -/
def extUnambiguous (cps : List CPat) (name : List Char) : Bool :=
  decide (((dotSuffixes (basename name)).filter fun s => (ofKind .ext cps).any fun p => bodyMatch p s).length ≤ 1)

/-! ### Globster (live variant) -/

/-- the reported pattern is one of the patterns and it matches (any group size, even 0) -/
theorem reported_pattern_matches (g : Nat) (cps : List CPat) (name : List Char) (p : CPat)
    (h : globsterMatchO g cps name = some p) : p ∈ cps ∧ cpMatches p name = true :=
  gen_reported groupMatchO_sound g cps name p h

/-- a name is reported ignored exactly when at least one pattern matches it -/
theorem ignored_iff_some_matches (g : Nat) (hg : 0 < g) (cps : List CPat) (name : List Char) :
    (globsterMatchO g cps name).isSome = true ↔ ∃ p ∈ cps, cpMatches p name = true :=
  gen_ignored_iff groupMatchO_sound groupMatchO_complete g hg cps name

/-- GROUP-SIZE INDEPENDENCE, full: for every group size the Globster reports the
first matching pattern in type order (extension, basename, fullpath; list order
within a type). -/
theorem group_size_irrelevant (g : Nat) (hg : 0 < g) (cps : List CPat) (name : List Char) :
    globsterMatchO g cps name = firstInTypeOrder cps name := by
  have key : ∀ k, ((chunks g (ofKind k cps)).map fun grp => (k, grp)).findSome?
      (fun kg => groupMatchO kg.1 kg.2 name) = (ofKind k cps).find? fun p => cpMatches p name := by
    intro k
    rw [List.findSome?_map]
    have hcp : ∀ p ∈ ofKind k cps, cpMatches p name = kindMatches k p name := by
      intro p hp; rw [cpMatches_eq, (mem_ofKind.mp hp).2]
    rw [find?_congr_mem hcp]
    conv => rhs; rw [← chunks_flatten g hg (ofKind k cps)]
    rw [List.find?_flatten]
    rfl
  unfold globsterMatchO firstInTypeOrder groups typeOrder
  simp only [List.flatMap_cons, List.flatMap_nil, List.append_nil, List.findSome?_append, List.find?_append]
  rw [key .ext, key .base, key .full]

/-- the reported pattern (not only whether one is reported) is the same for any two group sizes -/
theorem group_size_irrelevant_reported (g g' : Nat) (hg : 0 < g) (hg' : 0 < g')
    (cps : List CPat) (name : List Char) :
    globsterMatchO g cps name = globsterMatchO g' cps name := by
  rw [group_size_irrelevant g hg, group_size_irrelevant g' hg']

/-- whether a name is ignored does not depend on the group size -/
theorem group_size_irrelevant_ignored (g g' : Nat) (hg : 0 < g) (hg' : 0 < g')
    (cps : List CPat) (name : List Char) :
    (globsterMatchO g cps name).isSome = (globsterMatchO g' cps name).isSome := by
  rw [group_size_irrelevant_reported g g' hg hg']

/-! ### Globster (historical greedy variant, the code before ac6b52e) -/

theorem reported_pattern_matches_greedy (g : Nat) (cps : List CPat) (name : List Char) (p : CPat)
    (h : globsterMatch g cps name = some p) : p ∈ cps ∧ cpMatches p name = true :=
  gen_reported groupMatch_sound g cps name p h

theorem ignored_iff_some_matches_greedy (g : Nat) (hg : 0 < g) (cps : List CPat) (name : List Char) :
    (globsterMatch g cps name).isSome = true ↔ ∃ p ∈ cps, cpMatches p name = true :=
  gen_ignored_iff groupMatch_sound groupMatch_complete g hg cps name

/-- on WHETHER a name is ignored the two variants agree, for all group sizes -/
theorem variants_agree_on_ignored (g g' : Nat) (hg : 0 < g) (hg' : 0 < g')
    (cps : List CPat) (name : List Char) :
    (globsterMatch g cps name).isSome = (globsterMatchO g' cps name).isSome := by
  rw [Bool.eq_iff_iff, ignored_iff_some_matches_greedy g hg, ignored_iff_some_matches g' hg']

theorem kind_group_find (g : Nat) (hg : 0 < g) (k : Kind) (cps : List CPat) (name : List Char)
    (hk : k ≠ .ext) :
    ((chunks g (ofKind k cps)).map fun grp => (k, grp)).findSome? (fun kg => groupMatch kg.1 kg.2 name)
      = (ofKind k cps).find? fun p => cpMatches p name := by
  rw [List.findSome?_map]
  have hcp : ∀ p ∈ ofKind k cps, cpMatches p name = kindMatches k p name := by
    intro p hp; rw [cpMatches_eq, (mem_ofKind.mp hp).2]
  rw [find?_congr_mem hcp]
  conv => rhs; rw [← chunks_flatten g hg (ofKind k cps)]
  rw [List.find?_flatten]
  congr 1
  funext grp
  cases k with
  | ext => exact absurd rfl hk
  | base => simp [groupMatch, kindMatches, Function.comp]
  | full => simp [groupMatch, kindMatches, Function.comp]

theorem ext_group_find (g : Nat) (hg : 0 < g) (cps : List CPat) (name : List Char)
    (hu : extUnambiguous cps name = true) :
    ((chunks g (ofKind .ext cps)).map fun grp => (Kind.ext, grp)).findSome? (fun kg => groupMatch kg.1 kg.2 name)
      = (ofKind .ext cps).find? fun p => cpMatches p name := by
  rw [List.findSome?_map]
  have hcp : ∀ p ∈ ofKind .ext cps, cpMatches p name = kindMatches .ext p name := by
    intro p hp; rw [cpMatches_eq, (mem_ofKind.mp hp).2]
  rw [find?_congr_mem hcp]
  have hlen : (((dotSuffixes (basename name)).reverse).filter
      fun s => (ofKind .ext cps).any fun p => bodyMatch p s).length ≤ 1 := by
    rw [List.filter_reverse, List.length_reverse]
    simpa [extUnambiguous] using hu
  -- every chunk behaves like `find?` with the per-pattern predicate
  have hgrp : ∀ grp ∈ chunks g (ofKind .ext cps),
      ((fun kg : Kind × List CPat => groupMatch kg.1 kg.2 name) ∘ fun grp => (Kind.ext, grp)) grp
        = grp.find? fun p => kindMatches .ext p name := by
    intro grp hmem
    have hsub : ∀ p ∈ grp, p ∈ ofKind .ext cps := chunks_sub g _ grp hmem
    simp only [Function.comp, groupMatch]
    rw [ext_group_unamb (ofKind .ext cps) grp hsub _ hlen]
    apply find?_congr_mem
    intro p _
    simp [kindMatches]
  conv => rhs; rw [← chunks_flatten g hg (ofKind .ext cps)]
  rw [List.find?_flatten]
  generalize chunks g (ofKind .ext cps) = L at hgrp ⊢
  induction L with
  | nil => rfl
  | cons a L ih =>
    simp only [List.findSome?_cons]
    rw [hgrp a (by simp)]
    cases a.find? (fun p => kindMatches .ext p name) with
    | some q => rfl
    | none => exact ih (fun grp h => hgrp grp (by simp [h]))

/-- HISTORICAL (greedy variant): for every group size the
Globster reports the first matching pattern in type order — PARTIAL: under the
hypothesis that at most one dot of the last component is followed by text that
an extension pattern matches.  Without it the reported pattern does depend on
the grouping (`group_size_witness`). -/
theorem group_size_irrelevant_partial (g : Nat) (hg : 0 < g) (cps : List CPat) (name : List Char)
    (hu : extUnambiguous cps name = true) :
    globsterMatch g cps name = firstInTypeOrder cps name := by
  unfold globsterMatch firstInTypeOrder groups typeOrder
  simp only [List.flatMap_cons, List.flatMap_nil, List.append_nil, List.findSome?_append, List.find?_append]
  rw [ext_group_find g hg cps name hu, kind_group_find g hg .base cps name (by decide),
    kind_group_find g hg .full cps name (by decide)]

/-- without extension patterns the hypothesis is void: full group-size independence -/
theorem first_in_type_order_noext (g : Nat) (hg : 0 < g) (cps : List CPat) (name : List Char)
    (hne : ∀ p ∈ cps, p.kind ≠ .ext) :
    globsterMatch g cps name = firstInTypeOrder cps name := by
  apply group_size_irrelevant_partial g hg
  have : ofKind .ext cps = [] := by
    simp only [ofKind, List.filter_eq_nil_iff]
    intro p hp; simpa using hne p hp
  have hf : ((dotSuffixes (basename name)).filter fun _ => false) = [] :=
    List.filter_eq_nil_iff.mpr (by simp)
  simp [extUnambiguous, this, hf]

def wAB : CPat := ⟨['*', '.', 'a', '.', 'b'], .ext, [.lit 'a', .lit '.', .lit 'b']⟩
def wB : CPat := ⟨['*', '.', 'b'], .ext, [.lit 'b']⟩

/-- HISTORICAL WITNESS (greedy variant; reproduced on the code before ac6b52e with 100 patterns): with `*.a.b` before
`*.b`, the name `x.a.b` is reported as `*.a.b` when the two patterns fall into
different groups and as `*.b` when they share a group. -/
theorem group_size_witness :
    compile ['*', '.', 'a', '.', 'b'] = some wAB ∧ compile ['*', '.', 'b'] = some wB ∧
    globsterMatch 1 [wAB, wB] ['x', '.', 'a', '.', 'b'] = some wAB ∧
    globsterMatch 2 [wAB, wB] ['x', '.', 'a', '.', 'b'] = some wB := by
  decide

/-! ### ExceptionGlobster (live variant) -/

theorem truthy_iff (g : Nat) (hg : 0 < g) (cps : List CPat) (name : List Char) (hne : noEmptySrc cps = true) :
    truthy (globsterMatchO g cps name) = true ↔ ∃ p ∈ cps, cpMatches p name = true :=
  gen_truthy_iff groupMatchO_sound groupMatchO_complete g hg cps name hne

/-- a matching `!!` pattern wins: the result is `!!` + a matching `!!` pattern -/
theorem exception_double (g : Nat) (hg : 0 < g) (p0 p1 p2 : List CPat) (name : List Char)
    (hne : noEmptySrc p2 = true) (h2 : ∃ p ∈ p2, cpMatches p name = true) :
    ∃ q ∈ p2, cpMatches q name = true ∧ exceptionMatchO g p0 p1 p2 name = some ('!' :: '!' :: q.src) :=
  gen_exception_double groupMatchO_sound groupMatchO_complete g hg p0 p1 p2 name hne h2

/-- no `!!` pattern matches but a `!` pattern does: not ignored -/
theorem exception_single (g : Nat) (hg : 0 < g) (p0 p1 p2 : List CPat) (name : List Char)
    (hne : noEmptySrc p1 = true) (h2 : ¬ ∃ p ∈ p2, cpMatches p name = true)
    (h1 : ∃ p ∈ p1, cpMatches p name = true) :
    exceptionMatchO g p0 p1 p2 name = none :=
  gen_exception_single groupMatchO_sound groupMatchO_complete g hg p0 p1 p2 name hne h2 h1

/-- neither kind of exception matches: the plain Globster decides -/
theorem exception_plain (g : Nat) (p0 p1 p2 : List CPat) (name : List Char)
    (h2 : ¬ ∃ p ∈ p2, cpMatches p name = true) (h1 : ¬ ∃ p ∈ p1, cpMatches p name = true) :
    exceptionMatchO g p0 p1 p2 name = (globsterMatchO g p0 name).map (·.src) :=
  gen_exception_plain groupMatchO_sound g p0 p1 p2 name h2 h1

/-- the complete decision table of `!` / `!!` precedence -/
theorem exception_ignored_iff (g : Nat) (hg : 0 < g) (p0 p1 p2 : List CPat) (name : List Char)
    (hne1 : noEmptySrc p1 = true) (hne2 : noEmptySrc p2 = true) :
    (exceptionMatchO g p0 p1 p2 name).isSome = true ↔
      (∃ p ∈ p2, cpMatches p name = true) ∨
      ((¬ ∃ p ∈ p1, cpMatches p name = true) ∧ ∃ p ∈ p0, cpMatches p name = true) :=
  gen_exception_ignored_iff groupMatchO_sound groupMatchO_complete g hg p0 p1 p2 name hne1 hne2

/-- the whole RESULT of `ExceptionGlobster.match` (not only whether it is
`None`) is independent of the group size; no hypothesis on the patterns -/
theorem exception_group_size_irrelevant (g g' : Nat) (hg : 0 < g) (hg' : 0 < g') (p0 p1 p2 : List CPat)
    (name : List Char) :
    exceptionMatchO g p0 p1 p2 name = exceptionMatchO g' p0 p1 p2 name := by
  unfold exceptionMatchO
  rw [group_size_irrelevant_reported g g' hg hg' p2, group_size_irrelevant_reported g g' hg hg' p1,
    group_size_irrelevant_reported g g' hg hg' p0]

/-- the result written out over the three lists: the first matching `!!`
pattern in type order, else nothing if a `!` pattern matches, else the first
matching plain pattern in type order -/
theorem exception_spec (g : Nat) (hg : 0 < g) (p0 p1 p2 : List CPat) (name : List Char)
    (hne1 : noEmptySrc p1 = true) (hne2 : noEmptySrc p2 = true) :
    exceptionMatchO g p0 p1 p2 name =
      match firstInTypeOrder p2 name with
      | some q => some ('!' :: '!' :: q.src)
      | none => if (p1.any fun p => cpMatches p name) then none else (firstInTypeOrder p0 name).map (·.src) := by
  cases h2 : firstInTypeOrder p2 name with
  | some q =>
    have hm : globsterMatchO g p2 name = some q := by rw [group_size_irrelevant g hg]; exact h2
    have hq := (reported_pattern_matches g p2 name q hm).1
    have hsrc := List.all_eq_true.mp hne2 q hq
    unfold exceptionMatchO
    simp only [hm, truthy, hsrc, if_true, Option.map_some]
  | none =>
    have hm : globsterMatchO g p2 name = none := by rw [group_size_irrelevant g hg]; exact h2
    have hn2 : ¬ ∃ p ∈ p2, cpMatches p name = true := by
      intro h
      have := (ignored_iff_some_matches g hg p2 name).mpr h
      rw [hm] at this; simp at this
    simp only []
    by_cases h1 : ∃ p ∈ p1, cpMatches p name = true
    · rw [exception_single g hg p0 p1 p2 name hne1 hn2 h1]
      have : (p1.any fun p => cpMatches p name) = true := List.any_eq_true.mpr h1
      simp [this]
    · rw [exception_plain g p0 p1 p2 name hn2 h1, group_size_irrelevant g hg]
      have : (p1.any fun p => cpMatches p name) = false := by
        apply Bool.eq_false_iff.mpr
        intro h; exact h1 (List.any_eq_true.mp h)
      simp [this]

/-- HISTORICAL (greedy variant): the decision table also held before ac6b52e -/
theorem exception_ignored_iff_greedy (g : Nat) (hg : 0 < g) (p0 p1 p2 : List CPat) (name : List Char)
    (hne1 : noEmptySrc p1 = true) (hne2 : noEmptySrc p2 = true) :
    (exceptionMatch g p0 p1 p2 name).isSome = true ↔
      (∃ p ∈ p2, cpMatches p name = true) ∨
      ((¬ ∃ p ∈ p1, cpMatches p name = true) ∧ ∃ p ∈ p0, cpMatches p name = true) :=
  gen_exception_ignored_iff groupMatch_sound groupMatch_complete g hg p0 p1 p2 name hne1 hne2

/-- WITNESS that the non-emptiness hypothesis is needed: an exception pattern `!`
(empty body) matches the path `a/` (empty last component), but Python's
truthiness test of `""` lets the plain `*` win.  File names have a non-empty
last component, so this is outside the property's quantifier. -/
theorem exception_empty_pattern_witness :
    cpMatches ⟨[], .base, []⟩ ['a', '/'] = true ∧
    exceptionMatchO 99 [⟨['*'], .base, [.star]⟩] [⟨[], .base, []⟩] [] ['a', '/'] = some ['*'] := by
  decide

/-- the constructor's split: `!!x` goes to the double-exception list as `x`,
`!x` (not `!!…`) to the exception list as `x`, everything else stays plain -/
theorem splitExc_spec (pats : List (List Char)) (x : List Char) :
    (x ∈ (splitExc pats).2.2 ↔ ('!' :: '!' :: x) ∈ pats) ∧
    (x ∈ (splitExc pats).2.1 ↔ ('!' :: x) ∈ pats ∧ x.head? ≠ some '!') ∧
    (x ∈ (splitExc pats).1 ↔ x ∈ pats ∧ x.head? ≠ some '!') := by
  induction pats with
  | nil => simp [splitExc]
  | cons p ps ih =>
    obtain ⟨ih1, ih2, ih3⟩ := ih
    unfold splitExc
    split
    · rename_i y
      refine ⟨?_, ?_, ?_⟩
      · simp [ih1]
      · simp only [ih2, List.mem_cons, List.cons.injEq, true_and]
        constructor
        · rintro ⟨h, hx⟩; exact ⟨Or.inr h, hx⟩
        · rintro ⟨h | h, hx⟩
          · subst h; simp at hx
          · exact ⟨h, hx⟩
      · simp only [ih3, List.mem_cons]
        constructor
        · rintro ⟨h, hx⟩; exact ⟨Or.inr h, hx⟩
        · rintro ⟨h | h, hx⟩
          · subst h; simp at hx
          · exact ⟨h, hx⟩
    · rename_i y hnot
      refine ⟨?_, ?_, ?_⟩
      · simp only [ih1, List.mem_cons, List.cons.injEq, true_and]
        constructor
        · intro h; exact Or.inr h
        · rintro (h | h)
          · exact absurd h.symm (by intro e; exact hnot x (by rw [e]))
          · exact h
      · simp only [List.mem_cons, ih2, List.cons.injEq, true_and]
        constructor
        · rintro (h | ⟨h, hx⟩)
          · subst h
            refine ⟨Or.inl rfl, ?_⟩
            intro hh
            cases x with
            | nil => simp at hh
            | cons c x' => simp at hh; subst hh; exact hnot x' rfl
          · exact ⟨Or.inr h, hx⟩
        · rintro ⟨h | h, hx⟩
          · exact Or.inl h
          · exact Or.inr ⟨h, hx⟩
      · simp only [ih3, List.mem_cons]
        constructor
        · rintro ⟨h, hx⟩; exact ⟨Or.inr h, hx⟩
        · rintro ⟨h | h, hx⟩
          · subst h; simp at hx
          · exact ⟨h, hx⟩
    · rename_i hnn hn
      refine ⟨?_, ?_, ?_⟩
      · simp only [ih1, List.mem_cons]
        constructor
        · intro h; exact Or.inr h
        · rintro (h | h)
          · exact absurd h.symm (hnn x)
          · exact h
      · simp only [ih2, List.mem_cons]
        constructor
        · rintro ⟨h, hx⟩; exact ⟨Or.inr h, hx⟩
        · rintro ⟨h | h, hx⟩
          · exact absurd h.symm (hn x)
          · exact ⟨h, hx⟩
      · simp only [List.mem_cons, ih3]
        constructor
        · rintro (h | ⟨h, hx⟩)
          · subst h
            refine ⟨Or.inl rfl, ?_⟩
            intro hh
            cases x with
            | nil => simp at hh
            | cons c x' => simp at hh; subst hh; exact hn x' rfl
          · exact ⟨Or.inr h, hx⟩
        · rintro ⟨h | h, hx⟩
          · exact Or.inl h
          · exact Or.inr ⟨h, hx⟩

/-! ### _OrderedGlobster -/

/-- the ordered variant reports the first pattern of the list that matches -/
theorem ordered_first_match (cps : List CPat) (name : List Char) :
    orderedMatch cps name = cps.find? fun p => cpMatches p name := by
  unfold orderedMatch
  rw [← findSome?_ite_eq_find?]
  congr 1
  funext p
  rw [cpMatches_eq]
  exact groupMatch_single p.kind p name

/-! ### documented matching rules -/

/-- a pattern of basename or extension type only looks at the last component:
any directory prefix is irrelevant -/
theorem basename_dir_irrelevant (p : CPat) (d b : List Char) (hk : p.kind ≠ .full) (hb : '/' ∉ b) :
    cpMatches p (d ++ '/' :: b) = cpMatches p b := by
  unfold cpMatches
  cases hkind : p.kind with
  | full => exact absurd hkind hk
  | base => simp only [basename_dir d b hb, basename_no_slash b hb]
  | ext => simp only [basename_dir d b hb, basename_no_slash b hb]

/-- `*.ext` with a literal extension matches exactly the names whose last
component ends in `.ext` -/
theorem ext_literal_iff_suffix (src e name : List Char) :
    cpMatches ⟨src, .ext, e.map Tok.lit⟩ name = true ↔ ∃ stem, basename name = stem ++ '.' :: e := by
  simp only [cpMatches, List.any_eq_true, bodyMatch, matchToks_lits]
  constructor
  · rintro ⟨s, hs, he⟩
    subst he
    exact (mem_dotSuffixes _ _).mp hs
  · intro h
    exact ⟨e, (mem_dotSuffixes _ _).mpr h, rfl⟩

/-- `**/` matches any directory prefix (including none) -/
theorem starstar_iff (full : Bool) (ts : List Tok) (name : List Char) :
    matchToks full (.starstar :: ts) name = true ↔
      matchToks full ts name = true ∨ ∃ d s, name = d ++ '/' :: s ∧ matchToks full ts s = true := by
  simp only [matchToks, Bool.or_eq_true, afterSlash_iff]

/-- the lexer turns a leading `**/` into the any-directory-prefix token, and
drops leading `./` and `/` -/
theorem lex_starstar_prefix (p : List Char) :
    lexRun true .seg ('*' :: '*' :: '/' :: p) = (lexRun true .seg p).map (Tok.starstar :: ·) ∧
    lexRun true .seg ('.' :: '/' :: p) = lexRun true .seg p ∧
    lexRun true .seg ('/' :: p) = lexRun true .seg p := by
  have e1 : step true .seg '*' = some (.segStars 0, []) := by decide
  have e2 : step true (.segStars 0) '*' = some (.segStars 1, []) := by decide
  have e3 : step true (.segStars 1) '/' = some (.seg, [.starstar]) := by decide
  have e4 : step true .seg '.' = some (.segDot, []) := by decide
  have e5 : step true .segDot '/' = some (.seg, []) := by decide
  have e6 : step true .seg '/' = some (.seg, []) := by decide
  refine ⟨?_, ?_, ?_⟩
  · simp only [lexRun, e1, e2, e3]
    generalize lexRun true .seg p = r
    cases r <;> rfl
  · simp only [lexRun, e4, e5]
    generalize lexRun true .seg p = r
    cases r <;> rfl
  · simp only [lexRun, e6]
    generalize lexRun true .seg p = r
    cases r <;> rfl

/-- `/**/` (two or more stars) in the MIDDLE of a full-path pattern: whenever
the text `a` before it leaves the lexer inside a segment (state `mid`, or
`stars` after a `*`), the pattern `a/**…*/p` lexes to the tokens of `a`, a
literal `/`, the any-directory-prefix token, and the tokens of `p`. -/
theorem lex_starstar_mid (a p : List Char) (st : LexSt) (ta : List Tok) (n : Nat)
    (ha : lexSteps true .seg a = some (st, ta)) (hst : st = .mid ∨ st = .stars) :
    lexRun true .seg (a ++ '/' :: '*' :: (List.replicate (n + 1) '*' ++ '/' :: p)) =
      (lexRun true .seg p).map fun r => ta ++ (Tok.lit '/' :: Tok.starstar :: r) := by
  rw [lexRun_append true a _ .seg st ta ha]
  have e1 : step true st '/' = some (.seg, [Tok.lit '/']) := by
    rcases hst with rfl | rfl <;> rfl
  have e2 : step true .seg '*' = some (.segStars 0, []) := by decide
  simp only [lexRun, e1, e2]
  rw [segStars_run p (n + 1) 0]
  have : (0 + (n + 1) ≥ 1) := by omega
  simp only [this, if_true]
  cases lexRun true .seg p <;> simp

/-- what the token sequence of `a/**/b` means: `a`, a `/`, then either `b`
directly or any further directories before `b` -/
theorem starstar_mid_matches (ta tb : List Tok) (name : List Char) :
    matchToks true (Tok.lit '/' :: Tok.starstar :: tb) name = true ↔
      ∃ s, name = '/' :: s ∧ (matchToks true tb s = true ∨ ∃ d r, s = d ++ '/' :: r ∧ matchToks true tb r = true) := by
  cases name with
  | nil => simp [matchToks]
  | cons x s =>
    simp only [matchToks, Bool.and_eq_true, beq_iff_eq, Bool.or_eq_true, afterSlash_iff, List.cons.injEq]
    constructor
    · rintro ⟨rfl, h⟩; exact ⟨s, ⟨rfl, rfl⟩, h⟩
    · rintro ⟨s', ⟨rfl, rfl⟩, h⟩; exact ⟨rfl, h⟩

example : lexSteps true .seg ['a', '*'] = some (.stars, [.lit 'a', .star]) := by decide
example : compile ['a', '/', '*', '*', '/', 'b'] =
    some ⟨['a', '/', '*', '*', '/', 'b'], .full, [.lit 'a', .lit '/', .starstar, .lit 'b']⟩ := by decide
example : matchToks true [.lit 'a', .lit '/', .starstar, .lit 'b'] ['a', '/', 'b'] = true ∧
    matchToks true [.lit 'a', .lit '/', .starstar, .lit 'b'] ['a', '/', 'x', '/', 'y', '/', 'b'] = true ∧
    matchToks true [.lit 'a', .lit '/', .starstar, .lit 'b'] ['a', 'b'] = false ∧
    matchToks true [.lit 'a', .lit '/', .starstar, .lit 'b'] ['a', '/', 'x', 'b'] = false := by decide

/-- `normalize_pattern` is idempotent -/
theorem normalize_idempotent (p : List Char) : normalize (normalize p) = normalize p := normalize_idem p

/-- a normalised pattern has no backslash-as-separator left, no doubled and no
trailing slash — unless it is an `RE:` / `!RE:` pattern, which keeps its slashes -/
theorem normalize_clean (p : List Char) (h : isRe p = false) : cleanFrom false (normalize p) = true := by
  have hre' : (startsWith reP p || startsWith nreP p) = false := by unfold isRe at h; exact h
  rw [normalize_nonre p hre']
  split
  · exact clean_rstrip _ (clean_collapseAux p false)
  · exact clean_collapseAux p false

example : normalize ['a', '\\', '\\', 'b', '/', '/'] = ['a', '/', 'b'] ∧ isRe ['a', '\\', 'b'] = false ∧
    normalize ['R', 'E', ':', 'a', '/', '/', 'b', '/'] = ['R', 'E', ':', 'a', '/', '/', 'b'] := by decide

/-- `*` matches any run of characters, which in full-path mode must not contain `/` -/
theorem star_iff (full : Bool) (ts : List Tok) (s : List Char) :
    matchToks full (.star :: ts) s = true ↔
      ∃ u v, s = u ++ v ∧ (∀ c ∈ u, full = true → c ≠ '/') ∧ matchToks full ts v = true := by
  simp only [matchToks, starLoop_iff, charOk]
  constructor
  · rintro ⟨u, v, hs, hu, hv⟩
    refine ⟨u, v, hs, ?_, hv⟩
    intro c hc hf
    have := hu c hc
    simpa [hf] using this
  · rintro ⟨u, v, hs, hu, hv⟩
    refine ⟨u, v, hs, ?_, hv⟩
    intro c hc
    cases full with
    | false => simp
    | true => simpa using hu c hc rfl

/-- on a subject without `/` the two matching modes agree (so a basename
pattern means the same as the full-path pattern applied to the last component) -/
theorem mode_irrelevant_without_slash (ts : List Tok) (s : List Char) (h : '/' ∉ s) :
    matchToks true ts s = matchToks false ts s := by
  induction ts generalizing s with
  | nil => simp [matchToks]
  | cons t ts ih =>
    cases t with
    | lit c =>
      cases s with
      | nil => simp [matchToks]
      | cons x s => simp only [matchToks]; rw [ih s (fun hm => h (by simp [hm]))]
    | any1 =>
      cases s with
      | nil => simp [matchToks]
      | cons x s =>
        have hx : x ≠ '/' := fun e => h (by simp [e])
        simp only [matchToks, charOk]
        rw [ih s (fun hm => h (by simp [hm]))]
        simp [hx]
    | cls neg items =>
      cases s with
      | nil => simp [matchToks]
      | cons x s => simp only [matchToks]; rw [ih s (fun hm => h (by simp [hm]))]
    | star =>
      simp only [matchToks]
      apply starLoop_congr _ _ _ _ (fun c => c ≠ '/')
      · intro c hc; simp [charOk, hc]
      · intro s' hs'; exact ih s' (fun hm => hs' _ hm rfl)
      · intro c hc e; exact h (e ▸ hc)
    | starstar =>
      simp only [matchToks]
      rw [ih s h, afterSlash_no_slash _ s h, afterSlash_no_slash _ s h]

/-- a pattern containing `/` is a full-path pattern; otherwise `*.…` is an
extension pattern and anything else (not `RE:`) a basename pattern -/
theorem identify_slash_full (p : List Char) :
    ('/' ∈ p → identify p = .full) ∧
    ('/' ∉ p → startsWith reP p = false → startsWith extP p = true → identify p = .ext) ∧
    ('/' ∉ p → startsWith reP p = false → startsWith extP p = false → identify p = .base) := by
  refine ⟨?_, ?_, ?_⟩
  · intro h; simp [identify, h]
  · intro h h1 h2; simp [identify, h, h1, h2]
  · intro h h1 h2; simp [identify, h, h1, h2]

/-! ### non-vacuity -/

-- hypotheses of `group_size_irrelevant_partial`: satisfied with two matching extension patterns
example : extUnambiguous [wB, wAB, ⟨['*', '.', '*'], .ext, [.star]⟩] ['d', '/', 'x', '.', 'b'] = true ∧
    firstInTypeOrder [wB, wAB, ⟨['*', '.', '*'], .ext, [.star]⟩] ['d', '/', 'x', '.', 'b'] = some wB := by decide
-- … and violated exactly in the witness situation
example : extUnambiguous [wAB, wB] ['x', '.', 'a', '.', 'b'] = false := by decide
-- exception hypotheses
example : noEmptySrc [wAB, wB] = true ∧ (∃ p ∈ [wAB, wB], cpMatches p ['x', '.', 'b'] = true) := by decide
example : exceptionMatchO 99 [wB] [wAB] [] ['x', '.', 'a', '.', 'b'] = none ∧
    exceptionMatchO 99 [wB] [wAB] [wB] ['x', '.', 'a', '.', 'b'] = some ['!', '!', '*', '.', 'b'] := by decide
-- the live variant on the historical witness: `*.a.b` is reported for both groupings
example : globsterMatchO 1 [wAB, wB] ['x', '.', 'a', '.', 'b'] = some wAB ∧
    globsterMatchO 2 [wAB, wB] ['x', '.', 'a', '.', 'b'] = some wAB := by decide
-- basename_dir_irrelevant
example : wB.kind ≠ .full ∧ '/' ∉ ['x', '.', 'b'] ∧ cpMatches wB (['d', '/', 'e'] ++ '/' :: ['x', '.', 'b']) = true := by decide
-- the lexer on a full-path pattern: `./**/a*/[!b-c]?`
example : compile ['.', '/', '*', '*', '/', 'a', '*', '/', '[', '!', 'b', '-', 'c', ']', '?'] =
    some ⟨['.', '/', '*', '*', '/', 'a', '*', '/', '[', '!', 'b', '-', 'c', ']', '?'], .full,
      [.starstar, .lit 'a', .star, .lit '/', .cls true [('b', 'c')], .any1]⟩ := by decide
example : matchToks true [.starstar, .lit 'a', .star, .lit '/', .cls true [('b', 'c')], .any1]
    ['x', '/', 'y', '/', 'a', 'b', '/', 'd', 'e'] = true := by decide
example : matchToks true [.star, .lit 'c'] ['a', '/', 'c'] = false ∧
    matchToks false [.star, .lit 'c'] ['a', '/', 'c'] = true := by decide

end BreezyVerif.C48
