import BreezyVerif.Common
import BreezyVerif.Model.C33
/-
C03 / C08 — abstract repository model.

A repository is three finite maps (association lists, first match wins — the
harness always sends distinct keys):

* `revs`  : revision id ↦ (parent ids, metadata token)      (the `revisions` versioned file)
* `invs`  : revision id ↦ inventory = list of entries        (the `inventories` versioned file
             (file id, name token, text revision, content token)   + CHK pages)
* `texts` : (file id, text revision) ↦ content token          (the `texts` versioned file)

An inventory can be present without its revision (a stacked repository holds
the inventories of the parents of its revisions, C08).  A parent id without a
revision record is a ghost of that repository.  Revision ids are naturals ≥ 1
(`0` is `null:` and never occurs as a parent).

`missing` is `InterVersionedFileRepository.search_missing_revision_ids` as the
code behaves when the walk fits one batch
(`_walk_to_common_revisions_batch_size = 50`): the searcher walks the whole
source ancestry of the requested revision (ghosts of the source contribute
nothing), `have_revs` are the walked revisions the target has,
`find_seen_ancestors(have_revs)` (the source-ancestors of those, themselves
included) are excluded.  With `find_ghosts=True` the slow path is used: every
source-present ancestor the target lacks.

`fetch` is `RepoFetcher`: the stream of `GroupCHKStreamSource.get_stream` /
`StreamSource.get_stream` inserted by `StreamSink`: revision records and
inventories of the missing revisions, and the texts of those inventory entries
that occur in no inventory of a boundary parent (a parent of a missing revision
that is not itself missing and whose inventory the source has) — the CHK
`iter_interesting_nodes` filter; `fileids_altered_by_revision_ids` selects the
same keys for histories made by commits.

The ancestry walk is `C33.bfs` (the proved model of vcsgraph's breadth-first
searcher) with an empty stop set.  Core Lean only.
-/
namespace BreezyVerif.C03

open BreezyVerif.C33 (PMap parentsOf parentsL bfs)

abbrev Rev := Nat
abbrev FileId := Nat
abbrev TextKey := FileId × Rev

structure Entry where
  file : FileId
  /-- (path, kind, executable, symlink target) token -/
  name : Nat
  /-- last-changed revision: the text key is `(file, trev)` -/
  trev : Rev
  /-- content token (stands for text_sha1 / text_size) -/
  sha : Nat
  deriving DecidableEq, Repr

def Entry.key (e : Entry) : TextKey := (e.file, e.trev)

structure RevRec where
  parents : List Rev
  /-- committer, timestamp, timezone, message, properties -/
  info : Nat
  deriving DecidableEq, Repr

abbrev Inv := List Entry

structure Repo where
  revs : List (Rev × RevRec)
  invs : List (Rev × Inv)
  texts : List (TextKey × Nat)
  deriving DecidableEq, Repr

/-- dictionary lookup, first match -/
def get {α β : Type} [DecidableEq α] : List (α × β) → α → Option β
  | [], _ => none
  | (k', v) :: rest, k => if k' = k then some v else get rest k

def hasRev (r : Repo) (k : Rev) : Bool := (get r.revs k).isSome

/-- the revision graph of a repository (`get_parent_map`) -/
def graph (r : Repo) : PMap := r.revs.map fun kv => (kv.1, kv.2.parents)

/-- every key reached from `start` by walking parents of present keys; `C33.bfs`
never runs out of fuel (`anc_total`), the `none` branch is unreachable -/
def reach (g : PMap) (start : List Rev) : List Rev :=
  match bfs g start [] with
  | some s => s.seen
  | none => []

/-- the source-present ancestry of `rev`, `rev` included -/
def anc (src : Repo) (rev : Rev) : List Rev := (reach (graph src) [rev]).filter (hasRev src)

/-- `search_missing_revision_ids(revision_ids=[rev], find_ghosts=fg).get_keys()` -/
def missing (fg : Bool) (src tgt : Repo) (rev : Rev) : List Rev :=
  if fg then (anc src rev).filter fun k => !hasRev tgt k
  else
    let have_ := (anc src rev).filter (hasRev tgt)
    let stop := reach (graph src) have_
    (anc src rev).filter fun k => !decide (k ∈ stop)

/-- parents of the revisions to send that are not sent themselves
(`_find_parent_keys_of_revisions`) -/
def boundary (src : Repo) (m : List Rev) : List Rev :=
  (m.flatMap (parentsL (graph src))).filter fun p => !decide (p ∈ m)

/-- `get inv p`, nothing when the inventory is absent ("filter out any excluded
revisions whose inventories are not actually present") -/
def invOrEmpty (r : Repo) (p : Rev) : Inv :=
  match get r.invs p with
  | some i => i
  | none => []

/-- How the stream source chooses the parents whose inventory entries it leaves
out.  `asFound`: every boundary parent whose *inventory* the source has
(`_find_present_inventory_keys`), also when the source does not have the
parent's revision (a parent inventory stored for a ghost parent) — the code at
the pinned commit.  `revisionPresent`: only boundary parents whose revision the
source has (the proposed repair).  The harness probes which one the tree
implements. -/
inductive Exclusion where
  | asFound
  | revisionPresent
  deriving DecidableEq, Repr

def excludedParents (x : Exclusion) (src : Repo) (m : List Rev) : List Rev :=
  match x with
  | .asFound => boundary src m
  | .revisionPresent => (boundary src m).filter (hasRev src)

/-- entries of the excluded parents' inventories: the uninteresting CHK items -/
def excluded (x : Exclusion) (src : Repo) (m : List Rev) : List Entry :=
  (excludedParents x src m).flatMap (invOrEmpty src)

/-- the text keys a stream for `m` carries -/
def streamEntries (x : Exclusion) (src : Repo) (m : List Rev) : List Entry :=
  (m.flatMap (invOrEmpty src)).filter fun e => !decide (e ∈ excluded x src m)

inductive Err where
  | noSuchRevision
  /-- the source lacks an inventory or a text its own revisions need (the real
  stream raises NoSuchRevision / RevisionNotPresent); never produced by the
  harness, modelled so that `fetch = ok` implies the data existed -/
  | sourceIncomplete
  deriving DecidableEq, Repr

/-- can the source produce the stream for `m`? -/
def streamable (x : Exclusion) (src : Repo) (m : List Rev) : Bool :=
  m.all (fun k => (get src.invs k).isSome) &&
    (streamEntries x src m).all fun e => (get src.texts e.key).isSome

/-- what `StreamSink.insert_stream` adds (a key the target already has keeps
its value: existing first in the association list) -/
def copy (x : Exclusion) (src tgt : Repo) (m : List Rev) : Repo :=
  { revs := tgt.revs ++ m.filterMap fun k => (get src.revs k).map fun v => (k, v)
    invs := tgt.invs ++ m.filterMap fun k => (get src.invs k).map fun v => (k, v)
    texts := tgt.texts ++ (streamEntries x src m).filterMap fun e =>
      (get src.texts e.key).map fun c => (e.key, c) }

/-- `get_missing_parent_inventories` + `get_stream_for_missing_keys` (formats
with `supports_external_lookups`): for every parent of a new revision that the
repository `t` does not hold as a revision and whose inventory it lacks, the
source sends the inventory if it has one (no texts). `locals` answers "does the
target hold this revision itself" (for a stacked target: without fallbacks). -/
def parentInvFill (src t : Repo) (m : List Rev) : List (Rev × Inv) :=
  ((m.flatMap (parentsL (graph src))).filter fun p => !hasRev t p && (get t.invs p).isNone).filterMap
    fun p => (get src.invs p).map fun i => (p, i)

def withParentInvs (src t : Repo) (m : List Rev) : Repo :=
  { t with invs := t.invs ++ parentInvFill src t m }

/-- `tgt.fetch(src, revision_id=rev, find_ghosts=fg)`; `ext` = the target format
supports external lookups -/
def fetch (x : Exclusion) (ext fg : Bool) (src tgt : Repo) (rev : Rev) : Except Err Repo :=
  if !hasRev src rev && (fg || !hasRev tgt rev) then .error .noSuchRevision
  else if !streamable x src (missing fg src tgt rev) then .error .sourceIncomplete
  else
    let t := copy x src tgt (missing fg src tgt rev)
    .ok (if ext then withParentInvs src t (missing fg src tgt rev) else t)

/-- the repository after a successful fetch (`none` = the fetch raised) -/
def fetchResult (x : Exclusion) (ext fg : Bool) (src tgt : Repo) (rev : Rev) : Option Repo :=
  match fetch x ext fg src tgt rev with
  | .ok t => some t
  | .error _ => none

def fetchError (x : Exclusion) (ext fg : Bool) (src tgt : Repo) (rev : Rev) : Option Err :=
  match fetch x ext fg src tgt rev with
  | .ok _ => none
  | .error e => some e

/-- what a testament is computed from: revision id, metadata, parents, and per
entry file id, name token and content token (not the text revision) -/
def testament (r : Repo) (k : Rev) : Option (Rev × Nat × List Rev × List (FileId × Nat × Nat)) :=
  match get r.revs k, get r.invs k with
  | some rec, some inv => some (k, rec.info, rec.parents, inv.map fun e => (e.file, e.name, e.sha))
  | _, _ => none

/-! ### hypotheses of the theorems (decidable) -/

/-- the target is ancestry-closed w.r.t. the source: a revision both hold has, in
the target, every parent the source holds (true for every target that was filled
by fetching from repositories without ghosts the source has) -/
def closed (tgt src : Repo) : Bool :=
  src.revs.all fun kv => !hasRev tgt kv.1 || kv.2.parents.all fun p => !hasRev src p || hasRev tgt p

def agreeOn {α β : Type} [DecidableEq α] [DecidableEq β] (a b : List (α × β)) : Bool :=
  b.all fun kv => match get a kv.1 with
    | none => true
    | some v => decide (v = kv.2)

/-- ids identify content: what both repositories hold under one key is equal -/
def agree (src tgt : Repo) : Bool :=
  agreeOn src.revs tgt.revs && agreeOn src.invs tgt.invs && agreeOn src.texts tgt.texts

/-- every revision has its inventory and every text the inventory names
(what `check()` / reading every tree needs) -/
def complete (r : Repo) : Bool :=
  r.revs.all fun kv => match get r.invs kv.1 with
    | none => false
    | some inv => inv.all fun e => (get r.texts e.key).isSome

/-- no inventory without its revision (no stored parent inventory of a ghost) -/
def noOrphanInv (r : Repo) : Bool := r.invs.all fun kv => hasRev r kv.1

/-! ### the revision search as the code performs it for any history length

`_walk_to_common_revisions`: the breadth-first searcher of the source graph is
advanced layer by layer (`next_with_ghosts`) until at least
`_walk_to_common_revisions_batch_size` (`n`, 50 in the code) present revisions
have been collected (or the searcher is exhausted); the target is asked which
of them it has (`have_revs`); `find_seen_ancestors(have_revs)` — everything
*seen so far* that is reachable from them through seen revisions — is stopped
(`stop_searching_any`: recorded as stopped, removed from the current layer, and
the parents that only stopped revisions of the current layer reference are
removed from the next query); then the next batch starts.  The result is
`seen − stopped` (`get_state()`; ghosts of the source are implicit stop points).
With more than one batch the result depends on the layering: a revision the
target lacks that lies behind a revision the target has is left out only if it
had been seen when that revision was checked. -/

open BreezyVerif.C33 (present dedup allKeys)

/-- state of the searcher in `next_with_ghosts` mode -/
structure Walk where
  /-- `searcher.seen` -/
  seen : List Rev
  /-- `searcher._stopped_keys` -/
  stopped : List Rev
  /-- `searcher._current_present` -/
  cur : List Rev
  /-- `searcher._next_query` -/
  next : List Rev
  deriving Repr

/-- one `next_with_ghosts()` (the query is not empty): the query is looked up,
ghosts become stop points, the unseen parents of the found keys are the next query -/
def Walk.layer (g : PMap) (w : Walk) : Walk :=
  { seen := w.seen ++ w.next
    stopped := w.stopped ++ w.next.filter fun k => !present g k
    cur := w.next.filter (present g)
    next := dedup (((w.next.filter (present g)).flatMap (parentsL g)).filter (· ∉ w.seen ++ w.next)) }

/-- the parent map restricted to `seen` keys and `seen` parents -/
def restrict (g : PMap) (seen : List Rev) : PMap :=
  (g.filter fun kv => kv.1 ∈ seen).map fun kv => (kv.1, kv.2.filter (· ∈ seen))

/-- `searcher.find_seen_ancestors(have_)` -/
def seenAnc (g : PMap) (seen have_ : List Rev) : List Rev :=
  reach (restrict g seen) (have_.filter (· ∈ seen))

/-- `searcher.stop_searching_any(stop)` in `next_with_ghosts` mode -/
def Walk.stopAny (g : PMap) (w : Walk) (stop : List Rev) : Walk :=
  { seen := w.seen
    stopped := w.stopped ++ stop
    cur := w.cur.filter (· ∉ stop)
    next := w.next.filter fun p => (w.cur.filter (· ∉ stop)).any fun j => decide (p ∈ parentsL g j) }

/-- the end of one batch: `have_revs = target.get_parent_map(next_revs)`, stop their seen ancestors -/
def Walk.batchEnd (g : PMap) (has : Rev → Bool) (w : Walk) (acc : List Rev) : Walk :=
  w.stopAny g (seenAnc g w.seen (acc.filter has))

/-- the two nested loops of `_walk_to_common_revisions`; `acc` = `next_revs` of the
running batch.  `none` = out of fuel (never with the fuel of `walkB`: `walkB_total`). -/
def walkLoop (g : PMap) (has : Rev → Bool) (n : Nat) : Nat → Walk → List Rev → Option Walk
  | 0, _, _ => none
  | fuel + 1, w, acc =>
    if acc.length < n && !w.next.isEmpty then
      walkLoop g has n fuel (w.layer g) (acc ++ (w.layer g).cur)
    else if acc.length < n then some (w.batchEnd g has acc)      -- left by StopIteration: exhausted
    else walkLoop g has n fuel (w.batchEnd g has acc) []

def walkB (g : PMap) (has : Rev → Bool) (n : Nat) (start : Rev) : Option Walk :=
  walkLoop g has n (2 * (allKeys g [start]).length + 3) ⟨[], [], [], [start]⟩ []

/-- `search_missing_revision_ids(revision_ids=[rev], find_ghosts=fg).get_keys()` with
`_walk_to_common_revisions_batch_size = n` -/
def missingB (n : Nat) (fg : Bool) (src tgt : Repo) (rev : Rev) : List Rev :=
  if fg then missing true src tgt rev
  else match walkB (graph src) (hasRev tgt) n rev with
    | some w => w.seen.filter (· ∉ w.stopped)
    | none => []

/-- Which texts a stream carries.  `filtered x`: the stream sources
(`GroupCHKStreamSource`, `KnitPackStreamSource`, `StreamSource`): the entries of
the sent inventories that occur in no inventory of an excluded boundary parent
(`streamEntries x`).  `perRevision`: `InterDifferingSerializer._fetch_batch`
(local fetch between different serialisers): for every sent revision the
entries that occur in no inventory the source holds of one of ITS parents. -/
inductive StreamKind where
  | filtered (x : Exclusion)
  | perRevision
  deriving DecidableEq, Repr

def streamEntriesP (src : Repo) (m : List Rev) : List Entry :=
  m.flatMap fun k => (invOrEmpty src k).filter fun e =>
    !decide (e ∈ (parentsL (graph src) k).flatMap (invOrEmpty src))

def StreamKind.entries : StreamKind → Repo → List Rev → List Entry
  | .filtered x, src, m => streamEntries x src m
  | .perRevision, src, m => streamEntriesP src m

/-- can the source produce the records of `m` and the texts of `es`? -/
def streamableE (src : Repo) (m : List Rev) (es : List Entry) : Bool :=
  m.all (fun k => (get src.invs k).isSome) && es.all fun e => (get src.texts e.key).isSome

/-- what inserting the records of `m` and the texts of `es` adds -/
def copyE (src tgt : Repo) (m : List Rev) (es : List Entry) : Repo :=
  { revs := tgt.revs ++ m.filterMap fun k => (get src.revs k).map fun v => (k, v)
    invs := tgt.invs ++ m.filterMap fun k => (get src.invs k).map fun v => (k, v)
    texts := tgt.texts ++ es.filterMap fun e => (get src.texts e.key).map fun c => (e.key, c) }

/-- the copy of the revisions `m` with the texts of the entries `es` -/
def fetchWithE (ext : Bool) (src tgt : Repo) (m : List Rev) (es : List Entry) : Except Err Repo :=
  if !streamableE src m es then .error .sourceIncomplete
  else .ok (if ext then withParentInvs src (copyE src tgt m es) m else copyE src tgt m es)

/-- `tgt.fetch(src, revision_id=rev, find_ghosts=fg)` for any history length
(`n` = `_walk_to_common_revisions_batch_size`) and either kind of copy -/
def fetchB (n : Nat) (s : StreamKind) (ext fg : Bool) (src tgt : Repo) (rev : Rev) : Except Err Repo :=
  if !hasRev src rev && (fg || !hasRev tgt rev) then .error .noSuchRevision
  else fetchWithE ext src tgt (missingB n fg src tgt rev) (s.entries src (missingB n fg src tgt rev))

/-- a sequence of fetches `(rev, find_ghosts)` from one source; a fetch that raises leaves the target as it was -/
def fetchSeq (n : Nat) (s : StreamKind) (ext : Bool) (src : Repo) : Repo → List (Rev × Bool) → Repo
  | t, [] => t
  | t, (rev, fg) :: rest =>
    match fetchB n s ext fg src t rev with
    | .ok t' => fetchSeq n s ext src t' rest
    | .error _ => fetchSeq n s ext src t rest

def emptyRepo : Repo := ⟨[], [], []⟩

/-! ### per-file history

Every text record carries its per-file parents (the versioned file's graph:
`texts.get_parent_map`).  `RepoH` adds that map; the stream carries a text
record with its parents, `insert_record_stream` stores them as sent. -/

structure RepoH where
  repo : Repo
  /-- (file id, text revision) ↦ revisions of the per-file parents (same file id) -/
  tpar : List (TextKey × List Rev)
  deriving DecidableEq, Repr

/-- copy the values of the entries' keys, existing keys keep their value -/
def copyMap {β : Type} (sm tm : List (TextKey × β)) (es : List Entry) : List (TextKey × β) :=
  tm ++ es.filterMap fun e => (get sm e.key).map fun c => (e.key, c)

/-- every text has a per-file-parents record (one versioned-file record holds both) -/
def textsHaveParents (r : RepoH) : Bool := r.repo.texts.all fun kv => (get r.tpar kv.1).isSome

def fetchWithH (ext : Bool) (src tgt : RepoH) (m : List Rev) (es : List Entry) : Except Err RepoH :=
  match fetchWithE ext src.repo tgt.repo m es with
  | .error e => .error e
  | .ok t => .ok ⟨t, copyMap src.tpar tgt.tpar es⟩

def fetchBH (n : Nat) (s : StreamKind) (ext fg : Bool) (src tgt : RepoH) (rev : Rev) : Except Err RepoH :=
  if !hasRev src.repo rev && (fg || !hasRev tgt.repo rev) then .error .noSuchRevision
  else fetchWithH ext src tgt (missingB n fg src.repo tgt.repo rev)
    (s.entries src.repo (missingB n fg src.repo tgt.repo rev))

/-- a decidable witness of acyclicity: `d` strictly decreases from every revision to its parents
(for real histories: any topological numbering, e.g. the position in commit order) -/
def acyclicBy (d : Rev → Nat) (r : Repo) : Bool :=
  r.revs.all fun kv => kv.2.parents.all fun p => decide (d p < d kv.1)

/-- what the copy theorems need of the source for a kind of stream: the stream
sources must not meet a stored inventory of a ghost parent (or be the repaired
variant); the per-revision copy needs that and an acyclic history (`d`) -/
def kindOK (s : StreamKind) (d : Rev → Nat) (src : Repo) : Bool :=
  match s with
  | .filtered x => decide (x = .revisionPresent) || noOrphanInv src
  | .perRevision => noOrphanInv src && acyclicBy d src

end BreezyVerif.C03
