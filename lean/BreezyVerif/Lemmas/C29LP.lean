import BreezyVerif.Lemmas.C29Basic
/-! LengthPrefixedBodyDecoder: segmentation independence and round trip -/
namespace BreezyVerif.C29

theorem isPrefixOf_length {p t : Bytes} (h : p.isPrefixOf t = true) : p.length ≤ t.length := by
  rw [List.isPrefixOf_iff_prefix] at h
  exact h.length_le

theorem isPrefixOf_append_right {p t : Bytes} (u : Bytes) (h : p.isPrefixOf t = true) :
    p.isPrefixOf (t ++ u) = true := by
  rw [List.isPrefixOf_iff_prefix] at h ⊢
  exact h.trans (List.prefix_append t u)

/-- a prefix of `t ++ u` no longer than `t` is a prefix of `t` -/
theorem isPrefixOf_of_append {p t u : Bytes} (h : p.isPrefixOf (t ++ u) = true)
    (hl : p.length ≤ t.length) : p.isPrefixOf t = true := by
  rw [List.isPrefixOf_iff_prefix] at h ⊢
  exact List.prefix_of_prefix_length_le h (List.prefix_append t u) hl

namespace LP

theorem feed_eL (buf x : Bytes) : feed (.expectingLength buf) x = lengthStep (buf ++ x) := rfl
theorem feed_rB (l : Nat) (bd x : Bytes) : feed (.readingBody l bd) x = bodyStep l bd x := rfl
theorem feed_rT (bd t x : Bytes) : feed (.readingTrailer bd t) x = trailerStep bd (t ++ x) := rfl
theorem feed_done (bd u x : Bytes) : feed (.done bd u) x = .done bd (u ++ x) := rfl
theorem feed_failed (x : Bytes) : feed .failed x = .failed := rfl

theorem feed_trailerStep (bd t y : Bytes) :
    feed (trailerStep bd t) y = trailerStep bd (t ++ y) := by
  unfold trailerStep
  by_cases h : doneMarker.isPrefixOf t = true
  · have h' := isPrefixOf_append_right y h
    have hl : 5 ≤ t.length := isPrefixOf_length h
    simp only [h, h', if_true, feed]
    rw [List.drop_append_of_le_length hl]
  · simp only [h, feed]
    rfl

theorem feed_bodyStep (l : Nat) (bd x y : Bytes) :
    feed (bodyStep l bd x) y = bodyStep l bd (x ++ y) := by
  unfold bodyStep
  by_cases h : l ≤ x.length
  · have h' : l ≤ (x ++ y).length := by simp; omega
    simp only [h, h', if_true, feed_trailerStep]
    rw [List.take_append_of_le_length h, List.drop_append_of_le_length h]
  · have hx : x.length ≤ l := by omega
    simp only [h, if_false, feed, bodyStep]
    simp only [List.length_append, List.take_append, List.drop_append,
      List.take_of_length_le hx, List.drop_of_length_le hx, List.nil_append, List.append_assoc]
    by_cases h2 : l - x.length ≤ y.length
    · have : l ≤ x.length + y.length := by omega
      simp [h2, this]
    · have : ¬ l ≤ x.length + y.length := by omega
      simp only [h2, this, if_false]
      congr 1; omega

theorem feed_lengthStep (b y : Bytes) : feed (lengthStep b) y = lengthStep (b ++ y) := by
  unfold lengthStep
  cases h : splitLine b with
  | none => simp only [feed]; rfl
  | some lr =>
    obtain ⟨line, rest⟩ := lr
    rw [splitLine_append_some y h]
    simp only
    cases parseNat 10 line with
    | none => rfl
    | some n => exact feed_bodyStep n [] rest y

/-- one `accept_bytes(a ++ b)` ≡ `accept_bytes(a); accept_bytes(b)` — equality of the whole state -/
theorem feed_append (s : LP) (a b : Bytes) : feed (feed s a) b = feed s (a ++ b) := by
  cases s with
  | expectingLength buf => rw [feed_eL, feed_lengthStep, feed_eL, List.append_assoc]
  | readingBody l bd => rw [feed_rB, feed_bodyStep, feed_rB]
  | readingTrailer bd t => rw [feed_rT, feed_trailerStep, feed_rT, List.append_assoc]
  | done bd u => rw [feed_done, feed_done, feed_done, List.append_assoc]
  | failed => rfl

theorem feed_nil_done (bd u : Bytes) : feed (.done bd u) [] = .done bd u := by simp [feed]

theorem trailerStep_done (bd rest : Bytes) : trailerStep bd (doneMarker ++ rest) = .done bd rest := by
  unfold trailerStep
  have : doneMarker.isPrefixOf (doneMarker ++ rest) = true := by
    rw [List.isPrefixOf_iff_prefix]; exact List.prefix_append _ _
  simp only [this, if_true]
  rfl

theorem feed_init_encode (body rest : Bytes) :
    feed init (lpEncode body ++ rest) = .done body rest := by
  have hw : lpEncode body ++ rest
      = natDigits 10 body.length ++ 10 :: (body ++ (doneMarker ++ rest)) := by
    simp [lpEncode]
  rw [hw]
  simp only [init, feed, List.nil_append, lengthStep]
  rw [splitLine_of_notMem _ (natDigits_notMem (by omega) (by omega) _ 10 (by simp))]
  simp only [parseNat_natDigits (base := 10) (by omega) (by omega)]
  unfold bodyStep
  simp only [List.length_append, Nat.le_add_right, if_true, List.nil_append,
    List.take_left', List.drop_left']
  exact trailerStep_done body rest

/-- draining `_body` between reads does not change what is decoded afterwards:
the body is a write-only accumulator -/
theorem drain_feed (s : LP) (x : Bytes) :
    (drain (feed (drain s).2 x)).2 = (drain (feed s x)).2 ∧
    (drain s).1 ++ (drain (feed (drain s).2 x)).1 = (drain (feed s x)).1 := by
  cases s with
  | expectingLength buf => simp [drain]
  | readingBody l bd =>
    simp only [drain, feed, bodyStep, trailerStep]
    by_cases h1 : l ≤ x.length
    · by_cases h2 : doneMarker.isPrefixOf (x.drop l) = true <;> simp [h1, h2, drain]
    · simp [h1, drain]
  | readingTrailer bd t =>
    simp only [drain, feed, trailerStep]
    by_cases h2 : doneMarker.isPrefixOf (t ++ x) = true <;> simp [h2, drain]
  | done bd u => simp [drain, feed]
  | failed => simp [drain, feed]

end LP

/-- generic: feeding reads one by one equals feeding their concatenation -/
theorem feedAll_eq_of_append {S : Type} (feed : S → Bytes → S)
    (happ : ∀ s a b, feed (feed s a) b = feed s (a ++ b))
    (s : S) (x : Bytes) (segs : List Bytes) :
    feedAll feed (feed s x) segs = feed s (x ++ segs.flatten) := by
  induction segs generalizing x with
  | nil => simp [feedAll]
  | cons a rest ih =>
    simp only [feedAll, List.flatten_cons]
    rw [happ, ih, List.append_assoc]

end BreezyVerif.C29
