import BreezyVerif.Model.C39
import BreezyVerif.Lemmas.C39Apply
import BreezyVerif.Lemmas.C39Sound
import BreezyVerif.Lemmas.C39Text
import BreezyVerif.Lemmas.C39Header
import BreezyVerif.Lemmas.C39Parse
import BreezyVerif.Lemmas.C39Wf
/-!
C39 — theorems.  For all texts `a b` (lists of byte-string lines), all grouped
opcode lists `gs` satisfying the decidable predicate `validGroups a b gs`
(checked at run time on what the real matcher returned, for every context
size), all hunk lists, all old texts.  No bound on sizes other than the i32
range of the header numbers.
-/
namespace BreezyVerif.C39

/-- the hunks breezy builds from valid grouped opcodes turn the old text into the new text -/
theorem apply_mkhunks (a b : List Line) (gs : List Group) (hv : validGroups a b gs = true) :
    ∃ hs, mkHunks a b gs = some hs ∧ applyHunks a hs = .ok b := by
  obtain ⟨hs, hm, happ⟩ := apply_groups a b gs 0 0 hv
  refine ⟨fixFirst a b hs, by simp [mkHunks, hm], ?_⟩
  unfold applyHunks
  rw [applyFrom_fixFirst]
  simpa using happ

/-- parsing the text `internal_diff` writes gives back exactly the hunks it was
written from (covers `\ No newline at end of file`, empty old/new text with the
`-0,0` / `+0,0` work-around, any context size) -/
theorem parse_diff_text (a b : List Line) (gs : List Group) (hv : validGroups a b gs = true)
    (hla : a.length < 2147483647) (hlb : b.length < 2147483647)
    (hs : List Hunk) (hm : mkHunks a b gs = some hs) (hne : hs ≠ []) :
    parsePatch (diffLines hs) = .ok hs := by
  simp only [mkHunks, Option.map_eq_some_iff] at hm
  obtain ⟨hs0, hm0, rfl⟩ := hm
  have hw := (groups_wf a b gs 0 0 hla hlb (Nat.zero_le _) (Nat.zero_le _) hv hs0 hm0).1
  have hf := fixFirst_props a b hs0 (fun h hh => ⟨(hw h hh).1, (hw h hh).2.1⟩)
  exact parsePatch_diffLines _ hne hf.1

/-- end to end on the text: breezy's patcher applied to breezy's diff gives the new text;
and there is no diff exactly when the groups are empty, in which case the texts are equal -/
theorem diff_text_applies (a b : List Line) (gs : List Group) (hv : validGroups a b gs = true)
    (hla : a.length < 2147483647) (hlb : b.length < 2147483647) :
    ∃ hs, mkHunks a b gs = some hs ∧
      (hs ≠ [] → iterPatched a (diffLines hs) = .ok b) ∧ (hs = [] → a = b) := by
  obtain ⟨hs, hm, happ⟩ := apply_mkhunks a b gs hv
  refine ⟨hs, hm, ?_, ?_⟩
  · intro hne
    unfold iterPatched
    rw [parse_diff_text a b gs hv hla hlb hs hm hne]
    simp only [happ]
  · intro he
    subst he
    simpa [applyHunks, applyFrom] using happ

/-- a parsed / built patch re-serialised with `Patch.as_bytes()` parses to the same hunks -/
theorem serialise_parse_hunks (hs : List Hunk) (hwf : ∀ h ∈ hs, wfHunk h = true) :
    parsePatch (patchLines hs) = .ok hs :=
  parsePatch_patchLines hs hwf

/-- in particular for breezy's own diff: text → hunks → `as_bytes()` → the same hunks -/
theorem diff_reserialises (a b : List Line) (gs : List Group) (hv : validGroups a b gs = true)
    (hla : a.length < 2147483647) (hlb : b.length < 2147483647)
    (hs : List Hunk) (hm : mkHunks a b gs = some hs) (hne : hs ≠ []) :
    parsePatch (patchLines hs) = parsePatch (diffLines hs) := by
  rw [parse_diff_text a b gs hv hla hlb hs hm hne]
  simp only [mkHunks, Option.map_eq_some_iff] at hm
  obtain ⟨hs0, hm0, rfl⟩ := hm
  have hw := (groups_wf a b gs 0 0 hla hlb (Nat.zero_le _) (Nat.zero_le _) hv hs0 hm0).1
  have hf := fixFirst_props a b hs0 (fun h hh => ⟨(hw h hh).1, (hw h hh).2.1⟩)
  exact parsePatch_patchLines _ (fun h hh => (hf.1 h hh).1)

/-- the marker mechanism is lossless: writing lines (with the marker after a
line without newline) and reading them with `iter_lines_handle_nl` is the identity -/
theorem no_newline_marker_roundtrip (ls : List Bytes) (hc : ∀ l ∈ ls, carriable l = true) :
    handleNl (ls.flatMap writeLine) = .ok ls :=
  handleNl_written ls hc

/-- **partial**: insert/remove statistics balance the text lengths and the hunk
count is the group count.  Missing for the full statement ("equal the changed
line counts"): that the grouped opcodes contain exactly the lines outside the
matcher's matching blocks — a property of the external matcher's
`get_grouped_opcodes`, which is checked per case at run time (`grouped`, and the
oracle compares `stats_values()` with the matching blocks directly). -/
theorem stats_balance_partial (a b : List Line) (gs : List Group) (hv : validGroups a b gs = true)
    (hla : a.length < 2147483647) (hlb : b.length < 2147483647)
    (hs : List Hunk) (hm : mkHunks a b gs = some hs) :
    (stats hs).1 + a.length = (stats hs).2.1 + b.length ∧ (stats hs).2.2 = gs.length := by
  simp only [mkHunks, Option.map_eq_some_iff] at hm
  obtain ⟨hs0, hm0, rfl⟩ := hm
  obtain ⟨hw, bal, len⟩ := groups_wf a b gs 0 0 hla hlb (Nat.zero_le _) (Nat.zero_le _) hv hs0 hm0
  have hf := fixFirst_props a b hs0 (fun h hh => ⟨(hw h hh).1, (hw h hh).2.1⟩)
  rw [stats_eq]
  simp only [hf.2.1, hf.2.2.1, hf.2.2.2.1]
  exact ⟨by simpa using bal, len⟩

/-- exact characterisation of a successful application: the output is `ok` iff the
old text is `pre ++ (hunk's old side) ++ rest'` at the hunk's position, and then the
output is `pre ++ (hunk's new side) ++ …` — never anything else -/
theorem apply_ok_iff (ln : Nat) (rest : List Line) (h : Hunk) (hs : List Hunk) (out : List Line) :
    applyFrom ln rest (h :: hs) = .ok out ↔
      ∃ pre rest' out', pre.length = h.origPos - ln ∧ rest = pre ++ oldSide h.lines ++ rest' ∧
        applyFrom (ln + pre.length + (oldSide h.lines).length) rest' hs = .ok out' ∧
        out = pre ++ newSide h.lines ++ out' :=
  applyFrom_ok_iff ln rest h hs out

/-- a text that does not carry the hunk's context/removed lines at the hunk's
position is never patched: the result is an error (conflict or exhausted) -/
theorem apply_conflict_on_mismatch (ln : Nat) (rest : List Line) (h : Hunk) (hs : List Hunk)
    (hmis : ¬ (oldSide h.lines <+: rest.drop (h.origPos - ln))) :
    ∀ out, applyFrom ln rest (h :: hs) ≠ .ok out := by
  intro out hok
  obtain ⟨pre, rest', out', h1, h2, _, _⟩ := (applyFrom_ok_iff ln rest h hs out).mp hok
  apply hmis
  rw [h2, ← h1, List.append_assoc, List.drop_left]
  exact List.prefix_append _ _

/-! non-vacuity -/

/-- `a b` ↦ `a c` with one group `equal 0..1, replace 1..2` is a valid input -/
example : validGroups [[97, 10], [98, 10]] [[97, 10], [99, 10]]
    [[⟨.equal, 0, 1, 0, 1⟩, ⟨.replace, 1, 2, 1, 2⟩]] = true := by decide
/-- empty old text, and a last line without newline -/
example : validGroups [] [[120]] [[⟨.insert, 0, 0, 0, 1⟩]] = true := by decide
example : wfHunk ⟨1, 2, 1, 2, none, [.ctx [97, 10], .rem [98, 10], .ins [99]]⟩ = true := by decide
example : carriable [32, 97] = true ∧ carriable noNl = false := by decide
example : ¬ (oldSide [HLine.ctx [97, 10]] <+: ([[120, 10]] : List Line).drop (1 - 1)) := by decide

end BreezyVerif.C39
