import BreezyVerif.Model.C17
import BreezyVerif.Lemmas.C17
import BreezyVerif.Props.C18
/-!
C17 — the four three-way merge laws, for all trees (functions `Id → Option
Entry`, no bound on the number of ids), lifted from per-entry lemmas by
extensionality over ids.  "No conflicts" = no attribute-level conflict at any
id, and the merged tree is the stated well-formed tree (so the file-system
conflict pass has nothing to act on).
-/
namespace BreezyVerif.C17
open BreezyVerif.C18 (threeWay Winner)

/-- per-entry normal form of inventories: non-files are never executable -/
def EntryNorm (e : Option Entry) : Prop := ∀ x, e = some x → x.kind ≠ .file → x.exec = false

/-! ### per-entry lemmas -/

theorem mergeEntry_other_eq_base (b t : Option Entry) : mergeEntry b t b = ⟨t, []⟩ := by
  simp [mergeEntry]

theorem mergeEntry_this_eq_base (b o : Option Entry) (hn : EntryNorm o) :
    mergeEntry b b o = ⟨o, []⟩ := by
  by_cases hob : o = b
  · subst hob; simp [mergeEntry]
  · cases b with
    | none =>
      cases o with
      | none => exact absurd rfl hob
      | some oe =>
        have := hn oe rfl
        obtain ⟨p, n, k, c, x⟩ := oe
        cases k <;> simp_all [mergeEntry, namesStep, namesOn, contentsStep, contentsOn, execStep, execOn, assemble, threeWay, overrideAbsent, pick, pairOf]
    | some be =>
      cases o with
      | none => simp [mergeEntry, namesStep, namesOn, contentsStep, contentsOn, execStep, execOn, assemble, threeWay, overrideAbsent, pick, pairOf]
      | some oe =>
        have := hn oe rfl
        obtain ⟨p, n, k, c, x⟩ := oe
        obtain ⟨p', n', k', c', x'⟩ := be
        simp only [mergeEntry, namesStep, namesOn, contentsStep, contentsOn, execStep, execOn, assemble, hob, if_false, threeWay, overrideAbsent, pick, pairOf, Option.map_some,
          Option.isNone_some, Bool.false_and, Option.some.injEq]
        by_cases h1 : n' = n <;> by_cases h2 : p' = p <;> by_cases h3 : (k, c) = (k', c') <;>
          by_cases h4 : x' = x <;> cases k <;> simp_all <;> grind

theorem mergeEntry_same (b t : Option Entry) (hn : EntryNorm t) :
    mergeEntry b t t = ⟨t, []⟩ := by
  by_cases hob : t = b
  · subst hob; simp [mergeEntry]
  · cases t with
    | none => cases b <;> simp_all [mergeEntry, namesStep, namesOn, contentsStep, contentsOn, execStep, execOn, assemble, threeWay, overrideAbsent, pick, pairOf]
    | some te =>
      have := hn te rfl
      obtain ⟨p, n, k, c, x⟩ := te
      cases b with
      | none => cases k <;> simp_all [mergeEntry, namesStep, namesOn, contentsStep, contentsOn, execStep, execOn, assemble, threeWay, overrideAbsent, pick, pairOf]
      | some be =>
        obtain ⟨p', n', k', c', x'⟩ := be
        simp only [mergeEntry, namesStep, namesOn, contentsStep, contentsOn, execStep, execOn, assemble, hob, if_false, threeWay, overrideAbsent, pick, pairOf, Option.map_some,
          Option.isNone_some, Bool.false_and, Option.some.injEq]
        by_cases h1 : n' = n <;> by_cases h2 : p' = p <;> by_cases h3 : (k, c) = (k', c') <;>
          by_cases h4 : x' = x <;> cases k <;> simp_all <;> grind

/-! ### the four laws -/

/-- OTHER = BASE ⇒ the merge leaves THIS unchanged, without conflicts -/
theorem merge_other_eq_base (base this : Tree) :
    merge3 base this base = this ∧ ∀ i, conflictsAt base this base i = [] := by
  constructor
  · funext i; simp [merge3, mergeEntry_other_eq_base]
  · intro i; simp [conflictsAt, mergeEntry_other_eq_base]

/-- THIS = BASE ⇒ the merged tree is OTHER, without conflicts -/
theorem merge_this_eq_base (base other : Tree) (hn : ExecNorm other) :
    merge3 base base other = other ∧ ∀ i, conflictsAt base base other i = [] := by
  have h : ∀ i, mergeEntry (base i) (base i) (other i) = ⟨other i, []⟩ := fun i =>
    mergeEntry_this_eq_base _ _ (fun x hx => hn i x hx)
  constructor
  · funext i; simp [merge3, h]
  · intro i; simp [conflictsAt, h]

/-- both sides made identical changes ⇒ result is THIS (= OTHER), without conflicts -/
theorem merge_identical (base this : Tree) (hn : ExecNorm this) :
    merge3 base this this = this ∧ ∀ i, conflictsAt base this this i = [] := by
  have h : ∀ i, mergeEntry (base i) (this i) (this i) = ⟨this i, []⟩ := fun i =>
    mergeEntry_same _ _ (fun x hx => hn i x hx)
  constructor
  · funext i; simp [merge3, h]
  · intro i; simp [conflictsAt, h]

/-- the two sides change disjoint sets of ids ⇒ the result is the union of both
change sets, without conflicts -/
theorem merge_disjoint (base this other : Tree) (hn : ExecNorm other)
    (hd : ∀ i, this i = base i ∨ other i = base i) :
    merge3 base this other = union base this other ∧ ∀ i, conflictsAt base this other i = [] := by
  have h : ∀ i, mergeEntry (base i) (this i) (other i) = ⟨union base this other i, []⟩ := by
    intro i
    unfold union
    by_cases ho : other i = base i
    · simp [ho, mergeEntry_other_eq_base]
    · have ht : this i = base i := (hd i).resolve_right ho
      simp only [ho, if_false, ht]
      exact mergeEntry_this_eq_base _ _ (fun x hx => hn i x hx)
  constructor
  · funext i; simp [merge3, h]
  · intro i; simp [conflictsAt, h]

/-- hence the file-system conflict pass has nothing to do whenever the union is well-formed -/
theorem merge_disjoint_wf (ids : List Id) (base this other : Tree) (hn : ExecNorm other)
    (hd : ∀ i, this i = base i ∨ other i = base i) (hw : wf ids (union base this other) = true) :
    wf ids (merge3 base this other) = true := by
  rw [(merge_disjoint base this other hn hd).1]; exact hw

/-- the union takes every change of either side: ids changed by OTHER carry
OTHER's entry, ids changed by THIS carry THIS's entry, untouched ids BASE's -/
theorem union_spec (base this other : Tree) (hd : ∀ i, this i = base i ∨ other i = base i) (i : Id) :
    (other i ≠ base i → union base this other i = other i) ∧
    (this i ≠ base i → union base this other i = this i) ∧
    (this i = base i → other i = base i → union base this other i = base i) := by
  unfold union
  refine ⟨fun h => by simp [h], fun h => ?_, fun h1 h2 => by simp [h1, h2]⟩
  have : other i = base i := (hd i).resolve_left h
  simp [this]

/-- the laws are not vacuous and the hypotheses matter: when both sides change
the same entry differently the merge reports a conflict -/
theorem conflict_witness :
    (mergeEntry (some ⟨some 0, 1, .file, 1, false⟩) (some ⟨some 0, 2, .file, 1, false⟩)
      (some ⟨some 0, 3, .file, 1, false⟩)).conflicts = [.path] ∧
    (mergeEntry (some ⟨some 0, 1, .file, 1, false⟩) none (some ⟨some 0, 1, .file, 2, false⟩)).conflicts
      = [.contents] := by decide

/-! non-vacuity examples -/
example : ∃ base this other : Tree, ExecNorm other ∧ (∀ i, this i = base i ∨ other i = base i) ∧
    this ≠ base ∧ other ≠ base := by
  refine ⟨fun i => if i = 0 then some ⟨none, 0, .dir, 0, false⟩ else if i = 1 then some ⟨some 0, 1, .file, 1, false⟩ else none,
          fun i => if i = 0 then some ⟨none, 0, .dir, 0, false⟩ else if i = 1 then some ⟨some 0, 2, .file, 1, false⟩ else none,
          fun i => if i = 0 then some ⟨none, 0, .dir, 0, false⟩ else if i = 1 then some ⟨some 0, 1, .file, 1, false⟩
                   else if i = 2 then some ⟨some 0, 3, .file, 7, true⟩ else none, ?_, ?_, ?_, ?_⟩
  · intro i e h hk
    by_cases h0 : i = 0 <;> by_cases h1 : i = 1 <;> by_cases h2 : i = 2 <;> simp_all <;> (subst h; simp_all)
  · intro i
    by_cases h0 : i = 0 <;> by_cases h1 : i = 1 <;> by_cases h2 : i = 2 <;> simp_all
  · intro h; have := congrFun h 1; simp at this
  · intro h; have := congrFun h 2; simp at this

/-! ### the loop body of `_compute_transform` on `_entries3` triples, and copies -/

/-- refinement: on the triples read off three entries of one file (an element
that `iter_changes(other vs base)` reports: `o ≠ b`), the literal loop body is
the per-entry function the laws are proved about -/
theorem mergeChange_ofEntries (b o t : Option Entry) (h : o ≠ b) (tc : Option Entry := none) :
    mergeChange (Change.ofEntries b o t false tc) = mergeEntry b t o := by
  unfold mergeChange mergeEntry
  simp only [normCopy_ofEntries_false, namesStepC_ofEntries, contentsStepC_ofEntries, execStepC_ofEntries, h,
    if_false]

/-- a COPY reported by `iter_changes` (git trees: OTHER's entry `oe` at the new
path, paired with a source file whose entries in BASE and THIS are `sb`, `st`)
is merged as an ADD of `oe` against whatever THIS has, versioned, at the copy's
own path (`tc`): the attributes of the copy source play no part -/
theorem mergeChange_copied_general (sb st tc : Option Entry) (oe : Entry) :
    mergeChange (Change.ofEntries sb (some oe) st true tc) = mergeEntry none tc (some oe) := by
  have h0 : mergeChange (Change.ofEntries sb (some oe) st true tc)
      = mergeChange (Change.ofEntries none (some oe) tc false) := by
    unfold mergeChange
    simp only [normCopy_ofEntries_copied, normCopy_ofEntries_false]
  rw [h0, mergeChange_ofEntries none (some oe) tc (by simp)]

/-- THIS has nothing at the copy's path: the merged file is OTHER's entry — its own parent, name,
kind, content and executable bit — and no conflict is reported -/
theorem mergeChange_copied (sb st : Option Entry) (oe : Entry) (hn : EntryNorm (some oe)) :
    mergeChange (Change.ofEntries sb (some oe) st true none) = ⟨some oe, []⟩ := by
  rw [mergeChange_copied_general]
  exact mergeEntry_this_eq_base none (some oe) hn

/-- THIS already has the very same file at the copy's path (both sides made the copy): unchanged, no conflict -/
theorem mergeChange_copied_same (sb st : Option Entry) (oe : Entry) (hn : EntryNorm (some oe)) :
    mergeChange (Change.ofEntries sb (some oe) st true (some oe)) = ⟨some oe, []⟩ := by
  rw [mergeChange_copied_general]
  exact mergeEntry_same none (some oe) hn

/-- THIS has a DIFFERENT file at the copy's path: it is not silently overwritten — a text merge /
contents conflict is reported (the defect repaired by 2bc6965+a2e75d3) -/
theorem mergeChange_copied_clash_witness :
    (mergeChange (Change.ofEntries (some ⟨some 0, 1, .file, 1, false⟩) (some ⟨some 0, 2, .file, 1, false⟩)
        (some ⟨some 0, 1, .file, 1, false⟩) true (some ⟨some 0, 2, .file, 7, false⟩))).conflicts = [.textMerge] := by
  decide

/-- the `changed` flag of an element (git: any mode or blob change; bzr: text or
kind change) only matters when OTHER's kind+content differs from BASE's: so
reading it off the entries (`Change.ofEntries`) loses nothing -/
theorem mergeChange_changed_irrelevant (c : Change) (hc : c.copied = false) (h : c.pairs3.other = c.pairs3.base) :
    mergeChange { c with changed := true } = mergeChange { c with changed := false } := by
  unfold mergeChange
  simp only [normCopy, hc, Bool.false_eq_true, if_false, contentsStepC, namesStepC, execStepC, namesStepW, execStepW, h,
    if_true, contentsOnP]

example : (⟨true, ⟨some (.file, 1), some (.file, 1), some (.file, 2)⟩, ⟨some (some 0), some (some 0), some (some 0)⟩,
    ⟨some 1, some 1, some 1⟩, ⟨some false, some true, some false⟩, false, none⟩ : Change).pairs3.other = some (.file, 1) := rfl

/-- the copy normalisation matters: without it a copy whose source THIS has
modified would be merged against the source (here: a text merge of the copy
with the source's edit and the source's executable bit in play) -/
theorem copy_without_normalisation_witness :
    (mergeChangeRaw (Change.ofEntries (some ⟨some 0, 1, .file, 1, true⟩) (some ⟨some 0, 2, .file, 1, false⟩)
        (some ⟨some 0, 1, .file, 3, true⟩) true)) ≠ ⟨some ⟨some 0, 2, .file, 1, false⟩, []⟩ ∧
    (mergeChange (Change.ofEntries (some ⟨some 0, 1, .file, 1, true⟩) (some ⟨some 0, 2, .file, 1, false⟩)
        (some ⟨some 0, 1, .file, 3, true⟩) true)) = ⟨some ⟨some 0, 2, .file, 1, false⟩, []⟩ := by decide

example : EntryNorm (some ⟨some 0, 2, .file, 1, true⟩) := by
  intro x hx hk; cases hx; simp at hk

/-! ### attribute-wise disjoint changes (relationship A5) -/

/-- both sides keep the file and, attribute by attribute (name, parent,
kind+content, executable bit), at most one side changed it -/
def AttrDisjoint (be te oe : Entry) : Prop :=
  (te.name = be.name ∨ oe.name = be.name) ∧ (te.parent = be.parent ∨ oe.parent = be.parent) ∧
  ((te.kind, te.content) = (be.kind, be.content) ∨ (oe.kind, oe.content) = (be.kind, be.content)) ∧
  (te.exec = be.exec ∨ oe.exec = be.exec)

/-- every attribute from the side that changed it (`sel b t o = if o = b then t else o`) -/
def attrUnion (be te oe : Entry) : Entry :=
  let kc := sel (be.kind, be.content) (te.kind, te.content) (oe.kind, oe.content)
  ⟨sel be.parent te.parent oe.parent, sel be.name te.name oe.name, kc.1, kc.2,
   if kc.1 = .file then sel be.exec te.exec oe.exec else false⟩

/-- THIS renames / moves / chmods / edits a file and OTHER changes OTHER
attributes of the same file: every attribute is taken from the side that
changed it, without conflicts -/
theorem mergeEntry_attr_disjoint (be te oe : Entry) (hnt : EntryNorm (some te))
    (hd : AttrDisjoint be te oe) :
    mergeEntry (some be) (some te) (some oe) = ⟨some (attrUnion be te oe), []⟩ := by
  obtain ⟨h1, h2, h3, h4⟩ := hd
  by_cases hob : oe = be
  · subst hob
    have ht := hnt te rfl
    obtain ⟨p, n, k, c, x⟩ := te
    cases k <;> simp_all [mergeEntry, attrUnion, sel]
  · have hob' : ¬ (some oe = some be) := fun e => hob (Option.some.inj e)
    obtain ⟨st, hst, hc⟩ := contentsStep_one_side be te oe h3
    simp only [mergeEntry, hob', if_false, namesStep_one_side be te oe h1 h2, hc,
      execStep_one_side be te oe h4, List.append_nil]
    cases st <;> simp_all [assemble, attrUnion]

/-- per id: one side left the entry alone, or both keep it and changed different attributes -/
def AttrDisjointAt (b t o : Option Entry) : Prop :=
  t = b ∨ o = b ∨ ∃ be te oe, b = some be ∧ t = some te ∧ o = some oe ∧ AttrDisjoint be te oe

def attrUnionAt (b t o : Option Entry) : Option Entry :=
  if o = b then t else if t = b then o else
    match b, t, o with
    | some be, some te, some oe => some (attrUnion be te oe)
    | _, _, _ => none

/-- tree level: per id, one side left the entry alone or the two sides changed
different attributes of it ⇒ the merged tree takes every change of either side,
without conflicts (generalises `merge_disjoint` to attribute granularity) -/
theorem merge_attr_disjoint (base this other : Tree) (hnt : ExecNorm this) (hno : ExecNorm other)
    (hd : ∀ i, AttrDisjointAt (base i) (this i) (other i)) :
    merge3 base this other = (fun i => attrUnionAt (base i) (this i) (other i)) ∧
      ∀ i, conflictsAt base this other i = [] := by
  have h : ∀ i, mergeEntry (base i) (this i) (other i) = ⟨attrUnionAt (base i) (this i) (other i), []⟩ := by
    intro i
    unfold attrUnionAt
    by_cases ho : other i = base i
    · simp [ho, mergeEntry_other_eq_base]
    · by_cases ht : this i = base i
      · simp only [ho, if_false, ht, if_true]
        exact mergeEntry_this_eq_base _ _ (fun x hx => hno i x hx)
      · rcases hd i with h | h | ⟨be, te, oe, hb, hte, hoe, hdis⟩
        · exact absurd h ht
        · exact absurd h ho
        · simp only [ho, ht, if_false]
          rw [hb, hte, hoe]
          exact mergeEntry_attr_disjoint be te oe (fun x hx => hnt i x (hte ▸ hx)) hdis
  constructor
  · funext i; simp [merge3, h]
  · intro i; simp [conflictsAt, h]

/-- non-vacuity: THIS renames and moves, OTHER edits and sets the executable bit -/
example : AttrDisjoint ⟨some 0, 1, .file, 1, false⟩ ⟨some 5, 2, .file, 1, false⟩ ⟨some 0, 1, .file, 9, true⟩ ∧
    attrUnion ⟨some 0, 1, .file, 1, false⟩ ⟨some 5, 2, .file, 1, false⟩ ⟨some 0, 1, .file, 9, true⟩
      = ⟨some 5, 2, .file, 9, true⟩ := by
  refine ⟨by simp [AttrDisjoint], by decide⟩

/-! ### exactly when a conflict is reported -/

/-- an attribute merges cleanly iff the two sides did not both change it, differently -/
def Clean {α : Type} (b o t : α) : Prop := o = b ∨ t = b ∨ t = o

theorem threeWay_conflict_iff {α : Type} [DecidableEq α] (b o t : α) :
    threeWay b o t = .conflict ↔ ¬ Clean b o t := by
  unfold threeWay Clean; grind

/-- the merge of one file reports NO attribute-level conflict exactly when OTHER
left the file alone or each of name, parent and kind+content was changed by at
most one side (or by both in the same way); in every other case a path /
contents conflict (or a text merge) is reported — the hypotheses of the four
laws cannot be dropped -/
theorem mergeEntry_conflicts_nil_iff (b t o : Option Entry) :
    (mergeEntry b t o).conflicts = [] ↔
      o = b ∨ (Clean (b.map (·.name)) (o.map (·.name)) (t.map (·.name)) ∧
               Clean (b.map (·.parent)) (o.map (·.parent)) (t.map (·.parent)) ∧
               Clean (pairOf b) (pairOf o) (pairOf t)) := by
  by_cases hob : o = b
  · simp [mergeEntry, hob]
  · simp only [mergeEntry, hob, if_false, assemble_conflicts, false_or, List.append_eq_nil_iff]
    unfold namesStep contentsStep
    simp only [pathConf_nil_iff, overrideAbsent_conflict_iff, contentsOn_conflicts_nil_iff, threeWay_conflict_iff,
      Classical.not_not]
    by_cases hp : pairOf o = pairOf b
    · simp [hp, Clean]
    · simp only [hp, if_false, ne_eq, threeWay_conflict_iff, Classical.not_not, and_assoc]

/-- a conflict of each kind does occur -/
theorem conflict_kinds_witness :
    ¬ Clean (some 1) (some 3) (some 2) ∧
    (mergeEntry (some ⟨some 0, 1, .file, 1, false⟩) (some ⟨some 0, 1, .file, 2, false⟩)
      (some ⟨some 0, 1, .file, 3, false⟩)).conflicts = [.textMerge] ∧
    (mergeEntry (some ⟨some 0, 1, .file, 1, false⟩) (some ⟨some 4, 1, .file, 1, false⟩)
      (some ⟨some 5, 1, .symlink, 3, false⟩)).conflicts = [.path] := by
  refine ⟨by simp [Clean], by decide, by decide⟩

/-- path-keyed (git) reading of the model: when all entries present at one key
carry the same name and parent (they are functions of the path), no path
conflict can arise — conflicts are about kind / contents only -/
theorem pathKeyed_no_path_conflict (b t o : Option Entry)
    (hk : ∀ x y, x ∈ [b, t, o] → y ∈ [b, t, o] → ∀ ex ey, x = some ex → y = some ey →
      ex.name = ey.name ∧ ex.parent = ey.parent) :
    ConflictKind.path ∉ (mergeEntry b t o).conflicts := by
  have hcl : ∀ {α : Type} [DecidableEq α] (f : Entry → α), (∀ x y, x ∈ [b, t, o] → y ∈ [b, t, o] → ∀ ex ey,
      x = some ex → y = some ey → f ex = f ey) → Clean (b.map f) (o.map f) (t.map f) := by
    intro α _ f hf
    unfold Clean
    cases b with
    | none => cases o with
      | none => simp
      | some oe => cases t with
        | none => simp
        | some te => right; right; simp [hf (some te) (some oe) (by simp) (by simp) te oe rfl rfl]
    | some be => cases o with
      | none => cases t with
        | none => simp
        | some te => right; left; simp [hf (some te) (some be) (by simp) (by simp) te be rfl rfl]
      | some oe => left; simp [hf (some oe) (some be) (by simp) (by simp) oe be rfl rfl]
  by_cases hob : o = b
  · simp [mergeEntry, hob]
  · simp only [mergeEntry, hob, if_false, assemble_conflicts, List.mem_append, not_or]
    refine ⟨?_, contentsOn_no_path _ _ _⟩
    unfold namesStep
    have c1 := hcl (·.name) (fun x y hx hy ex ey h1 h2 => (hk x y hx hy ex ey h1 h2).1)
    have c2 := hcl (·.parent) (fun x y hx hy ex ey h1 h2 => (hk x y hx hy ex ey h1 h2).2)
    have n1 : ¬ threeWay (b.map (·.name)) (o.map (·.name)) (t.map (·.name)) = .conflict :=
      fun h => absurd c1 ((threeWay_conflict_iff _ _ _).mp h)
    have n2 : ¬ threeWay (b.map (·.parent)) (o.map (·.parent)) (t.map (·.parent)) = .conflict :=
      fun h => absurd c2 ((threeWay_conflict_iff _ _ _).mp h)
    simp [overrideAbsent_conflict_iff, n1, n2]

example : ∀ x y, x ∈ [some (⟨some 0, 1, .file, 1, false⟩ : Entry), none, some ⟨some 0, 1, .symlink, 2, false⟩] →
    y ∈ [some (⟨some 0, 1, .file, 1, false⟩ : Entry), none, some ⟨some 0, 1, .symlink, 2, false⟩] →
    ∀ ex ey, x = some ex → y = some ey → ex.name = ey.name ∧ ex.parent = ey.parent := by
  intro x y hx hy ex ey h1 h2
  simp at hx hy
  rcases hx with rfl | rfl | rfl <;> rcases hy with rfl | rfl | rfl <;> simp_all <;>
    (first | (obtain ⟨rfl⟩ := h1; obtain ⟨rfl⟩ := h2; simp) | skip)

/-- `ExecNorm` cannot be dropped from `merge_this_eq_base`: an "executable
symlink" in OTHER (which no real tree contains: the harness checks that every
dumped tree is normal) would lose its bit -/
theorem exec_norm_needed_witness :
    mergeEntry none none (some ⟨some 0, 1, .symlink, 1, true⟩) ≠ ⟨some ⟨some 0, 1, .symlink, 1, true⟩, []⟩ := by
  decide

/-! ### the laws on path-keyed (git) trees, for whatever pairing the rename detector reports

`cs` is the list of elements `_entries3` yields.  `IsDiff` states what
`iter_changes(other vs base)` (dulwich `tree_changes` + `RenameDetector`)
guarantees about it — the harness checks these conditions on the real
enumeration of every git case:
 * only changed things are reported, a copy has a target, which is a path BASE does not have;
 * a reported target path exists in OTHER and differs from BASE there; a source path exists in BASE;
 * the source path of a rename / deletion is vacated in OTHER (or is itself a target);
 * every path where OTHER differs from BASE is a target or a vacated source. -/

structure IsDiff (base other : Tree) (cs : List PChange) : Prop where
  changed : ∀ c ∈ cs, c.copied = false → look other c.dst ≠ look base c.src
  copyTarget : ∀ c ∈ cs, c.copied = true → ∃ oe, look other c.dst = some oe
  copyFresh : ∀ c ∈ cs, c.copied = true → look base c.dst = none
  target : ∀ c ∈ cs, ∀ i, c.dst = some i → other i ≠ none ∧ other i ≠ base i
  source : ∀ c ∈ cs, ∀ i, c.src = some i → base i ≠ none
  vacated : ∀ c ∈ cs, c.copied = false → ∀ i, c.src = some i → other i = none ∨ ∃ c' ∈ cs, c'.dst = some i
  complete : ∀ i, other i ≠ base i →
    (∃ c ∈ cs, c.dst = some i) ∨ (other i = none ∧ ∃ c ∈ cs, c.copied = false ∧ c.src = some i)

/-- entries sit at the path made of their (parent, name) -/
def PathKeyed (key : Option Id → Nat → Id) (t : Tree) : Prop := ∀ i e, t i = some e → key e.parent e.name = i

theorem look_norm (t : Tree) (hn : ExecNorm t) (p : Option Id) : EntryNorm (look t p) := by
  cases p with
  | none => intro x hx; simp [look] at hx
  | some i => intro x hx hk; exact hn i x hx hk

/-- when every element merges to OTHER's entry at its target path, the placements are OTHER's entries at their own paths -/
theorem placements_of_results (key : Option Id → Nat → Id) (base this other : Tree) (cs : List PChange)
    (hk : PathKeyed key other)
    (hr : ∀ c ∈ cs, (c.result base this other).entry = look other c.dst) :
    (∀ pe ∈ placements key base this other cs, other pe.1 = some pe.2 ∧ ∃ c ∈ cs, c.dst = some pe.1) ∧
    (∀ c ∈ cs, ∀ i e, c.dst = some i → other i = some e → (i, e) ∈ placements key base this other cs) := by
  constructor
  · intro pe hpe
    simp only [placements, List.mem_filterMap] at hpe
    obtain ⟨c, hc, hce⟩ := hpe
    rw [hr c hc] at hce
    cases hd : c.dst with
    | none => simp [hd, look] at hce
    | some i =>
      simp only [hd, look] at hce
      cases ho : other i with
      | none => simp [ho] at hce
      | some e =>
        simp only [ho, Option.map_some, Option.some.injEq] at hce
        subst hce
        simp only [hk i e ho]
        exact ⟨ho, c, hc, hd⟩
  · intro c hc i e hd ho
    simp only [placements, List.mem_filterMap]
    refine ⟨c, hc, ?_⟩
    rw [hr c hc, hd]
    simp [look, ho, hk i e ho]

/-- the shape of the merged tree once every element merges to OTHER's entry at its target -/
theorem applyChanges_of_results (key : Option Id → Nat → Id) (base this other : Tree) (cs : List PChange)
    (hk : PathKeyed key other) (hd : IsDiff base other cs)
    (hr : ∀ c ∈ cs, (c.result base this other).entry = look other c.dst) (i : Id) :
    applyChanges key base this other cs i =
      if ∃ c ∈ cs, c.dst = some i then other i
      else if ∃ c ∈ cs, c.removes this = some i then none else this i := by
  obtain ⟨hp1, hp2⟩ := placements_of_results key base this other cs hk hr
  unfold applyChanges
  cases hf : (placements key base this other cs).find? (fun pe => pe.1 == i) with
  | some pe =>
    have hmem := List.mem_of_find?_eq_some hf
    have hkey : pe.1 = i := by simpa using List.find?_some hf
    obtain ⟨ho, c, hc, hcd⟩ := hp1 pe hmem
    subst hkey
    have hex : ∃ c ∈ cs, c.dst = some pe.1 := ⟨c, hc, hcd⟩
    rw [if_pos hex, ho]
  | none =>
    have hnot : ¬ ∃ c ∈ cs, c.dst = some i := by
      rintro ⟨c, hc, hcd⟩
      obtain ⟨hne, _⟩ := hd.target c hc i hcd
      cases ho : other i with
      | none => exact hne ho
      | some e =>
        have := hp2 c hc i e hcd ho
        rw [List.find?_eq_none] at hf
        have := hf (i, e) this
        simp at this
    simp only [hnot, if_false]
    by_cases hrm : ∃ c ∈ cs, c.removes this = some i
    · have hany : cs.any (fun c => c.removes this == some i) = true := by
        obtain ⟨c, hc, h⟩ := hrm
        simp only [List.any_eq_true]; exact ⟨c, hc, by simp [h]⟩
      simp [hany, hrm]
    · have hany : cs.any (fun c => c.removes this == some i) = false := by
        simp only [List.any_eq_false]
        intro c hc h
        exact hrm ⟨c, hc, by simpa using h⟩
      simp [hany, hrm]

/-- what a non-copy element leaves behind: THIS's path; a copy leaves at most its own target path -/
theorem removes_cases (this : Tree) (c : PChange) (i : Id) (h : c.removes this = some i) :
    (c.copied = false ∧ c.cur = some i) ∨ (c.copied = true ∧ c.dst = some i) := by
  unfold PChange.removes at h
  cases hcp : c.copied with
  | false => left; simpa [hcp] using h
  | true =>
    right
    simp only [hcp, if_true] at h
    split at h
    · exact ⟨rfl, h⟩
    · simp at h

/-- git, THIS = BASE (every file is found at its BASE path): the merged tree is
OTHER and no element reports a conflict — for renames, copies (exact or
inexact, whatever their mode bits), additions, deletions and modifications alike -/
theorem git_merge_this_eq_base (key : Option Id → Nat → Id) (base other : Tree) (cs : List PChange)
    (hk : PathKeyed key other) (hn : ExecNorm other) (hd : IsDiff base other cs)
    (hcur : ∀ c ∈ cs, c.copied = false → c.cur = c.src) :
    applyChanges key base base other cs = other ∧ ∀ c ∈ cs, (c.result base base other).conflicts = [] := by
  have hres : ∀ c ∈ cs, c.result base base other = ⟨look other c.dst, []⟩ := by
    intro c hc
    unfold PChange.result
    cases hcp : c.copied with
    | true =>
      obtain ⟨oe, hoe⟩ := hd.copyTarget c hc hcp
      rw [hoe, hd.copyFresh c hc hcp]
      exact mergeChange_copied _ _ oe (hoe ▸ look_norm other hn c.dst)
    | false =>
      rw [hcur c hc hcp, mergeChange_ofEntries _ _ _ (hd.changed c hc hcp) _]
      exact mergeEntry_this_eq_base _ _ (look_norm other hn c.dst)
  refine ⟨?_, fun c hc => by rw [hres c hc]⟩
  funext i
  rw [applyChanges_of_results key base base other cs hk hd (fun c hc => by rw [hres c hc]) i]
  by_cases h1 : ∃ c ∈ cs, c.dst = some i
  · simp [h1]
  · simp only [h1, if_false]
    by_cases h2 : ∃ c ∈ cs, c.removes base = some i
    · simp only [h2, if_true]
      obtain ⟨c, hc, hrm⟩ := h2
      rcases removes_cases base c i hrm with ⟨hcp, hcu⟩ | ⟨_, hdst⟩
      · have hsrc : c.src = some i := by rw [← hcur c hc hcp]; exact hcu
        rcases hd.vacated c hc hcp i hsrc with h | h
        · exact h.symm
        · exact absurd h h1
      · exact absurd ⟨c, hc, hdst⟩ h1
    · simp only [h2, if_false]
      by_cases hob : other i = base i
      · exact hob.symm
      · rcases hd.complete i hob with h | ⟨_, c, hc, hcp, hsrc⟩
        · exact absurd h h1
        · exact absurd ⟨c, hc, by simp [PChange.removes, hcp, hcur c hc hcp, hsrc]⟩ h2

/-- git, THIS = OTHER (every file OTHER renamed is found at its new path in
THIS, every copy OTHER made is already there): the merge leaves the tree as it
is and reports no conflict -/
theorem git_merge_identical (key : Option Id → Nat → Id) (base other : Tree) (cs : List PChange)
    (hk : PathKeyed key other) (hn : ExecNorm other) (hd : IsDiff base other cs)
    (hcur : ∀ c ∈ cs, c.copied = false → c.cur = c.dst) :
    applyChanges key base other other cs = other ∧ ∀ c ∈ cs, (c.result base other other).conflicts = [] := by
  have hres : ∀ c ∈ cs, c.result base other other = ⟨look other c.dst, []⟩ := by
    intro c hc
    unfold PChange.result
    cases hcp : c.copied with
    | true =>
      obtain ⟨oe, hoe⟩ := hd.copyTarget c hc hcp
      rw [hoe]
      exact mergeChange_copied_same _ _ oe (hoe ▸ look_norm other hn c.dst)
    | false =>
      rw [hcur c hc hcp, mergeChange_ofEntries _ _ _ (hd.changed c hc hcp) _]
      exact mergeEntry_same _ _ (look_norm other hn c.dst)
  refine ⟨?_, fun c hc => by rw [hres c hc]⟩
  funext i
  rw [applyChanges_of_results key base other other cs hk hd (fun c hc => by rw [hres c hc]) i]
  by_cases h1 : ∃ c ∈ cs, c.dst = some i
  · simp [h1]
  · simp only [h1, if_false]
    by_cases h2 : ∃ c ∈ cs, c.removes other = some i
    · obtain ⟨c, hc, hrm⟩ := h2
      rcases removes_cases other c i hrm with ⟨hcp, hcu⟩ | ⟨_, hdst⟩
      · exact absurd ⟨c, hc, by rw [← hcur c hc hcp]; exact hcu⟩ h1
      · exact absurd ⟨c, hc, hdst⟩ h1
    · simp [h2]

/-- git, disjoint changes (per path one side equals BASE, and THIS still has the
files OTHER changed where BASE has them): the merged tree is the union of both
sides' changes, without conflicts -/
theorem git_merge_disjoint (key : Option Id → Nat → Id) (base this other : Tree) (cs : List PChange)
    (hk : PathKeyed key other) (hn : ExecNorm other) (hd : IsDiff base other cs)
    (hdis : ∀ i, this i = base i ∨ other i = base i)
    (hcur : ∀ c ∈ cs, c.copied = false → c.cur = c.src ∧ look this c.src = look base c.src) :
    applyChanges key base this other cs = union base this other ∧
      ∀ c ∈ cs, (c.result base this other).conflicts = [] := by
  have hthis : ∀ c ∈ cs, look this c.dst = look base c.dst := by
    intro c hc
    cases hdst : c.dst with
    | none => rfl
    | some q =>
      simp only [look]
      exact (hdis q).resolve_right (hd.target c hc q hdst).2
  have hres : ∀ c ∈ cs, c.result base this other = ⟨look other c.dst, []⟩ := by
    intro c hc
    unfold PChange.result
    cases hcp : c.copied with
    | true =>
      obtain ⟨oe, hoe⟩ := hd.copyTarget c hc hcp
      rw [hoe, hthis c hc, hd.copyFresh c hc hcp]
      exact mergeChange_copied _ _ oe (hoe ▸ look_norm other hn c.dst)
    | false =>
      rw [(hcur c hc hcp).1, (hcur c hc hcp).2, mergeChange_ofEntries _ _ _ (hd.changed c hc hcp) _]
      exact mergeEntry_this_eq_base _ _ (look_norm other hn c.dst)
  refine ⟨?_, fun c hc => by rw [hres c hc]⟩
  funext i
  rw [applyChanges_of_results key base this other cs hk hd (fun c hc => by rw [hres c hc]) i]
  unfold union
  by_cases h1 : ∃ c ∈ cs, c.dst = some i
  · obtain ⟨c, hc, hcd⟩ := h1
    have hne := (hd.target c hc i hcd).2
    simp [hne, show ∃ c ∈ cs, c.dst = some i from ⟨c, hc, hcd⟩]
  · simp only [h1, if_false]
    by_cases h2 : ∃ c ∈ cs, c.removes this = some i
    · simp only [h2, if_true]
      obtain ⟨c, hc, hrm⟩ := h2
      rcases removes_cases this c i hrm with ⟨hcp, hcu⟩ | ⟨_, hdst⟩
      · have hsrc : c.src = some i := by rw [← (hcur c hc hcp).1]; exact hcu
        have hb := hd.source c hc i hsrc
        rcases hd.vacated c hc hcp i hsrc with h | h
        · have hne : other i ≠ base i := fun e => hb (e ▸ h)
          rw [if_neg hne, h]
        · exact absurd h h1
      · exact absurd ⟨c, hc, hdst⟩ h1
    · simp only [h2, if_false]
      by_cases hob : other i = base i
      · simp [hob]
      · rcases hd.complete i hob with h | ⟨_, c, hc, hcp, hsrc⟩
        · exact absurd h h1
        · exact absurd ⟨c, hc, by simp [PChange.removes, hcp, (hcur c hc hcp).1, hsrc]⟩ h2

/-- git, OTHER = BASE: nothing is reported, nothing happens -/
theorem git_merge_other_eq_base (key : Option Id → Nat → Id) (base this other : Tree) :
    applyChanges key base this other [] = this := by
  funext i; simp [applyChanges, placements]

/-- non-vacuity: BASE has an executable `1`; OTHER modifies it and adds a
non-executable copy at `2` (`key p n = n`): `IsDiff` holds for the enumeration
[modify 1, copy 1→2] and the merge of it into THIS = BASE gives OTHER -/
example :
    let key : Option Id → Nat → Id := fun _ n => n
    let base : Tree := fun i => if i = 1 then some ⟨none, 1, .file, 1, true⟩ else none
    let other : Tree := fun i => if i = 1 then some ⟨none, 1, .file, 2, true⟩
      else if i = 2 then some ⟨none, 2, .file, 1, false⟩ else none
    let cs : List PChange := [⟨some 1, some 1, some 1, false⟩, ⟨some 1, some 2, some 1, true⟩]
    PathKeyed key other ∧ ExecNorm other ∧ IsDiff base other cs ∧
      (∀ c ∈ cs, c.copied = false → c.cur = c.src) ∧ applyChanges key base base other cs 2 = other 2 := by
  intro key base other cs
  refine ⟨?_, ?_, ⟨?_, ?_, ?_, ?_, ?_, ?_, ?_⟩, ?_, by decide⟩
  · intro i e h
    by_cases h1 : i = 1 <;> by_cases h2 : i = 2 <;> simp_all [other, key] <;> (subst h; simp)
  · intro i e h hk
    by_cases h1 : i = 1 <;> by_cases h2 : i = 2 <;> simp_all [other] <;> (subst h; simp_all)
  · intro c hc hcp; simp [cs] at hc; rcases hc with rfl | rfl <;> simp_all [look, base, other]
  · intro c hc hcp; simp [cs] at hc; rcases hc with rfl | rfl <;> simp_all [look, other]
  · intro c hc hcp; simp [cs] at hc; rcases hc with rfl | rfl <;> simp_all [look, base]
  · intro c hc i hi; simp [cs] at hc; rcases hc with rfl | rfl <;> simp at hi <;> subst hi <;> simp [base, other]
  · intro c hc i hi; simp [cs] at hc; rcases hc with rfl | rfl <;> simp at hi <;> subst hi <;> simp [base]
  · intro c hc hcp i hi; simp [cs] at hc; rcases hc with rfl | rfl
    · simp at hi; subst hi; right; exact ⟨⟨some 1, some 1, some 1, false⟩, by simp [cs], rfl⟩
    · simp at hcp
  · intro i hi
    by_cases h1 : i = 1
    · left; exact ⟨⟨some 1, some 1, some 1, false⟩, by simp [cs], by simp [h1]⟩
    · by_cases h2 : i = 2
      · left; exact ⟨⟨some 1, some 2, some 1, true⟩, by simp [cs], by simp [h2]⟩
      · simp [base, other, h1, h2] at hi
  · intro c hc hcp; simp [cs] at hc; rcases hc with rfl | rfl <;> simp_all

end BreezyVerif.C17
