import BreezyVerif.Common
import BreezyVerif.Model.C18
/-
C15 — shelving and unshelving.

Model of `breezy/shelf.py`:

* `ShelfCreator.iter_shelvable` / `shelve_*`: per file id, the entry of the
  working tree after the work transform (`shelveWork`) and the entry of the
  stored shelf tree (`shelveShelf`), for a selection `Sel` of the id's atomic
  changes (add / delete, rename, whole content or kind, individual text
  hunks).  An executable-bit change alone is not shelvable (iter_shelvable
  yields nothing for it).
* `ShelfManager.shelve_changes`: `write_shelf` first, then
  `work_transform.apply()`, which refuses (MalformedTransform) a result that
  is not a well-formed tree (`shelve`).
* `Unshelver.make_merger` + `Merge3Merger`: `unshelve` = three-way merge per
  file id with BASE = the shelf's base tree, THIS = the working tree, OTHER =
  the stored shelf tree; every attribute is resolved with `C18.threeWay`
  (`mergeEntry` has the structure of `Merge3Merger._merge_names`,
  `_do_merge_contents`/`merge_contents`, `_merge_executable`).
* `ShelfManager` id allocation: `Mgr.*`.

File content is a list of chunk codes: the basis text and the working text of a
modified file are segmented by the hunks of their diff into
gap, hunk, gap, …, hunk, gap (2n+1 chunks, gaps equal on both sides); any other
content (added / deleted / binary file, symlink target) is a single chunk and a
directory has none.  The text merge of two files with the same segmentation is
chunk-wise (`mergeChunks`): that merge3 synchronises on the gaps is an
assumption checked per case by the correspondence run.

Two behaviours of the current code are selectable (`Variant`) so that the
model describes the code as it is and as it would be after a fix:

* `keepExec = false`: `_shelve_creation` / `_content_from_tree` re-create or
  store a file without its executable bit;
* `freshExec = false`: `Merge3Merger._entries3` takes THIS's executable bit
  from the working tree's recorded inventory entry (`rec`, possibly stale)
  instead of from disk;
* `pathCheck = false`: `shelve_deletion` takes whatever is on disk at the
  deleted file's old path for a kept copy of it (`existing_path`), also when
  that path is now held by another versioned id (`reoccupied`): the work
  transform then versions that id's trans-id a second time — refused or
  applied with an inconsistent inventory (`ShelveErr.reoccupied`).
* `closedCheck = false` (the code at /repo HEAD): `write_shelf` stores whatever
  `resolve_conflicts` makes of a shelf transform that is not a tree (a file
  added in a directory whose addition was not selected, one half of a name
  swap, a removed directory without its removed children ...): the selection
  is accepted, the changes leave the working tree, and the shelf cannot be
  read back (NoFinalPath), merges with conflicts or restores something else.
  `closedCheck = true`: such a selection is refused (`ShelveErr.unclosed`)
  before anything is written or removed.

A versioned file that is missing from disk is an absent entry (`w i = none`)
plus a bit in a separate set (`miss`): `shelveMissing` / `unshelveMissing`.
-/
namespace BreezyVerif.C15

open BreezyVerif.C18 (threeWay Winner)

abbrev Id := Nat

inductive Kind where
  | file | dir | symlink
  deriving DecidableEq, Repr

structure Entry where
  parent : Option Id
  name : Nat
  kind : Kind
  /-- chunk codes (see the header) -/
  content : List Nat
  exec : Bool
  deriving DecidableEq, Repr

abbrev Tree := Id → Option Entry

structure Variant where
  keepExec : Bool
  freshExec : Bool
  pathCheck : Bool
  closedCheck : Bool := false
  deriving DecidableEq, Repr

/-- the code as it was before any repair -/
def Variant.current : Variant := ⟨false, false, false, false⟩
/-- the code at /repo HEAD: the executable-bit and path defects are repaired, a
selection that is not closed is still accepted -/
def Variant.head : Variant := ⟨true, true, true, false⟩
/-- the code with all four defects repaired -/
def Variant.fixed : Variant := ⟨true, true, true, true⟩

/-- selection of the content change of one id -/
inductive CSel where
  | none
  /-- `shelve_content_change` / `shelve_modify_target` / `shelve_lines` with every hunk -/
  | whole
  /-- `shelve_lines` with the hunks whose bit is set (one bit per chunk) -/
  | chunks (bits : List Bool)
  deriving DecidableEq, Repr

structure Sel where
  /-- the addition / deletion of the id (`shelve_creation` / `shelve_deletion`) -/
  whole : Bool
  /-- `shelve_rename` -/
  rename : Bool
  content : CSel
  /-- deletion only: an unversioned copy is still on disk at the old path
  (`existing_path`): it is adopted instead of being re-created -/
  kept : Bool := false
  deriving DecidableEq, Repr

def Sel.nothing : Sel := ⟨false, false, .none, false⟩

/-- chunk `k` of the result: the first text's where the bit is set, else the second's -/
def pickChunks : List Bool → List Nat → List Nat → List Nat
  | s :: bs, x :: xs, y :: ys => (if s then x else y) :: pickChunks bs xs ys
  | _, _, _ => []

/-- a hunk selection is offered only for two texts with the same segmentation -/
def CSel.shapeOk (c : CSel) (b w : Entry) : Bool :=
  match c with
  | .chunks bits => b.kind == .file && w.kind == .file && bits.length == b.content.length
      && b.content.length == w.content.length
  | _ => true

/-- the executable bit of a file the work transform creates anew from the basis
(`create_from_tree` + `version_file`, no `set_executability`) -/
def recreatedExec (v : Variant) (e : Entry) : Bool :=
  e.kind == .file && v.keepExec && e.exec

/-- working-tree entry after shelving -/
def shelveWork (v : Variant) (s : Sel) : Option Entry → Option Entry → Option Entry
  | none, none => none
  | none, some we => if s.whole then none else some we
  | some be, none =>
    if s.whole then some { be with exec := if s.kept then be.kind == .file && be.exec else recreatedExec v be }
    else none
  | some be, some we =>
    let p := if s.rename then be.parent else we.parent
    let n := if s.rename then be.name else we.name
    match s.content with
    | .none => some { we with parent := p, name := n }
    | .whole =>
      -- `_set_mode` keeps the mode bits of a regular file that is replaced by a regular file
      some ⟨p, n, be.kind, be.content,
        if be.kind == .file && we.kind == .file then we.exec else recreatedExec v be⟩
    | .chunks bits => some ⟨p, n, we.kind, pickChunks bits be.content we.content, we.exec⟩

/-- entry of the stored shelf tree (a preview transform on the basis tree) -/
def shelveShelf (v : Variant) (s : Sel) : Option Entry → Option Entry → Option Entry
  | none, none => none
  | none, some we => if s.whole then some { we with exec := recreatedExec v we } else none
  | some be, none => if s.whole then none else some be
  | some be, some we =>
    let p := if s.rename then we.parent else be.parent
    let n := if s.rename then we.name else be.name
    match s.content with
    | .none => some { be with parent := p, name := n }
    | .whole =>
      some ⟨p, n, we.kind, we.content,
        if be.kind == .file && we.kind == .file then be.exec else recreatedExec v we⟩
    | .chunks bits => some ⟨p, n, be.kind, pickChunks bits we.content be.content, be.exec⟩

/-! ### three-way merge of one id (unshelve) -/

inductive ConflictKind where
  | path | contents | text
  deriving DecidableEq, Repr

inductive Status where
  | unmodified | modified | deleted | conflicted
  deriving DecidableEq, Repr

structure Result where
  entry : Option Entry
  conflicts : List ConflictKind
  deriving DecidableEq, Repr

def pairOf (e : Option Entry) : Option (Kind × List Nat) := e.map fun e => (e.kind, e.content)

def overrideAbsent (thisAbsent : Bool) (w : Winner) : Winner :=
  if thisAbsent && w == .this then .other else w

/-- `winner_idx`: conflict ↦ other -/
def pick {α : Type} (w : Winner) (other this : α) : α :=
  match w with
  | .this => this
  | .other => other
  | .conflict => other

def namesOn (nameW parentW : Winner) : Option Entry → Option Entry → Option (Option Id × Nat)
  | none, t => t.map fun e => (e.parent, e.name)
  | some oe, none => some (oe.parent, oe.name)
  | some oe, some te => some (pick parentW oe.parent te.parent, pick nameW oe.name te.name)

/-- `_merge_names` -/
def namesStep (b t o : Option Entry) : List ConflictKind × Option (Option Id × Nat) :=
  let nameW := overrideAbsent t.isNone (threeWay (b.map (·.name)) (o.map (·.name)) (t.map (·.name)))
  let parentW := overrideAbsent t.isNone (threeWay (b.map (·.parent)) (o.map (·.parent)) (t.map (·.parent)))
  (if nameW = .conflict ∨ parentW = .conflict then [.path] else [], namesOn nameW parentW o t)

/-- chunk-wise text merge; `none` when a chunk was changed differently on both sides -/
def mergeChunks : List Nat → List Nat → List Nat → Option (List Nat)
  | b :: bs, t :: ts, o :: os =>
    match threeWay b o t, mergeChunks bs ts os with
    | .this, some r => some (t :: r)
    | .other, some r => some (o :: r)
    | _, _ => none
  | [], [], [] => some []
  | _, _, _ => none

/-- `merge_contents` for a given contents winner -/
def contentsOn (b : Option Entry) : Winner → Option Entry → Option Entry →
    Status × Option (Kind × List Nat) × List ConflictKind
  | .this, t, _ => (.unmodified, pairOf t, [])
  | .other, _, some oe => (.modified, some (oe.kind, oe.content), [])
  | .other, _, none => (.deleted, none, [])
  | .conflict, some te, some oe =>
    if te.kind = .file ∧ oe.kind = .file then
      match b with
      | some be =>
        if be.kind = .file then
          match mergeChunks be.content te.content oe.content with
          | some r => (.modified, some (.file, r), [])
          | none => (.modified, some (.file, te.content), [.text])
        else (.conflicted, some (te.kind, te.content), [.contents])
      | none => (.conflicted, some (te.kind, te.content), [.contents])
    else (.conflicted, some (te.kind, te.content), [.contents])
  | .conflict, t, _ => (.conflicted, pairOf t, [.contents])

/-- `_do_merge_contents` + `merge_contents` -/
def contentsStep (b t o : Option Entry) : Status × Option (Kind × List Nat) × List ConflictKind :=
  contentsOn b (if pairOf o = pairOf b then Winner.this else threeWay (pairOf b) (pairOf o) (pairOf t)) t o

/-- the executable bit of THIS as `_entries3` sees it: from disk (`freshExec`) or
the recorded inventory entry `rec` -/
def seenExec (v : Variant) (rec : Bool) (t : Option Entry) : Option Bool :=
  t.map fun e => if v.freshExec then e.exec else rec

/-- `_merge_executable`; the result is the bit on disk afterwards -/
def execStep (v : Variant) (rec : Bool) (st : Status) (b t o : Option Entry) : Bool :=
  let tx := seenExec v rec t
  let w0 := threeWay (b.map (·.exec)) (o.map (·.exec)) tx
  let w := if w0 = .conflict then (if o.isNone then Winner.this else Winner.other) else w0
  if w = .this ∧ st ≠ .modified then
    -- nothing is set: an untouched file keeps its bit, a file created by the merge has none
    (match t with | some te => te.exec | none => false)
  else if w = .this then
    (match tx with | some x => x | none => false)
  else
    match o, t, b with
    | some oe, _, _ => oe.exec
    | none, some _, _ => (match tx with | some x => x | none => false)
    | none, none, some be => be.exec
    | none, none, none => false

def assemble (st : Status) (kc : Option (Kind × List Nat)) (np : Option (Option Id × Nat)) (exec : Bool)
    (confs : List ConflictKind) : Result :=
  match st, kc, np with
  | .deleted, _, _ => ⟨none, confs⟩
  | _, some (k, c), some (p, n) => ⟨some ⟨p, n, k, c, if k = .file then exec else false⟩, confs⟩
  | _, _, _ => ⟨none, confs⟩

/-- what `Merge3Merger._compute_transform` does for one file id -/
def mergeEntry (v : Variant) (rec : Bool) (b t o : Option Entry) : Result :=
  if o = b then ⟨t, []⟩                    -- not reported by iter_changes(other vs base)
  else
    let cs := contentsStep b t o
    let ns := namesStep b t o
    assemble cs.1 cs.2.1 ns.2 (execStep v rec cs.1 b t o) (ns.1 ++ cs.2.2)

/-! ### trees -/

abbrev TSel := Id → Sel

def workTree (v : Variant) (s : TSel) (b w : Tree) : Tree := fun i => shelveWork v (s i) (b i) (w i)
def shelfTree (v : Variant) (s : TSel) (b w : Tree) : Tree := fun i => shelveShelf v (s i) (b i) (w i)

/-- `Unshelver.make_merger().do_merge()`: BASE, THIS (with its recorded executable bits), OTHER -/
def unshelve (v : Variant) (base this : Tree) (rec : Id → Bool) (other : Tree) : Tree :=
  fun i => (mergeEntry v (rec i) (base i) (this i) (other i)).entry

def conflictsAt (v : Variant) (base this : Tree) (rec : Id → Bool) (other : Tree) (i : Id) : List ConflictKind :=
  (mergeEntry v (rec i) (base i) (this i) (other i)).conflicts

/-- ancestors of `i` reach a root within `fuel` steps through existing directories -/
def reachesRoot (t : Tree) : Nat → Id → Bool
  | 0, _ => false
  | fuel + 1, i =>
    match t i with
    | none => false
    | some e =>
      match e.parent with
      | none => true
      | some p => (match t p with | some pe => pe.kind == .dir | none => false) && reachesRoot t fuel p

/-- `i` is a root (present, no parent) -/
def isRootAt (t : Tree) (i : Id) : Bool :=
  match t i with
  | some e => e.parent.isNone
  | none => false

/-- `i` and `j` are both present and claim the same name in the same directory -/
def clash (t : Tree) (i j : Id) : Bool :=
  match t i, t j with
  | some a, some b => a.parent == b.parent && a.name == b.name
  | _, _ => false

/-- well-formed over the finite id universe `ids` (what `find_raw_conflicts`
accepts: parents exist and are directories, no loop, one root, unique sibling names) -/
def wf (ids : List Id) (t : Tree) : Bool :=
  let present := ids.filter fun i => (t i).isSome
  present.all (fun i => reachesRoot t (ids.length + 1) i) &&
  (present.filter (isRootAt t)).length == 1 &&
  present.all (fun i => present.all fun j => i == j || !clash t i j)

/-- `find_raw_conflicts`: 'non-directory parent' — some present entry's parent is present but not a directory -/
def hasNonDirParent (ids : List Id) (t : Tree) : Bool :=
  ids.any fun i =>
    match t i with
    | none => false
    | some e =>
      match e.parent with
      | none => false
      | some p => match t p with | some pe => pe.kind != .dir | none => false

inductive ShelveErr where
  /-- `work_transform.apply()` raises MalformedTransform -/
  | malformed
  /-- the occupant's trans-id is versioned a second time under the deleted id: depending on what
  else the transform contains this is refused ("versioning no contents", InconsistentDelta,
  ImmortalPendingDeletion) or applied, leaving an inventory with two entries for one path — never
  a correct shelve -/
  | reoccupied
  /-- `write_shelf` refuses: the stored tree would not be a tree (`closedCheck`) -/
  | unclosed
  /-- without the closedness check `write_shelf` runs `resolve_conflicts` on the shelf transform, and the
  resolver of a 'non-directory parent' conflict asks the underlying REVISION tree for
  `supports_setting_file_ids`, which it does not have: AttributeError before anything is applied -/
  | resolveCrash
  deriving DecidableEq, Repr

/-- `id2path`: the names from the root down to `i` (`none` when the parent chain is broken or loops) -/
def pathOf (t : Tree) : Nat → Id → Option (List Nat)
  | 0, _ => none
  | fuel + 1, i =>
    match t i with
    | none => none
    | some e =>
      match e.parent with
      | none => some []
      | some p => (pathOf t fuel p).map (· ++ [e.name])

/-- the id that holds, in the working tree, the path a deleted id had in the basis
(`work_tree.has_filename(target_tree.id2path(file_id))`) -/
def occupant (ids : List Id) (b w : Tree) (i : Id) : Option Id :=
  match b i, w i with
  | some _, none =>
    match pathOf b (ids.length + 1) i with
    | some path => ids.find? fun j => j != i && pathOf w (ids.length + 1) j == some path
    | none => none
  | _, _ => none

/-- selected deletions whose old path is held by another versioned id, with that id -/
def reoccupied (ids : List Id) (s : TSel) (b w : Tree) : List (Id × Id) :=
  ids.filterMap fun i => if (s i).whole then (occupant ids b w i).map fun j => (i, j) else none

/-- `ShelfManager.shelve_changes`: the new working tree and the stored tree -/
def shelve (v : Variant) (ids : List Id) (s : TSel) (b w : Tree) : Except ShelveErr (Tree × Tree) :=
  if !v.pathCheck && !(reoccupied ids s b w).isEmpty then .error .reoccupied
  else if v.closedCheck && !wf ids (shelfTree v s b w) then .error .unclosed
  else if !v.closedCheck && hasNonDirParent ids (shelfTree v s b w) then .error .resolveCrash
  else if wf ids (workTree v s b w) then .ok (workTree v s b w, shelfTree v s b w)
  else .error .malformed

/-- the selection is closed under its dependencies: both the remaining working
tree and the stored tree are trees (a directory is added before / removed after
its children, a name is free before it is reused) -/
def closed (v : Variant) (ids : List Id) (s : TSel) (b w : Tree) : Bool :=
  wf ids (workTree v s b w) && wf ids (shelfTree v s b w)

/-- `get_unshelver` + `make_merger().do_merge()` at tree level: only a stored
tree that is a tree can be read back and merged id by id.  `none`: the real
code fails to read the shelf (NoFinalPath), merges with conflicts, or quietly
produces something else — outside the model. -/
def unshelveTree (v : Variant) (ids : List Id) (base this : Tree) (rec : Id → Bool) (other : Tree) : Option Tree :=
  if wf ids other then some (unshelve v base this rec other) else none

/-! ### versioned files that are missing from disk -/

/-- the ids that are versioned but missing after shelving: a selected deletion
re-creates the file (`shelve_deletion` with `versioned = (True, True)` creates
the contents and leaves the versioning alone) -/
def shelveMissing (s : TSel) (miss : Id → Bool) : Id → Bool := fun i => miss i && !(s i).whole

/-- ... and after unshelving: the merge leaves an id alone that the stored tree
does not change; a stored deletion removes contents AND versioning (a stored
tree cannot say "versioned, no contents": `find_raw_conflicts` calls that
'versioning no contents'), so the merge never produces a missing file -/
def unshelveMissing (base other : Tree) (missThis : Id → Bool) : Id → Bool :=
  fun i => missThis i && decide (other i = base i)

/-! ### change sets -/

/-- the atomic differences between two entries of one id, except the text chunks -/
structure Delta where
  /-- present on one side only -/
  whole : Bool
  pos : Bool
  /-- kind or segmentation differs: the content is replaced wholesale (the
  executable bit is then part of this change) -/
  kind : Bool
  exec : Bool
  deriving DecidableEq, Repr

def chunkMask : List Nat → List Nat → List Bool
  | x :: xs, y :: ys => (x != y) :: chunkMask xs ys
  | _, _ => []

def delta : Option Entry → Option Entry → Delta
  | none, none => ⟨false, false, false, false⟩
  | none, some _ => ⟨true, false, false, false⟩
  | some _, none => ⟨true, false, false, false⟩
  | some x, some y =>
    ⟨false, x.parent != y.parent || x.name != y.name,
     x.kind != y.kind || x.content.length != y.content.length,
     x.kind == y.kind && x.exec != y.exec⟩

/-- the chunks that differ, for two entries of the same kind and segmentation -/
def contentMask : Option Entry → Option Entry → List Bool
  | some x, some y => chunkMask x.content y.content
  | _, _ => []

def Delta.isEmpty (d : Delta) : Bool := !d.whole && !d.pos && !d.kind && !d.exec

def maskAnd : List Bool → List Bool → List Bool
  | a :: as, b :: bs => (a && b) :: maskAnd as bs
  | _, _ => []

def maskAndNot : List Bool → List Bool → List Bool
  | a :: as, b :: bs => (a && !b) :: maskAndNot as bs
  | _, _ => []

/-- the bits of a content selection over `n` chunks -/
def CSel.bits (c : CSel) (n : Nat) : List Bool :=
  match c with
  | .none => List.replicate n false
  | .whole => List.replicate n true
  | .chunks bits => bits

def CSel.any (c : CSel) : Bool :=
  match c with
  | .none => false
  | .whole => true
  | .chunks _ => false

/-- the part of a change set that the selection names (an executable-bit change is never shelvable) -/
def Delta.restrict (d : Delta) (s : Sel) : Delta :=
  ⟨d.whole && s.whole, d.pos && s.rename, d.kind && s.content.any, false⟩

/-- the part the selection leaves -/
def Delta.remove (d : Delta) (s : Sel) : Delta :=
  ⟨d.whole && !s.whole, d.pos && !s.rename, d.kind && !s.content.any, d.exec⟩

/-! ### shelf ids (`ShelfManager`) -/
namespace Mgr

/-- `re.compile("shelf-([1-9][0-9]*)").match(filename)`: the id named by a file
of the shelf directory (a prefix match: trailing characters are ignored) -/
def parseName (s : String) : Option Nat :=
  let cs := s.toList
  if "shelf-".toList.isPrefixOf cs then
    let ds := (cs.drop 6).takeWhile Char.isDigit
    match ds with
    | [] => none
    | d :: _ => if d == '0' then none else some (ds.foldl (fun a c => a * 10 + (c.toNat - 48)) 0)
  else none

/-- `active_shelves` over a directory listing -/
def activeOfNames (names : List String) : List Nat := names.filterMap parseName

def maxId : List Nat → Nat
  | [] => 0
  | x :: xs => max x (maxId xs)

/-- `new_shelf`: `1 if last_shelf is None else last_shelf + 1` -/
def nextId (active : List Nat) : Nat := maxId active + 1

/-- `last_shelf` -/
def lastShelf (active : List Nat) : Option Nat := if active.isEmpty then none else some (maxId active)

inductive Op where
  | new
  | delete (k : Nat)
  deriving DecidableEq, Repr

/-- one manager operation on the set of active ids; `none` = NoSuchFile -/
def step (active : List Nat) : Op → Option (List Nat)
  | .new => some (nextId active :: active)
  | .delete k => if k ∈ active then some (active.erase k) else none

/-- a failed operation (NoSuchFile) leaves the directory unchanged -/
def run (active : List Nat) : List Op → List Nat
  | [] => active
  | op :: ops =>
    match step active op with
    | some a => run a ops
    | none => run active ops

/-! shelves with their payload (what was shelved under the id) -/

inductive OpC where
  | new (payload : Nat)
  | delete (k : Nat)
  deriving DecidableEq, Repr

abbrev Shelves := List (Nat × Nat)

def idsOf (sh : Shelves) : List Nat := sh.map (·.1)

/-- `read_shelf k` -/
def lookup (sh : Shelves) (k : Nat) : Option Nat := (sh.find? fun e => e.1 == k).map (·.2)

def stepC (sh : Shelves) : OpC → Option Shelves
  | .new p => some ((nextId (idsOf sh), p) :: sh)
  | .delete k => if (idsOf sh).contains k then some (sh.filter fun e => e.1 != k) else none

def runC (sh : Shelves) : List OpC → Shelves
  | [] => sh
  | op :: ops =>
    match stepC sh op with
    | some a => runC a ops
    | none => runC sh ops

end Mgr

end BreezyVerif.C15
