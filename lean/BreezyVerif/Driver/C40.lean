import BreezyVerif.Common
import BreezyVerif.Model.C40
import BreezyVerif.Model.C40F
/-
C40 driver.  Requests:

  v4  <sel chk-found|chk-revpresent|xml> <base> <target> <src revs> <src invs> <src texts> <tgt revs> <tgt invs> <tgt texts>
      -> `E:SourceIncomplete` |
         `ok <bundled revision ids> <returned target|~> <inventory ids> <text keys f.t> | <revision ids afterwards> <inventory ids> <texts f.t.c>`
  v09 <base> <target> <src …> <tgt …>
      -> `E:SourceIncomplete` | `E:NoSuchRevision` |
         `ok <bundled revision ids> <first record|~> <bases k.b> | <revision ids afterwards> <inventory ids> <texts f.t.c>`
  md.to <stanza lines> <patch|~> <bundle|~>      -> lines
  md.from <lines>                                 -> `ok <stanza lines> <patch|~> <bundle|~>` | `E:<kind>`
  md.rt <stanza lines> <patch|~> <bundle|~>      -> the same, for `from_lines(file object of b"".join(to_lines()))`
  pdate.fmt <secs> <offset>                       -> the timestamp string (spaces as `_`) | `E:<kind>`
  pdate.parse <string, spaces as `_`>             -> `<secs> <offset>` | `E:<kind>`
  md.fields <rid> <sha|~> <time> <tz> <target> <source|~> <message|~> <base rid>   (text = hex of its UTF-8, `-` = empty)
                                                  -> stanza pairs `tag=hex,tag=hex,…` | `E:<kind>`
  md.unfields <strict|tolerant> <pairs> <T|F has bundle>  -> `ok <rid> <sha|~> <time> <tz> <target> <source|~> <message|~> <base rid>` | `E:<kind>`
  norm <hex>                                      -> hex
  verify <calculated hex> <stored hex>            -> T|F

repository fields as in the C03 driver:
revs  = `id:meta:p.p.p` joined by `;`   (parents `-` when there are none; whole field `-` when empty)
invs  = `id:f.n.t.s,f.n.t.s` joined by `;` (entries `-` when the inventory is empty)
texts = `f.t.c` joined by `;`
lines = hex strings joined by `,` (`-` = no line)
-/
namespace BreezyVerif.C40

open BreezyVerif.C03 (Rev RevRec Entry Inv TextKey Repo get)

def parseDots (s : String) : Option (List Nat) :=
  if s == "-" then some [] else (s.splitOn ".").mapM String.toNat?

def parseSemi {α : Type} (f : String → Option α) (s : String) : Option (List α) :=
  if s == "-" then some [] else (s.splitOn ";").mapM f

def parseRev (s : String) : Option (Rev × RevRec) :=
  match s.splitOn ":" with
  | [i, m, ps] => do
      let i ← i.toNat?
      let m ← m.toNat?
      let ps ← parseDots ps
      pure (i, ⟨ps, m⟩)
  | _ => none

def parseEntry (s : String) : Option Entry :=
  match s.splitOn "." with
  | [f, n, t, c] => do pure ⟨← f.toNat?, ← n.toNat?, ← t.toNat?, ← c.toNat?⟩
  | _ => none

def parseInv (s : String) : Option (Rev × Inv) :=
  match s.splitOn ":" with
  | [i, es] => do
      let i ← i.toNat?
      let es ← if es == "-" then some [] else (es.splitOn ",").mapM parseEntry
      pure (i, es)
  | _ => none

def parseText (s : String) : Option (TextKey × Nat) :=
  match s.splitOn "." with
  | [f, t, c] => do pure ((← f.toNat?, ← t.toNat?), ← c.toNat?)
  | _ => none

def parseRepo (r i t : String) : Option Repo := do
  pure ⟨← parseSemi parseRev r, ← parseSemi parseInv i, ← parseSemi parseText t⟩

def dedupSorted : List Nat → List Nat
  | [] => []
  | [x] => [x]
  | x :: y :: rest => if x = y then dedupSorted (y :: rest) else x :: dedupSorted (y :: rest)

def showIds (l : List Nat) : String :=
  joinList ((dedupSorted (l.mergeSort (fun a b => decide (a ≤ b)))).map toString)

def tripleLe (a b : Nat × Nat × Nat) : Bool :=
  a.1 < b.1 || (a.1 == b.1 && (a.2.1 < b.2.1 || (a.2.1 == b.2.1 && a.2.2 ≤ b.2.2)))

def ddTriples : List (Nat × Nat × Nat) → List (Nat × Nat × Nat)
  | [] => []
  | [x] => [x]
  | x :: y :: rest => if x == y then ddTriples (y :: rest) else x :: ddTriples (y :: rest)

/-- first value per key (dictionary semantics), sorted -/
def showTexts (l : List (TextKey × Nat)) : String :=
  let firsts := l.filter fun kv => get l kv.1 == some kv.2
  let keys := (firsts.map fun kv => (kv.1.1, kv.1.2, kv.2)).mergeSort tripleLe
  joinList ((ddTriples keys).map fun t => s!"{t.1}.{t.2.1}.{t.2.2}")

def showKeys (l : List TextKey) : String :=
  let keys := (l.map fun k => (k.1, k.2, 0)).mergeSort tripleLe
  joinList ((ddTriples keys).map fun t => s!"{t.1}.{t.2.1}")

def showRepo (r : Repo) : String :=
  s!"{showIds (r.revs.map (·.1))} {showIds (r.invs.map (·.1))} {showTexts r.texts}"

def parseSel (s : String) : Option TextSel :=
  if s == "chk-found" then some (.chk .asFound)
  else if s == "chk-revpresent" then some (.chk .revisionPresent)
  else if s == "xml" then some .xml else none

def showErr : Err → String
  | .sourceIncomplete => "E:SourceIncomplete"
  | .noSuchRevision => "E:NoSuchRevision"

def parseLines (s : String) : Option (List Line) := (splitList s).mapM fromHex

def showLines (l : List Line) : String := joinList (l.map toHex)

def parseOptBytes (s : String) : Option (Option Bytes) :=
  if s == "~" then some none else (fromHex s).map some

def showOptBytes : Option Bytes → String
  | none => "~"
  | some b => toHex b

def showDErr : DErr → String
  | .notADirective => "E:NotADirective"
  | .unknownFormat => "E:UnknownFormat"
  | .format1 => "E:Format1"
  | .badStanza => "E:BadStanza"
  | .illegalPayload => "E:IllegalPayload"

def showParsed : Except DErr (Directive (List Line)) → String
  | .error e => showDErr e
  | .ok d => s!"ok {showLines d.fields} {showOptBytes d.patch} {showOptBytes d.bundle}"

/-! fields -/

def strOfHex (h : String) : Option Str := do
  let b ← fromHex h
  let s ← String.fromUTF8? (ByteArray.mk b.toArray)
  pure s.toList

def hexOfStr (s : Str) : String := toHex (String.ofList s).toUTF8.toList

def optStrOfHex (h : String) : Option (Option Str) :=
  if h == "~" then some none else (strOfHex h).map some

def hexOfOptStr : Option Str → String
  | none => "~"
  | some s => hexOfStr s

def keyName : Key → String
  | .revisionId => "revision_id" | .targetBranch => "target_branch" | .testamentSha1 => "testament_sha1"
  | .timestamp => "timestamp" | .sourceBranch => "source_branch" | .message => "message"
  | .baseRevisionId => "base_revision_id" | .other n => String.ofList n

def keyOfName (n : String) : Key :=
  if n == "revision_id" then .revisionId else if n == "target_branch" then .targetBranch
  else if n == "testament_sha1" then .testamentSha1 else if n == "timestamp" then .timestamp
  else if n == "source_branch" then .sourceBranch else if n == "message" then .message
  else if n == "base_revision_id" then .baseRevisionId else .other n.toList

def showFErr : FErr → String
  | .invalidOffset => "E:InvalidOffset" | .negativeTime => "E:NegativeTime" | .yearNotModelled => "unmodelled"
  | .shapeNotModelled => "unmodelled" | .badOffset => "E:BadOffset" | .badDate => "E:BadDate"
  | .missingKey => "E:KeyError" | .typeError => "E:TypeError" | .noMergeSource => "E:NoMergeSource"

def showStanza (st : Stanza) : String :=
  joinList (st.map fun kv => s!"{keyName kv.1}={hexOfStr kv.2}")

def parseStanza (s : String) : Option Stanza :=
  (splitList s).mapM fun kv =>
    match kv.splitOn "=" with
    | [k, v] => (strOfHex v).map fun v => (keyOfName k, v)
    | _ => none

def unders (s : Str) : String := String.ofList (s.map fun c => if c = ' ' then '_' else c)

def showFields (f : Fields) : String :=
  s!"ok {hexOfStr f.revisionId} {hexOfOptStr f.testamentSha1} {f.time} {f.timezone} {hexOfStr f.targetBranch} {hexOfOptStr f.sourceBranch} {hexOfOptStr f.message} {hexOfStr f.baseRevisionId}"

def handle : List String → String
  | ["v4", sel, base, target, sr, si, st, tr, ti, tt] =>
    match parseSel sel, base.toNat?, target.toNat?, parseRepo sr si st, parseRepo tr ti tt with
    | some sel, some base, some target, some src, some tgt =>
      match writeV4 sel src base target with
      | .error e => showErr e
      | .ok b =>
        let r := installV4 b tgt
        s!"ok {showIds (b.revs.map (·.1))} {showOptNat r.2} {showIds (b.invs.map (·.1))} {showKeys (b.texts.map (·.1))} | {showRepo r.1}"
    | _, _, _, _, _ => "bad-op"
  | ["v09", base, target, sr, si, st, tr, ti, tt] =>
    match base.toNat?, target.toNat?, parseRepo sr si st, parseRepo tr ti tt with
    | some base, some target, some src, some tgt =>
      match write09 src base target with
      | .error e => showErr e
      | .ok rs =>
        match install09 rs tgt with
        | .error e => showErr e
        | .ok t' =>
          let bases := joinList (((rs.map fun r => (r.rev, r.base, 0)).mergeSort tripleLe).map fun t => s!"{t.1}.{t.2.1}")
          s!"ok {showIds (rs.map (·.rev))} {showOptNat (rs.head?.map (·.rev))} {bases} | {showRepo t'}"
    | _, _, _, _ => "bad-op"
  | ["prop", line] =>
    match strOfHex (String.ofList (line.toList.drop 1)) with
    | some s =>
      match parsePropLine s with
      | some (k, v) => s!"ok k{hexOfStr k} v{hexOfStr v}"
      | none => "E:ValueError"
    | none => "bad-op"
  | ["md.to", stanza, patch, bundle] =>
    match parseLines stanza, parseOptBytes patch, parseOptBytes bundle with
    | some s, some p, some b => showLines (toLines blockCodec ⟨s, p, b⟩)
    | _, _, _ => "bad-op"
  | ["md.from", lines] =>
    match parseLines lines with
    | some ls => showParsed (fromLines blockCodec ls)
    | none => "bad-op"
  | ["md.rt", stanza, patch, bundle] =>
    match parseLines stanza, parseOptBytes patch, parseOptBytes bundle with
    | some s, some p, some b =>
      showParsed (fromLines blockCodec (splitNL (joinLines (toLines blockCodec ⟨s, p, b⟩))))
    | _, _, _ => "bad-op"
  | ["pdate.fmt", secs, off] =>
    match secs.toInt?, off.toInt? with
    | some secs, some off =>
      match formatPatchDate secs off with
      | .ok s => unders s
      | .error e => showFErr e
    | _, _ => "bad-op"
  | ["pdate.parse", s] =>
    match parsePatchDate (s.toList.map fun c => if c = '_' then ' ' else c) with
    | .ok (t, z) => s!"{t} {z}"
    | .error e => showFErr e
  | ["md.fields", rid, sha, time, tz, tb, src, msg, bid] =>
    match strOfHex rid, optStrOfHex sha, time.toInt?, tz.toInt?, strOfHex tb, optStrOfHex src, optStrOfHex msg,
        strOfHex bid with
    | some rid, some sha, some time, some tz, some tb, some src, some msg, some bid =>
      match toPairs ⟨rid, sha, time, tz, tb, src, msg, bid⟩ with
      | .ok st => showStanza st
      | .error e => showFErr e
    | _, _, _, _, _, _, _, _ => "bad-op"
  | ["md.unfields", variant, pairs, hb] =>
    match (if variant == "strict" then some false else if variant == "tolerant" then some true else none),
        parseStanza pairs, (if hb == "T" then some true else if hb == "F" then some false else none) with
    | some tol, some st, some hb =>
      match fromPairsV tol st hb with
      | .ok f => showFields f
      | .error e => showFErr e
    | _, _, _ => "bad-op"
  | ["norm", h] =>
    match fromHex h with
    | some b => toHex (norm b)
    | none => "bad-op"
  | ["verify", c, s] =>
    match fromHex c, fromHex s with
    | some c, some s => showBool (verifyPatch c s)
    | _, _ => "bad-op"
  | _ => "bad-op"

end BreezyVerif.C40

def main : IO Unit := BreezyVerif.runDriver BreezyVerif.C40.handle
