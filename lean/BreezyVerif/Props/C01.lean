import BreezyVerif.Lemmas.C01
/-!
C01 — a commit records exactly the selected working-tree state.

Theorems about `Model/C01.lean` (all trees, all selections, all exclusion
lists, all id lists — no bound on sizes):

* inventory trees: `commitTree_get`, `commit_selected`, `commit_unselected`,
  `commit_wf`, `commit_paths_selected`, `commit_all`, `commit_only_changed`,
  `commit_excluded_untouched`, `status_after_commit`,
  `closure_insufficient_witness`;
* git trees: `git_written`, `git_untouched`, `git_deleted`;
* pipeline with a fault: `commit_abort_noop_partial`, `commit_no_fault`, and
  the two witnesses of the part of the statement the code does not satisfy
  (`late_fault_leaves_revision_witness`, `late_fault_moves_tip_witness`).
-/
namespace BreezyVerif.C01
open BreezyVerif.C10

/-! ### inventory trees -/

/-- the committed inventory, extensionally: ids of the change stream carry the
effective working entry (absent when unversioned or missing), all other ids
keep their basis entry -/
theorem commitTree_get (basis eff : Tree) (S : List Id) (i : Id) :
    get (commitTree basis eff S) i = if i ∈ S then get eff i else get basis i :=
  get_commitTree eff S basis i

theorem commitFrom_ok {v : Validation} {basis : Tree} {w : WT} {S : List Id} {r : Result}
    (h : commitFrom v basis w S = .ok r) :
    valid v (commitTree basis (effective w) S) S = true ∧
    deltaConsistent (commitTree basis (effective w) S) w S = true ∧ r.ids = S ∧
    r.tree = commitTree basis (effective w) S ∧
    r.wt.inv = (w.inv.filter fun x => !(w.missing.contains x.1 && S.contains x.1)) ∧
    r.wt.missing = (w.missing.filter fun i => !S.contains i) := by
  unfold commitFrom at h
  simp only at h
  split at h
  · rename_i hw
    injection h with h
    subst h
    rw [Bool.and_eq_true] at hw
    exact ⟨hw.1, hw.2, rfl, rfl, rfl, rfl⟩
  · split at h <;> cases h

/-- **selected**: every id that reached `record_iter_changes` has its working
entry in the new revision -/
theorem commit_selected {v : Validation} {basis : Tree} {w : WT} {S : List Id} {r : Result}
    (h : commitFrom v basis w S = .ok r) {i : Id} (hi : i ∈ S) :
    get r.tree i = get (effective w) i := by
  obtain ⟨_, _, _, ht, _, _⟩ := commitFrom_ok h
  rw [ht, commitTree_get]; simp [hi]

/-- **nothing else**: every other id keeps its basis entry -/
theorem commit_unselected {v : Validation} {basis : Tree} {w : WT} {S : List Id} {r : Result}
    (h : commitFrom v basis w S = .ok r) {i : Id} (hi : i ∉ S) :
    get r.tree i = get basis i := by
  obtain ⟨_, _, _, ht, _, _⟩ := commitFrom_ok h
  rw [ht, commitTree_get]; simp [hi]

/-- a commit that succeeds recorded a well-formed inventory (the validation of
`add_inventory_by_delta`), for exactly the ids of the change stream -/
theorem commit_wf {basis : Tree} {w : WT} {S : List Id} {r : Result}
    (h : commitFrom .strict basis w S = .ok r) : wf r.tree = true ∧ r.ids = S := by
  obtain ⟨hw, _, hi, ht, _, _⟩ := commitFrom_ok h
  exact ⟨ht ▸ hw, hi⟩

/-- with the validation as found (`lax`) only the weaker `wfLax` is guaranteed
— *partial*: see `excluded_child_corrupt_witness` for an accepted ill-formed
result -/
theorem commit_wf_lax_partial {basis : Tree} {w : WT} {S : List Id} {r : Result}
    (h : commitFrom .lax basis w S = .ok r) : wfLax r.tree S = true ∧ r.ids = S := by
  obtain ⟨hw, _, hi, ht, _, _⟩ := commitFrom_ok h
  exact ⟨ht ▸ hw, hi⟩

/-- every recorded entry sits at its working-tree path in the new revision
(renames of unrecorded ancestors cannot silently relocate it) -/
theorem commit_paths_agree {v : Validation} {basis : Tree} {w : WT} {S : List Id} {r : Result}
    (h : commitFrom v basis w S = .ok r) {i : Id} (hi : i ∈ S) (he : (get (effective w) i).isSome = true) :
    pathOf r.tree i = pathOf w.inv i := by
  obtain ⟨_, hd, _, ht, _, _⟩ := commitFrom_ok h
  unfold deltaConsistent at hd
  rw [List.all_eq_true] at hd
  have := hd i hi
  rw [ht]
  cases hg : get (effective w) i with
  | none => simp [hg] at he
  | some e => simpa [hg] using this

theorem commitModel_ok {v : Validation} {basis : Tree} {w : WT} {sel : Option (List Path)} {excl : List Path}
    {r : Result} (h : commitModel v basis w sel excl = .ok r) :
    ∃ cs, reportedChanges basis w (sel.map minSel) = .ok cs ∧ commitFrom v basis w (commitIds excl cs) = .ok r := by
  unfold commitModel at h
  split at h
  · cases h
  · cases h
  · rename_i cs hcs; exact ⟨cs, hcs, h⟩

/-- **selected paths**: every id at or below a selected path (in the basis or in
the working tree) whose paths are not excluded has its working entry in the
new revision.  `hm`: a missing entry differs from its basis entry (it shows
kind `None` to the comparison). -/
theorem commit_paths_selected (v : Validation) (basis : Tree) (w : WT) (sel : Option (List Path)) (excl : List Path)
    (r : Result) (h : commitModel v basis w sel excl = .ok r)
    (hm : ∀ i ∈ w.missing, get basis i ≠ get w.inv i)
    (i : Id) (hs : pathSelected basis w (sel.map minSel) i)
    (h1 : insideOpt excl (pathOf basis i) = false) (h2 : insideOpt excl (pathOf w.inv i) = false) :
    get r.tree i = get (effective w) i := by
  obtain ⟨cs, hcs, hf⟩ := commitModel_ok h
  by_cases hin : i ∈ commitIds excl cs
  · exact commit_selected hf hin
  · rw [commit_unselected hf hin, get_effective]
    cases hc : change basis w.inv i with
    | none =>
      obtain ⟨hb, hw⟩ := change_none_iff.mp hc
      rw [hb, hw]; simp
    | some c =>
      by_cases hch : c.isChanged = true
      · exfalso
        apply hin
        rw [mem_commitIds]
        exact ⟨c, reported_complete hcs hs hc hch, keep_of_paths hc h1 h2, change_id hc⟩
      · have hch' : c.isChanged = false := by simpa using hch
        have heq := unchanged_noop' hc hch'
        by_cases hmi : i ∈ w.missing
        · exact absurd heq (hm i hmi)
        · simp [hmi, heq]

theorem insideOpt_nil (p : Option Path) : insideOpt [] p = false := by
  cases p <;> simp [insideOpt, insideAny]

/-- **full commit**: without selection and exclusion the new revision is the
working tree (minus missing entries) -/
theorem commit_all (v : Validation) (basis : Tree) (w : WT) (r : Result) (h : commitModel v basis w none [] = .ok r)
    (hm : ∀ i ∈ w.missing, get basis i ≠ get w.inv i) (i : Id) :
    get r.tree i = get (effective w) i :=
  commit_paths_selected v basis w none [] r h hm i trivial (insideOpt_nil _) (insideOpt_nil _)

/-- **nothing else, part 2**: an id is recorded only if it really differs
between basis and working tree and none of its paths is excluded -/
theorem commit_only_changed (v : Validation) (basis : Tree) (w : WT) (sel : Option (List Path)) (excl : List Path)
    (r : Result) (h : commitModel v basis w sel excl = .ok r) (i : Id) (hi : i ∈ r.ids) :
    ∃ c, change basis w.inv i = some c ∧ c.isChanged = true ∧ keepChange excl c = true := by
  obtain ⟨cs, hcs, hf⟩ := commitModel_ok h
  rw [(commitFrom_ok hf).2.2.1, mem_commitIds] at hi
  obtain ⟨c, hc, hk, hid⟩ := hi
  obtain ⟨ht, hch⟩ := reported_true hcs c hc
  exact ⟨c, hid ▸ ht, hch, hk⟩

/-- **exclusion**: an id whose basis path or working path lies at or below an
excluded path keeps its basis entry -/
theorem commit_excluded_untouched (v : Validation) (basis : Tree) (w : WT) (sel : Option (List Path)) (excl : List Path)
    (r : Result) (h : commitModel v basis w sel excl = .ok r) (i : Id)
    (hx : ((get basis i).isSome = true ∧ insideOpt excl (pathOf basis i) = true) ∨
          ((get w.inv i).isSome = true ∧ insideOpt excl (pathOf w.inv i) = true)) :
    get r.tree i = get basis i := by
  obtain ⟨cs, hcs, hf⟩ := commitModel_ok h
  apply commit_unselected hf
  intro hin
  rw [mem_commitIds] at hin
  obtain ⟨c, hc, hk, hid⟩ := hin
  obtain ⟨ht, _⟩ := reported_true hcs c hc
  rw [hid] at ht
  obtain ⟨hs, htg⟩ := change_srcPath ht
  unfold keepChange at hk
  rw [hs, htg] at hk
  rcases hx with ⟨ha, hb⟩ | ⟨ha, hb⟩
  · simp [ha, hb] at hk
  · simp [ha, hb] at hk

/-- **status afterwards**: a recorded id is identical in the new basis and the
working tree (any record of it is unchanged, it is no longer missing); an
unrecorded id keeps both its basis entry and its working entry, so its pending
change is still there -/
theorem status_after_commit (v : Validation) (basis : Tree) (w : WT) (S : List Id) (r : Result)
    (h : commitFrom v basis w S = .ok r) (i : Id) :
    (i ∈ S → get r.tree i = get r.wt.inv i ∧ i ∉ r.wt.missing ∧
        ∀ c, change r.tree r.wt.inv i = some c → c.isChanged = false) ∧
    (i ∉ S → get r.tree i = get basis i ∧ get r.wt.inv i = get w.inv i ∧
        (i ∈ r.wt.missing ↔ i ∈ w.missing)) := by
  obtain ⟨_, _, _, ht, hinv, hmis⟩ := commitFrom_ok h
  have hget : get r.wt.inv i = if (!(w.missing.contains i && S.contains i)) = true then get w.inv i else none := by
    rw [hinv]; exact get_filter_key w.inv (fun k => !(w.missing.contains k && S.contains k)) i
  constructor
  · intro hi
    have h1 : get r.tree i = get r.wt.inv i := by
      rw [ht, commitTree_get, hget, get_effective]
      by_cases hm : i ∈ w.missing <;> simp [hi, hm]
    refine ⟨h1, ?_, fun c hc => unchanged_of_get_eq h1 hc⟩
    rw [hmis]; simp [hi]
  · intro hi
    refine ⟨?_, ?_, ?_⟩
    · rw [ht, commitTree_get]; simp [hi]
    · rw [hget]; simp [hi]
    · rw [hmis]; simp [hi]

/-- **Witness (usability, not a violation of C01)**: the closure of
`_handle_precise_ids` does not always give a consistent delta — on the
well-formed pair of `C10.displaced_entry_witness` the partial commit of `x` is
refused with `InconsistentDelta` (the commit raises and nothing changes). -/
theorem closure_insufficient_witness :
    wf C10.dSrc = true ∧ wf C10.dTgt = true ∧
    (match commitModel .strict C10.dSrc ⟨C10.dTgt, []⟩ (some [["x"]]) [] with
     | .error e => some e
     | .ok _ => none) = some CErr.inconsistentDelta := by decide +kernel

def cBasis : Tree :=
  [("r", ⟨none, "", .dir⟩), ("d", ⟨some "r", "d", .dir⟩), ("s", ⟨some "d", "sub", .dir⟩),
   ("f", ⟨some "s", "f", .file "1" false⟩)]

/-- `d/sub` replaced by a file, `d/sub/f` unversioned -/
def cWt : WT :=
  ⟨[("r", ⟨none, "", .dir⟩), ("d", ⟨some "r", "d", .dir⟩), ("s", ⟨some "d", "sub", .file "2" false⟩)], []⟩

/-- **Witness (property violated by the code as found)**: `commit(exclude=["d/sub/f"])`
after replacing the directory `d/sub` by a file and removing `d/sub/f`:
`filter_excluded` drops the removal of `f`, the validation does not notice that
`f` is left below a file, and the commit *succeeds* with an ill-formed
inventory (the real revision cannot be read back).  With the strict validation
the same commit is refused. -/
theorem excluded_child_corrupt_witness :
    wf cBasis = true ∧ wf cWt.inv = true ∧
    (match commitModel .lax cBasis cWt none [["d", "sub", "f"]] with
     | .ok r => some (r.ids, wf r.tree, (get r.tree "s").map (·.node.kind), (get r.tree "f").map (·.parent))
     | .error _ => none) = some (["s"], false, some Kind.file, some (some "s")) ∧
    (match commitModel .strict cBasis cWt none [["d", "sub", "f"]] with
     | .ok _ => none
     | .error e => some e) = some CErr.inconsistentDelta := by decide +kernel

/-! non-vacuity: a rename from an unselected into a selected directory, a
pending edit left behind, a missing entry -/

def exBasis : Tree :=
  [("r", ⟨none, "", .dir⟩), ("A", ⟨some "r", "a", .dir⟩), ("B", ⟨some "r", "b", .dir⟩),
   ("f", ⟨some "A", "f", .file "1" false⟩), ("g", ⟨some "A", "g", .file "1" false⟩),
   ("m", ⟨some "B", "m", .file "1" false⟩)]

def exWt : WT :=
  ⟨[("r", ⟨none, "", .dir⟩), ("A", ⟨some "r", "a", .dir⟩), ("B", ⟨some "r", "b", .dir⟩),
    ("f", ⟨some "B", "f", .file "2" true⟩), ("g", ⟨some "A", "g", .file "2" false⟩),
    ("m", ⟨some "B", "m", .symlink "?"⟩)], ["m"]⟩

example :
    (match commitModel .strict exBasis exWt (some [["b"]]) [] with
     | .ok r => some (r.ids, get r.tree "f", get r.tree "g", get r.tree "m", r.wt.missing)
     | .error _ => none)
      = some (["f", "m"], some ⟨some "B", "f", .file "2" true⟩, some ⟨some "A", "g", .file "1" false⟩, none, []) := by
  decide +kernel

example : (∀ i ∈ exWt.missing, get exBasis i ≠ get exWt.inv i) ∧
    "f" ∈ selectIds exBasis exWt.inv (minSel [["b"]]) ∧
    insideOpt [] (pathOf exBasis "f") = false := by decide +kernel

example : insideOpt [["a"]] (pathOf exBasis "g") = true ∧
    (match commitModel .strict exBasis exWt none [["a"]] with
     | .ok r => some r.ids
     | .error _ => none) = some ["m"] := by decide +kernel

/-! ### git trees -/

/-- a path the kept changes write carries the working content -/
theorem git_written (basis wt : GTree) (cs : List GChange) (sel : Option (List Path)) (excl : List Path)
    (p : Path) (hp : p ∈ gWritten wt (cs.filter (gKeep sel excl))) :
    glookup (gitCommitTree basis wt cs sel excl) p = glookup wt p := by
  unfold gitCommitTree
  simp only
  rw [glookup_append, glookup_written]
  simp only [hp, if_true]
  have : (glookup wt p).isSome = true := by
    unfold gWritten at hp
    rw [List.mem_filterMap] at hp
    obtain ⟨c, _, hc⟩ := hp
    cases hn : c.new with
    | none => simp [hn] at hc
    | some q =>
      simp only [hn, Option.bind_some] at hc
      split at hc
      · rename_i hq; simp at hc; subst hc; exact hq
      · cases hc
  cases hg : glookup wt p with
  | none => simp [hg] at this
  | some n => simp

/-- a path no kept change writes or deletes keeps its basis content -/
theorem git_untouched (basis wt : GTree) (cs : List GChange) (sel : Option (List Path)) (excl : List Path)
    (p : Path) (h1 : p ∉ gWritten wt (cs.filter (gKeep sel excl)))
    (h2 : p ∉ gDeleted (cs.filter (gKeep sel excl))) :
    glookup (gitCommitTree basis wt cs sel excl) p = glookup basis p := by
  unfold gitCommitTree
  simp only
  rw [glookup_append, glookup_written]
  simp only [h1, if_false, Option.orElse_none]
  rw [glookup_filter_key basis (fun q => !(gWritten wt (cs.filter (gKeep sel excl))).contains q &&
      !(gDeleted (cs.filter (gKeep sel excl))).contains q) p]
  simp [h1, h2]

/-- the old path of a kept change disappears unless a kept change writes it -/
theorem git_deleted (basis wt : GTree) (cs : List GChange) (sel : Option (List Path)) (excl : List Path)
    (p : Path) (h1 : p ∉ gWritten wt (cs.filter (gKeep sel excl)))
    (h2 : p ∈ gDeleted (cs.filter (gKeep sel excl))) :
    glookup (gitCommitTree basis wt cs sel excl) p = none := by
  unfold gitCommitTree
  simp only
  rw [glookup_append, glookup_written]
  simp only [h1, if_false, Option.orElse_none]
  rw [glookup_filter_key basis (fun q => !(gWritten wt (cs.filter (gKeep sel excl))).contains q &&
      !(gDeleted (cs.filter (gKeep sel excl))).contains q) p]
  simp [h2]

example :
    gitCommitTree [(["a"], .file "1" false), (["d", "x"], .file "1" false)]
      [(["b"], .file "1" false), (["d", "x"], .file "2" false)]
      [⟨some ["a"], some ["b"]⟩, ⟨some ["d", "x"], some ["d", "x"]⟩] (some [["b"]]) []
      = [(["b"], .file "1" false), (["d", "x"], .file "1" false)] := by decide +kernel

/-! ### the pipeline with a fault -/

/-- **abort is a no-op** (the part of the statement that holds): an exception
raised at any stage up to and including `builder.commit` leaves the visible
revisions, the tip and the tree basis unchanged and the write group closed.
*Partial*: for the later stages the statement is false, see the witnesses. -/
theorem commit_abort_noop_partial (new : Rev) (st : Stage) (s : PState) (h : insideTry st = true) :
    (runCommit new (some st) s).2 = true ∧
    visible (runCommit new (some st) s).1 = visible s ∧
    (runCommit new (some st) s).1.basis = s.basis ∧
    (runCommit new (some st) s).1.inGroup = false ∧ (runCommit new (some st) s).1.pending = [] := by
  cases st <;>
    simp_all [insideTry, Stage.idx, runCommit, runStages, stages, stageEffect, abortGroup, visible]

example : insideTry .finishInv = true ∧ insideTry .builderCommit = true ∧ insideTry .preHook = false := by decide

/-- **Witness (property violated, DESIGN §7-F6)**: an exception from a
`pre_commit` hook or from `set_last_revision_info` is raised after
`builder.commit()`: the commit raises, the tip is unchanged, but the new
revision is visible in the repository. -/
theorem late_fault_leaves_revision_witness (new : Rev) (st : Stage) (s : PState)
    (h : st = .preHook ∨ st = .setTip) :
    (runCommit new (some st) s).2 = true ∧ (runCommit new (some st) s).1.tip = s.tip ∧
    (runCommit new (some st) s).1.revs = s.revs ++ [new] := by
  rcases h with h | h <;> subst h <;>
    simp [runCommit, runStages, stages, stageEffect, insideTry, Stage.idx]

/-- **Witness**: an exception from `update_basis_by_delta` or a `post_commit`
hook is raised after the tip moved: the commit raises with the branch already
at the new revision (and, for `update_basis_by_delta`, the tree basis behind). -/
theorem late_fault_moves_tip_witness (new : Rev) (st : Stage) (s : PState)
    (h : st = .updateBasis ∨ st = .postHook) :
    (runCommit new (some st) s).2 = true ∧ (runCommit new (some st) s).1.tip = some new ∧
    new ∈ (runCommit new (some st) s).1.revs := by
  rcases h with h | h <;> subst h <;>
    simp [runCommit, runStages, stages, stageEffect, insideTry, Stage.idx]

/-- without a fault the revision becomes visible, then the tip and the tree
basis move to it -/
theorem commit_no_fault (new : Rev) (s : PState) :
    runCommit new none s =
      ({ revs := s.revs ++ [new], pending := [], inGroup := false, tip := some new, basis := some new }, false) := by
  simp [runCommit, runStages, stages, stageEffect]

end BreezyVerif.C01
