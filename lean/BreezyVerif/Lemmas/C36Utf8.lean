import BreezyVerif.Model.C36
/-! C36 — lemmas about the UTF-8 codec model. -/
namespace BreezyVerif.C36

/-- a successfully decoded sequence is the (strict) encoding of its code point -/
theorem decodeStep_sound' {l : NBytes} {c : Nat} {r : NBytes} (h : decodeStep l = some (c, r)) :
    (encCp false c).map (· ++ r) = some l := by
  unfold decodeStep at h
  repeat' split at h
  all_goals try (simp at h; done)
  all_goals (
    simp only [Option.some.injEq, Prod.mk.injEq] at h
    obtain ⟨rfl, rfl⟩ := h
    unfold encCp
    repeat' split
    all_goals first
      | omega
      | (simp only [Option.map_some, Option.some.injEq, List.cons_append, List.nil_append, List.cons.injEq,
          and_true]; omega)
      | simp)


/-- the strict encoding of a code point decodes back to it, whatever follows -/
theorem decodeStep_complete {c : Nat} {p : NBytes} (r : NBytes) (h : encCp false c = some p) :
    decodeStep (p ++ r) = some (c, r) := by
  unfold encCp at h
  repeat' split at h
  all_goals try (simp at h; done)
  all_goals try (rename_i hse; simp at hse; done)
  all_goals (
    simp only [Option.some.injEq] at h
    subst h
    simp only [List.cons_append, List.nil_append, decodeStep]
    repeat' split
    all_goals first
      | omega
      | (simp only [Option.some.injEq, Prod.mk.injEq, and_true]; omega)
      | simp
      | (exfalso; omega))

theorem encCp_true_of_false {c : Nat} {p : NBytes} (h : encCp false c = some p) :
    encCp true c = some p := by
  by_cases hs : 0xD800 ≤ c ∧ c < 0xE000
  · have : encCp false c = none := by
      unfold encCp
      rw [if_neg (by omega), if_neg (by omega), if_pos (by omega), if_pos hs]
      simp
    rw [this] at h; cases h
  · have : encCp true c = encCp false c := by
      unfold encCp
      simp only [if_neg hs]
    rw [this]; exact h

theorem decodeStep_nil : decodeStep [] = none := by simp [decodeStep]

/-- a byte at which no well-formed sequence starts is not ASCII -/
theorem decodeStep_none_ge {b0 : Nat} {rest : NBytes} (h : decodeStep (b0 :: rest) = none) : 0x80 ≤ b0 := by
  simp only [decodeStep] at h
  split at h
  · cases h
  · omega

/-- the lone surrogate the `surrogateescape` decoder produces encodes back to the byte -/
theorem encCp_escape {b : Nat} (h1 : 0x80 ≤ b) (h2 : b < 256) : encCp true (0xDC00 + b) = some [b] := by
  unfold encCp
  rw [if_neg (by omega), if_neg (by omega), if_pos (by omega), if_pos (by omega), if_pos ⟨rfl, by omega, by omega⟩]
  simp

theorem isBytes_cons {b : Nat} {l : List Nat} : isBytes (b :: l) = true ↔ b < 256 ∧ isBytes l = true := by
  simp [isBytes]

theorem isBytes_append {l1 l2 : List Nat} : isBytes (l1 ++ l2) = true ↔ isBytes l1 = true ∧ isBytes l2 = true := by
  simp [isBytes]

theorem encodeUtf8_cons (se : Bool) (c : Nat) (cs : Str) :
    encodeUtf8 se (c :: cs) = (encCp se c).bind (fun p => (encodeUtf8 se cs).map (p ++ ·)) := by
  rw [encodeUtf8]
  cases encCp se c <;> cases encodeUtf8 se cs <;> rfl

theorem decodeSE_of_step {b0 : Nat} {rest : NBytes} {c : Nat} {r : NBytes}
    (h : decodeStep (b0 :: rest) = some (c, r)) : decodeSE (b0 :: rest) = c :: decodeSE r := by
  rw [decodeSE]
  split
  · rename_i c' r' h'
    rw [h] at h'
    simp only [Option.some.injEq, Prod.mk.injEq] at h'
    obtain ⟨rfl, rfl⟩ := h'
    rfl
  · rename_i h'
    rw [h] at h'; cases h'

theorem decodeSE_of_none {b0 : Nat} {rest : NBytes}
    (h : decodeStep (b0 :: rest) = none) : decodeSE (b0 :: rest) = (0xDC00 + b0) :: decodeSE rest := by
  rw [decodeSE]
  split
  · rename_i c' r' h'
    rw [h] at h'; cases h'
  · rfl

/-- `encode(decode(b, surrogateescape), surrogateescape) = b` for every byte string -/
theorem encode_decodeSE (bs : NBytes) (hb : isBytes bs = true) : encodeUtf8 true (decodeSE bs) = some bs := by
  induction bs using decodeSE.induct with
  | case1 => simp [decodeSE, encodeUtf8]
  | case2 b0 rest c r h ih =>
    rw [decodeSE_of_step h]
    have hs := decodeStep_sound' h
    cases hp : encCp false c with
    | none => simp [hp] at hs
    | some p =>
      simp only [hp, Option.map_some, Option.some.injEq] at hs
      have hr : isBytes r = true := by
        rw [← hs] at hb; exact (isBytes_append.mp hb).2
      rw [encodeUtf8_cons, encCp_true_of_false hp, ih hr, ← hs]
      rfl
  | case3 b0 rest h ih =>
    rw [decodeSE_of_none h]
    have hb' := isBytes_cons.mp hb
    rw [encodeUtf8_cons, encCp_escape (decodeStep_none_ge h) hb'.1, ih hb'.2]
    rfl

theorem decodeStrict_of_step {l : NBytes} {c : Nat} {r : NBytes} (h : decodeStep l = some (c, r)) :
    decodeStrict l = (decodeStrict r).map (c :: ·) := by
  cases l with
  | nil => simp [decodeStep] at h
  | cons b0 rest =>
    rw [decodeStrict]
    split
    · rename_i c' r' h'
      rw [h] at h'
      simp only [Option.some.injEq, Prod.mk.injEq] at h'
      obtain ⟨rfl, rfl⟩ := h'
      rfl
    · rename_i h'
      rw [h] at h'; cases h'

theorem encCp_ne_nil {se : Bool} {c : Nat} {p : NBytes} (h : encCp se c = some p) : p ≠ [] := by
  unfold encCp at h
  repeat' split at h
  all_goals first
    | (simp at h; done)
    | (simp only [Option.some.injEq] at h; subst h; simp)

/-- `decode(encode(s)) = s` (strict) -/
theorem decodeStrict_encode {s : Str} {bs : NBytes} (h : encodeUtf8 false s = some bs) :
    decodeStrict bs = some s := by
  induction s generalizing bs with
  | nil => simp [encodeUtf8] at h; subst h; simp [decodeStrict]
  | cons c cs ih =>
    rw [encodeUtf8_cons] at h
    cases hp : encCp false c with
    | none => simp [hp] at h
    | some p =>
      cases hq : encodeUtf8 false cs with
      | none => simp [hp, hq] at h
      | some q =>
        simp only [hp, hq, Option.bind_some, Option.map_some, Option.some.injEq] at h
        subst h
        rw [decodeStrict_of_step (decodeStep_complete q hp), ih hq]
        rfl

/-- `encode(decode(b)) = b` (strict), whenever `b` decodes -/
theorem encode_decodeStrict (bs : NBytes) {s : Str} (h : decodeStrict bs = some s) :
    encodeUtf8 false s = some bs := by
  induction bs using decodeStrict.induct generalizing s with
  | case1 => simp [decodeStrict] at h; subst h; simp [encodeUtf8]
  | case2 b0 rest c r hstep ih =>
    rw [decodeStrict_of_step hstep] at h
    cases hr : decodeStrict r with
    | none => simp [hr] at h
    | some t =>
      simp only [hr, Option.map_some, Option.some.injEq] at h
      subst h
      have hs := decodeStep_sound' hstep
      cases hp : encCp false c with
      | none => simp [hp] at hs
      | some p =>
        simp only [hp, Option.map_some, Option.some.injEq] at hs
        rw [encodeUtf8_cons, hp, ih hr, ← hs]
        rfl
  | case3 b0 rest hstep =>
    rw [decodeStrict] at h
    split at h
    · rename_i h'; rw [hstep] at h'; cases h'
    · cases h

/-- ASCII strings are their own UTF-8 encoding -/
theorem encodeUtf8_ascii (se : Bool) (s : Str) (h : s.all (· < 128) = true) : encodeUtf8 se s = some s := by
  induction s with
  | nil => simp [encodeUtf8]
  | cons c cs ih =>
    simp only [List.all_cons, Bool.and_eq_true, decide_eq_true_eq] at h
    have : encCp se c = some [c] := by unfold encCp; rw [if_pos h.1]
    rw [encodeUtf8_cons, ih h.2, this]; rfl

theorem decodeStrict_ascii (s : Str) (h : s.all (· < 128) = true) : decodeStrict s = some s :=
  decodeStrict_encode (encodeUtf8_ascii false s h)

theorem encodeUtf8_isBytes {se : Bool} {s : Str} {bs : NBytes} (h : encodeUtf8 se s = some bs) :
    isBytes bs = true := by
  induction s generalizing bs with
  | nil => simp [encodeUtf8] at h; subst h; rfl
  | cons c cs ih =>
    rw [encodeUtf8_cons] at h
    cases hp : encCp se c with
    | none => simp [hp] at h
    | some p =>
      cases hq : encodeUtf8 se cs with
      | none => simp [hp, hq] at h
      | some q =>
        simp only [hp, hq, Option.bind_some, Option.map_some, Option.some.injEq] at h
        subst h
        rw [isBytes_append]
        refine ⟨?_, ih hq⟩
        unfold encCp at hp
        repeat' split at hp
        all_goals first
          | (simp at hp; done)
          | (simp only [Option.some.injEq] at hp; subst hp
             simp only [isBytes, List.all_cons, List.all_nil, Bool.and_true, Bool.and_eq_true, decide_eq_true_eq]
             omega)

end BreezyVerif.C36
