import BreezyVerif.Common
import BreezyVerif.Model.C52
/-
Line protocol of C52:

  chain <variant: tagCheck T|F> <force T|F> <targets b,t,c,l,s,u comma list> <tree T|F> <dirty T|F> <branch u|b|r> <repo n|o|s>
        <sharedAbove T|F> <bindKnown T|F> <synced T|F> <local tags n:v,…|-> <tags at the bind location n:v,…|->
    -> per step `<ok|E:kind>:<tree><dirty><branch><repo><bindKnown>:<treestate none|kept|clean>:<tip o|m>:<tags>`
       joined by a space; tip `o` = the tip at the start, `m` = the tip of the branch at the bind location;
       tags = the value of tag name 0, 1, … k-1 (`-` = not set), joined by `,` (`-` when k = 0), k = number of
       names mentioned in the request
  upgrade <repo class|~> <branch format|~> <tree format|~> <target repo> <target branch> <target tree>
          <mainline length> <number of pending merges>
    -> `<ok|E:UpToDate|E:BadConversionTarget> <repo|~> <branch|~> <tree|~> <passes> <revno.tip|~> <tree parents|~> <obs same T|F>`
       passes = converter names joined by `+` per pass (`0` for a pass without converter), passes joined by `/`,
       `-` for no pass
-/
namespace BreezyVerif.C52

def parseTarget (s : String) : Option Target :=
  if s == "b" then some .branch else if s == "t" then some .tree else if s == "c" then some .checkout
  else if s == "l" then some .lightweightCheckout else if s == "s" then some .standalone
  else if s == "u" then some .useShared else none

def parseBK (s : String) : Option BK :=
  if s == "u" then some .unbound else if s == "b" then some .bound else if s == "r" then some .reference else none

def parseRK (s : String) : Option RK :=
  if s == "n" then some .none else if s == "o" then some .own else if s == "s" then some .shared else none

def showBK : BK → String
  | .unbound => "u" | .bound => "b" | .reference => "r"

def showRK : RK → String
  | .none => "n" | .own => "o" | .shared => "s"

def showErr : Option Err → String
  | none => "ok"
  | some .already => "E:Already"
  | some .notSupported => "E:NotSupported"
  | some .uncommittedChanges => "E:UncommittedChanges"
  | some .unsyncedBranches => "E:UnsyncedBranches"
  | some .noBindLocation => "E:NoBindLocation"
  | some .noSharedRepository => "E:NoSharedRepository"

def parseTags (s : String) : Option Tags :=
  (splitList s).mapM fun p =>
    match p.splitOn ":" with
    | [a, b] => match a.toNat?, b.toNat? with
      | some a, some b => some (a, b)
      | _, _ => none
    | _ => none

/-- the tree state relative to the start of the chain: code 0 = the original tree content -/
def showTreeState (l : Loc) : String :=
  if !l.tree then "none" else if l.treeCode == 0 then "kept" else "clean"

def showLoc (l : Loc) : String :=
  s!"{showBool l.tree}{showBool l.dirty}{showBK l.branch}{showRK l.repo}{showBool l.bindKnown}"

def showTags (k : Nat) (ts : Tags) : String :=
  joinList ((List.range k).map fun n => match lookupTag ts n with | some v => toString v | none => "-")

def steps (v : Variant) (force : Bool) (k : Nat) : List Target → Loc → List String
  | [], _ => []
  | t :: ts, l =>
    let r := reconfigure v t force l
    let tip := if r.1.tip == 1 then "o" else "m"
    s!"{showErr r.2}:{showLoc r.1}:{showTreeState r.1}:{tip}:{showTags k r.1.tags}" :: steps v force k ts r.1

def showStep : Step → String
  | .repoCopy => "repo" | .b5to6 => "b5to6" | .b6to7 => "b6to7" | .b7to8 => "b7to8"
  | .t3to4 => "t3to4" | .t4to5 => "t4to5" | .t4or5to6 => "t4or5to6"

def showUErr : Option UErr → String
  | none => "ok" | some .upToDate => "E:UpToDate" | some .badConversionTarget => "E:BadConversionTarget"

def showPasses (ps : List (List Step)) : String :=
  if ps.isEmpty then "-" else "/".intercalate (ps.map fun p => if p.isEmpty then "0" else "+".intercalate (p.map showStep))

def handle : List String → String
  | ["chain", tc, force, ts, tree, dirty, br, repo, above, known, synced, ltags, rtags] =>
    match parseBool tc, parseBool force, (splitList ts).mapM parseTarget, parseBool tree, parseBool dirty, parseBK br, parseRK repo,
          parseBool above, parseBool known, parseBool synced, parseTags ltags, parseTags rtags with
    | some tc, some force, some ts, some tree, some dirty, some br, some repo, some above, some known, some synced,
      some ltags, some rtags =>
      let l : Loc := { tree := tree, dirty := dirty, branch := br, repo := repo, sharedAbove := above, bindKnown := known,
                       format := 0, tip := 1, hist := 1, tags := ltags, treeCode := 0,
                       refTip := if synced then 1 else 2, refHist := if synced then 1 else 2, refTags := rtags }
      let k := ((ltags ++ rtags).map (·.1 + 1)).foldl max 0
      " ".intercalate (steps ⟨tc⟩ force k ts l)
    | _, _, _, _, _, _, _, _, _, _, _, _ => "bad-op"
  | ["upgrade", r, b, t, tr, tb, tt, n, pm] =>
    match optNat r, optNat b, optNat t, tr.toNat?, tb.toNat?, tt.toNat?, n.toNat?, pm.toNat? with
    | some r, some b, some t, some tr, some tb, some tt, some n, some pm =>
      let hist := (List.range n).map (· + 1)
      let br : Option UBranch := b.map fun f =>
        { fmt := f, revHistory := if f == 5 then hist else [], lastRev := if f == 5 then (0, 0) else (n, n),
          parent := some 1, bound := none, push := some 2, tags := if f == 5 then [] else [(0, 1)] }
      let pend := (List.range pm).map (· + 100)
      let tree : Option UTree := t.map fun f =>
        { fmt := f, lastRevision := if f == 3 then n else 0, pendingMerges := if f == 3 then pend else [],
          dsParents := if f == 3 then [] else (if n == 0 then [] else [n]) ++ pend, inv := 7 }
      let u : ULoc := { repo := r, revs := 9, branch := br, tree := tree }
      let res := upgrade ⟨tr, tb, tt⟩ u
      let u' := res.1
      let info := match u'.branch with | some b => s!"{b.info.1}.{b.info.2}" | none => "~"
      let par := match u'.tree with | some t => joinList (t.parents.map toString) | none => "~"
      s!"{showUErr res.2.2} {showOptNat u'.repo} {showOptNat (u'.branch.map (·.fmt))} {showOptNat (u'.tree.map (·.fmt))} {showPasses res.2.1} {info} {par} {showBool (uobs u' == uobs u)}"
    | _, _, _, _, _, _, _, _ => "bad-op"
  | _ => "bad-op"

end BreezyVerif.C52

def main : IO Unit := BreezyVerif.runDriver BreezyVerif.C52.handle
