import BreezyVerif.Lemmas.C01
/-!
C01 — paths in well-formed id-space trees: fuel monotonicity of `pathFuel`,
injectivity of `pathOf` (from `wf`), and "an id whose path is at or below a
filter path is selected" (`selectIds_of_prefix_tgt/src`), which anchors the
model's own `selectIds` (a bounded iterate) to the path prefix relation the
property speaks about.
-/
namespace BreezyVerif.C01
open BreezyVerif.C10

theorem mem_of_get {t : Tree} {i : Id} {e : Entry} (h : get t i = some e) : (i, e) ∈ t := by
  induction t with
  | nil => simp [C10.get] at h
  | cons x rest ih =>
    obtain ⟨j, e'⟩ := x
    unfold C10.get at h
    split at h
    · rename_i hj
      cases h; subst hj
      exact List.mem_cons_self
    · exact List.mem_cons_of_mem _ (ih h)

theorem pathFuel_mono {t : Tree} : ∀ {n : Nat} {i : Id} {p : Path}, pathFuel t n i = some p →
    ∀ m, n ≤ m → pathFuel t m i = some p := by
  intro n
  induction n with
  | zero => intro i p h; simp [pathFuel] at h
  | succ n ih =>
    intro i p h m hm
    obtain ⟨m', rfl⟩ : ∃ m', m = m' + 1 := ⟨m - 1, by omega⟩
    unfold pathFuel at h ⊢
    cases hg : get t i with
    | none => simp [hg] at h
    | some e =>
      simp only [hg] at h ⊢
      cases hp : e.parent with
      | none => simpa [hp] using h
      | some q =>
        simp only [hp] at h ⊢
        cases hq : pathFuel t n q with
        | none => simp [hq] at h
        | some pp =>
          rw [ih hq m' (by omega)]
          simpa [hq] using h

theorem pathFuel_length {t : Tree} : ∀ {n : Nat} {i : Id} {p : Path}, pathFuel t n i = some p → p.length < n := by
  intro n
  induction n with
  | zero => intro i p h; simp [pathFuel] at h
  | succ n ih =>
    intro i p h
    unfold pathFuel at h
    cases hg : get t i with
    | none => simp [hg] at h
    | some e =>
      simp only [hg] at h
      cases hp : e.parent with
      | none => simp [hp] at h; subst h; simp
      | some q =>
        simp only [hp] at h
        cases hq : pathFuel t n q with
        | none => simp [hq] at h
        | some pp =>
          simp [hq] at h
          subst h
          have := ih hq
          simp; omega

theorem pathOf_length {t : Tree} {i : Id} {p : Path} (h : pathOf t i = some p) : p.length ≤ t.length := by
  have := pathFuel_length h
  omega

/-- one step of `pathFuel`, as an equation -/
theorem pathFuel_step {t : Tree} {n : Nat} {i : Id} {p : Path} (h : pathFuel t (n + 1) i = some p) :
    ∃ e, get t i = some e ∧
      ((e.parent = none ∧ p = []) ∨ ∃ q pp, e.parent = some q ∧ pathFuel t n q = some pp ∧ p = pp ++ [e.name]) := by
  unfold pathFuel at h
  cases hg : get t i with
  | none => simp [hg] at h
  | some e =>
    refine ⟨e, rfl, ?_⟩
    simp only [hg] at h
    cases hp : e.parent with
    | none => left; simp [hp] at h; exact ⟨rfl, h⟩
    | some q =>
      right
      simp only [hp] at h
      cases hq : pathFuel t n q with
      | none => simp [hq] at h
      | some pp =>
        simp [hq] at h
        exact ⟨q, pp, rfl, hq, h.symm⟩

/-! ### what `wf` gives -/

theorem wf_sibling {t : Tree} (hw : wf t = true) {i j : Id} {ei ej : Entry}
    (hi : (i, ei) ∈ t) (hj : (j, ej) ∈ t) (hp : ei.parent = ej.parent) (hn : ei.name = ej.name) : i = j := by
  unfold wf at hw
  simp only [Bool.and_eq_true] at hw
  obtain ⟨⟨⟨_, _⟩, hs⟩, _⟩ := hw
  rw [List.all_eq_true] at hs
  have h1 := hs _ hi
  rw [List.all_eq_true] at h1
  have h2 := h1 _ hj
  simp only [Bool.or_eq_true, beq_iff_eq, Bool.not_eq_true', Bool.and_eq_false_iff] at h2
  rcases h2 with h2 | h2 | h2
  · exact h2
  · simp [hp] at h2
  · simp [hn] at h2

theorem wf_root {t : Tree} (hw : wf t = true) {i j : Id} {ei ej : Entry}
    (hi : (i, ei) ∈ t) (hj : (j, ej) ∈ t) (hpi : ei.parent = none) (hpj : ej.parent = none) : i = j := by
  unfold wf at hw
  simp only [Bool.and_eq_true, beq_iff_eq] at hw
  obtain ⟨⟨⟨⟨hr, _⟩, _⟩, _⟩, _⟩ := hw
  obtain ⟨a, ha⟩ := List.length_eq_one_iff.mp hr
  have mi : i ∈ rootsOf t := by
    unfold rootsOf
    rw [List.mem_map]
    exact ⟨(i, ei), List.mem_filter.mpr ⟨hi, by simp [hpi]⟩, rfl⟩
  have mj : j ∈ rootsOf t := by
    unfold rootsOf
    rw [List.mem_map]
    exact ⟨(j, ej), List.mem_filter.mpr ⟨hj, by simp [hpj]⟩, rfl⟩
  rw [ha] at mi mj
  simp at mi mj
  rw [mi, mj]

/-- in a well-formed tree two ids with the same path are the same id -/
theorem pathFuel_inj {t : Tree} (hw : wf t = true) : ∀ (n : Nat) (i j : Id) (p : Path),
    pathFuel t n i = some p → pathFuel t n j = some p → i = j := by
  intro n
  induction n with
  | zero => intro i j p h; simp [pathFuel] at h
  | succ n ih =>
    intro i j p hi hj
    obtain ⟨ei, gi, ci⟩ := pathFuel_step hi
    obtain ⟨ej, gj, cj⟩ := pathFuel_step hj
    rcases ci with ⟨pi, hpi⟩ | ⟨qi, ppi, pi, fi, hpi⟩ <;> rcases cj with ⟨pj, hpj⟩ | ⟨qj, ppj, pj, fj, hpj⟩
    · exact wf_root hw (mem_of_get gi) (mem_of_get gj) pi pj
    · rw [hpi] at hpj; simp at hpj
    · rw [hpj] at hpi; simp at hpi
    · rw [hpi] at hpj
      have := List.append_inj' hpj (by simp)
      obtain ⟨h1, h2⟩ := this
      simp at h2
      subst h1
      have hq : qi = qj := ih qi qj ppi fi fj
      exact wf_sibling hw (mem_of_get gi) (mem_of_get gj) (by rw [pi, pj, hq]) h2

theorem pathOf_inj {t : Tree} (hw : wf t = true) {i j : Id} {p : Path}
    (hi : pathOf t i = some p) (hj : pathOf t j = some p) : i = j :=
  pathFuel_inj hw _ i j p hi hj

/-- `path2id` of a well-formed tree finds the id that has the path -/
theorem idAt_of_pathOf {t : Tree} (hw : wf t = true) {a : Id} {p : Path} (h : pathOf t a = some p) :
    idAt t p = some a := by
  have hmem : a ∈ ids t := by
    obtain ⟨e, ge, _⟩ := pathFuel_step h
    exact mem_ids_of_get ge
  unfold idAt
  cases hf : (ids t).find? (fun i => pathOf t i == some p) with
  | none =>
    rw [List.find?_eq_none] at hf
    exact absurd (by simp [h]) (hf a hmem)
  | some a' =>
    have := List.find?_some hf
    simp only [beq_iff_eq] at this
    rw [pathOf_inj hw this h]

/-! ### descendants -/

/-- `i` is reached from `a` by `k` child steps in `t` -/
def Desc (t : Tree) (a : Id) : Nat → Id → Prop
  | 0, i => a = i
  | k + 1, i => ∃ m, Desc t a k m ∧ i ∈ childrenOf t m

/-- an id whose path extends `p` descends from an id whose path is `p` -/
theorem desc_of_prefix {t : Tree} : ∀ {n : Nat} {i : Id} {path p : Path}, pathFuel t n i = some path → p <+: path →
    ∃ a k, pathFuel t n a = some p ∧ Desc t a k i ∧ k ≤ path.length := by
  intro n
  induction n with
  | zero => intro i path p h; simp [pathFuel] at h
  | succ n ih =>
    intro i path p h hp
    obtain ⟨e, ge, c⟩ := pathFuel_step h
    rcases c with ⟨_, hnil⟩ | ⟨q, pp, hq, fq, hpath⟩
    · subst hnil
      rw [List.prefix_nil] at hp
      subst hp
      exact ⟨i, 0, h, rfl, by simp⟩
    · subst hpath
      rcases List.prefix_concat_iff.mp hp with heq | hpre
      · subst heq
        exact ⟨i, 0, h, rfl, by simp⟩
      · obtain ⟨a, k, fa, da, hk⟩ := ih fq hpre
        refine ⟨a, k + 1, pathFuel_mono fa _ (by omega), ⟨q, da, ?_⟩, by simp; omega⟩
        unfold childrenOf
        rw [List.mem_map]
        exact ⟨(i, e), List.mem_filter.mpr ⟨mem_of_get ge, by simp [hq]⟩, rfl⟩

/-! ### the bounded iterate of `selectIds` -/

theorem iterate_succ' {α : Type} (f : α → α) : ∀ (n : Nat) (a : α), iterate f (n + 1) a = f (iterate f n a) := by
  intro n
  induction n with
  | zero => intro a; rfl
  | succ n ih => intro a; show iterate f (n + 1) (f a) = _; rw [ih]; rfl

theorem mem_expandChildren {src tgt : Tree} {s : List Id} {j : Id} :
    j ∈ expandChildren src tgt s ↔ j ∈ s ∨ ∃ m ∈ s, j ∈ childrenOf src m ∨ j ∈ childrenOf tgt m := by
  unfold expandChildren
  rw [mem_unionNew, List.mem_flatMap]
  simp only [List.mem_append]

theorem iterate_mono {src tgt : Tree} {s : List Id} {j : Id} (h : j ∈ s) :
    ∀ n, j ∈ iterate (expandChildren src tgt) n s := by
  intro n
  induction n with
  | zero => exact h
  | succ n ih => rw [iterate_succ']; exact mem_expandChildren.mpr (Or.inl ih)

theorem iterate_le {src tgt : Tree} {s : List Id} {j : Id} {k : Nat}
    (h : j ∈ iterate (expandChildren src tgt) k s) : ∀ n, k ≤ n → j ∈ iterate (expandChildren src tgt) n s := by
  intro n hn
  induction n with
  | zero => have : k = 0 := by omega
            subst this; exact h
  | succ n ih =>
    by_cases hk : k = n + 1
    · subst hk; exact h
    · rw [iterate_succ']; exact mem_expandChildren.mpr (Or.inl (ih (by omega)))

theorem iterate_desc {src tgt : Tree} {s : List Id} {a : Id} (ha : a ∈ s) (inTgt : Bool) :
    ∀ (k : Nat) (i : Id), Desc (if inTgt then tgt else src) a k i → i ∈ iterate (expandChildren src tgt) k s := by
  intro k
  induction k with
  | zero => intro i h; cases h; exact ha
  | succ k ih =>
    intro i h
    obtain ⟨m, dm, hc⟩ := h
    rw [iterate_succ']
    refine mem_expandChildren.mpr (Or.inr ⟨m, ih m dm, ?_⟩)
    cases inTgt
    · exact Or.inl hc
    · exact Or.inr hc

theorem mem_start {src tgt : Tree} {filt : List Path} {p : Path} {a : Id} (hp : p ∈ filt)
    (h : idAt tgt p = some a ∨ idAt src p = some a) :
    a ∈ unionNew [] (filt.flatMap fun p => (idAt tgt p).toList ++ (idAt src p).toList) := by
  rw [mem_unionNew]
  right
  rw [List.mem_flatMap]
  refine ⟨p, hp, ?_⟩
  rcases h with h | h <;> simp [h]

/-- **an id whose working (target) path is at or below a filter path is selected** -/
theorem selectIds_of_prefix_tgt {src tgt : Tree} (hw : wf tgt = true) {filt : List Path} {p path : Path} {i : Id}
    (hp : p ∈ filt) (hi : pathOf tgt i = some path) (hpre : p <+: path) : i ∈ selectIds src tgt filt := by
  obtain ⟨a, k, fa, da, hk⟩ := desc_of_prefix hi hpre
  have hid := idAt_of_pathOf hw fa
  unfold selectIds
  simp only
  have hl := pathOf_length hi
  exact iterate_le (iterate_desc (mem_start hp (Or.inl hid)) true k i da) _ (by omega)

/-- **an id whose basis (source) path is at or below a filter path is selected** -/
theorem selectIds_of_prefix_src {src tgt : Tree} (hw : wf src = true) {filt : List Path} {p path : Path} {i : Id}
    (hp : p ∈ filt) (hi : pathOf src i = some path) (hpre : p <+: path) : i ∈ selectIds src tgt filt := by
  obtain ⟨a, k, fa, da, hk⟩ := desc_of_prefix hi hpre
  have hid := idAt_of_pathOf hw fa
  unfold selectIds
  simp only
  have hl := pathOf_length hi
  exact iterate_le (iterate_desc (mem_start hp (Or.inr hid)) false k i da) _ (by omega)

/-! ### `minimum_path_selection` keeps a prefix of every path of the list -/

theorem not_mem_minSel {f : List Path} {p : Path} (hp : p ∈ f) (hm : p ∉ minSel f) :
    ∃ q ∈ f, q ≠ p ∧ q <+: p := by
  unfold minSel at hm
  rw [List.mem_filter] at hm
  have h2 : (f.any fun q => q != p && q.isPrefixOf p) = true := by
    cases h : (f.any fun q => q != p && q.isPrefixOf p) with
    | true => rfl
    | false => exact absurd ⟨hp, by simp [h]⟩ hm
  rw [List.any_eq_true] at h2
  obtain ⟨q, hq, hc⟩ := h2
  rw [Bool.and_eq_true] at hc
  exact ⟨q, hq, by simpa using hc.1, List.isPrefixOf_iff_prefix.mp hc.2⟩

theorem minSel_prefix (f : List Path) : ∀ (n : Nat) (p : Path), p.length ≤ n → p ∈ f →
    ∃ q ∈ minSel f, q <+: p := by
  intro n
  induction n with
  | zero =>
    intro p hl hp
    by_cases hm : p ∈ minSel f
    · exact ⟨p, hm, List.prefix_rfl⟩
    · obtain ⟨q, _, hne, hpre⟩ := not_mem_minSel hp hm
      have : p = [] := List.length_eq_zero_iff.mp (by omega)
      subst this
      rw [List.prefix_nil] at hpre
      exact absurd hpre hne
  | succ n ih =>
    intro p hl hp
    by_cases hm : p ∈ minSel f
    · exact ⟨p, hm, List.prefix_rfl⟩
    · obtain ⟨q, hq, hne, hpre⟩ := not_mem_minSel hp hm
      have hlen : q.length ≤ n := by
        have h1 := hpre.length_le
        by_cases he : q.length = p.length
        · exact absurd (hpre.eq_of_length he) hne
        · omega
      obtain ⟨q', hq', hpre'⟩ := ih q hlen hq
      exact ⟨q', hq', hpre'.trans hpre⟩

end BreezyVerif.C01
