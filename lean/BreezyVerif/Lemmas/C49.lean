import BreezyVerif.Model.C49
/-! helper lemmas for Props/C49.lean -/
namespace BreezyVerif.C49

/-! ### string order used by the sort key -/

theorem strLe_refl : ∀ a : Str, strLe a a = true
  | [] => rfl
  | x :: xs => by simp [strLe, strLe_refl xs]

theorem strLe_total : ∀ a b : Str, (strLe a b || strLe b a) = true
  | [], _ => by simp [strLe]
  | _ :: _, [] => by simp [strLe]
  | x :: xs, y :: ys => by
    have ih := strLe_total xs ys
    simp only [strLe, Bool.or_eq_true, Bool.and_eq_true, decide_eq_true_eq, beq_iff_eq] at ih ⊢
    rcases Nat.lt_trichotomy x.toNat y.toNat with h | h | h
    · exact Or.inl (Or.inl h)
    · rcases ih with ih | ih
      · exact Or.inl (Or.inr ⟨h, ih⟩)
      · exact Or.inr (Or.inr ⟨h.symm, ih⟩)
    · exact Or.inr (Or.inl h)

theorem strLe_trans : ∀ a b c : Str, strLe a b = true → strLe b c = true → strLe a c = true
  | [], _, _, _, _ => by simp [strLe]
  | _ :: _, [], _, h, _ => by simp [strLe] at h
  | _ :: _, _ :: _, [], _, h => by simp [strLe] at h
  | x :: xs, y :: ys, z :: zs, h1, h2 => by
    have ih := strLe_trans xs ys zs
    simp only [strLe, Bool.or_eq_true, Bool.and_eq_true, decide_eq_true_eq, beq_iff_eq] at h1 h2 ih ⊢
    rcases h1 with h1 | ⟨e1, h1⟩
    · rcases h2 with h2 | ⟨e2, _⟩
      · exact Or.inl (by omega)
      · exact Or.inl (by omega)
    · rcases h2 with h2 | ⟨e2, h2⟩
      · exact Or.inl (by omega)
      · exact Or.inr ⟨by omega, ih h1 h2⟩

theorem keyGe_total (a b : Nat × Str × LocSection) : (keyGe a b || keyGe b a) = true := by
  simp only [keyGe, Bool.or_eq_true, Bool.and_eq_true, decide_eq_true_eq, beq_iff_eq]
  rcases Nat.lt_trichotomy a.1 b.1 with h | h | h
  · exact Or.inr (Or.inl h)
  · have := strLe_total b.2.1 a.2.1
    simp only [Bool.or_eq_true] at this
    rcases this with t | t
    · exact Or.inl (Or.inr ⟨h, t⟩)
    · exact Or.inr (Or.inr ⟨h.symm, t⟩)
  · exact Or.inl (Or.inl h)

theorem keyGe_trans (a b c : Nat × Str × LocSection) (h1 : keyGe a b = true) (h2 : keyGe b c = true) :
    keyGe a c = true := by
  simp only [keyGe, Bool.or_eq_true, Bool.and_eq_true, decide_eq_true_eq, beq_iff_eq] at h1 h2 ⊢
  rcases h1 with h1 | ⟨e1, s1⟩
  · rcases h2 with h2 | ⟨e2, _⟩
    · exact Or.inl (by omega)
    · exact Or.inl (by omega)
  · rcases h2 with h2 | ⟨e2, s2⟩
    · exact Or.inl (by omega)
    · exact Or.inr ⟨by omega, strLe_trans _ _ _ s2 s1⟩

/-! ### split / join -/

theorem splitSlash_ne_nil (s : Str) : splitSlash s ≠ [] := by
  cases s with
  | nil => simp [splitSlash]
  | cons c s =>
    unfold splitSlash
    split
    · simp
    · split <;> simp

theorem joinSlash_cons (p : Str) (ps : List Str) (h : ps ≠ []) :
    joinSlash (p :: ps) = p ++ '/' :: joinSlash ps := by
  cases ps with
  | nil => exact absurd rfl h
  | cons q qs => rfl

/-- `"/".join(s.split("/")) == s` -/
theorem joinSlash_splitSlash : ∀ s : Str, joinSlash (splitSlash s) = s
  | [] => rfl
  | c :: s => by
    have ih := joinSlash_splitSlash s
    unfold splitSlash
    by_cases hc : c = '/'
    · subst hc
      simp only [beq_self_eq_true, if_true]
      rw [joinSlash_cons _ _ (splitSlash_ne_nil s), ih]; rfl
    · have : (c == '/') = false := by simpa using hc
      simp only [this, Bool.false_eq_true, if_false]
      cases hsp : splitSlash s with
      | nil => exact absurd hsp (splitSlash_ne_nil s)
      | cons p ps =>
        rw [hsp] at ih
        simp only
        cases ps with
        | nil => simp only [joinSlash] at ih ⊢; rw [ih]
        | cons q qs =>
          rw [joinSlash_cons _ _ (by simp)] at ih ⊢
          rw [← ih]; rfl

theorem joinSlash_append (a b : List Str) (ha : a ≠ []) (hb : b ≠ []) :
    joinSlash (a ++ b) = joinSlash a ++ '/' :: joinSlash b := by
  induction a with
  | nil => exact absurd rfl ha
  | cons p ps ih =>
    cases ps with
    | nil =>
      simp only [List.cons_append, List.nil_append]
      rw [joinSlash_cons _ _ hb]; rfl
    | cons q qs =>
      have : q :: qs ++ b ≠ [] := by simp
      simp only [List.cons_append] at this ⊢
      rw [joinSlash_cons p (q :: (qs ++ b)) (by simp), joinSlash_cons p (q :: qs) (by simp)]
      have ih' := ih (by simp)
      simp only [List.cons_append] at ih'
      rw [ih']
      simp

/-! ### takeWhile -/

theorem mem_takeWhile_true {α : Type} (p : α → Bool) : ∀ (l : List α), ∀ x ∈ l.takeWhile p, p x = true
  | [], x, h => by simp at h
  | a :: l, x, h => by
    simp only [List.takeWhile_cons] at h
    split at h
    · rename_i ha
      rcases List.mem_cons.mp h with h | h
      · subst h; exact ha
      · exact mem_takeWhile_true p l x h
    · simp at h

/-! ### lookup / setOpt -/

theorem lookup_setOpt_same (k v : Str) : ∀ opts, lookup k (setOpt k v opts) = some v
  | [] => by simp [setOpt, lookup]
  | (a, w) :: r => by
    unfold setOpt
    by_cases h : a = k
    · simp [h, lookup]
    · simp [h, lookup, lookup_setOpt_same k v r]

theorem lookup_setOpt_other (k k' v : Str) (hne : k' ≠ k) : ∀ opts, lookup k' (setOpt k v opts) = lookup k' opts
  | [] => by simp [setOpt, lookup, hne.symm]
  | (a, w) :: r => by
    unfold setOpt
    by_cases h : a = k
    · subst h; simp [lookup, hne.symm]
    · simp only [h, if_false, lookup, lookup_setOpt_other k k' v hne r]

theorem lookup_some_length {k v : Str} : ∀ {opts : List (Str × Str)}, lookup k opts = some v → 1 ≤ opts.length
  | [], h => by simp [lookup] at h
  | _ :: _, _ => by simp

/-! ### reference scanner -/

theorem scanRefs_idle_plain (s : LocSection) (c : Char) (hc : c ≠ '{') (rest : Str) :
    ((scanRefs .idle (c :: rest)).map (expandChunk s)).flatten
      = c :: ((scanRefs .idle rest).map (expandChunk s)).flatten := by
  have : (c == '{') = false := by simpa using hc
  simp [scanRefs, refStep, refIdle, this, expandChunk]

/-! ### the `ignore_parents` cut -/

/-- the cut on any list: what is consulted is a prefix; every consulted section
but the last is not ignoring; and something is cut off only behind an ignoring
section -/
theorem cut_spec : ∀ (l : List LocSection), ∃ rest, l = cutAfterIgnoring l ++ rest ∧
    (∀ a s b, cutAfterIgnoring l = a ++ s :: b → (∀ x ∈ a, ignoring x = false) ∧ (b ≠ [] → ignoring s = false)) ∧
    (rest ≠ [] → ∃ s, (cutAfterIgnoring l).getLast? = some s ∧ ignoring s = true)
  | [] => ⟨[], rfl, by intro a s b h; simp [cutAfterIgnoring] at h, by intro h; exact absurd rfl h⟩
  | x :: r => by
    obtain ⟨rest, hr, hmid, hlast⟩ := cut_spec r
    by_cases hx : ignoring x = true
    · refine ⟨r, by simp [cutAfterIgnoring, hx], ?_, ?_⟩
      · intro a s b h
        simp only [cutAfterIgnoring, hx, if_true] at h
        cases a with
        | nil =>
          simp only [List.nil_append, List.cons.injEq] at h
          exact ⟨by simp, fun hb => absurd h.2.symm hb⟩
        | cons a0 a' =>
          simp only [List.cons_append, List.cons.injEq] at h
          have := h.2; simp at this
      · intro _; exact ⟨x, by simp [cutAfterIgnoring, hx], hx⟩
    · have hx' : ignoring x = false := by simpa using hx
      refine ⟨rest, ?_, ?_, ?_⟩
      · simp only [cutAfterIgnoring, hx', Bool.false_eq_true, if_false, List.cons_append]; rw [← hr]
      · intro a s b h
        simp only [cutAfterIgnoring, hx', Bool.false_eq_true, if_false] at h
        cases a with
        | nil =>
          simp only [List.nil_append, List.cons.injEq] at h
          refine ⟨by simp, fun _ => ?_⟩
          rw [← h.1]; exact hx'
        | cons a0 a' =>
          simp only [List.cons_append, List.cons.injEq] at h
          obtain ⟨h1, h2⟩ := hmid a' s b h.2
          refine ⟨?_, h2⟩
          intro y hy
          rcases List.mem_cons.mp hy with e | e
          · rw [e, ← h.1]; exact hx'
          · exact h1 y e
      · intro hne
        obtain ⟨s, hs, hi⟩ := hlast hne
        refine ⟨s, ?_, hi⟩
        simp only [cutAfterIgnoring, hx', Bool.false_eq_true, if_false]
        cases hc : cutAfterIgnoring r with
        | nil => rw [hc] at hs; simp at hs
        | cons c cs => rw [hc] at hs; simpa [List.getLast?_cons_cons] using hs

theorem cut_split : ∀ (l a : List LocSection) (s : LocSection) (b : List LocSection),
    cutAfterIgnoring l = a ++ s :: b → (∀ x ∈ a, ignoring x = false) ∧ ∃ rest, l = a ++ s :: rest := by
  intro l a s b h
  obtain ⟨rest, hl, hmid, _⟩ := cut_spec l
  refine ⟨(hmid a s b h).1, b ++ rest, ?_⟩
  rw [hl, h]; simp

/-! ### counting keys (fuel of `secGet`) -/

/-- number of options whose key has at least `n` characters -/
def cntGe (n : Nat) (opts : List (Str × Str)) : Nat := opts.countP fun kv => decide (n ≤ kv.1.length)

theorem cntGe_le_length (n : Nat) (opts : List (Str × Str)) : cntGe n opts ≤ opts.length := List.countP_le_length

theorem cntGe_mono (n k : Nat) (opts : List (Str × Str)) : cntGe (n + k) opts ≤ cntGe n opts := by
  unfold cntGe
  apply List.countP_mono_left
  intro x _ hx
  simp only [decide_eq_true_eq] at hx ⊢
  omega

/-- a defined key is counted among the keys of its length but not among the longer ones -/
theorem lookup_cnt {k v : Str} : ∀ {opts : List (Str × Str)}, lookup k opts = some v →
    cntGe (k.length + 7) opts + 1 ≤ cntGe k.length opts
  | [], h => by simp [lookup] at h
  | (a, w) :: r, h => by
    unfold lookup at h
    by_cases ha : a = k
    · subst ha
      have := cntGe_mono a.length 7 r
      simp only [cntGe, List.countP_cons] at this ⊢
      simp only [Nat.le_refl, decide_true, if_true]
      have : ¬ (a.length + 7 ≤ a.length) := by omega
      simp only [this, decide_false, Bool.false_eq_true, if_false]
      omega
    · simp only [ha, if_false] at h
      have ih := lookup_cnt h
      simp only [cntGe, List.countP_cons] at ih ⊢
      by_cases h7 : k.length + 7 ≤ a.length
      · have h0 : k.length ≤ a.length := by omega
        simp only [h7, h0, decide_true, if_true]; omega
      · simp only [h7, decide_false, Bool.false_eq_true, if_false]
        split <;> omega

/-! ### literal sections and the full location string -/

/-- the glob tokens of a text without glob characters -/
def litToks (s : Str) : List GTok := s.map GTok.lit

theorem gmatch_lits : ∀ (s l : Str), gmatch (litToks s) l = true ↔ l = s
  | [], l => by cases l <;> simp [litToks, gmatch]
  | c :: s, [] => by simp [litToks, gmatch]
  | c :: s, x :: l => by
    have ih := gmatch_lits s l
    simp only [litToks, List.map_cons, gmatch, Bool.and_eq_true, beq_iff_eq, List.cons.injEq] at ih ⊢
    rw [ih]

theorem compsMatch_cons (l : Str) (ls : List Str) (s : List GTok) (ss : List (List GTok)) :
    compsMatch (l :: ls) (s :: ss) = (gmatch s l && compsMatch ls ss) := by
  simp only [compsMatch, List.length_cons, List.zip_cons_cons, List.all_cons]
  by_cases hlen : ss.length ≤ ls.length
  · have h1 : ss.length + 1 ≤ ls.length + 1 := by omega
    simp [hlen, h1]
  · have h1 : ¬ ss.length + 1 ≤ ls.length + 1 := by omega
    simp [hlen, h1]

/-- a section whose components are literal matches iff they are a prefix of the location's components -/
theorem compsMatch_lits : ∀ (ps loc : List Str), compsMatch loc (ps.map litToks) = true ↔ ps <+: loc
  | [], loc => by simp [compsMatch]
  | p :: ps, [] => by simp [compsMatch]
  | p :: ps, l :: ls => by
    rw [List.map_cons, compsMatch_cons, Bool.and_eq_true, gmatch_lits, compsMatch_lits ps ls, List.cons_prefix_cons]
    constructor
    · rintro ⟨h1, h2⟩; exact ⟨h1.symm, h2⟩
    · rintro ⟨h1, h2⟩; exact ⟨h1.symm, h2⟩

theorem splitSlash_append : ∀ (a b : Str), splitSlash (a ++ '/' :: b) = splitSlash a ++ splitSlash b
  | [], b => by simp [splitSlash]
  | c :: a, b => by
    have ih := splitSlash_append a b
    simp only [List.cons_append, splitSlash]
    by_cases hc : c = '/'
    · simp [hc, ih]
    · have : (c == '/') = false := by simpa using hc
      simp only [this, Bool.false_eq_true, if_false, ih]
      cases hsp : splitSlash a with
      | nil => exact absurd hsp (splitSlash_ne_nil a)
      | cons p ps => simp

theorem splitSlash_noslash : ∀ (s : Str), '/' ∉ s → splitSlash s = [s]
  | [], _ => rfl
  | c :: s, h => by
    have hc : (c == '/') = false := by simpa using fun e : c = '/' => h (by simp [e])
    have ih := splitSlash_noslash s (fun m => h (List.mem_cons_of_mem _ m))
    simp [splitSlash, hc, ih]

theorem rstripSlash_concat (s : Str) (l : Char) (hl : l ≠ '/') : rstripSlash (s ++ [l]) = s ++ [l] := by
  have : (l == '/') = false := by simpa using hl
  simp [rstripSlash, List.dropWhile_cons, this]

theorem glex_literal : ∀ (s : Str), (∀ c ∈ s, c ≠ '[' ∧ c ≠ ']' ∧ c ≠ '*' ∧ c ≠ '?') →
    glex none s = some (litToks s)
  | [], _ => rfl
  | c :: s, h => by
    obtain ⟨h1, h2, h3, h4⟩ := h c (by simp)
    have ih := glex_literal s (fun d hd => h d (List.mem_cons_of_mem _ hd))
    simp [glex, h1, h2, h3, h4, ih, litToks]

end BreezyVerif.C49
