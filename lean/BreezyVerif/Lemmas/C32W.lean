import BreezyVerif.Lemmas.C32V
/-
Helper lemmas for the lock-scope session model, part 5: the operation bodies
never touch the lock state; caches exist only inside a lock scope (`Scoped`),
for ANY client variant; bodies that agree up to the caches are indistinguishable
when the operation has its own lock cycle; data of the witness theorems.
-/
namespace BreezyVerif.C32

theorem lsBody_lk (src : Graph) (op : SOp) (o : Obj) (st : St) : (lsBody src op o st).2.1.lk = o.lk := by
  cases op <;> simp only [lsBody, Obj.setOwn] <;> (try rfl)
  · split <;> rfl

theorem rsBody_lk (v : Variant) (src : Graph) (ex : List RevId) (op : SOp) (o : Obj) (st : St) :
    (rsBody v src ex op o st).2.1.lk = o.lk := by
  have hT : ∀ (o : Obj) (st : St) (c : Nat × RevId) (o1 : Obj), rTip src ex o st = .ok (c, o1) → o1.lk = o.lk := by
    intro o st c o1 h
    unfold rTip at h
    split at h
    · injection h with h; injection h with _ h; rw [← h]
    · split at h
      · cases h
      · injection h with h; injection h with _ h; rw [← h]
  have hG : ∀ (o : Obj) (st : St) (d : Tags) (o1 : Obj), rTags src ex o st = .ok (d, o1) → o1.lk = o.lk := by
    intro o st d o1 h
    unfold rTags at h
    split at h
    · injection h with h; injection h with _ h; rw [← h]
    · split at h
      · cases h
      · injection h with h; injection h with _ h; rw [← h]
  cases op with
  | lockW => rfl
  | lockR => rfl
  | unlock => rfl
  | lockTok good => rfl
  | leave => rfl
  | dontLeave => rfl
  | ownerLock => rfl
  | ownerUnlock => rfl
  | tip =>
    simp only [rsBody]
    split
    · rfl
    · rename_i c o1 h; exact hT _ _ _ _ h
  | tagDict =>
    simp only [rsBody]
    split
    · rfl
    · rename_i c o1 h; exact hG _ _ _ _ h
  | tagSet name r =>
    simp only [rsBody]
    split
    · rfl
    · rename_i d o1 h
      have := hG _ _ _ _ h
      split
      · exact this
      · split <;> exact this
  | setTip n r =>
    simp only [rsBody]
    split
    · rfl
    · split
      · rfl
      · rename_i c o1 h
        have := hT _ _ _ _ h
        split
        · exact this
        · split
          · exact this
          · simp only [afterSetTip]
            split <;> exact this
  | pull ow n r stags => rfl


theorem acquire_locked (plock : St → Option Nat → Except Err (Nat × St)) (reset wr : Bool) (tok : Option Nat)
    (k : LockSt) (st : St) (k1 : LockSt) (s1 : St) (h : acquire plock reset wr tok k st = .ok (k1, s1)) :
    k1.mode ≠ .unlocked := by
  unfold acquire at h
  cases hm : k.mode with
  | unlocked =>
    simp only [hm] at h
    cases wr with
    | true =>
      simp only [if_true] at h
      split at h
      · cases h
      · injection h with h; injection h with ha _; subst ha; simp
    | false =>
      simp only [Bool.false_eq_true, if_false] at h
      injection h with h; injection h with ha _; subst ha; simp
  | r =>
    simp only [hm] at h
    cases wr with
    | true => simp at h
    | false =>
      simp only [Bool.false_eq_true, if_false] at h
      injection h with h; injection h with ha _; subst ha; simp [hm]
  | w =>
    simp only [hm] at h
    cases wr with
    | true =>
      simp only [if_true] at h
      split at h
      · split at h
        · injection h with h; injection h with ha _; subst ha; simp [hm]
        · cases h
      · injection h with h; injection h with ha _; subst ha; simp [hm]
    | false =>
      simp only [Bool.false_eq_true, if_false] at h
      injection h with h; injection h with ha _; subst ha; simp [hm]

theorem clear_scoped (o : Obj) : Scoped o.clear := fun _ => ⟨rfl, rfl, rfl, rfl⟩

theorem release_scoped (prel : St → Nat → Except Err St) (o : Obj) (st : St) (hs : Scoped o) :
    Scoped (if (release prel o.lk st).2.2.2 then { o with lk := (release prel o.lk st).2.1 }.clear
            else { o with lk := (release prel o.lk st).2.1 }) := by
  unfold release
  cases hm : o.lk.mode with
  | unlocked => simpa using hs
  | r =>
    simp only []
    by_cases hcnt : o.lk.count > 1
    · simp only [hcnt, if_true]
      intro hx; simp at hx
    · simp only [hcnt, if_false]
      exact clear_scoped _
  | w =>
    simp only []
    by_cases hcnt : o.lk.count > 1
    · simp only [hcnt, if_true]
      intro hx; simp at hx
    · simp only [hcnt, if_false]
      cases o.lk.token with
      | none => exact clear_scoped _
      | some t =>
        simp only []
        cases o.lk.leave with
        | true => exact clear_scoped _
        | false =>
          simp only [Bool.false_eq_true, if_false]
          cases prel st t <;> exact clear_scoped _

/-- caches live only inside a lock scope: one step of any object whose bodies leave the lock state alone -/
theorem sessStep_scoped (plock : St → Option Nat → Except Err (Nat × St)) (prel : St → Nat → Except Err St)
    (reset : Bool) (body : SOp → Obj → St → Res × Obj × St) (hb : ∀ op o st, (body op o st).2.1.lk = o.lk)
    (o : Obj) (st : St) (op : SOp) (hs : Scoped o) : Scoped (sessStep plock prel reset body o st op).2.1 := by
  have hw : ∀ wr (b : Obj → St → Res × Obj × St), (∀ o st, (b o st).2.1.lk = o.lk) →
      Scoped (withLk plock prel reset wr o st b).2.1 := by
    intro wr b hb'
    unfold withLk
    cases ha : acquire plock reset wr none o.lk st with
    | error e => exact hs
    | ok p =>
      obtain ⟨k1, s1⟩ := p
      simp only []
      apply release_scoped
      intro hx
      rw [hb'] at hx
      exact absurd hx (acquire_locked plock reset wr none o.lk st k1 s1 ha)
  have hacq : ∀ wr tok (res : Res) (f : St → LockSt → St),
      Scoped (match acquire plock reset wr tok o.lk st with
        | .error e => (Res.err e, o, st)
        | .ok (k1, s1) => (res, { o with lk := k1 }, f s1 k1)).2.1 := by
    intro wr tok res f
    cases ha : acquire plock reset wr tok o.lk st with
    | error e => exact hs
    | ok p =>
      obtain ⟨k1, s1⟩ := p
      intro hx
      exact absurd hx (acquire_locked plock reset wr tok o.lk st k1 s1 ha)
  have hset : ∀ b, Scoped (match setLeave b o.lk with
        | .error e => (Res.err e, o, st)
        | .ok k1 => (Res.ok, { o with lk := k1 }, st)).2.1 := by
    intro b
    unfold setLeave
    by_cases hm : o.lk.mode = .w
    · simp only [hm, if_true]
      intro hx
      simp at hx
    · simp only [hm, if_false]
      exact hs
  cases op with
  | lockW => exact hacq true none .token (fun s k => { s with known := k.token })
  | lockTok good => exact hacq true _ .token (fun s _ => s)
  | lockR => exact hacq false none .ok (fun s _ => s)
  | unlock => exact release_scoped prel o st hs
  | leave => exact hset true
  | dontLeave => exact hset false
  | ownerLock => exact hs
  | ownerUnlock => exact hs
  | tip => exact hw _ _ (hb _)
  | setTip n r => exact hw _ _ (hb _)
  | pull ow n r stags => exact hw _ _ (hb _)
  | tagSet name r => exact hw _ _ (hb _)
  | tagDict => exact hw _ _ (hb _)

/-- the extra invariant of the remote object: either the client keeps both tag caches coherent, or the VFS
branch's tags cache is (still) empty -/
def TagsInv (v : Variant) (o : Obj) : Prop := (v.tagsOwn = true ∧ v.tagsReal = true) ∨ o.realTagsC = none

instance (v : Variant) (o : Obj) : Decidable (TagsInv v o) := by
  unfold TagsInv; infer_instance

theorem tagsInv_stable (v : Variant) : LkStable (TagsInv v) where
  lk := fun _ _ h => h
  clear := fun _ h => by
    rcases h with h | _
    · exact Or.inl h
    · exact Or.inr rfl

theorem localObj_stable : LkStable LocalObj where
  lk := fun _ _ h => h
  clear := fun _ h => ⟨h.1, rfl, rfl⟩

theorem afterSetTip_clear (v1 v2 : Variant) (o : Obj) (n : Nat) (r : RevId) :
    (afterSetTip v1 o n r).clear = (afterSetTip v2 o n r).clear := by
  unfold afterSetTip Obj.clear
  cases v1.tipCoherent <;> cases v2.tipCoherent <;> rfl

theorem rsBody_setTip_mod_caches (v1 v2 : Variant) (src : Graph) (ex : List RevId) (n : Nat) (r : RevId) (o : Obj) (st : St) :
    (rsBody v1 src ex (.setTip n r) o st).1 = (rsBody v2 src ex (.setTip n r) o st).1
      ∧ (rsBody v1 src ex (.setTip n r) o st).2.2 = (rsBody v2 src ex (.setTip n r) o st).2.2
      ∧ (rsBody v1 src ex (.setTip n r) o st).2.1.clear = (rsBody v2 src ex (.setTip n r) o st).2.1.clear := by
  simp only [rsBody]
  split
  · exact ⟨rfl, rfl, rfl⟩
  · split
    · exact ⟨rfl, rfl, rfl⟩
    · split
      · exact ⟨rfl, rfl, rfl⟩
      · split
        · exact ⟨rfl, rfl, rfl⟩
        · exact ⟨rfl, rfl, afterSetTip_clear v1 v2 _ n r⟩

theorem acquire_unlocked_count (plock : St → Option Nat → Except Err (Nat × St)) (reset wr : Bool) (tok : Option Nat)
    (k : LockSt) (st : St) (k1 : LockSt) (s1 : St) (hu : k.mode = .unlocked)
    (h : acquire plock reset wr tok k st = .ok (k1, s1)) : k1.count = 1 := by
  unfold acquire at h
  simp only [hu] at h
  cases wr with
  | true =>
    simp only [if_true] at h
    split at h
    · cases h
    · injection h with h; injection h with ha _; subst ha; rfl
  | false =>
    simp only [Bool.false_eq_true, if_false] at h
    injection h with h; injection h with ha _; subst ha; rfl

theorem release_count_one (prel : St → Nat → Except Err St) (k : LockSt) (st : St) (hm : k.mode ≠ .unlocked)
    (hc : k.count = 1) : (release prel k st).2.2.2 = true := by
  unfold release
  cases hk : k.mode with
  | unlocked => exact absurd hk hm
  | r => simp [hc]
  | w =>
    simp only [hc]
    cases k.token with
    | none => simp
    | some t =>
      simp only []
      cases k.leave with
      | true => simp
      | false => simp only [Bool.false_eq_true, if_false]; cases prel st t <;> simp

theorem clear_lk (o : Obj) (k : LockSt) : ({ o with lk := k } : Obj).clear = { o.clear with lk := k } := rfl

/-- two bodies that agree up to the caches are indistinguishable when the operation opens and closes its own lock scope -/
theorem withLk_unlocked_mod_caches (plock : St → Option Nat → Except Err (Nat × St)) (prel : St → Nat → Except Err St)
    (reset wr : Bool) (o : Obj) (st : St) (b1 b2 : Obj → St → Res × Obj × St) (hu : o.lk.mode = .unlocked)
    (hlk : ∀ o' st', (b1 o' st').2.1.lk = o'.lk ∧ (b2 o' st').2.1.lk = o'.lk)
    (hb : ∀ o' st', (b1 o' st').1 = (b2 o' st').1 ∧ (b1 o' st').2.2 = (b2 o' st').2.2
      ∧ (b1 o' st').2.1.clear = (b2 o' st').2.1.clear) :
    withLk plock prel reset wr o st b1 = withLk plock prel reset wr o st b2 := by
  unfold withLk
  cases ha : acquire plock reset wr none o.lk st with
  | error e => rfl
  | ok p =>
    obtain ⟨k1, s1⟩ := p
    simp only []
    obtain ⟨e1, e2, e3⟩ := hb { o with lk := k1 } s1
    obtain ⟨l1, l2⟩ := hlk { o with lk := k1 } s1
    have hc := acquire_unlocked_count plock reset wr none o.lk st k1 s1 hu ha
    have hm := acquire_locked plock reset wr none o.lk st k1 s1 ha
    rw [l1, l2, ← e1, ← e2]
    simp only [] at l1 l2
    have hr := release_count_one prel k1 (b1 { o with lk := k1 } s1).2.2 hm hc
    simp only [hr, if_true, clear_lk, e3]

theorem coherent_fresh (st : St) : Coherent {} st :=
  ⟨cacheOK_none _, cacheOK_none _, cacheOK_none _, cacheOK_none _, fun h => by simp at h⟩

/-! ### data of the witness theorems: a1 ← a2 ← a3 and the rival x3 (child of a2) -/

def wA1 : RevId := [97, 49]
def wA2 : RevId := [97, 50]
def wA3 : RevId := [97, 51]
def wX3 : RevId := [120, 51]
def wSrc : Graph := [(wA1, []), (wA2, [wA1]), (wA3, [wA2]), (wX3, [wA2])]
/-- one write-lock scope: pull (VFS branch caches the tip), tip change over RPC, pull from the rival -/
def wScript : List SOp := [.lockW, .pull false 2 wA2 [], .setTip 3 wA3, .pull false 3 wX3 [], .unlock]
def tV1 : Bytes := [118, 49]
def tV2 : Bytes := [118, 50]
def tMine : Bytes := [109]

end BreezyVerif.C32
