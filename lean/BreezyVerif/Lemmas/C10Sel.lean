import BreezyVerif.Lemmas.C10Wf
/-!
C10 — the bounded iterate of `selectIds` (`find_ids_across_trees`) reaches its
fixpoint: the selection is closed under children in either tree.
-/
namespace BreezyVerif.C10

theorem insertNew_nodup {l : List Id} (h : l.Nodup) (i : Id) : (insertNew l i).Nodup := by
  unfold insertNew
  split
  · exact h
  · rename_i hc
    have hni : i ∉ l := by simpa using hc
    rw [List.nodup_append]
    refine ⟨h, by simp, ?_⟩
    intro a ha b hb
    simp at hb; subst hb
    intro hab; subst hab; exact hni ha

theorem unionNew_nodup {l : List Id} (h : l.Nodup) (m : List Id) : (unionNew l m).Nodup := by
  unfold unionNew
  induction m generalizing l with
  | nil => exact h
  | cons x rest ih => exact ih (insertNew_nodup h x)

theorem insertNew_length (l : List Id) (i : Id) :
    l.length ≤ (insertNew l i).length ∧ (i ∉ l → l.length + 1 ≤ (insertNew l i).length) := by
  unfold insertNew
  split
  · rename_i hc
    exact ⟨Nat.le_refl _, fun h => absurd (by simpa using hc) h⟩
  · simp

theorem unionNew_length (l m : List Id) :
    l.length ≤ (unionNew l m).length ∧ (∀ x ∈ m, x ∉ l → l.length + 1 ≤ (unionNew l m).length) := by
  unfold unionNew
  induction m generalizing l with
  | nil => simp
  | cons a rest ih =>
    obtain ⟨i1, i2⟩ := ih (insertNew l a)
    obtain ⟨j1, j2⟩ := insertNew_length l a
    simp only [List.foldl_cons]
    refine ⟨by omega, ?_⟩
    intro x hx hxl
    rcases List.mem_cons.mp hx with h | h
    · subst h
      have := j2 hxl
      omega
    · by_cases hxa : x ∈ insertNew l a
      · rcases mem_insertNew.mp hxa with h' | h'
        · exact absurd h' hxl
        · subst h'
          have := j2 hxl
          omega
      · have := i2 x h hxa
        omega

theorem iterate_add {α : Type} (f : α → α) : ∀ (a b : Nat) (s : α), iterate f (a + b) s = iterate f b (iterate f a s) := by
  intro a
  induction a with
  | zero => intro b s; simp [iterate]
  | succ a ih =>
    intro b s
    have : a + 1 + b = (a + b) + 1 := by omega
    rw [this]
    show iterate f (a + b) (f s) = iterate f b (iterate f a (f s))
    exact ih b (f s)

/-- nothing new is added by one more round -/
def Fix (src tgt : Tree) (s : List Id) : Prop := ∀ j ∈ expandChildren src tgt s, j ∈ s

theorem fix_expand {src tgt : Tree} {s : List Id} (h : Fix src tgt s) : Fix src tgt (expandChildren src tgt s) := by
  intro j hj
  rcases mem_expand.mp hj with h1 | ⟨m, hm, hc⟩
  · exact h1
  · exact mem_expand.mpr (Or.inr ⟨m, h m hm, hc⟩)

theorem fix_iterate {src tgt : Tree} : ∀ (d : Nat) {s : List Id}, Fix src tgt s → Fix src tgt (iterate (expandChildren src tgt) d s) := by
  intro d
  induction d with
  | zero => intro s h; exact h
  | succ d ih => intro s h; exact ih (fix_expand h)

theorem expand_empty (src tgt : Tree) : expandChildren src tgt [] = [] := by
  simp [expandChildren, unionNew]

/-- all ids of both trees -/
def bothIds (src tgt : Tree) : List Id := ids src ++ ids tgt

theorem expand_sub {src tgt : Tree} {s : List Id} (h : ∀ j ∈ s, j ∈ bothIds src tgt) :
    ∀ j ∈ expandChildren src tgt s, j ∈ bothIds src tgt := by
  intro j hj
  rcases mem_expand.mp hj with h1 | ⟨m, _, hc | hc⟩
  · exact h j h1
  · exact List.mem_append.mpr (Or.inl (childrenOf_sub_ids' hc))
  · exact List.mem_append.mpr (Or.inr (childrenOf_sub_ids' hc))
where
  childrenOf_sub_ids' {t : Tree} {i c : Id} (h : c ∈ childrenOf t i) : c ∈ ids t := by
    unfold childrenOf at h
    rw [List.mem_map] at h
    obtain ⟨x, hx, hxc⟩ := h
    unfold ids
    exact List.mem_map.mpr ⟨x, (List.mem_filter.mp hx).1, hxc⟩

theorem expand_nodup {src tgt : Tree} {s : List Id} (h : s.Nodup) : (expandChildren src tgt s).Nodup := by
  unfold expandChildren
  exact unionNew_nodup h _

/-- either a fixpoint is reached within `n` rounds or every round added an id -/
theorem iterate_progress {src tgt : Tree} : ∀ (n : Nat) (s : List Id),
    (∃ k, k ≤ n ∧ Fix src tgt (iterate (expandChildren src tgt) k s)) ∨
    s.length + n ≤ (iterate (expandChildren src tgt) n s).length := by
  intro n
  induction n with
  | zero => intro s; right; simp [iterate]
  | succ n ih =>
    intro s
    by_cases hf : Fix src tgt s
    · left; exact ⟨0, by omega, hf⟩
    · have hgrow : s.length + 1 ≤ (expandChildren src tgt s).length := by
        unfold Fix at hf
        simp only [Classical.not_forall] at hf
        obtain ⟨x, hx, hxs⟩ := hf
        unfold expandChildren at hx ⊢
        rcases mem_unionNew.mp hx with h | h
        · exact absurd h hxs
        · exact (unionNew_length s _).2 x h hxs
      rcases ih (expandChildren src tgt s) with ⟨k, hk, hfix⟩ | hlen
      · left; exact ⟨k + 1, by omega, hfix⟩
      · right
        show s.length + (n + 1) ≤ (iterate (expandChildren src tgt) n (expandChildren src tgt s)).length
        omega

theorem iterate_sub {src tgt : Tree} : ∀ (n : Nat) {s : List Id}, (∀ j ∈ s, j ∈ bothIds src tgt) →
    ∀ j ∈ iterate (expandChildren src tgt) n s, j ∈ bothIds src tgt := by
  intro n
  induction n with
  | zero => intro s h; exact h
  | succ n ih => intro s h; exact ih (expand_sub h)

theorem iterate_nodup {src tgt : Tree} : ∀ (n : Nat) {s : List Id}, s.Nodup →
    (iterate (expandChildren src tgt) n s).Nodup := by
  intro n
  induction n with
  | zero => intro s h; exact h
  | succ n ih => intro s h; exact ih (expand_nodup h)

/-- after `|src| + |tgt|` rounds nothing can be added any more -/
theorem iterate_fix {src tgt : Tree} {s : List Id} (hnd : s.Nodup) (hsub : ∀ j ∈ s, j ∈ bothIds src tgt) :
    Fix src tgt (iterate (expandChildren src tgt) (src.length + tgt.length) s) := by
  rcases iterate_progress (src := src) (tgt := tgt) (src.length + tgt.length) s with ⟨k, hk, hfix⟩ | hlen
  · obtain ⟨d, hd⟩ : ∃ d, src.length + tgt.length = k + d := ⟨src.length + tgt.length - k, by omega⟩
    rw [hd, iterate_add]
    exact fix_iterate d hfix
  · have hle := List.Nodup.length_le_of_subset (iterate_nodup (src := src) (tgt := tgt) (src.length + tgt.length) hnd)
      (fun j hj => iterate_sub _ hsub j hj)
    have hb : (bothIds src tgt).length = src.length + tgt.length := by simp [bothIds, ids]
    have : s = [] := List.length_eq_zero_iff.mp (by omega)
    subst this
    have hall : ∀ n, iterate (expandChildren src tgt) n [] = [] := by
      intro n
      induction n with
      | zero => rfl
      | succ n ih => show iterate (expandChildren src tgt) n (expandChildren src tgt []) = []; rw [expand_empty]; exact ih
    rw [hall]
    intro j hj
    rw [expand_empty] at hj; exact hj

theorem idAt_mem {t : Tree} {p : Path} {a : Id} (h : idAt t p = some a) : a ∈ ids t := by
  unfold idAt at h
  exact List.mem_of_find?_eq_some h

/-- **`find_ids_across_trees` is closed under children in either tree** -/
theorem selectIds_children_closed {src tgt : Tree} {filt : List Path} {p j : Id}
    (hp : p ∈ selectIds src tgt filt) (hj : j ∈ childrenOf src p ∨ j ∈ childrenOf tgt p) :
    j ∈ selectIds src tgt filt := by
  unfold selectIds at hp ⊢
  simp only at hp ⊢
  apply iterate_fix (unionNew_nodup (by simp) _) _ j (mem_expand.mpr (Or.inr ⟨p, hp, hj⟩))
  intro a ha
  rcases mem_unionNew.mp ha with h | h
  · cases h
  · rw [List.mem_flatMap] at h
    obtain ⟨q, _, hq⟩ := h
    rcases List.mem_append.mp hq with h' | h'
    · exact List.mem_append.mpr (Or.inr (idAt_mem (by simpa using h')))
    · exact List.mem_append.mpr (Or.inl (idAt_mem (by simpa using h')))

end BreezyVerif.C10
