"""C35 family entry-renamed-to-banned-name: a revision whose only change renames a file to `.git` (BANNED_FILENAMES).
_tree_to_objects skips the whole change (`if change.name[1] in BANNED_FILENAMES: continue`), so the directory the
file LEFT is not rebuilt: nothing is yielded, the revision re-uses its parent's root tree (the file is still in it).
The incrementally computed tree differs from the from-scratch one, and after a push the git commit still has the file.
Exit 1 when incremental != from scratch."""
import os, sys, tempfile
REPO = os.environ.get("VERIF_REPO", "/repo")
home = tempfile.mkdtemp(prefix="c35repro-", dir="/var/tmp")
os.environ.update(HOME=home, BRZ_HOME=home, BRZ_EMAIL="T <t@example.com>", EMAIL="t@example.com")
sys.path.insert(0, REPO)
import breezy
breezy.initialize()
import breezy.bzr, breezy.git  # noqa
from breezy import plugin
plugin.load_plugins()
from breezy.controldir import ControlDir, format_registry
from breezy.repository import InterRepository
from breezy.git.cache import DictGitShaMap
from breezy.git.object_store import _tree_to_objects

wt = ControlDir.create_standalone_workingtree(os.path.join(home, "native"), format=format_registry.make_controldir("2a"))
os.mkdir(wt.abspath("dd"))
open(wt.abspath("dd/ff"), "wb").write(b"x\n")
open(wt.abspath("gg"), "wb").write(b"y\n")
wt.add(["dd", "dd/ff", "gg"])
wt.commit("r1", rev_id=b"r1", committer="T <t@example.com>")
wt.rename_one("gg", "dd/.git")
wt.commit("r2", rev_id=b"r2", committer="T <t@example.com>")

repo = wt.branch.repository
git = ControlDir.create(os.path.join(home, "git"), format=format_registry.make_controldir("git-bare")).open_repository()
with repo.lock_read():
    t2 = repo.revision_tree(b"r2")
    scratch = {p: o.id for p, o, _ in _tree_to_objects(t2, [], DictGitShaMap(), {}, None)}
    revidmap = InterRepository.get(repo, git).fetch_revs([(None, b"r2")], lossy=True)
store = git._git.object_store
pushed_tree = store[revidmap[b"r2"][0]].tree
print("from scratch root tree:", scratch[""].decode())
print("pushed commit's tree  :", pushed_tree.decode(), [e.path.decode() for e in store[pushed_tree].iteritems()])
sys.exit(1 if pushed_tree != scratch[""] else 0)
