import BreezyVerif.Common
/-!
C47 — path, line and date utilities of `crates/osutils` (+ the Python-visible
re-implementations in `crates/osutils-py`).

* paths: `path.rs: is_inside, is_inside_any, minimum_path_selection, splitpath,
  joinpath` over *relative* paths.  A path is a byte string; `components`
  mirrors `std::path::Path::components` for relative paths (split on `/`,
  drop empty and `.` segments).  Absolute paths, a leading `.` segment
  (`CurDir`) and `..` segments (`ParentDir`, which sorts before every normal
  component) are outside the modelled domain (`relOk`).
* lines: `lib.rs: split_lines, chunks_to_lines` (the crate-internal versions)
  and `osutils-py: PyChunksToLinesIterator` (what `osutils.split_lines` /
  `osutils.chunks_to_lines` actually run), all three literal.
* dates: `time.rs: format_highres_date / unpack_highres_date` over integer
  nanoseconds, and `format_highres_date` over arbitrary f64 timestamps (dyadic
  rationals; the IEEE subtraction `t - t.floor()` and the exact `{:.9}`
  rounding are modelled).  The calendar (`chrono`'s `%a %Y-%m-%d %H:%M:%S` formatter and
  parser, an external library) is specified by a proleptic-Gregorian
  days↔civil conversion and compared with chrono on every run.
-/
namespace BreezyVerif.C47

deriving instance DecidableEq for Except

/-! ## paths -/

abbrev Path := List Bytes

def slash : UInt8 := 47
def dot : UInt8 := 46
def nl : UInt8 := 10

/-- put `c` in front of the first field -/
def consHead (c : UInt8) : List Bytes → List Bytes
  | [] => [[c]]
  | f :: fs => (c :: f) :: fs

/-- `str::split(sep)`: always at least one field -/
def splitOn (sep : UInt8) : Bytes → List Bytes
  | [] => [[]]
  | c :: cs => if c = sep then [] :: splitOn sep cs else consHead c (splitOn sep cs)

/-- `Path::components()` of a relative path without `..` / leading `.` -/
def components (p : Bytes) : Path :=
  (splitOn slash p).filter (fun s => s ≠ [] ∧ s ≠ [dot])

/-- the modelled domain: relative, first segment not `.`, no `..` segment -/
def relOk (p : Bytes) : Bool :=
  p.head? ≠ some slash ∧ (splitOn slash p).head? ≠ some [dot] ∧ [dot, dot] ∉ splitOn slash p

/-- `is_inside(dir, fname) = fname.starts_with(dir)` (component-wise) -/
def isInside (dir fname : Path) : Bool := dir.isPrefixOf fname

def isInsideAny (dirs : List Path) (fname : Path) : Bool :=
  dirs.any (fun d => isInside d fname)

def isInsideOrParentOfAny (dirs : List Path) (fname : Path) : Bool :=
  dirs.any (fun d => isInside d fname || isInside fname d)

/-- the loop of `minimum_path_selection` after `search_paths = [sorted[0]]` -/
def scan (last : Path) : List Path → List Path
  | [] => []
  | p :: ps => if isInside last p then scan last ps else p :: scan p ps

def pathLe (a b : Path) : Bool := decide (a ≤ b)

def sortPaths (ps : List Path) : List Path := ps.mergeSort pathLe

/-- `minimum_path_selection` (input and output are sets in the code) -/
def mps (paths : List Path) : List Path :=
  if paths.length < 2 then paths else
  match sortPaths paths with
  | [] => []
  | s0 :: rest => s0 :: scan s0 rest

inductive PathErr where
  | invalid
  deriving DecidableEq, Repr

/-- `splitpath` -/
def splitpathAux : List Bytes → Except PathErr (List Bytes)
  | [] => .ok []
  | f :: fs =>
    if f = [dot, dot] then .error .invalid
    else if f = [dot] ∨ f = [] then splitpathAux fs
    else match splitpathAux fs with
      | .ok r => .ok (f :: r)
      | .error e => .error e

def splitpath (p : Bytes) : Except PathErr (List Bytes) := splitpathAux (splitOn slash p)

/-- `PathBuf::push` on unix -/
def pushPath (buf s : Bytes) : Bytes :=
  if s.head? = some slash then s
  else if buf ≠ [] ∧ buf.getLast? ≠ some slash then buf ++ slash :: s
  else buf ++ s

def pathjoin (ps : List Bytes) : Bytes := ps.foldl pushPath []

/-- `joinpath` -/
def joinpath (ps : List Bytes) : Except PathErr Bytes :=
  if ps.any (fun p => p = [] ∨ p = [dot, dot]) then .error .invalid else .ok (pathjoin ps)

/-! ## lines -/

/-- `memchr(b'\n', t)` then `t[..=nl]`, `t[nl+1..]`: the line including its
newline, the rest, and whether a newline was found -/
def takeLine : Bytes → Bytes × Bytes × Bool
  | [] => ([], [], false)
  | c :: cs =>
    if c = nl then ([c], cs, true)
    else
      let r := takeLine cs
      (c :: r.1, r.2.1, r.2.2)

theorem takeLine_rest_le (t : Bytes) : (takeLine t).2.1.length ≤ t.length := by
  induction t with
  | nil => simp [takeLine]
  | cons c cs ih => unfold takeLine; split <;> simp <;> omega

/-- `lib.rs: split_lines` -/
def splitLines (t : Bytes) : List Bytes :=
  match t with
  | [] => []
  | c :: cs =>
    let r := takeLine (c :: cs)
    r.1 :: splitLines r.2.1
termination_by t.length
decreasing_by
  have := takeLine_rest_le cs
  unfold takeLine
  split <;> simp <;> omega

/-- `is_well_formed_line` -/
def wellFormed (l : Bytes) : Bool :=
  match l with
  | [] => false
  | _ => (takeLine l).2.2 && (takeLine l).2.1.isEmpty

/-- `lib.rs: chunks_to_lines` (iterator state = `tail`, remaining chunks) -/
def c2lCore (tail : Bytes) (chunks : List Bytes) : List Bytes :=
  if (takeLine tail).2.2 then
    (takeLine tail).1 :: c2lCore (takeLine tail).2.1 chunks
  else
    match chunks with
    | c :: cs =>
      if tail.isEmpty && wellFormed c then c :: c2lCore tail cs
      else c2lCore (tail ++ c) cs
    | [] => if tail.isEmpty then [] else [tail]
termination_by (chunks.length, tail.length)
decreasing_by
  · apply Prod.Lex.right'
    · omega
    · rename_i h
      have := takeLine_rest_le tail
      cases tail with
      | nil => simp [takeLine] at h
      | cons c cs =>
        have := takeLine_rest_le cs
        unfold takeLine
        split <;> simp <;> omega
  · apply Prod.Lex.left; simp
  · apply Prod.Lex.left; simp

/-- `osutils-py: PyChunksToLinesIterator` (state = `tail : Option<Vec<u8>>`,
remaining chunks); this is what `osutils.chunks_to_lines` and
`osutils.split_lines` run -/
def c2lPy (tail : Option Bytes) (chunks : List Bytes) : List Bytes :=
  match tail with
  | some chunk =>
    if (takeLine chunk).2.2 then
      if (takeLine chunk).2.1.isEmpty then chunk :: c2lPy none chunks
      else (takeLine chunk).1 :: c2lPy (some (takeLine chunk).2.1) chunks
    else
      match chunks with
      | c :: cs => if (chunk ++ c).isEmpty then c2lPy none cs else c2lPy (some (chunk ++ c)) cs
      | [] => [chunk]
  | none =>
    match chunks with
    | c :: cs =>
      if (takeLine c).2.2 && (takeLine c).2.1.isEmpty then c :: c2lPy none cs
      else if c.isEmpty then c2lPy none cs
      else c2lPy (some c) cs
    | [] => []
termination_by (chunks.length, match tail with | some t => t.length + 1 | none => 0)
decreasing_by
  · apply Prod.Lex.right'
    · omega
    · simp
  · apply Prod.Lex.right'
    · omega
    · rename_i h _
      cases chunk with
      | nil => simp [takeLine] at h
      | cons c cs =>
        have := takeLine_rest_le cs
        unfold takeLine
        split <;> simp <;> omega
  all_goals (apply Prod.Lex.left; simp)

/-- `osutils.split_lines(text)` as exposed to Python: the iterator over `[text]` -/
def splitLinesPy (t : Bytes) : List Bytes := c2lPy none [t]

/-! ## dates -/

/-- (month index counted from March 0..11, day of month 1..31) of a day of
year counted from 1 March -/
def monthDay (doy : Int) : Int × Int :=
  if doy < 31 then (0, doy + 1) else if doy < 61 then (1, doy - 30)
  else if doy < 92 then (2, doy - 60) else if doy < 122 then (3, doy - 91)
  else if doy < 153 then (4, doy - 121) else if doy < 184 then (5, doy - 152)
  else if doy < 214 then (6, doy - 183) else if doy < 245 then (7, doy - 213)
  else if doy < 275 then (8, doy - 244) else if doy < 306 then (9, doy - 274)
  else if doy < 337 then (10, doy - 305) else (11, doy - 336)

def monthStart (mp : Int) : Int :=
  if mp = 0 then 0 else if mp = 1 then 31 else if mp = 2 then 61 else if mp = 3 then 92
  else if mp = 4 then 122 else if mp = 5 then 153 else if mp = 6 then 184 else if mp = 7 then 214
  else if mp = 8 then 245 else if mp = 9 then 275 else if mp = 10 then 306 else 337

structure Civil where
  y : Int
  m : Int
  d : Int
  deriving DecidableEq, Repr

/-- (year of the 400-year era 0..399, day of the March-based year 0..365) -/
def yearDay (doe : Int) : Int × Int :=
  let n100 := if doe / 36524 < 3 then doe / 36524 else 3
  let r1 := doe - n100 * 36524
  let n4 := r1 / 1461
  let r2 := r1 % 1461
  let n1 := if r2 / 365 < 3 then r2 / 365 else 3
  (n100 * 100 + n4 * 4 + n1, r2 - n1 * 365)

/-- proleptic Gregorian date of a day number (0 = 1970-01-01) -/
def civilFromDays (z : Int) : Civil :=
  let era := (z + 719468) / 146097
  let yd := yearDay ((z + 719468) % 146097)
  let md := monthDay yd.2
  let m := if md.1 < 10 then md.1 + 3 else md.1 - 9
  ⟨era * 400 + yd.1 + (if m ≤ 2 then 1 else 0), m, md.2⟩

def daysFromCivil (c : Civil) : Int :=
  let y' := c.y - (if c.m ≤ 2 then 1 else 0)
  let era := y' / 400
  let yoe := y' % 400
  let mp := if c.m > 2 then c.m - 3 else c.m + 9
  let doy := monthStart mp + c.d - 1
  let doe := yoe * 365 + yoe / 4 - yoe / 100 + doy
  era * 146097 + doe - 719468

def digitChar (n : Nat) : Char :=
  match n with
  | 0 => '0' | 1 => '1' | 2 => '2' | 3 => '3' | 4 => '4'
  | 5 => '5' | 6 => '6' | 7 => '7' | 8 => '8' | _ => '9'

def digitVal (c : Char) : Option Nat :=
  if c = '0' then some 0 else if c = '1' then some 1 else if c = '2' then some 2
  else if c = '3' then some 3 else if c = '4' then some 4 else if c = '5' then some 5
  else if c = '6' then some 6 else if c = '7' then some 7 else if c = '8' then some 8
  else if c = '9' then some 9 else none

/-- exactly `w` decimal digits of `n` (the low ones), most significant first -/
def padNat : Nat → Nat → List Char
  | 0, _ => []
  | w + 1, n => padNat w (n / 10) ++ [digitChar (n % 10)]

/-- value of a digit string, `acc` = value so far; `none` on a non-digit -/
def digitsVal (acc : Nat) : List Char → Option Nat
  | [] => some acc
  | c :: cs => match digitVal c with
    | some d => digitsVal (acc * 10 + d) cs
    | none => none

/-- decimal digits of a natural number without padding (at least one digit) -/
def natDigits (n : Nat) : List Char :=
  if n < 10 then [digitChar n] else natDigits (n / 10) ++ [digitChar (n % 10)]

/-- Rust `{:02}` / `{:0w}` of a non-negative number: pad to at least `w` digits -/
def padAtLeast (w n : Nat) : List Char :=
  let d := natDigits n
  List.replicate (w - d.length) '0' ++ d

def weekdayName (i : Int) : List Char :=
  if i = 0 then ['M', 'o', 'n'] else if i = 1 then ['T', 'u', 'e'] else if i = 2 then ['W', 'e', 'd']
  else if i = 3 then ['T', 'h', 'u'] else if i = 4 then ['F', 'r', 'i'] else if i = 5 then ['S', 'a', 't']
  else ['S', 'u', 'n']

def weekdays : List (List Char) := [0, 1, 2, 3, 4, 5, 6].map weekdayName

/-- chrono `%Y-%m-%d %H:%M:%S` of a second count, years 0..9999 only -/
def fmtBase (secs : Int) : List Char :=
  let c := civilFromDays (secs / 86400)
  let sod := secs % 86400
  padNat 4 c.y.toNat ++ ['-'] ++ padNat 2 c.m.toNat ++ ['-'] ++ padNat 2 c.d.toNat ++ [' ']
    ++ padNat 2 (sod / 3600).toNat ++ [':'] ++ padNat 2 (sod % 3600 / 60).toNat ++ [':']
    ++ padNat 2 (sod % 60).toNat

/-- `%a` -/
def fmtWeekday (secs : Int) : List Char := weekdayName ((secs / 86400 + 3) % 7)

/-- years chrono prints with exactly four digits -/
def inRange (secs : Int) : Bool :=
  0 ≤ (civilFromDays (secs / 86400)).y ∧ (civilFromDays (secs / 86400)).y ≤ 9999

/-- truncating division / remainder (Rust `/`, `%` on integers, `as i64` on floats) -/
def tdiv (a b : Int) : Int := if a ≥ 0 then a / b else -((-a) / b)
def tmod (a b : Int) : Int := if a ≥ 0 then a % b else -((-a) % b)

def assemble (secs : Int) (frac : Nat) (offStr : List Char) : List Char :=
  fmtWeekday secs ++ [' '] ++ fmtBase secs ++ ['.'] ++ padNat 9 frac ++ [' '] ++ offStr

/-- `format_highres_date(t, offset)` of `time.rs` (since 1e2630f) for a
timestamp that is a whole number of nanoseconds `nanos` (there the f64
arithmetic and the 9 printed digits are exact): seconds and fraction both from
the floor, offset printed as sign, |hours|, |minutes|. -/
def formatHighresNs (nanos offset : Int) : List Char :=
  assemble (nanos / 1000000000 + offset) (nanos % 1000000000).toNat
    ((if offset < 0 then '-' else '+') :: (padAtLeast 2 (offset.natAbs / 3600)
      ++ padAtLeast 2 (offset.natAbs / 60 % 60)))

/-! ### arbitrary f64 timestamps

A finite f64 is a dyadic rational `num / 2^k` (`num : Int`, what Python's
`float.as_integer_ratio` returns).  `t.floor()` is exact; `t - t.floor()` is
one IEEE subtraction (round to nearest, ties to even, 53 significant bits);
`format!("{:.9}", x)` prints the exactly rounded (ties to even) 9-digit
decimal of the exact value of `x`. -/

/-- smallest `sh ≤ fuel` with `n / 2^sh < 2^53` -/
def shiftFor : Nat → Nat → Nat
  | 0, _ => 0
  | f + 1, n => if n < 2 ^ 53 then 0 else shiftFor f (n / 2) + 1

/-- IEEE round-to-nearest-even of `n / 2^k` (0 ≤ n < 2^k) to 53 significant
bits; the result is again a numerator over `2^k` -/
def roundF64 (k n : Nat) : Nat :=
  let sh := shiftFor k n
  if sh = 0 then n else
    let q := n / 2 ^ sh
    let r := n % 2 ^ sh
    (if 2 ^ (sh - 1) < r ∨ (r = 2 ^ (sh - 1) ∧ q % 2 = 1) then q + 1 else q) * 2 ^ sh

/-- `{:.9}`: `n / 2^k` rounded to a whole number of 10⁻⁹ units, ties to even -/
def round9 (k n : Nat) : Nat :=
  let q := n * 1000000000 / 2 ^ k
  let r := n * 1000000000 % 2 ^ k
  if 2 ^ k < 2 * r ∨ (2 * r = 2 ^ k ∧ q % 2 = 1) then q + 1 else q

/-- the f64 value `t - t.floor()` as a numerator over `2^k` -/
def fracF64 (num : Int) (k : Nat) : Nat := roundF64 k (num % ((2 ^ k : Nat) : Int)).toNat

/-- the 9-digit rounding of the fraction, `0 ..= 10^9`; `10^9` is the string `1.000000000` -/
def fracUnits (num : Int) (k : Nat) : Nat := round9 k (fracF64 num k)

def offsetStr (offset : Int) : List Char :=
  (if offset < 0 then '-' else '+') :: (padAtLeast 2 (offset.natAbs / 3600)
      ++ padAtLeast 2 (offset.natAbs / 60 % 60))

/-- `format_highres_date(t, offset)` **as written** for the f64 `t = num / 2^k`:
`format!("{:.9}", t - t.floor())[1..]` drops the integer digit of the rounded
fraction, so `1.000000000` is printed as `.000000000` and the seconds are not
advanced. -/
def formatHighresF64 (num : Int) (k : Nat) (offset : Int) : List Char :=
  assemble (num / ((2 ^ k : Nat) : Int) + offset) (fracUnits num k % 1000000000) (offsetStr offset)

/-- the proposed patch: when the fraction rounds up to `1.000000000` the second is carried -/
def formatHighresF64Carry (num : Int) (k : Nat) (offset : Int) : List Char :=
  assemble (num / ((2 ^ k : Nat) : Int) + (if 1000000000 ≤ fracUnits num k then 1 else 0) + offset)
    (fracUnits num k % 1000000000) (offsetStr offset)

inductive DateErr where
  | noWeekday | badWeekday | noFraction | noTimezone | badDatetime | badFraction | badOffset
  deriving DecidableEq, Repr

/-- `s.find(c)` as (before, after-the-match) -/
def splitAtChar (c : Char) : List Char → Option (List Char × List Char)
  | [] => none
  | x :: xs => if x = c then some ([], xs) else
    match splitAtChar c xs with
    | some (a, b) => some (x :: a, b)
    | none => none

def parseFixed (w : Nat) (s : List Char) : Option Nat :=
  if s.length = w then digitsVal 0 s else none

/-- strict `%Y-%m-%d %H:%M:%S`: 4-2-2 2:2:2 digits, fields in range (day ≤ 31) -/
def parseBase (s : List Char) : Option Int :=
  match splitAtChar '-' s with
  | none => none
  | some (ys, r1) =>
  match splitAtChar '-' r1 with
  | none => none
  | some (ms, r2) =>
  match splitAtChar ' ' r2 with
  | none => none
  | some (ds, r3) =>
  match splitAtChar ':' r3 with
  | none => none
  | some (hs, r4) =>
  match splitAtChar ':' r4 with
  | none => none
  | some (is, ss) =>
    match parseFixed 4 ys, parseFixed 2 ms, parseFixed 2 ds,
        parseFixed 2 hs, parseFixed 2 is, parseFixed 2 ss with
    | some y, some m, some d, some h, some i, some s =>
      if 1 ≤ m ∧ m ≤ 12 ∧ 1 ≤ d ∧ d ≤ 31 ∧ h < 24 ∧ i < 60 ∧ s < 60 then
        some (daysFromCivil ⟨y, m, d⟩ * 86400 + h * 3600 + i * 60 + s)
      else none
    | _, _, _, _, _, _ => none

/-- `".ddddddddd".parse::<f64>()` restricted to 1..9 digits after the dot, in nanoseconds -/
def parseFrac (s : List Char) : Option Nat :=
  match s with
  | '.' :: ds =>
    if 1 ≤ ds.length ∧ ds.length ≤ 9 then
      (digitsVal 0 ds).map (fun v => v * 10 ^ (9 - ds.length))
    else none
  | _ => none

/-- `str::parse::<i32>()` -/
def parseI32 (s : List Char) : Option Int :=
  let body (ds : List Char) (neg : Bool) : Option Int :=
    if ds = [] then none else
    match digitsVal 0 ds with
    | some v =>
      let r : Int := if neg then -(v : Int) else v
      if -2147483648 ≤ r ∧ r ≤ 2147483647 then some r else none
    | none => none
  match s with
  | '+' :: ds => body ds false
  | '-' :: ds => body ds true
  | ds => body ds false

/-- `unpack_highres_date` → (nanoseconds, offset seconds) -/
def unpackHighres (date : List Char) : Except DateErr (Int × Int) :=
  match splitAtChar ' ' date with
  | none => .error .noWeekday
  | some (wd, afterWd) =>
    if wd ∉ weekdays then .error .badWeekday else
    -- `date.find('.')` searches the whole string; the weekday has no dot
    match splitAtChar '.' afterWd with
    | none => .error .noFraction
    | some (base, afterDot) =>
      match splitAtChar ' ' afterDot with
      | none => .error .noTimezone
      | some (fracDigits, offStr) =>
        match parseBase base with
        | none => .error .badDatetime
        | some baseSecs =>
          match parseFrac ('.' :: fracDigits) with
          | none => .error .badFraction
          | some frac =>
            match parseI32 offStr with
            | none => .error .badOffset
            | some off =>
              let so := tdiv off 100 * 3600 + tmod off 100 * 60
              .ok ((baseSecs - so) * 1000000000 + frac, so)

end BreezyVerif.C47
