import BreezyVerif.Model.C10
import BreezyVerif.Lemmas.C10
import BreezyVerif.Lemmas.C10Loop
import BreezyVerif.Lemmas.C10Filter
import BreezyVerif.Lemmas.C10Nodup
/-!
C10 — theorems.  All trees (association lists of any size, no well-formedness
needed unless stated), all filters.  `iterChanges` is the comparison of the
unchanged code; `iterChangesG fx` is the same with the selected variant of the
`_handle_precise_ids` loop (`fx = false`: unchanged, `iterChangesG false =
iterChanges`; `fx = true`: with the `examined_file_ids` fix).
-/
namespace BreezyVerif.C10

/-- **Applying the reported changes to the source yields the target** (every
pair of trees; extensional equality of the id ↦ entry maps).  The records carry
no content: content comes from the target only where `changed_content` is set,
from the source otherwise. -/
theorem apply_changes (src tgt : Tree) :
    ∃ t', applyChanges src tgt (changesOf src tgt) = some t' ∧ ∀ i, get t' i = get tgt i := by
  obtain ⟨t', h1, h2⟩ := applyList_true (src := src) (tgt := tgt) (changesOf src tgt)
    (fun c hc => (changesOf_true hc).1) src
  refine ⟨t', h1, ?_⟩
  intro i
  rw [h2 i]
  by_cases ha : (changesOf src tgt).any (fun c => c.id == i) = true
  · simp [ha]
  · simp only [ha, Bool.false_eq_true, if_false]
    cases hc : change src tgt i with
    | none =>
      obtain ⟨a, b⟩ := change_none_iff.mp hc
      rw [a, b]
    | some c =>
      by_cases hch : c.isChanged = true
      · exfalso
        apply ha
        rw [List.any_eq_true]
        exact ⟨c, mem_changesOf hc hch, by simp [change_id hc]⟩
      · exact unchanged_noop' hc (by simpa using hch)

/-- every record reported only because of `include_unchanged` is a true no-op:
the id has literally the same entry in both trees -/
theorem unchanged_noop (src tgt : Tree) (c : Change) (h : c ∈ allRecords src tgt)
    (hc : c.isChanged = false) : get src c.id = get tgt c.id ∧ c.id ∈ ids tgt := by
  unfold allRecords at h
  rw [List.mem_filterMap] at h
  obtain ⟨i, _, hi⟩ := h
  have hid := change_id hi
  rw [hid]
  have heq := unchanged_noop' hi hc
  refine ⟨heq, ?_⟩
  cases ht : get tgt i with
  | some e => exact mem_ids_of_get ht
  | none =>
    have := removed_isChanged hi ht
    rw [hc] at this; cases this

/-- **`include_unchanged` partitions**: without a filter the result with
`include_unchanged` is the result without it plus no-op records, nothing is
lost or invented, and every id of the target has a record. -/
theorem include_unchanged_partition (src tgt : Tree) (reqv : Bool) :
    iterChanges .generic src tgt none true reqv = .ok (allRecords src tgt) ∧
    iterChanges .generic src tgt none false reqv = .ok ((allRecords src tgt).filter (·.isChanged)) ∧
    ((allRecords src tgt).filter (·.isChanged) ++ (allRecords src tgt).filter (fun c => !c.isChanged)).Perm
      (allRecords src tgt) ∧
    (∀ i ∈ ids tgt, ∃ c ∈ allRecords src tgt, c.id = i) := by
  refine ⟨rfl, rfl, List.filter_append_perm _ _, ?_⟩
  intro i hi
  have hs := get_isSome_of_mem hi
  cases ht : get tgt i with
  | none => rw [ht] at hs; cases hs
  | some e =>
    cases hc : change src tgt i with
    | none => rw [(change_none_iff.mp hc).2] at ht; cases ht
    | some c =>
      refine ⟨c, ?_, change_id hc⟩
      unfold allRecords
      rw [List.mem_filterMap]
      exact ⟨i, mem_allIds.mpr (Or.inl hi), hc⟩

/-! ### filtered results -/

theorem baseTgt_true {src tgt : Tree} {sel : List Id} {c : Change} (h : c ∈ baseTgt src tgt sel false) :
    change src tgt c.id = some c ∧ c.isChanged = true ∧ c.id ∈ sel := by
  unfold baseTgt at h
  rw [List.mem_filterMap] at h
  obtain ⟨i, hi, hc⟩ := h
  rw [List.mem_filter] at hi
  cases hr : change src tgt i with
  | none => simp [hr] at hc
  | some r =>
    simp only [hr, Option.bind_some, Bool.or_false] at hc
    split at hc
    · rename_i hch
      cases hc
      rw [change_id hr]
      exact ⟨hr, hch, by simpa using hi.2⟩
    · cases hc

theorem baseRemoved_true {src tgt : Tree} {sel : List Id} {c : Change} (h : c ∈ baseRemoved src tgt sel) :
    change src tgt c.id = some c ∧ c.isChanged = true ∧ c.tgtParent = none := by
  unfold baseRemoved at h
  rw [List.mem_filterMap] at h
  obtain ⟨i, hi, hc⟩ := h
  rw [List.mem_filter] at hi
  have hnone : get tgt i = none := by
    have := hi.2
    simp only [Bool.and_eq_true, Option.isNone_iff_eq_none] at this
    exact this.2
  rw [change_id hc]
  refine ⟨hc, removed_isChanged hc hnone, ?_⟩
  unfold change at hc
  rw [hnone] at hc
  split at hc <;> simp_all
  all_goals (subst hc; rfl)

/-- the shape of every filtered result (`include_unchanged=False`, both
flavours): selected target entries, selected removed entries, closure -/
theorem filtered_shape (impl : Impl) (src tgt : Tree) (p : Path) (f : List Path) (reqv : Bool)
    (cs : List Change) (h : iterChanges impl src tgt (some (p :: f)) false reqv = .ok cs) :
    ∃ extra,
      preciseLoop src tgt (preciseFuel src tgt)
        { precise := tgtParents (baseTgt src tgt (selectIds src tgt (p :: f)) false),
          changed := (baseTgt src tgt (selectIds src tgt (p :: f)) false
                      ++ baseRemoved src tgt (selectIds src tgt (p :: f))).map (·.id),
          out := [] } = some extra ∧
      cs = baseTgt src tgt (selectIds src tgt (p :: f)) false
            ++ baseRemoved src tgt (selectIds src tgt (p :: f)) ++ extra := by
  unfold iterChanges at h
  simp only at h
  split at h
  · cases h
  · cases impl
    · simp only at h
      split at h
      · rename_i extra he
        refine ⟨extra, he, ?_⟩
        cases h; rfl
      · cases h
    · simp only at h
      split at h
      · rename_i extra he
        refine ⟨extra, he, ?_⟩
        simp at h; rw [← h, List.append_assoc]
      · cases h

theorem mem_tgtParents {cs : List Change} {c : Change} {p : Id} (hc : c ∈ cs) (hp : c.tgtParent = some p) :
    p ∈ tgtParents cs := by
  unfold tgtParents
  rw [mem_unionNew]
  right
  rw [List.mem_filterMap]
  exact ⟨c, hc, hp⟩

theorem filtered_inv (src tgt : Tree) (sel : List Id) :
    Inv src tgt (baseTgt src tgt sel false ++ baseRemoved src tgt sel)
      { precise := tgtParents (baseTgt src tgt sel false),
        changed := (baseTgt src tgt sel false ++ baseRemoved src tgt sel).map (·.id),
        out := [] } := by
  refine ⟨?_, ?_, by simp⟩
  · intro c hc p hp
    simp only [List.append_nil, List.mem_append] at hc
    rcases hc with hc | hc
    · exact Or.inl (mem_tgtParents hc hp)
    · rw [(baseRemoved_true hc).2.2] at hp; cases hp
  · intro i hi
    simp only [List.mem_map] at hi
    obtain ⟨c, hc, hci⟩ := hi
    exact ⟨c, by simpa using hc, hci⟩

/-- **The path-filtered result is a subset of the unfiltered one**: every
record reported with a filter is reported, identically, without it. -/
theorem filter_subset (impl : Impl) (src tgt : Tree) (filt : List Path) (reqv : Bool) (cs : List Change)
    (h : iterChanges impl src tgt (some filt) false reqv = .ok cs) :
    ∀ c ∈ cs, c ∈ changesOf src tgt := by
  cases filt with
  | nil =>
    simp [iterChanges] at h
    subst h; simp
  | cons p f =>
    obtain ⟨extra, he, hcs⟩ := filtered_shape impl src tgt p f reqv cs h
    have hinv := preciseLoop_inv src tgt _ _ _ extra (filtered_inv src tgt (selectIds src tgt (p :: f))) he
    intro c hc
    rw [hcs] at hc
    simp only [List.mem_append] at hc
    rcases hc with (hc | hc) | hc
    · exact mem_changesOf (baseTgt_true hc).1 (baseTgt_true hc).2.1
    · exact mem_changesOf (baseRemoved_true hc).1 (baseRemoved_true hc).2.1
    · exact mem_changesOf (hinv.2 c hc).2 (hinv.2 c hc).1

/-- **… and contains every change of the selected ids** (the ids at the filter
paths in either tree and everything below them in either tree). -/
theorem filter_complete (impl : Impl) (src tgt : Tree) (filt : List Path) (reqv : Bool) (cs : List Change)
    (h : iterChanges impl src tgt (some filt) false reqv = .ok cs) (i : Id) (hi : i ∈ selectIds src tgt filt)
    (c : Change) (hc : change src tgt i = some c) (hch : c.isChanged = true) : c ∈ cs := by
  cases filt with
  | nil =>
    have hnil : ∀ n, iterate (expandChildren src tgt) n [] = [] := by
      intro n
      induction n with
      | zero => rfl
      | succ n ih => simpa [iterate, expandChildren, unionNew] using ih
    simp [selectIds, unionNew, hnil] at hi
  | cons p f =>
    obtain ⟨extra, _, hcs⟩ := filtered_shape impl src tgt p f reqv cs h
    rw [hcs]
    simp only [List.mem_append]
    left
    cases ht : get tgt i with
    | some e =>
      left
      unfold baseTgt
      rw [List.mem_filterMap]
      refine ⟨i, ?_, by simp [hc, hch]⟩
      rw [List.mem_filter]
      exact ⟨mem_ids_of_get ht, by simpa using hi⟩
    | none =>
      right
      unfold baseRemoved
      rw [List.mem_filterMap]
      refine ⟨i, ?_, hc⟩
      rw [List.mem_filter]
      have hs : i ∈ ids src := by
        cases hsrc : get src i with
        | none => rw [change_none_iff.mpr ⟨hsrc, ht⟩] at hc; cases hc
        | some s => exact mem_ids_of_get hsrc
      refine ⟨hs, ?_⟩
      simp only [Bool.and_eq_true, Option.isNone_iff_eq_none]
      exact ⟨by simpa using hi, ht⟩

/-- **Parent closure of `_handle_precise_ids`**: for every reported record that
places its id under a parent `p` in the target, `p` is reported too or `p` is
not a change at all (it has the same entry in source and target — or, in trees
that are not well formed, no entry in either).  `filter_ancestor_closed` below
extends this to all ancestors; `filter_wf_partial` draws the conclusion for
well-formed trees. -/
theorem filter_parent_closed (impl : Impl) (src tgt : Tree) (filt : List Path) (reqv : Bool)
    (cs : List Change) (h : iterChanges impl src tgt (some filt) false reqv = .ok cs) :
    ∀ c ∈ cs, ∀ p, c.tgtParent = some p →
      (∃ c' ∈ cs, c'.id = p) ∨ (∀ r, change src tgt p = some r → r.isChanged = false) := by
  cases filt with
  | nil =>
    simp [iterChanges] at h
    subst h; simp
  | cons p f =>
    obtain ⟨extra, he, hcs⟩ := filtered_shape impl src tgt p f reqv cs h
    have hinv := preciseLoop_inv src tgt _ _ _ extra (filtered_inv src tgt (selectIds src tgt (p :: f))) he
    rw [hcs]
    exact hinv.1

/-! ### non-vacuity and witnesses -/

def exSrc : Tree := [("r", ⟨none, "", .dir⟩), ("o", ⟨some "r", "d", .dir⟩), ("p", ⟨some "r", "z", .dir⟩)]
def exTgt : Tree := [("r", ⟨none, "", .dir⟩), ("o", ⟨some "r", "q", .dir⟩), ("p", ⟨some "r", "d", .dir⟩),
  ("f", ⟨some "p", "f", .file "x" false⟩)]

/-- the hypotheses of the filter theorems are satisfiable on a non-trivial pair
(two renames and an addition, well-formed trees), and the closure really adds
records (`p`, the parent of the added file, is outside the filter) -/
example : wf exSrc = true ∧ wf exTgt = true ∧
    (iterChanges .generic exSrc exTgt (some [["d", "f"]]) false false).toOption.map (fun cs => cs.map (·.id))
      = some ["f", "p", "o"] := by decide +kernel

example : "f" ∈ selectIds exSrc exTgt [["d", "f"]] := by decide +kernel

/-- **Witness (defect in the `_handle_precise_ids` loop without the `examined_file_ids` fix; fixed
in /repo, kept because the check still selects this variant when it meets it)**: the displaced
source entries are added to the work set *after* already-emitted ids have been removed from it, so
an id that was already reported (`o`, selected by the filter path `q`) and that occupies the target
path of a needed parent (`p` at `d`) is reported a second time.  With the fix: `no_duplicates`. -/
theorem precise_duplicate_witness :
    (iterChanges .generic exSrc exTgt (some [["d", "f"], ["q"]]) false false).toOption.map
      (fun cs => cs.map (·.id)) = some ["o", "f", "p", "o"] := by decide +kernel

def dSrc : Tree := [("r", ⟨none, "", .dir⟩), ("D", ⟨some "r", "d", .dir⟩), ("f", ⟨some "r", "x", .file "x" false⟩),
  ("g", ⟨some "D", "f", .file "g" false⟩)]
def dTgt : Tree := [("r", ⟨none, "", .dir⟩), ("D", ⟨some "r", "d", .dir⟩), ("f", ⟨some "D", "f", .file "x" false⟩),
  ("g", ⟨some "D", "g2", .file "g" false⟩)]

/-- **Witness (property violated by the anchored code)**: only the target
paths of *parents* are checked for a displaced source entry, not the target
path of the reported entry itself.  With the filter `x` the file `f` is
reported as moving to `d/f`, the file `g` that occupies `d/f` in the source is
not reported, and applying the result to the source yields two entries named
`d/f`: not a well-formed tree, although both inputs are. -/
theorem displaced_entry_witness :
    wf dSrc = true ∧ wf dTgt = true ∧
    (match iterChanges .generic dSrc dTgt (some [["x"]]) false false with
     | .ok cs => (cs.map (·.id), (applyChanges dSrc dTgt cs).map wf)
     | .error _ => ([], none)) = (["f"], some false) := by decide +kernel

def cSrc : Tree := [("r", ⟨none, "", .dir⟩), ("a", ⟨some "r", "a", .dir⟩), ("b", ⟨some "a", "b", .file "" false⟩)]
def cTgt : Tree := [("r", ⟨none, "", .dir⟩), ("a", ⟨some "r", "d", .dir⟩), ("b", ⟨some "a", "b", .file "" false⟩)]

/-- **Witness (`InterCHKRevisionTree`, `include_unchanged`)**: unchanged entries
are reported with `(relpath, relpath)`; below a renamed directory the source
path is wrong (`d/b` instead of `a/b`), the generic implementation reports the
true pair. -/
theorem chk_unchanged_path_witness :
    ((iterChanges .chk cSrc cTgt none true false).toOption.map
        fun cs => (cs.filter (·.id == "b")).map fun c => (c.srcPath, c.tgtPath))
      = some [(some ["d", "b"], some ["d", "b"])] ∧
    ((iterChanges .generic cSrc cTgt none true false).toOption.map
        fun cs => (cs.filter (·.id == "b")).map fun c => (c.srcPath, c.tgtPath))
      = some [(some ["a", "b"], some ["d", "b"])] := by decide +kernel

/-- **Witness (generic implementation, `include_unchanged` with a filter)**:
unchanged selected entries feed the parent closure, so `include_unchanged`
changes the set of *changes* reported (the renamed parent `a` appears only with
the flag). -/
theorem include_unchanged_widens_witness :
    ((iterChanges .generic cSrc cTgt (some [["d", "b"]]) false false).toOption.map fun cs => cs.map (·.id)) = some [] ∧
    ((iterChanges .generic cSrc cTgt (some [["d", "b"]]) true false).toOption.map
        fun cs => (cs.filter (·.isChanged)).map (·.id)) = some ["a"] := by decide +kernel

/-! ### optimised = generic, `require_versioned`, `want_unversioned` -/

/-- **Optimised equals generic (revision trees)**: without `include_unchanged` the CHK
flavour and the generic flavour give literally the same record list, for every pair of trees, every
filter (`none`, `[]`, any paths) and both settings of `require_versioned`.  (With
`include_unchanged` they differ: `chk_unchanged_path_witness`.) -/
theorem chk_eq_generic (fx : Bool) (src tgt : Tree) (filt : Option (List Path)) (reqv : Bool) :
    iterChangesG fx .chk src tgt filt false reqv = iterChangesG fx .generic src tgt filt false reqv := by
  unfold iterChangesG
  cases filt with
  | none => simp
  | some f =>
    cases f with
    | nil => rfl
    | cons p f =>
      simp only
      split
      · rfl
      · simp only [Bool.false_eq_true, if_false, List.append_nil]

/-- **`require_versioned`**: with the flag, a (non-empty) filter is rejected exactly when one of its
paths is the path of no id in either tree, and the error lists exactly those paths; otherwise the flag
changes nothing.  Without the flag the error never occurs. -/
theorem require_versioned_spec (fx : Bool) (impl : Impl) (src tgt : Tree) (p : Path) (f : List Path) (incl : Bool) :
    (notVersioned src tgt (p :: f) ≠ [] →
      iterChangesG fx impl src tgt (some (p :: f)) incl true = .error (.pathsNotVersioned (notVersioned src tgt (p :: f)))) ∧
    (notVersioned src tgt (p :: f) = [] →
      iterChangesG fx impl src tgt (some (p :: f)) incl true = iterChangesG fx impl src tgt (some (p :: f)) incl false) ∧
    (∀ ps, iterChangesG fx impl src tgt (some (p :: f)) incl false ≠ .error (.pathsNotVersioned ps)) ∧
    (∀ q, q ∈ notVersioned src tgt (p :: f) ↔
      q ∈ p :: f ∧ (∀ i, pathOf tgt i ≠ some q) ∧ (∀ i, pathOf src i ≠ some q)) := by
  refine ⟨?_, ?_, ?_, ?_⟩
  · intro h
    unfold iterChangesG
    have : (notVersioned src tgt (p :: f)).isEmpty = false := by
      cases hn : notVersioned src tgt (p :: f) with
      | nil => exact absurd hn h
      | cons _ _ => rfl
    simp [this]
  · intro h
    unfold iterChangesG
    simp [h]
  · intro ps
    unfold iterChangesG
    simp only [Bool.false_and, Bool.false_eq_true, if_false]
    cases impl <;> simp only <;> split <;> simp
  · intro q
    rw [mem_notVersioned, idAt_none_iff, idAt_none_iff]

example : notVersioned exSrc exTgt [["d", "f"], ["nope"]] = [["nope"]] := by decide +kernel

/-- the `want_unversioned` records are exactly the unversioned paths at or below a filter path -/
theorem mem_unversionedOf {extras : List Path} {f : List Path} {p : Path} :
    p ∈ unversionedOf extras (some f) ↔ p ∈ extras ∧ ∃ q ∈ f, q <+: p := by
  unfold unversionedOf insideAny
  simp [List.mem_filter, List.any_eq_true]

/-! ### the selection (`find_ids_across_trees`) -/

/-- **Every id at or below a filter path — in either tree — is selected**, and the selection is
closed under children in either tree (the bounded iterate of `selectIds` reaches its fixpoint).
With `filter_complete`: every change whose source or target path lies under a filter path is
reported. -/
theorem select_complete (src tgt : Tree) (filt : List Path) :
    (wf tgt = true → ∀ p ∈ filt, ∀ i path, pathOf tgt i = some path → p <+: path → i ∈ selectIds src tgt filt) ∧
    (wf src = true → ∀ p ∈ filt, ∀ i path, pathOf src i = some path → p <+: path → i ∈ selectIds src tgt filt) ∧
    (∀ p ∈ selectIds src tgt filt, ∀ j, (j ∈ childrenOf src p ∨ j ∈ childrenOf tgt p) → j ∈ selectIds src tgt filt) :=
  ⟨fun hw _ hp _ _ hi hpre => selectIds_complete_tgt hw hp hi hpre,
   fun hw _ hp _ _ hi hpre => selectIds_complete_src hw hp hi hpre,
   fun _ hp _ hj => selectIds_children_closed hp hj⟩

example : wf exTgt = true ∧ pathOf exTgt "f" = some ["d", "f"] ∧ ["d"] <+: ["d", "f"] := by
  refine ⟨by decide +kernel, by decide +kernel, ?_⟩
  exact ⟨["f"], rfl⟩

/-! ### termination of the closure loop -/

/-- **Witness (the anchored code does not terminate)**: on these two pairs of well-formed trees
the `_handle_precise_ids` loop never finishes, *whatever the fuel*: (A) the entry `o` moved to
below the unchanged entry `x` that now sits at `o`'s old path — `x` is needed, the source entry at
its target path is `o`, `o` is emitted (again) and asks for its parent `x` (again): the real
generator yields the record of `o` for ever; (B) the same with an unchanged `o`: nothing is
emitted any more, the loop just spins.  `iterChanges` answers `Err.fuel` for both flavours; the
loop with the fix terminates on both. -/
theorem precise_never_terminates_witness :
    (wf loopASrc = true ∧ wf loopATgt = true ∧
      (∀ n, preciseLoop loopASrc loopATgt n (startState loopASrc loopATgt [["b", "x", "y"]]) = none) ∧
      isFuel (iterChanges .generic loopASrc loopATgt (some [["b", "x", "y"]]) false false) = true ∧
      isFuel (iterChanges .chk loopASrc loopATgt (some [["b", "x", "y"]]) false false) = true ∧
      (iterChangesG true .generic loopASrc loopATgt (some [["b", "x", "y"]]) false false).toOption.map (fun cs => cs.map (·.id))
        = some ["o", "a", "b"]) ∧
    (wf loopBSrc = true ∧ wf loopBTgt = true ∧
      (∀ n, preciseLoop loopBSrc loopBTgt n (startState loopBSrc loopBTgt [["g", "n", "n", "f"]]) = none) ∧
      isFuel (iterChanges .generic loopBSrc loopBTgt (some [["g", "n", "n", "f"]]) false false) = true ∧
      isFuel (iterChanges .chk loopBSrc loopBTgt (some [["g", "n", "n", "f"]]) false false) = true ∧
      (iterChangesG true .generic loopBSrc loopBTgt (some [["g", "n", "n", "f"]]) false false).toOption.map (fun cs => cs.map (·.id))
        = some ["f", "g", "h"]) :=
  ⟨⟨by decide +kernel, by decide +kernel, loopA_diverges, by decide +kernel, by decide +kernel, by decide +kernel⟩,
   ⟨by decide +kernel, by decide +kernel, loopB_diverges, by decide +kernel, by decide +kernel, by decide +kernel⟩⟩

/-- **The loop with the proposed fix always terminates**: for every pair of trees (no
well-formedness needed), every filter and all flags, the fixed `iter_changes` never runs out of
fuel — each round examines at least one id of `ids src ∪ ids tgt ∪ parent fields of tgt` for the
first time. -/
theorem fixed_loop_terminates (impl : Impl) (src tgt : Tree) (filt : Option (List Path)) (incl reqv : Bool) :
    isFuel (iterChangesG true impl src tgt filt incl reqv) = false := by
  have key : ∀ (sel : List Id) (incl : Bool), ∃ out,
      preciseLoopG true src tgt (gFuel true src tgt)
        { precise := tgtParents (baseTgt src tgt sel incl),
          changed := (baseTgt src tgt sel incl ++ baseRemoved src tgt sel).map (·.id), out := [] } [] = some out := by
    intro sel incl
    apply preciseLoopG_true_terminates
    · exact tgtParents_reachable
    · unfold unexamined gFuel
      have := reachable_length src tgt
      have h2 : ((reachable src tgt).filter fun u => !([] : List Id).contains u).length ≤ (reachable src tgt).length :=
        List.length_filter_le _ _
      simp only [if_true]
      omega
  unfold iterChangesG
  cases filt with
  | none => cases impl <;> rfl
  | some f =>
    cases f with
    | nil => rfl
    | cons p f =>
      simp only
      split
      · rfl
      · cases impl
        · obtain ⟨out, ho⟩ := key (selectIds src tgt (p :: f)) incl
          simp only [ho]; rfl
        · obtain ⟨out, ho⟩ := key (selectIds src tgt (p :: f)) false
          simp only [ho]; rfl

/- Full statement (FALSE for the unchanged code, `precise_never_terminates_witness`):
   theorem precise_terminates (hs : wf src = true) (hw : wf tgt = true) :
       isFuel (iterChanges impl src tgt filt incl reqv) = false
   What is missing: the loop forgets the unchanged ids it has examined and looks the
   `source.path2id` occupants up after removing the emitted ids. -/
/-- **The loop of the unchanged code terminates when no target path is occupied in the source by
another id** (partial).  The loop is then a plain walk up the target's parent chains, one level
per round, so `tgt.length + 2 ≤ preciseFuel` rounds are enough: the hypothesis `= .ok cs` of the
filter theorems is satisfiable for trees of any size. -/
theorem precise_terminates_partial (impl : Impl) (src tgt : Tree) (filt : Option (List Path)) (incl reqv : Bool)
    (hw : wf tgt = true) (hocc : noPathOccupant src tgt = true) :
    isFuel (iterChanges impl src tgt filt incl reqv) = false := by
  have key : ∀ (sel : List Id) (incl : Bool), ∃ out,
      preciseLoop src tgt (preciseFuel src tgt)
        { precise := tgtParents (baseTgt src tgt sel incl),
          changed := (baseTgt src tgt sel incl ++ baseRemoved src tgt sel).map (·.id), out := [] } = some out := by
    intro sel incl
    apply preciseLoop_terminates_of_shallow hw hocc (tgt.length + 1)
    · intro j hj
      obtain ⟨c, hc, hcp⟩ := mem_tgtParents_iff.mp hj
      obtain ⟨h1, _, _, _⟩ := baseTgt_mem hc
      rw [change_tgtPar h1] at hcp
      unfold tgtPar at hcp
      cases hg : get tgt c.id with
      | none => simp [hg] at hcp
      | some e =>
        simp only [hg, Option.bind_some] at hcp
        obtain ⟨pe, gpe, hpd⟩ := wf_parent hw hg hcp
        obtain ⟨path, hpath⟩ := wf_hasPath hw gpe
        exact ⟨pe, path, gpe, hpd, hpath, by have := pathOf_len hpath; omega⟩
    · unfold preciseFuel; omega
  unfold iterChanges
  cases filt with
  | none => cases impl <;> rfl
  | some f =>
    cases f with
    | nil => rfl
    | cons p f =>
      simp only
      split
      · rfl
      · cases impl
        · obtain ⟨out, ho⟩ := key (selectIds src tgt (p :: f)) incl
          simp only [ho]; rfl
        · obtain ⟨out, ho⟩ := key (selectIds src tgt (p :: f)) false
          simp only [ho]; rfl

def tSrc : Tree := [("r", ⟨none, "", .dir⟩), ("a", ⟨some "r", "a", .dir⟩), ("b", ⟨some "a", "b", .dir⟩),
  ("c", ⟨some "b", "c", .file "x" false⟩), ("e", ⟨some "r", "e", .file "y" true⟩)]
/-- `a` renamed to `z`, `c` edited, `e` moved into `a/b` -/
def tTgt : Tree := [("r", ⟨none, "", .dir⟩), ("a", ⟨some "r", "z", .dir⟩), ("b", ⟨some "a", "b", .dir⟩),
  ("c", ⟨some "b", "c", .file "xy" false⟩), ("e", ⟨some "b", "e2", .file "y" true⟩)]

/-- the hypotheses of `precise_terminates_partial` and `filter_wf_partial` hold on a non-trivial
pair (a renamed directory, an edit and a move below it), and the closure really adds records
(`a`, the renamed grandparent of `c`, is outside the filter) -/
example : wf tSrc = true ∧ wf tTgt = true ∧ noPathOccupant tSrc tTgt = true ∧ noSlotOccupant tSrc tTgt = true ∧
    sameRoot tSrc tTgt = true ∧
    (iterChanges .generic tSrc tTgt (some [["z", "b", "c"]]) false false).toOption.map (fun cs => cs.map (·.id))
      = some ["c", "a"] := by decide +kernel

/-! ### what a filtered result contains (both loop variants) -/

theorem iterChangesG_unfixed (impl : Impl) (src tgt : Tree) (filt : Option (List Path)) (incl reqv : Bool) :
    iterChangesG false impl src tgt filt incl reqv = iterChanges impl src tgt filt incl reqv :=
  iterChangesG_false impl src tgt filt incl reqv

/-- `filter_subset` and `filter_complete` for both loop variants: every reported record is a changed
true record of the unfiltered result, and every change of a selected id is reported -/
theorem filter_subset_complete_g (fx : Bool) (impl : Impl) (src tgt : Tree) (filt : List Path) (reqv : Bool)
    (cs : List Change) (h : iterChangesG fx impl src tgt (some filt) false reqv = .ok cs) :
    (∀ c ∈ cs, c ∈ changesOf src tgt) ∧
    (∀ i ∈ selectIds src tgt filt, ∀ c, change src tgt i = some c → c.isChanged = true → c ∈ cs) := by
  cases filt with
  | nil =>
    have hnil : ∀ n, iterate (expandChildren src tgt) n [] = [] := by
      intro n
      induction n with
      | zero => rfl
      | succ n ih => simpa [iterate, expandChildren, unionNew] using ih
    simp [iterChangesG] at h
    subst h
    simp [selectIds, unionNew, hnil]
  | cons p f =>
    obtain ⟨K, h1, _, _, _, _, h6⟩ := filteredG_closed fx impl src tgt p f reqv cs h
    exact ⟨fun c hc => mem_changesOf (h1 c hc).2 (h1 c hc).1, h6⟩

/-- **Ancestor closure of `_handle_precise_ids`** (both loop variants, every pair of trees, every
filter): whenever a record is reported, *every* ancestor of its id in the target — not only the
parent — is reported too or is not a change at all (same entry in both trees); and when a reported
record says its id stopped being a directory (or is gone), every child the id has in the source is
reported or is not a change.  So the path from a reported entry to the root is, entry by entry, the
target's, and no unreported entry keeps a parent that is no directory any more. -/
theorem filter_ancestor_closed (fx : Bool) (impl : Impl) (src tgt : Tree) (filt : List Path) (reqv : Bool)
    (cs : List Change) (h : iterChangesG fx impl src tgt (some filt) false reqv = .ok cs) :
    (∀ c ∈ cs, ∀ a, AncestorOrSelf tgt c.id a → (∃ c' ∈ cs, c'.id = a) ∨ NotChange src tgt a) ∧
    (∀ c ∈ cs, stoppedDir c = true → ∀ ch ∈ childrenOf src c.id,
      (∃ c' ∈ cs, c'.id = ch) ∨ NotChange src tgt ch) := by
  cases filt with
  | nil =>
    simp [iterChangesG] at h
    subst h; simp
  | cons p f =>
    obtain ⟨K, _, h2, h3, h4, h5, _⟩ := filteredG_closed fx impl src tgt p f reqv cs h
    refine ⟨?_, h5⟩
    intro c hc a ha
    have : a ∈ K := by
      induction ha with
      | self => exact h2 c hc
      | up _ hp ih => exact h4 _ ih _ hp
    exact h3 a this

/-- the closure reaches beyond the parent: `c` is reported, its parent `b` is unchanged, its
grandparent `a` (renamed) is reported -/
example : AncestorOrSelf tTgt "c" "a" ∧ NotChange tSrc tTgt "b" ∧ ¬ NotChange tSrc tTgt "a" := by
  refine ⟨.up (a := "b") (.up (a := "c") .self (by decide +kernel)) (by decide +kernel), ?_, ?_⟩
  · intro r hr
    have : change tSrc tTgt "b" = some ⟨"b", some ["a", "b"], some ["z", "b"], false,
        some ⟨some "a", "b", .dir, false⟩, some ⟨some "a", "b", .dir, false⟩⟩ := by decide +kernel
    rw [this] at hr; cases hr; decide
  · intro hn
    have := hn ⟨"a", some ["a"], some ["z"], false, some ⟨some "r", "a", .dir, false⟩, some ⟨some "r", "z", .dir, false⟩⟩
      (by decide +kernel)
    exact absurd this (by decide)

/- Full statement of the filter clause of the property (FALSE for the unchanged code and for the
   loop with the termination fix, `displaced_entry_witness`):
   theorem filter_wf (hs : wf src = true) (ht : wf tgt = true)
       (h : iterChangesG fx impl src tgt (some filt) false reqv = .ok cs) :
       ∃ t', applyChanges src tgt cs = some t' ∧ wf t' = true
   What is missing: only the target paths of the *parents* the loop walks are checked for a
   displaced source entry, and by path, not by (parent id, name). -/
/-- **Applying a path-filtered result to the source yields a valid tree** (partial: under the
explicit hypothesis that no id takes, in the target, a (parent id, name) slot held by another id
in the source — the family of `displaced_entry_witness` — and that the root id is the same).  For
all well-formed pairs of trees of any size, every filter, both flavours, both loop variants: the
reported records can be applied, and the result has exactly one root, unique ids, every parent
present and a directory, unique sibling names, and every entry reaches the root. -/
theorem filter_wf_partial (fx : Bool) (impl : Impl) (src tgt : Tree) (filt : List Path) (reqv : Bool)
    (cs : List Change) (hs : wf src = true) (ht : wf tgt = true) (hr : sameRoot src tgt = true)
    (hn : noSlotOccupant src tgt = true)
    (h : iterChangesG fx impl src tgt (some filt) false reqv = .ok cs) :
    ∃ t', applyChanges src tgt cs = some t' ∧ wf t' = true := by
  cases filt with
  | nil =>
    simp [iterChangesG] at h
    subst h
    exact ⟨src, rfl, hs⟩
  | cons p f =>
    obtain ⟨K, h1, h2, h3, h4, h5, _⟩ := filteredG_closed fx impl src tgt p f reqv cs h
    exact wf_apply_of_closed src tgt cs K hs ht hr hn (fun c hc => (h1 c hc).2) h2 h3 h4 h5

/-- the conclusion of `filter_wf_partial` on the example pair: the two reported records are applied
and the result is well formed — and is not the target (`e` was not asked for) -/
example : (match iterChanges .generic tSrc tTgt (some [["z", "b", "c"]]) false false with
     | .ok cs => (applyChanges tSrc tTgt cs).map fun t => (wf t, get t "e" == get tTgt "e")
     | .error _ => none) = some (true, false) := by decide +kernel

/-- for the unchanged code (`fx = false`) the hypothesis of `filter_wf_partial` reads
`iterChanges … = .ok cs` -/
theorem filter_wf_partial_unfixed (impl : Impl) (src tgt : Tree) (filt : List Path) (reqv : Bool)
    (cs : List Change) (hs : wf src = true) (ht : wf tgt = true) (hr : sameRoot src tgt = true)
    (hn : noSlotOccupant src tgt = true)
    (h : iterChanges impl src tgt (some filt) false reqv = .ok cs) :
    ∃ t', applyChanges src tgt cs = some t' ∧ wf t' = true :=
  filter_wf_partial false impl src tgt filt reqv cs hs ht hr hn (by rw [iterChangesG_false]; exact h)

/-- **No id is reported twice**: without a filter (both settings of `include_unchanged`), and —
with the `examined_file_ids` fix — with any filter, for all trees with unique ids.  (The unchanged
loop reports displaced entries twice: `precise_duplicate_witness`.) -/
theorem no_duplicates (src tgt : Tree) (hs : (ids src).Nodup) (ht : (ids tgt).Nodup) :
    ((allRecords src tgt).map (·.id)).Nodup ∧ ((changesOf src tgt).map (·.id)).Nodup ∧
    (∀ (impl : Impl) (filt : List Path) (reqv : Bool) (cs : List Change),
      iterChangesG true impl src tgt (some filt) false reqv = .ok cs → (cs.map (·.id)).Nodup) := by
  have hall : (allIds src tgt).Nodup := by
    unfold allIds
    rw [List.nodup_append]
    refine ⟨ht, List.Pairwise.filter _ hs, ?_⟩
    intro a ha b hb hab
    subst hab
    rw [List.mem_filter] at hb
    simp at hb
    exact hb.2 ha
  have h1 : ((allRecords src tgt).map (·.id)).Nodup :=
    (filterMap_ids_nodup (fun i c hc => change_id hc) _ hall).1
  refine ⟨h1, ?_, ?_⟩
  · unfold changesOf
    exact List.Nodup.sublist (List.Sublist.map _ List.filter_sublist) h1
  · intro impl filt reqv cs h
    cases filt with
    | nil =>
      simp [iterChangesG] at h
      subst h; simp
    | cons p f =>
      obtain ⟨extra, he, hcs⟩ := filteredG_shape true impl src tgt p f reqv cs h
      rw [hcs]
      apply preciseLoopG_true_nodup src tgt _ _ _ _ extra _ _ _ he
      · simpa using base_ids_nodup hs ht (selectIds src tgt (p :: f)) false
      · intro c hc
        simp only [List.append_nil] at hc
        exact List.mem_map.mpr ⟨c, hc, rfl⟩
      · exact unionNew_nodup (by simp) _

example : (ids exSrc).Nodup ∧ (ids exTgt).Nodup ∧
    (iterChangesG true .generic exSrc exTgt (some [["d", "f"], ["q"]]) false false).toOption.map (fun cs => cs.map (·.id))
      = some ["o", "f", "p"] := by decide +kernel

/-- **Witness: the defects that the `examined_file_ids` fix does not touch are still there** in
the loop with the fix: the displaced entry that is not reported (`displaced_entry_witness`) and
`include_unchanged` widening the closure (`include_unchanged_widens_witness`);
`chk_unchanged_path_witness` does not involve the loop at all. -/
theorem fixed_loop_keeps_other_defects_witness :
    (match iterChangesG true .generic dSrc dTgt (some [["x"]]) false false with
     | .ok cs => (cs.map (·.id), (applyChanges dSrc dTgt cs).map wf)
     | .error _ => ([], none)) = (["f"], some false) ∧
    noSlotOccupant dSrc dTgt = false ∧
    ((iterChangesG true .generic cSrc cTgt (some [["d", "b"]]) false false).toOption.map fun cs => cs.map (·.id)) = some [] ∧
    ((iterChangesG true .generic cSrc cTgt (some [["d", "b"]]) true false).toOption.map
        fun cs => (cs.filter (·.isChanged)).map (·.id)) = some ["a"] := by decide +kernel

end BreezyVerif.C10
