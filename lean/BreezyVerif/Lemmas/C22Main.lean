import BreezyVerif.Lemmas.C22Branch
/-!
C22 — the mainline of `mergeSort`: the left-hand history of the tip is numbered
(1), (2), … and nothing else gets a one-component revno.
-/
namespace BreezyVerif.C22

/-! ### more about one numbering step -/

theorem numberOne_revnos {g : Graph} {st st' : Num} {n : Nat} {fc : Bool} {r : List Nat}
    (hone : numberOne g st n fc = some (st', r)) : st'.revnos = st.revnos := by
  unfold numberOne at hone
  split at hone
  · cases hone
  · split at hone
    · split at hone
      · cases hone
      · split at hone
        · split at hone
          · cases hone
          · cases hone; rfl
        · split at hone
          · cases hone
          · cases hone; rfl
    · split at hone
      · cases hone; rfl
      · cases hone; rfl

/-- a first child gets its left parent's revno with the last number increased -/
theorem numberOne_fc_rule {g : Graph} {st st' : Num} {n P k : Nat} {r pr : List Nat}
    (hone : numberOne g st n true = some (st', r)) (hP : lpOf g n = some P)
    (hlook : lookup st.revnos P = some pr) (hk : pr.getLast? = some k) : r = pr.dropLast ++ [k + 1] := by
  unfold numberOne at hone
  unfold lpOf at hP
  split at hone
  · cases hone
  · rename_i ps hps
    rw [hps] at hP
    simp only [hP, hlook, hk, if_true] at hone
    cases hone
    rfl

/-- the very first node numbered, a root, gets (1) -/
theorem numberOne_first_root {g : Graph} {st' : Num} {n : Nat} {fc : Bool} {r : List Nat}
    (hone : numberOne g ⟨[], []⟩ n fc = some (st', r)) (hP : lpOf g n = none) : r = [1] := by
  unfold numberOne at hone
  unfold lpOf at hP
  split at hone
  · cases hone
  · rename_i ps hps
    rw [hps] at hP
    simp only [hP] at hone
    simp only [lookup, List.find?_nil, Option.map_none] at hone
    cases hone
    rfl

/-- the state reached after numbering a whole list -/
theorem numberAll_final (g : Graph) : ∀ (rest pre : List Entry) (st : Num) (out : List (Nat × Nat × List Nat)),
    NumInv g pre st → ((pre ++ rest).map (·.1)).Nodup →
    (∀ e1 ∈ pre ++ rest, ∀ e2 ∈ pre ++ rest,
      e1.2.2 = true → e2.2.2 = true → ∀ P, lpOf g e1.1 = some P → lpOf g e2.1 = some P → e1.1 = e2.1) →
    (∀ a b, rest = a ++ b → ∀ e, b.head? = some e →
      e.1 < g.length ∧ ∀ P, lpOf g e.1 = some P → P ∈ (pre ++ a).map (·.1)) →
    numberAll g st rest = some out →
    ∃ stF, NumInv g (pre ++ rest) stF ∧
      stF.revnos = (out.map fun e => (e.1, e.2.2)).reverse ++ st.revnos ∧
      (∀ e ∈ rest, e.2.2 = true → ∀ P pr k, lpOf g e.1 = some P → (P, pr) ∈ stF.revnos →
        pr.getLast? = some k → (e.1, pr.dropLast ++ [k + 1]) ∈ stF.revnos) := by
  intro rest
  induction rest with
  | nil =>
    intro pre st out hinv _ _ _ hall
    simp only [numberAll, Option.some.injEq] at hall
    subst hall
    exact ⟨st, by simpa using hinv, by simp, fun e he => by cases he⟩
  | cons e rest ih =>
    intro pre st out hinv hnodup hfcu hpf hall
    obtain ⟨n, d, fc⟩ := e
    have h0 := hpf [] ((n, d, fc) :: rest) rfl (n, d, fc) rfl
    simp only [List.append_nil] at h0
    obtain ⟨st', r, hone, hinv', _⟩ := numberOne_step g pre st n d fc rest hinv hnodup hfcu h0.1 h0.2
    have hrev := numberOne_revnos hone
    simp only [numberAll, hone] at hall
    cases hrest : numberAll g { st' with revnos := (n, r) :: st'.revnos } rest with
    | none => simp [hrest] at hall
    | some out' =>
      simp only [hrest, Option.some.injEq] at hall
      subst hall
      have happ : pre ++ (n, d, fc) :: rest = (pre ++ [(n, d, fc)]) ++ rest := by simp
      obtain ⟨stF, hF, hFrev, hFfc⟩ := ih (pre ++ [(n, d, fc)]) { st' with revnos := (n, r) :: st'.revnos } out'
        hinv' (by rw [← happ]; exact hnodup) (by rw [← happ]; exact hfcu)
        (by
          intro a b hab e he
          have := hpf ((n, d, fc) :: a) b (by rw [hab]; rfl) e he
          simpa using this)
        hrest
      have hFrev' : stF.revnos = (((n, d, r) :: out').map fun e => (e.1, e.2.2)).reverse ++ st.revnos := by
        rw [hFrev]
        simp [hrev]
      refine ⟨stF, by rw [happ]; exact hF, hFrev', ?_⟩
      intro e he hf P pr k hP hPm hk
      rcases List.mem_cons.mp he with rfl | he
      · -- the entry numbered in this step
        simp only at hf hP
        subst hf
        have hPpre := h0.2 P hP
        have hkeys_nodup_F : (stF.revnos.map (·.1)).Nodup := by
          rw [hF.keys]
          refine (List.reverse_perm _).nodup_iff.mpr ?_
          rw [← happ]; exact hnodup
        have hP_key : P ∈ st.revnos.map (·.1) := by rw [hinv.keys]; exact List.mem_reverse.mpr hPpre
        obtain ⟨⟨P', pr0⟩, hpr0, hP'⟩ := List.mem_map.mp hP_key
        simp only at hP'; subst hP'
        have hpre_nodup : (pre.map (·.1)).Nodup := by
          rw [List.map_append] at hnodup
          exact (List.nodup_append.mp hnodup).1
        have hkeys_nodup : (st.revnos.map (·.1)).Nodup := by
          rw [hinv.keys]; exact (List.reverse_perm _).nodup_iff.mpr hpre_nodup
        have hlook0 : lookup st.revnos P' = some pr0 := lookup_of_mem _ _ _ hkeys_nodup hpr0
        have hpr0F : (P', pr0) ∈ stF.revnos := by
          rw [hFrev']; exact List.mem_append_right _ hpr0
        have heq : pr = pr0 := by
          have h1 := lookup_of_mem _ _ _ hkeys_nodup_F hPm
          have h2 := lookup_of_mem _ _ _ hkeys_nodup_F hpr0F
          rw [h1] at h2; exact Option.some.inj h2
        subst heq
        have := numberOne_fc_rule hone hP hlook0 hk
        subst this
        rw [hFrev']
        apply List.mem_append_left
        simp
      · exact hFfc e he hf P pr k hP hPm hk

theorem getLast?_cons_of_ne_nil {α : Type} (a : α) : ∀ {l : List α}, l ≠ [] → (a :: l).getLast? = l.getLast?
  | [], h => absurd rfl h
  | _ :: _, _ => rfl

theorem getLast?_append_of_ne_nil {α : Type} : ∀ (A : List α) {B : List α}, B ≠ [] →
    (A ++ B).getLast? = B.getLast?
  | [], _, _ => rfl
  | a :: A, B, h => by
    rw [List.cons_append, getLast?_cons_of_ne_nil a (by simp [h] : A ++ B ≠ [])]
    exact getLast?_append_of_ne_nil A h

/-! ### the walk along the left-hand chain -/

/-- no left-most ghost on the chain: a chain node without a present left parent has no parents at all -/
def ChainClean (g : Graph) (chain : List Nat) : Prop := ∀ x ∈ chain, lpOf g x = none → parentsD g x = []

theorem lefthand_head_eq (g : Graph) (fuel n : Nat) (hn : n < g.length) :
    ∃ t, lefthand g (fuel + 1) n = n :: t := by
  rw [lefthand_succ, List.getElem?_eq_getElem hn]
  exact ⟨_, rfl⟩

/-- the left-hand chain is walked first: all its nodes carry the first-child flag and its end is
the first node completed -/
theorem visit_chain (g : Graph) (hw : WF g) : ∀ (fuel n d : Nat) (st : Dfs),
    n < fuel → n < g.length → Inv g st → st.done = [] → ChainClean g (lefthand g fuel n) →
    (∀ x ∈ (lefthand g fuel n).tail, x ∉ st.seen) →
    ∃ st', visit g fuel n d st = some st' ∧ (∀ x ∈ lefthand g fuel n, ∃ dd, (x, dd, true) ∈ st'.done) ∧
      (st'.done.getLast?.map (·.1) = (lefthand g fuel n).getLast?) := by
  intro fuel
  induction fuel with
  | zero => intro n d st h; omega
  | succ fuel ih =>
    intro n d st hnf hnl hinv hdone hclean hseen
    have hg : g[n]? = some g[n] := List.getElem?_eq_getElem hnl
    have hchain : lefthand g (fuel + 1) n = n :: (match leftParent g g[n] with
        | some l => lefthand g fuel l
        | none => []) := by
      rw [lefthand_succ, hg]
      rfl
    have hlp : lpOf g n = leftParent g g[n] := by unfold lpOf; rw [hg]
    have IHv : ∀ dd, ∀ n st, n < fuel → n < g.length → Inv g st → n ∉ doneSet st → VisitOk g fuel n dd st :=
      fun dd n st h1 h2 h3 h4 => visit_spec g hw fuel n dd st h1 h2 h3 h4
    have hlt : ∀ p ∈ g[n], p < g.length → p < fuel := by
      intro p hp hpl
      rcases hw n _ hg p hp with h | h <;> omega
    unfold visit
    simp only [hg]
    cases hl : leftParent g g[n] with
    | none =>
      simp only []
      rw [hl] at hchain
      have hps : g[n] = [] := by
        have := hclean n (by rw [hchain]; exact List.mem_cons_self ..) (by rw [hlp, hl])
        rw [parentsD_of_get hg] at this; exact this
      have hmp : mergeParents g g[n] = [] := by rw [hps]; rfl
      rw [hmp]
      simp only [List.foldl_nil, Option.map_some]
      refine ⟨_, rfl, ?_, ?_⟩
      · intro x hx
        rw [hchain] at hx
        simp only [List.mem_singleton] at hx
        subst hx
        exact ⟨d, by simp [hdone]⟩
      · simp [hdone, hchain]
    | some l =>
      simp only []
      rw [hl] at hchain
      have hlm := leftParent_mem hl
      have hlf : l < fuel := hlt l hlm.1 hlm.2
      have hnotdone : ({ done := st.done, seen := l :: st.seen } : Dfs).isDone l = false := by
        simp [Dfs.isDone, hdone]
      have hinv1 : Inv g { done := st.done, seen := l :: st.seen } :=
        ⟨hinv.nodup, hinv.pf, fun e he P hP => List.mem_cons_of_mem _ (hinv.claimed e he P hP), hinv.fcu⟩
      have htail_l : ∀ x ∈ (lefthand g fuel l).tail, x ∉ l :: st.seen := by
        intro x hx hmem
        rcases List.mem_cons.mp hmem with hxl | hxs
        · -- the chain is strictly decreasing
          have hpw := lefthand_pairwise hw fuel l
          cases fuel with
          | zero => simp [lefthand] at hx
          | succ f =>
            obtain ⟨t, ht⟩ := lefthand_head_eq g f l hlm.2
            rw [ht] at hx hpw
            simp only [List.tail_cons] at hx
            have := (List.pairwise_cons.mp hpw).1 x hx
            omega
        · apply hseen x _ hxs
          rw [hchain]
          simp only [List.tail_cons]
          exact List.mem_of_mem_tail hx
      obtain ⟨s2, hv2, hflags2, hlast2⟩ := ih l d { done := st.done, seen := l :: st.seen } hlf hlm.2 hinv1 hdone
        (fun x hx => hclean x (by rw [hchain]; exact List.mem_cons_of_mem _ hx)) htail_l
      obtain ⟨s2', hv2', hi2, he2, fc2, rest2, hh2⟩ := visit_spec g hw fuel l d _ hlf hlm.2 hinv1
        (by simp [doneSet, hdone])
      rw [hv2] at hv2'; cases hv2'
      simp only [hnotdone, Bool.false_eq_true, if_false, hv2]
      have hmp : ∀ p ∈ mergeParents g g[n], p < fuel ∧ p < g.length := by
        intro p hp
        have := mergeParents_mem hp
        exact ⟨hlt p this.1 this.2, this.2⟩
      obtain ⟨s, hf, hi, he, hm⟩ := fold_spec g fuel (d + 1) (IHv (d + 1)) (mergeParents g g[n]) s2 hmp hi2
      have hf' : (mergeParents g g[n]).foldl
          (fun acc p => acc.bind fun s => if s.isDone p then some s else visit g fuel p (d + 1) s) (some s2)
          = some s := hf
      rw [hf']
      simp only [Option.map_some]
      obtain ⟨new, hnew, _, _⟩ := he
      have hlseen : st.seen.contains l = false := by
        have : l ∉ st.seen := hseen l (by
          rw [hchain]; simp only [List.tail_cons]
          cases fuel with
          | zero => omega
          | succ f =>
            obtain ⟨t, ht⟩ := lefthand_head_eq g f l hlm.2
            rw [ht]; exact List.mem_cons_self ..)
        cases hc : st.seen.contains l
        · rfl
        · exact absurd (List.contains_iff_mem.mp hc) this
      refine ⟨_, rfl, ?_, ?_⟩
      · intro x hx
        rw [hchain] at hx
        rcases List.mem_cons.mp hx with rfl | hx
        · refine ⟨d, ?_⟩
          have hl' : l ∉ st.seen := fun h => by
            have := List.contains_iff_mem.mpr h
            rw [hlseen] at this; cases this
          simp [hl']
        · obtain ⟨dd, hdd⟩ := hflags2 x hx
          exact ⟨dd, by
            show (x, dd, true) ∈ (n, d, !st.seen.contains l) :: s.done
            rw [hnew]
            exact List.mem_cons_of_mem _ (List.mem_append_right _ hdd)⟩
      · show ((n, d, !st.seen.contains l) :: s.done).getLast?.map (·.1) = _
        have hne : (lefthand g fuel l) ≠ [] := by
          cases fuel with
          | zero => omega
          | succ f =>
            obtain ⟨t, ht⟩ := lefthand_head_eq g f l hlm.2
            rw [ht]; exact List.cons_ne_nil _ _
        rw [hchain, getLast?_cons_of_ne_nil n hne, hnew, ← hlast2,
          getLast?_cons_of_ne_nil _ (by rw [hh2]; simp : new ++ s2.done ≠ []),
          getLast?_append_of_ne_nil new (by rw [hh2]; exact List.cons_ne_nil _ _ : s2.done ≠ [])]

/-- the oldest node of the left-hand chain has no present left parent -/
theorem lefthand_last_root {g : Graph} (hw : WF g) : ∀ (fuel n c : Nat), n < fuel → n < g.length →
    (lefthand g fuel n).getLast? = some c → lpOf g c = none := by
  intro fuel
  induction fuel with
  | zero => intro n c h; omega
  | succ fuel ih =>
    intro n c hnf hnl hlast
    have hg : g[n]? = some g[n] := List.getElem?_eq_getElem hnl
    rw [lefthand_succ, hg] at hlast
    simp only at hlast
    cases hl : leftParent g g[n] with
    | none =>
      rw [hl] at hlast
      simp only [List.getLast?_singleton, Option.some.injEq] at hlast
      subst hlast
      unfold lpOf; rw [hg]; exact hl
    | some l =>
      rw [hl] at hlast
      have hlm := leftParent_mem hl
      have hlf : l < fuel := by rcases hw n _ hg l hlm.1 with h | h <;> omega
      have hne : lefthand g fuel l ≠ [] := by
        cases fuel with
        | zero => omega
        | succ f =>
          obtain ⟨t, ht⟩ := lefthand_head_eq g f l hlm.2
          rw [ht]; exact List.cons_ne_nil _ _
      rw [getLast?_cons_of_ne_nil n hne] at hlast
      exact ih l c hlf hlm.2 hlast

/-- **the mainline of `mergeSort`**: the i-th revision of the left-hand chain (oldest first) is
numbered (i+1), and every one-component revno belongs to the chain -/
theorem mainline_spec (g : Graph) (hw : WF g) (tip : Nat) (htip : tip < g.length)
    (hclean : ChainClean g (lefthand g (tip + 1) tip)) :
    ∃ ms, mergeSort g tip = some ms ∧
      (∀ i x, (lefthand g (tip + 1) tip).reverse[i]? = some x → (x, [i + 1]) ∈ ms.map fun e => (e.rev, e.revno)) ∧
      (∀ k x, (x, [k]) ∈ (ms.map fun e => (e.rev, e.revno)) →
        1 ≤ k ∧ (lefthand g (tip + 1) tip).reverse[k - 1]? = some x) := by
  obtain ⟨st, out, hv, hinv, hcov, hhead, hall, hmap, hnodup, hms⟩ := mergeSort_spec g hw tip htip
  obtain ⟨st2, hv2, hflags, hlast⟩ := visit_chain g hw (tip + 1) tip 0 ⟨[], []⟩ (Nat.lt_succ_self _) htip
    (inv_empty g) rfl hclean (fun _ _ h => by cases h)
  rw [hv] at hv2; cases hv2
  -- the final numbering state
  have hnd : ((([] : List Entry) ++ st.done.reverse).map (·.1)).Nodup := by
    simp only [List.nil_append, List.map_reverse]
    exact (List.reverse_perm _).nodup_iff.mpr hinv.nodup
  have hfcu : ∀ e1 ∈ ([] : List Entry) ++ st.done.reverse, ∀ e2 ∈ ([] : List Entry) ++ st.done.reverse,
      e1.2.2 = true → e2.2.2 = true → ∀ P, lpOf g e1.1 = some P → lpOf g e2.1 = some P → e1.1 = e2.1 := by
    intro e1 h1 e2 h2
    simp only [List.nil_append, List.mem_reverse] at h1 h2
    exact hinv.fcu e1 h1 e2 h2
  have hpf : ∀ a b, st.done.reverse = a ++ b → ∀ e, b.head? = some e →
      e.1 < g.length ∧ ∀ P, lpOf g e.1 = some P → P ∈ (([] : List Entry) ++ a).map (·.1) := by
    intro a b hab e he
    cases b with
    | nil => cases he
    | cons e' b' =>
      simp only [List.head?_cons, Option.some.injEq] at he
      subst he
      have hd : st.done = b'.reverse ++ e' :: a.reverse := by
        have := congrArg List.reverse hab
        simpa using this
      have hpf := hinv.pf
      rw [hd] at hpf
      have := PF.suffix _ hpf
      have hlt : e'.1 < g.length := this.1.1
      refine ⟨hlt, ?_⟩
      intro P hP
      unfold lpOf at hP
      have hg : g[e'.1]? = some g[e'.1] := List.getElem?_eq_getElem hlt
      rw [hg] at hP
      have hm := leftParent_mem hP
      have := this.1.2 P (by rw [parentsD_of_get hg]; exact hm.1) hm.2
      simpa using this
  obtain ⟨stF, hF, hFrev, hFfc⟩ := numberAll_final g st.done.reverse [] ⟨[], []⟩ out (numInv_empty g) hnd hfcu hpf hall
  simp only [List.nil_append, List.append_nil] at hF hFrev
  -- the map is the final state's association list
  have hm : (eomFlags g out.reverse).map (fun e => (e.rev, e.revno)) = stF.revnos := by
    rw [hFrev]
    have := congrArg (List.map fun e : Nat × Nat × List Nat => (e.1, e.2.2)) (eomFlags_map g out.reverse)
    simp only [List.map_map, Function.comp_def, List.map_reverse] at this
    exact this
  refine ⟨_, hms, ?_, ?_⟩ <;> rw [hm]
  all_goals
    -- abbreviations
    have hlhne : lefthand g (tip + 1) tip ≠ [] := by
      obtain ⟨t, ht⟩ := lefthand_head_eq g tip tip htip
      rw [ht]; exact List.cons_ne_nil _ _
    have hkeysF : (stF.revnos.map (·.1)).Nodup := by
      rw [hF.keys]; exact (List.reverse_perm _).nodup_iff.mpr (by simpa using hnd)
    -- the root of the chain is numbered (1)
    have hroot : ∃ c, (lefthand g (tip + 1) tip).getLast? = some c ∧ (c, [1]) ∈ stF.revnos := by
      cases hgl : (lefthand g (tip + 1) tip).getLast? with
      | none => exact absurd (List.getLast?_eq_none_iff.mp hgl) hlhne
      | some c =>
        refine ⟨c, rfl, ?_⟩
        rw [hgl] at hlast
        -- the first entry of the chronological list
        cases hdl : st.done.getLast? with
        | none => rw [hdl] at hlast; cases hlast
        | some e0 =>
          rw [hdl] at hlast
          simp only [Option.map_some, Option.some.injEq] at hlast
          obtain ⟨ys, hys⟩ := List.getLast?_eq_some_iff.mp hdl
          have hrev : st.done.reverse = e0 :: ys.reverse := by rw [hys]; simp
          rw [hrev] at hall
          obtain ⟨n0, d0, f0⟩ := e0
          simp only at hlast
          subst hlast
          simp only [numberAll] at hall
          cases h1 : numberOne g ⟨[], []⟩ n0 f0 with
          | none => simp [h1] at hall
          | some p =>
            obtain ⟨st1, r1⟩ := p
            simp only [h1] at hall
            cases h2 : numberAll g { st1 with revnos := (n0, r1) :: st1.revnos } ys.reverse with
            | none => simp [h2] at hall
            | some out' =>
              simp only [h2, Option.some.injEq] at hall
              have hr1 := numberOne_first_root h1 (lefthand_last_root hw (tip + 1) tip n0 (Nat.lt_succ_self _) htip hgl)
              subst hr1
              rw [hFrev, ← hall]
              simp

  · -- forward: the chain is numbered 1, 2, …
    obtain ⟨c, hc, hc1⟩ := hroot
    intro i
    induction i with
    | zero =>
      intro x hx
      have : (lefthand g (tip + 1) tip).reverse[0]? = (lefthand g (tip + 1) tip).getLast? := by
        rw [← List.head?_eq_getElem?, List.head?_reverse]
      rw [this, hc] at hx
      cases hx
      exact hc1
    | succ i ih =>
      intro y hy
      have hlen : i + 1 < (lefthand g (tip + 1) tip).length := by
        have := (List.getElem?_eq_some_iff.mp hy).1
        simpa using this
      have hxi : ∃ x, (lefthand g (tip + 1) tip).reverse[i]? = some x :=
        ⟨_, List.getElem?_eq_getElem (by simp; omega)⟩
      obtain ⟨x, hx⟩ := hxi
      have hxm := ih x hx
      -- positions in the newest-first list
      rw [List.getElem?_reverse (by omega)] at hx hy
      have hj : (lefthand g (tip + 1) tip).length - 1 - i = ((lefthand g (tip + 1) tip).length - 1 - (i + 1)) + 1 := by
        omega
      rw [hj] at hx
      have hlp := lefthand_next g _ _ _ y x hy hx
      have hymem : y ∈ lefthand g (tip + 1) tip := List.mem_of_getElem? hy
      obtain ⟨dd, hdd⟩ := hflags y hymem
      have := hFfc (y, dd, true) (List.mem_reverse.mpr hdd) rfl x [i + 1] (i + 1) hlp hxm (by simp)
      simpa using this
  · -- converse: a one-component revno belongs to the chain
    obtain ⟨c, hc, hc1⟩ := hroot
    have hc0 : (lefthand g (tip + 1) tip).reverse[0]? = some c := by
      rw [← List.head?_eq_getElem?, List.head?_reverse]; exact hc
    intro k
    induction k using Nat.strongRecOn with
    | _ k ih =>
      intro x hxk
      have hshape := hF.shape x [k] hxk
      have hk1 : 1 ≤ k := by
        rcases hshape with ⟨k', hr, hk'⟩ | ⟨b, c', k', hr, _⟩
        · simp only [List.cons.injEq, and_true] at hr; omega
        · simp at hr
      refine ⟨hk1, ?_⟩
      rcases Nat.lt_or_ge k 2 with hk2 | hk2
      · have : k = 1 := by omega
        subst this
        have := hF.inj x [1] c hxk hc1
        subst this
        exact hc0
      · -- k ≥ 2: x is the first child of the node numbered (k - 1)
        obtain ⟨e, he, hex, hef, P, pr, j, hP, hPm, hj, hr⟩ := hF.prov x [k] k hxk (by simp) hk2
        obtain ⟨ys, hys⟩ := List.getLast?_eq_some_iff.mp hj
        subst hys
        have hr' := congrArg List.reverse hr
        simp only [List.dropLast_concat, List.reverse_append, List.reverse_cons, List.reverse_nil,
          List.nil_append, List.singleton_append, List.cons.injEq] at hr'
        have hys : ys = [] := by
          have := hr'.2; simpa using this.symm
        subst hys
        have hjk : j = k - 1 := by omega
        subst hjk
        simp only [List.nil_append] at hPm
        obtain ⟨_, hPch⟩ := ih (k - 1) (by omega) P hPm
        have hkk : k - 1 - 1 + 1 = k - 1 := by omega
        cases hy : (lefthand g (tip + 1) tip).reverse[k - 1]? with
        | some y =>
          -- y is the chain's first child of P as well
          have hlen : k - 1 < (lefthand g (tip + 1) tip).length := by
            have := (List.getElem?_eq_some_iff.mp hy).1
            simpa using this
          have hy' := hy
          rw [List.getElem?_reverse (by omega)] at hy' hPch
          have hj : (lefthand g (tip + 1) tip).length - 1 - (k - 1 - 1)
              = ((lefthand g (tip + 1) tip).length - 1 - (k - 1)) + 1 := by omega
          rw [hj] at hPch
          have hlpy := lefthand_next g _ _ _ y P hy' hPch
          have hymem : y ∈ lefthand g (tip + 1) tip := List.mem_of_getElem? hy'
          obtain ⟨dd, hdd⟩ := hflags y hymem
          have he' : e ∈ st.done := List.mem_reverse.mp he
          have := hinv.fcu e he' (y, dd, true) hdd hef rfl P (by rw [hex]; exact hP) hlpy
          simp only at this
          rw [hex] at this
          rw [this]
        | none =>
          -- P is the tip: x would be a child of the tip inside the tip's ancestry
          exfalso
          have hlenle : (lefthand g (tip + 1) tip).length ≤ k - 1 := by
            have := List.getElem?_eq_none_iff.mp hy
            simpa using this
          have hPlt : k - 1 - 1 < (lefthand g (tip + 1) tip).length := by
            have := (List.getElem?_eq_some_iff.mp hPch).1
            simpa using this
          have hlast : k - 1 - 1 = (lefthand g (tip + 1) tip).length - 1 := by omega
          rw [List.getElem?_reverse (by omega), hlast] at hPch
          have : (lefthand g (tip + 1) tip).length - 1 - ((lefthand g (tip + 1) tip).length - 1) = 0 := by omega
          rw [this] at hPch
          obtain ⟨t, ht⟩ := lefthand_head_eq g tip tip htip
          rw [ht] at hPch
          simp only [List.getElem?_cons_zero, Option.some.injEq] at hPch
          subst hPch
          -- x is reachable from the tip, hence ≤ tip; but the tip is its (smaller) parent
          have hxin : x ∈ doneSet st := by
            unfold doneSet
            exact List.mem_map.mpr ⟨e, List.mem_reverse.mp he, hex⟩
          have hxle := Reach.le hw ((hcov x).mp hxin)
          have hxl : x < g.length := ((hcov x).mp hxin).present
          unfold lpOf at hP
          have hgx : g[x]? = some g[x] := List.getElem?_eq_getElem hxl
          rw [hgx] at hP
          have hm := leftParent_mem hP
          rcases hw x _ hgx tip hm.1 with h | h <;> omega

end BreezyVerif.C22
