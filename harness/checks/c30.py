"""C30 — a smart server never waits for bytes beyond the current request
(breezy/bzr/smart/protocol.py next_read_size of every decoder, medium.py _get_line,
SmartServerPipeStreamMedium._build_protocol / _serve_one_request_unguarded, SmartMedium.read_bytes,
message.py ConventionalResponseHandler._read_more, client read_line / read_response_tuple /
read_body_bytes / read_streamed_body).

Lean side (Props/C30.lean; decoders shared with C29; loops, `_get_line`, dispatch, guards, cap and
the machine combinators in Model/C30.lean; five decoder laws -> generic theorems in Lemmas/C30*.lean).
Proved for ALL messages, read patterns and short-read schedules (unbounded):
 (a) `*_hint_bound`: for every resting state and EVERY continuation q that completes the message,
     1 <= hint and hint + |unused afterwards| <= |q| (encoder independent);
 (b) `*_no_overread`: while a well-formed message arrives in arbitrary reads the hint is between 1 and the
     number of message bytes not yet delivered and the exit test is false;
 (c) `*_done/zero_exactly_at_end`: the exit test holds once the message is complete;
 (d) `*_loop_consumes_exactly`: the reading loop never blocks, terminates, has consumed exactly the message;
 (e) `*_truncated_eof`: if the peer closes the pipe inside a message the loop reads what was sent, gets
     EOF, and never reports completion;
for the body decoders (lp, ck), ProtocolThreeDecoder as the server uses it (v3s: gives up —
hint 0 — on a header / structure fastbencode rejects) and as the client uses it (v3c: additionally the
response handler raising ends the loop), the protocol 1/2 server decoder (req), and for WHOLE messages:
`serve_*` = `_get_line` + `_get_protocol_factory_for_bytes` + first accept_bytes + loop, from the first
byte of a request of any version (`WellFormedRequest`), also with the 64 KiB cap (every cap >= 1);
`client1_* / client2_*` = the response lines read by `read_line` followed by the body reader.
`v3s_undecodable_stops_early` / `v3c_rejected_stops_early` show the stated conditions are necessary:
the model, like the code, stops inside such a message and leaves the rest on the pipe.

T2: the REAL loops are run over an in-memory pipe that returns `max(1, min(SCHED[i], n))` bytes for
`read(n)` and b"" after the peer closed, and the sequence of requested sizes plus the outcome (finished
with which bytes left unread / EOF) is compared with the model's `pipeLoop` / `pipeLoopEof` under the same
schedule and cap (driver op `pipex`): server medium from the first byte of each request (`serve`), client
`lp`, `ck`, `v3c`, `c1n c1b c2n c2b c2s`.  Raw decoders are additionally traced read by read against the
model (state, next_read_size, ...), including malformed input.  The bencode acceptance model (`benc`) is
compared with fastbencode.bdecode_as_tuple on all short token strings and on mutated generated values.

Oracle (no model): every `read(n)` issued by the real code has `n <=` bytes left in the current message
(otherwise a pipe read blocks forever) — also in truncated and back-to-back runs; for in-scope messages the
loop stops exactly at the end of the message (a sentinel / the next request behind it is not touched,
nothing is pushed back), reports completion, and the verb saw exactly the request sent; after a hang-up the
server medium is `finished` / the client raises ConnectionResetError exactly at the cut; along raw decoder
traces `1 <= next_read_size() <= remaining` until the end.

Mutants this check was built against (each caught with a concrete input; H stayed clean):
  M1 LengthPrefixed.next_read_size: `bytes_left + 5` -> `+ 6`
  M2 LengthPrefixed.next_read_size: expecting_length `6` -> `7` (needs a short read after the
     first digit of an empty body)
  M3 Chunked.next_read_size: `bytes_left + 4` -> `+ 5`
  M4 Chunked.next_read_size: expecting_length with empty buffer `2` -> `5`
  M5 ProtocolThreeDecoder: `_NeedMoreBytes(end_of_bytes)` -> `end_of_bytes + 2`
  M6 ProtocolThreeDecoder.__init__: initial `len(MESSAGE_VERSION_THREE) + 4` -> `+ 8`
  M7 pipe medium: `bytes_to_read = max(protocol.next_read_size(), 16)` unless 0
  M8 SmartServerRequestProtocolOne.next_read_size: `return 1` -> `return 2`
  M9 ConventionalResponseHandler._read_more: read_bytes(max(next_read_size, 64))
  M10 ProtocolThreeDecoder `_NeedMoreBytes(end_of_bytes)` -> `end_of_bytes + 1`: never blocks
     (an `e` always follows) — caught by T2 only (tie broken, no failing input exists)
  H  next_read_size branches reordered / `5 - len(trailer)` written as `len(b"done\\n") - ...`.
Improvement round (whole messages, EOF, guards, cap) — each caught by the oracle with a concrete input:
  N1 medium._get_line: `read_bytes_func(1)` -> `(2)` (first caught on a v1 request whose line has odd length)
  N3 ProtocolThreeDecoder.next_read_size ignores `decoding_failed` (needs an undecodable structure)
  N4 pipe medium: the `bytes == b""` (EOF) branch removed -> spins on a closed pipe (needs a truncated request)
  N5 client read_body_bytes: EOF check removed -> spins (needs a truncated response)
  N6 _build_protocol: `protocol.accept_bytes(unused_bytes)` dropped (protocol 1 loses its argument line)
  N13 client v2 read_response_tuple reads one more line after a `failed` status
  N14 SmartMedium.read_bytes: `min(desired_count, _MAX_READ_SIZE)` -> `max(desired_count, 2)`
  N15 _read_more asks for one byte more once a stream-error status (`oE`) has been seen (needs a real
      responder message with a failed body stream)
  N18 ProtocolThreeDecoder.accept_bytes: the restart `self.accept_bytes(b"")` after a message-handler error
      dropped (needs a part sequence the request handler rejects)
  H1 `_get_line` loop condition rewritten as `while b"\\n" not in bytes` — clean.
"""
import hashlib
import io

from vlib import env
from vlib.lean import hexb, unhex

from checks import c29

THEOREMS = [
    "lp_hint_bound", "lp_no_overread", "lp_done_exactly_at_end", "lp_loop_consumes_exactly", "lp_truncated_eof",
    "ck_hint_bound", "ck_no_overread", "ck_done_exactly_at_end", "ck_loop_consumes_exactly", "ck_truncated_eof",
    "v3_hint_bound",
    "v3s_hint_bound", "v3s_complete", "v3s_no_overread", "v3s_zero_exactly_at_end", "v3s_loop_consumes_exactly",
    "v3s_undecodable_stops_early",
    "v3c_complete", "v3c_no_overread", "v3c_zero_exactly_at_end", "v3c_loop_consumes_exactly", "v3c_truncated_eof",
    "v3c_rejected_stops_early",
    "req_hint_bound", "req_no_overread", "req_zero_exactly_at_end", "req_loop_consumes_exactly",
    "serve_no_overread", "serve_done_exactly_at_end", "serve_loop_consumes_exactly",
    "serve_capped_loop_consumes_exactly", "serve_truncated_eof",
    "client1_no_overread", "client1_loop_consumes_exactly", "client2_no_overread", "client2_loop_consumes_exactly",
    "client_truncated_eof",
]
RULE = ("whole messages of every protocol version read by the REAL loops over a pipe with a short-read schedule "
        "(1-byte, full, random patterns): requests through SmartServerPipeStreamMedium from their first byte "
        "(_get_line + dispatch + decoder) written by the real client encoders (call / body / readv / stream / "
        "aborted stream; v1, v2, v3), assembled by hand (delimiter-heavy bodies 0-5000 bytes, 0-3 body parts, part "
        "sequences the request handler rejects), with undecodable headers / structures, 2-3 requests of mixed versions "
        "back to back on one pipe, bodies above the 64 KiB read cap, and truncated at a random point followed by EOF; "
        "responses read by the real client (v1 / v2 response lines + bulk / chunked body, v3 via "
        "ConventionalResponseHandler; written by the real server encoders, by hand, and ones the handler rejects; "
        "truncated + EOF); read-by-read traces of the raw decoders; the bencode acceptance model on all strings of "
        "<= 4 tokens (<= 5 thorough) and on mutated generated values; a case is distinct by (kind, message(s), schedule / "
        "segmentation, truncation point); non-trivial = more than one read")
ASSUMPTIONS = list(c29.ASSUMPTIONS) + [
    "a pipe read(n) returns between 1 and n bytes while the peer still has bytes to send, blocks while it has none "
    "but keeps the pipe open, and returns b'' once it has closed it",
    "reads are capped at 64 KiB by the medium (modelled: capMachine, proved for every cap >= 1)",
    "bencode nesting stays far below Python's recursion limit",
]
TRUSTED = [
    "the OS pipe / ssh channel is an in-memory object with the short-read semantics above",
    "request dispatch is replaced by two test verbs registered in request.request_handlers",
    "fastbencode.bdecode_as_tuple (external) is specified by Model/C30.lean bencKind and compared on every run; the "
    "theorems are parametric in the acceptance predicates",
    "reads issued after the first EOF on a closed pipe are not compared (they return at once)",
]

SENTINEL = b"\xfe\xfdSENTINEL-NEXT-MESSAGE"
CAP = 65536          # medium._MAX_READ_SIZE
VERB_B = b"C29.b"    # test verb whose requests carry a body (serveMachine's `w`)


class SpinError(Exception):
    pass


class SchedPipe:
    """read(n) -> max(1, min(sched[i], n)) bytes of `data`, b"" once `data` is exhausted (the peer
    closed).  Records (n, bytes left in the current message) for every read issued before the
    first EOF; reads after an EOF return at once and are not part of the comparison."""

    def __init__(self, data, msg_len, sched):
        self.data = data
        self.msg_len = msg_len        # end of the current message (absolute position)
        self.sched = sched or [0]
        self.pos = 0
        self.i = 0
        self.requests = []
        self.eof = False
        self.after_eof = 0

    def read(self, n):
        if self.eof:
            self.after_eof += 1
            if self.after_eof > 64:
                raise SpinError("the loop keeps reading from a pipe the peer has closed (%d reads after EOF)" % self.after_eof)
            return b""
        self.requests.append((n, max(0, self.msg_len - self.pos)))
        if n is None or n <= 0:
            # read(-1)/read(0) on a pipe: until EOF / nothing — would block or spin
            return b""
        if self.pos >= len(self.data):
            self.eof = True
            return b""
        k = max(1, min(self.sched[self.i % len(self.sched)], n))
        self.i += 1
        r = self.data[self.pos:self.pos + k]
        self.pos += len(r)
        return r

    def close(self):
        pass


def gsched(rng):
    style = rng.choice(["one", "full", "rand", "rand", "pat"])
    if style == "one":
        return [1]
    if style == "full":
        return [1 << 20]
    if style == "pat":
        return [rng.choice([1, 2, 3, 5, 1 << 20]) for _ in range(rng.randint(1, 4))]
    return [rng.choice([1, 1, 2, 3, 4, 7, 16, 1 << 20]) for _ in range(rng.randint(2, 9))]


def oracle_reads(ctx, case, reqs, what):
    """the property itself, on the reads the real code issued: never more than remains of the message"""
    for idx, (n, left) in enumerate(reqs):
        if n is None or n <= 0:
            ctx.violation(case, "%s: read(%r) requested with %d bytes of the message left" % (what, n, left))
            return False
        if n > left:
            ctx.violation(case, "%s: read #%d asks for %d bytes but only %d remain in the current message — "
                          "a pipe read would block" % (what, idx, n, left))
            return False
    return True


def oracle_end(ctx, case, pipe, end, what):
    if pipe.pos != end:
        ctx.violation(case, "%s: loop ended at byte %d, the message ends at byte %d" % (what, pipe.pos, end))
        return False
    return True


def hints_str(reqs):
    return ",".join(str(n) for n, _ in reqs) or "-"


def sstr(sched):
    return ",".join(map(str, sched))


def gbody(ctx, rng):
    b = c29.gbody(ctx, rng)
    return b[:5000]


def mhex(msg):
    """messages go into the case record in full unless they are huge"""
    return hexb(msg) if len(msg) <= 20000 else "len=%d,sha1=%s" % (len(msg), hashlib.sha1(msg).hexdigest())


def cut_point(rng, n):
    """where the peer hangs up: strictly inside an n byte message"""
    return rng.choice([0, 1, n - 1, rng.randrange(n), rng.randrange(n)]) % n


# ---------------------------------------------------------------- the server's pipe medium, whole requests

def server_medium(pipe):
    from breezy.bzr.smart import medium
    return medium.SmartServerPipeStreamMedium(pipe, io.BytesIO(), c29.backing(), timeout=4.0)


def proto_done(proto):
    if hasattr(proto, "decoding_failed"):
        return c29.state_name(proto) == "reading_unused" and not proto.decoding_failed
    return bool(proto._finished)


def run_server(ctx, b, desc, msgs, sched, wellformed=True, trunc=None, expect=None):
    """`msgs` back to back on one pipe through the real SmartServerPipeStreamMedium
    (_build_protocol + _serve_one_request_unguarded per message).  `wellformed`: the property's
    scope (every read inside the message AND the loop ends exactly at its end); otherwise only
    the model comparison and the read bound apply.  `trunc`: the client hangs up after that many
    bytes of the (single) message.  `expect`: list of (args, body) the verbs must have seen."""
    total = b"".join(msgs)
    data = total[:trunc] if trunc is not None else total + SENTINEL
    pipe = SchedPipe(data, 0, sched)
    m = server_medium(pipe)
    case = dict(desc, kind="serve", msgs=[mhex(x) for x in msgs], sched=sched, wellformed=wellformed, trunc=trunc)
    del c29.LOG[:]
    end = 0
    ok = True
    for r, msg in enumerate(msgs):
        start, end = end, end + len(msg)
        pipe.msg_len = end
        off, nreq = pipe.i, len(pipe.requests)
        what = "SmartServerPipeStreamMedium (%s, message %d)" % (desc.get("shape", "?"), r)
        fin = False
        try:
            proto = m._build_protocol()
            m._serve_one_request_unguarded(proto)
            fin = proto_done(proto)
        except Exception as e:
            ctx.violation(case, "pipe medium raised %s: %s" % (type(e).__name__, str(e)[:200]))
            ok = False
        reqs = pipe.requests[nreq:]
        ok = oracle_reads(ctx, case, reqs, what) and ok
        if trunc is not None:
            if ok and not (m.finished and pipe.eof and pipe.pos == trunc):
                ctx.violation(case, "%s: client hung up after %d of %d bytes but the medium did not stop there "
                              "(finished=%r, consumed %d)" % (what, trunc, len(msg), m.finished, pipe.pos))
            out = "eof/F" if pipe.eof else "finished/%s/%s" % (hexb(data[pipe.pos:]), "T" if fin else "F")
            line = "pipex eof serve %s ~ %s %s %d %d" % (VERB_B.hex(), hexb(data), sstr(sched), off, CAP)
        else:
            if wellformed and ok:
                ok = oracle_end(ctx, case, pipe, end, what)
                if ok and m._push_back_buffer is not None:
                    ctx.violation(case, "%s: %d bytes pushed back after a complete request" % (what, len(m._push_back_buffer)))
                if ok and not fin:
                    ctx.violation(case, "%s: all bytes of the request consumed but the protocol does not report completion" % what)
            out = "finished/%s/%s" % (hexb(total[pipe.pos:end]) if pipe.pos <= end else "OVER", "T" if fin else "F")
            line = "pipex blk serve %s ~ %s %s %d %d" % (VERB_B.hex(), hexb(msg), sstr(sched), off, CAP)
        b.add(case, line, hints_str(reqs) + " " + out)
        if pipe.pos != end:
            break       # desynchronised (reported above when in scope): later messages mean nothing
    if ok and wellformed and trunc is None and expect is not None:
        ev = [(list(e[1]), e[2] if e[0] == "body" else None) for e in c29.LOG if e[0] in ("body", "nobody")]
        if ev != [(list(a), bd) for a, bd in expect]:
            ctx.violation(case, "pipe medium served %r for the requests %r" % (ev, expect))
    ctx.case(case, len(pipe.requests) > 1)
    ctx.count("serve:%s%s" % (desc.get("shape", "?"), ":eof" if trunc is not None else "" if wellformed else ":illformed"))
    ctx.count("reads:%d" % min(len(pipe.requests), 12))
    ctx.count("messages-on-pipe:%d" % len(msgs))


def v3_wire(hdr, parts):
    data = c29.be32(len(hdr)) + hdr
    for k, v in parts:
        data += b"o" + bytes([v]) if k == "o" else k.encode() + c29.be32(len(v)) + v
    return data + b"e"


BAD_BENC = [b"", b"x", b"l", b"le e", b"lee", b"d1:ae", b"i-0e", b"i03e", b"01:a", b"2:a", b"l1:a", b"d1:b0:1:a0:e",
            b"di1e0:e", b"ie", b"d1:a0:1:a0:e", b"1:ab", b"l5:hello"]
NOT_DICT = [b"le", b"i1e", b"3:abc", b"l1:ae"]
NOT_SEQ = [b"de", b"i1e", b"3:abc", b"d1:a0:e"]


def gen_request(ctx, rng, big=False):
    """one request message -> (desc, wire bytes, wellformed, (args, body) the verb must see or None)"""
    from fastbencode import bencode
    p = c29._proto()
    r = rng.random()
    if r < 0.45:
        # written by the real client encoders
        version = rng.choice([1, 2, 3])
        how = rng.choice(["call", "body", "body"] + (["stream", "stream-fail", "readv"] if version == 3 else ["readv"]))
        verb = b"C29.n" if how == "call" else VERB_B
        args = [verb] + c29.gargs(rng, version != 3)
        if how == "call":
            body, exp = None, (args[1:], None)
        elif how == "body":
            body = bytes(rng.getrandbits(8) for _ in range(rng.choice([65531, 65536, 70000]))) if big else gbody(ctx, rng)
            exp = (args[1:], body)
        elif how == "readv":
            body = [(rng.choice([0, 1, 9, 4096, 10 ** 9]), rng.choice([0, 1, 7, 65536])) for _ in range(rng.randint(0, 4))]
            exp = (args[1:], b"\n".join(b"%d,%d" % t for t in body))
        else:
            body = [c29.gbytes(rng, 0, 9) if rng.random() < 0.8 else gbody(ctx, rng) for _ in range(rng.randint(0, 3))]
            exp = None          # streamed bodies: what the verb sees is C29's subject (F16)
        wire = c29.enc_request(version, how, args, body, headers={b"k": c29.gbytes(rng, 0, 4)} if version == 3 else None, rng=rng)
        return dict(shape="real-v%d-%s" % (version, how)), wire, True, exp
    if r < 0.62:
        # protocol 1 / 2 assembled by hand (delimiter-heavy bodies)
        version = rng.choice([1, 2])
        w = rng.random() < 0.6
        args = [VERB_B if w else b"C29.n"] + c29.gargs(rng, True)
        body = gbody(ctx, rng) if w else None
        wire = (p.REQUEST_VERSION_TWO if version == 2 else b"") + b"\x01".join(args) + b"\n" + \
            ((b"%d\n" % len(body) + body + b"done\n") if w else b"")
        return dict(shape="hand-v%d" % version), wire, True, (args[1:], body)
    hdr = bencode({b"k": c29.gbytes(rng, 0, 4)}) if rng.random() < 0.7 else bencode({})
    if r < 0.80:
        # v3 conventional request assembled by hand
        w = rng.random() < 0.6
        args = [VERB_B if w else b"C29.n"] + c29.gargs(rng, False)
        bodies = [gbody(ctx, rng) for _ in range(rng.choice([0, 1, 1, 2, 3]))] if w else []
        parts = [("s", bencode(args))] + [("b", x) for x in bodies]
        if w and rng.random() < 0.3:
            parts += [("o", ord("E")), ("s", bencode([b"err", c29.gbytes(rng, 0, 5)]))] if rng.random() < 0.5 else [("o", ord("S"))]
        return dict(shape="hand-v3"), p.MESSAGE_VERSION_THREE + v3_wire(hdr, parts), True, None
    if r < 0.90:
        # framing-valid part sequences the request handler objects to: the decoder reports the error and
        # keeps parsing to the end of the message (still inside the property's scope)
        parts = []
        for _ in range(rng.randint(0, 5)):
            k = rng.choice("obs")
            parts.append((k, rng.choice(b"SEX\x00e") if k == "o" else
                          rng.choice([c29.gen_struct(rng), bencode({b"a": 1}), b"i7e", b"0:"]) if k == "s" else gbody(ctx, rng)))
        return dict(shape="odd-parts-v3"), p.MESSAGE_VERSION_THREE + v3_wire(hdr, parts), True, None
    # headers / structures fastbencode rejects: the decoder gives up inside the message (not well formed)
    parts = [("s", bencode([b"C29.n"]))] + [("b", c29.gbytes(rng, 0, 9)) for _ in range(rng.randint(0, 2))]
    if rng.random() < 0.35:
        hdr = rng.choice(BAD_BENC + NOT_DICT)
    else:
        parts.insert(rng.randint(0, len(parts)), ("s", rng.choice(BAD_BENC)))
    return dict(shape="undecodable-v3"), p.MESSAGE_VERSION_THREE + v3_wire(hdr, parts), False, None


def serve_cases(ctx, b, rng):
    desc, wire, wf, exp = gen_request(ctx, rng)
    r = rng.random()
    if wf and r < 0.2:
        run_server(ctx, b, desc, [wire], gsched(rng), True, trunc=cut_point(rng, len(wire)))
    elif wf and r < 0.4:
        msgs, exps, shapes = [wire], [exp], [desc["shape"]]
        for _ in range(rng.choice([1, 1, 2])):
            d2, w2, wf2, e2 = gen_request(ctx, rng)
            if not wf2:
                continue
            msgs.append(w2)
            exps.append(e2)
            shapes.append(d2["shape"])
        run_server(ctx, b, dict(shape="+".join(shapes)), msgs, gsched(rng), True,
                   expect=None if any(e is None for e in exps) else exps)
    else:
        run_server(ctx, b, desc, [wire], gsched(rng), wf, expect=None if exp is None else [exp])


# ---------------------------------------------------------------- client loops

def client_request(pipe):
    from breezy.bzr.smart import medium
    m = medium.SmartSimplePipesClientMedium(pipe, io.BytesIO(), "verif:///")
    req = m.get_request()
    req.finished_writing()
    return req


def run_client(ctx, b, desc, mkind, w, msg, sched, reader, wellformed=True, trunc=None):
    """the real client reading loop `reader(request)` (returns a value or raises) over `msg`"""
    data = msg[:trunc] if trunc is not None else msg + SENTINEL
    pipe = SchedPipe(data, len(msg), sched)
    case = dict(desc, kind="client", machine=mkind, w=w, msg=mhex(msg), sched=sched, wellformed=wellformed, trunc=trunc)
    what = "client %s" % desc.get("shape", mkind)
    got, exc = None, None
    try:
        got = reader(client_request(pipe))
    except Exception as e:
        exc = e
    ok = oracle_reads(ctx, case, pipe.requests, what)
    if trunc is not None:
        if ok and not (isinstance(exc, ConnectionResetError) and pipe.eof and pipe.pos == trunc):
            ctx.violation(case, "%s: server died after %d of %d bytes: expected ConnectionResetError at that point, got %r "
                          "after %d bytes" % (what, trunc, len(msg), exc if exc is not None else got, pipe.pos))
        out = "eof/F" if pipe.eof else "finished/%s/%s" % (hexb(data[pipe.pos:]), "T" if exc is None else "F")
        mode = "eof"
    else:
        if wellformed:
            if exc is not None:
                ctx.violation(case, "%s raised %s: %s" % (what, type(exc).__name__, str(exc)[:200]))
                ok = False
            ok = ok and oracle_end(ctx, case, pipe, len(msg), what)
            if ok and "expect" in desc and got != desc["expect"]:
                ctx.violation(case, "%s returned %r, sent %r" % (what, str(got)[:80], str(desc["expect"])[:80]))
        out = "finished/%s/%s" % (hexb(msg[pipe.pos:]) if pipe.pos <= len(msg) else "OVER", "T" if exc is None else "F")
        mode = "blk"
    case.pop("expect", None)
    ctx.case(case, len(pipe.requests) > 1)
    ctx.count("client:%s%s" % (desc.get("shape", mkind), ":eof" if trunc is not None else "" if wellformed else ":illformed"))
    ctx.count("reads:%d" % min(len(pipe.requests), 12))
    b.add(case, "pipex %s %s %s ~ %s %s 0 %d" % (mode, mkind, w, hexb(data if trunc is not None else msg), sstr(sched), CAP),
          hints_str(pipe.requests) + " " + out)


def read_lp(req):
    return c29._proto().SmartClientRequestProtocolOne(req).read_body_bytes()


def read_ck(req):
    return [("d", x) if isinstance(x, bytes) else ("f", tuple(x.args))
            for x in c29._proto().SmartClientRequestProtocolTwo(req).read_streamed_body()]


def read_v3(req):
    from breezy.bzr.smart import message
    h = message.ConventionalResponseHandler()
    d = c29._proto().ProtocolThreeDecoder(h, expect_version_marker=True)
    h.setProtoAndMediumRequest(d, req)
    h._wait_for_response_end()
    return None


def reader12(version, bk):
    def rd(req):
        p = c29._proto()
        c = (p.SmartClientRequestProtocolOne if version == 1 else p.SmartClientRequestProtocolTwo)(req)
        c._last_verb = b"C29.n"      # set by call(); only used to recognise "unknown method" replies
        try:
            t = c.read_response_tuple(expect_body=bk != "n")
        except Exception as e:
            if type(e).__name__ != "ErrorFromSmartServer":
                raise
            return ("failed", tuple(e.error_tuple))
        if bk == "b":
            return (t, c.read_body_bytes())
        if bk == "s":
            return (t, [("d", x) if isinstance(x, bytes) else ("f", tuple(x.args)) for x in c.read_streamed_body()])
        return (t,)
    return rd


def maybe_trunc(rng, msg, p=0.2):
    return cut_point(rng, len(msg)) if rng.random() < p else None


def client_cases(ctx, b, rng, big=False, sched=None):
    from fastbencode import bencode
    p = c29._proto()
    fx = c29.handler_variant()
    gs = (lambda _r: list(sched)) if sched else gsched
    # bulk body
    body = bytes(rng.getrandbits(8) for _ in range(rng.choice([65531, 65536, 70000]))) if big else gbody(ctx, rng)
    msg = b"%d\n" % len(body) + body + b"done\n"
    run_client(ctx, b, dict(shape="lp", expect=body), "lp", "-", msg, gs(rng), read_lp, trunc=maybe_trunc(rng, msg))
    # chunked body (real encoder)
    chunks = [gbody(ctx, rng) if rng.random() < 0.2 else c29.gbytes(rng, 0, 9) for _ in range(rng.randint(0, 4))]
    if big:
        chunks.append(bytes(rng.getrandbits(8) for _ in range(70000)))
    fail = [c29.gbytes(rng, 0, 6) for _ in range(rng.randint(0, 3))] if rng.random() < 0.3 else None
    msg = c29.real_stream_bytes(chunks, fail)
    exp = [("d", x) for x in chunks] + ([("f", tuple(fail))] if fail is not None else [])
    run_client(ctx, b, dict(shape="ck", expect=exp), "ck", "-", msg, gs(rng), read_ck, trunc=maybe_trunc(rng, msg))
    # v3 response
    r = rng.random()
    if r < 0.5:
        # written by the real responder
        ok = rng.random() < 0.7
        ra = [c29.gbytes(rng, 0, 6) for _ in range(rng.randint(1, 3))]
        shape = rng.choice(["args", "body", "stream", "stream-fail"])
        rb = rs = rf = None
        if shape == "body":
            rb = bytes(rng.getrandbits(8) for _ in range(70000)) if big else gbody(ctx, rng)
        elif shape != "args":
            rs = [c29.gbytes(rng, 0, 9) for _ in range(rng.randint(0, 3))]
            if shape == "stream-fail":
                rf = [c29.gbytes(rng, 1, 6) for _ in range(rng.randint(1, 2))]
        wf = not (fx == "F" and c29.classify_resp(3, ok, rb, rs, rf))
        msg = c29.enc_response(3, ok, ra, rb, rs, rf)
        run_client(ctx, b, dict(shape="real-v3-" + shape), "v3c", fx, msg, gs(rng), read_v3, wellformed=wf,
                   trunc=maybe_trunc(rng, msg) if wf else None)
    elif r < 0.75:
        hdr = bencode({b"Software version": b"x"}) if rng.random() < 0.5 else bencode({})
        parts = [("o", rng.choice(b"SE")), ("s", c29.gen_struct(rng))]
        nb = rng.choice([0, 0, 1, 2, 3])
        for _ in range(nb):
            parts.append(("b", gbody(ctx, rng)))
        if nb and rng.random() < 0.35:
            parts += [("o", ord("E")), ("s", c29.gen_struct(rng))]
        msg = p.MESSAGE_VERSION_THREE + v3_wire(hdr, parts)
        run_client(ctx, b, dict(shape="hand-v3"), "v3c", fx, msg, gs(rng), read_v3, trunc=maybe_trunc(rng, msg))
    else:
        # responses the decoder or the response handler rejects: the loop stops inside the message
        hdr = rng.choice(BAD_BENC + NOT_DICT) if rng.random() < 0.2 else bencode({})
        parts = []
        for _ in range(rng.randint(0, 5)):
            k = rng.choice("oobss")
            parts.append((k, rng.choice(b"SSEEX") if k == "o" else
                          rng.choice([c29.gen_struct(rng)] * 4 + NOT_SEQ + BAD_BENC) if k == "s" else c29.gbytes(rng, 0, 9)))
        msg = p.MESSAGE_VERSION_THREE + v3_wire(hdr, parts)
        run_client(ctx, b, dict(shape="rejected-v3"), "v3c", fx, msg, gs(rng), read_v3, wellformed=False)
    # protocol 1 / 2 responses written by the real server side, read line by line
    version = rng.choice([1, 2, 2])
    ok = version == 1 or rng.random() < 0.8
    bk = rng.choice("nbs" if version == 2 else "nb") if ok else "n"
    ra = [b"ok"] + c29.gargs(rng, True)
    rb = gbody(ctx, rng) if bk == "b" else None
    rs = [c29.gbytes(rng, 0, 9) for _ in range(rng.randint(0, 3))] if bk == "s" else None
    rf = [c29.gbytes(rng, 0, 6) for _ in range(rng.randint(0, 2))] if bk == "s" and rng.random() < 0.3 else None
    msg = c29.enc_response(version, ok, ra, rb, rs, rf)
    if not ok:
        exp = ("failed", tuple(ra))
    elif bk == "b":
        exp = (tuple(ra), rb)
    elif bk == "s":
        exp = (tuple(ra), [("d", x) for x in rs] + ([("f", tuple(rf))] if rf is not None else []))
    else:
        exp = (tuple(ra),)
    run_client(ctx, b, dict(shape="v%d-%s-%s" % (version, "ok" if ok else "failed", bk), expect=exp), "c%d%s" % (version, bk), "-",
               msg, gs(rng), reader12(version, bk), trunc=maybe_trunc(rng, msg))


# ---------------------------------------------------------------- the bencode model used for okH / okS / isSeq

BENC_ALPHA = [b"d", b"l", b"e", b"i", b"0", b"1", b"2", b":", b"-", b"a"]


def benc_kind(raw):
    from fastbencode import bdecode_as_tuple
    try:
        v = bdecode_as_tuple(raw)
    except Exception:
        return "~"
    return "dict" if isinstance(v, dict) else "list" if isinstance(v, tuple) else "int" if isinstance(v, int) else "str"


def gen_benc(rng, depth=0):
    r = rng.random()
    if depth > 3 or r < 0.35:
        s = c29.gbytes(rng, 0, 4, b"a:b\x00e\xff")
        return b"%d:%s" % (len(s), s)
    if r < 0.5:
        return b"i%de" % rng.choice([0, 1, -1, 7, 10, -12, 12345678901234567890])
    if r < 0.75:
        return b"l" + b"".join(gen_benc(rng, depth + 1) for _ in range(rng.randint(0, 3))) + b"e"
    keys = sorted({c29.gbytes(rng, 0, 3, b"ab\xff\x00") for _ in range(rng.randint(0, 3))})
    return b"d" + b"".join(b"%d:%s" % (len(k), k) + gen_benc(rng, depth + 1) for k in keys) + b"e"


def benc_cases(ctx, b, rng, exhaustive_len):
    def one(raw, nt=True):
        case = dict(kind="benc", raw=hexb(raw))
        ctx.case(case, nt)
        b.add(case, "benc %s" % hexb(raw), benc_kind(raw))
    import itertools
    for n in range(exhaustive_len + 1):
        for t in itertools.product(BENC_ALPHA, repeat=n):
            one(b"".join(t))
    for raw in BAD_BENC + NOT_DICT + NOT_SEQ:
        one(raw)
    for _ in range(ctx.pick(1500, 10000)):
        raw = gen_benc(rng)
        r = rng.random()
        if r < 0.35 and raw:
            i = rng.randrange(len(raw))
            raw = rng.choice([raw[:i] + raw[i + 1:], raw[:i] + rng.choice(BENC_ALPHA) + raw[i:], raw[:i] + rng.choice(BENC_ALPHA) + raw[i + 1:],
                              raw + rng.choice(BENC_ALPHA), raw[:i]])
        ctx.count("benc:" + benc_kind(raw))
        one(raw)


# ---------------------------------------------------------------- read-by-read traces of the raw decoders

def oracle_trace(ctx, case, impl, segs, msg_len, zero_when_done, what):
    """along a trace string produced by c29.run_*: 1 <= hint <= remaining until the end,
    completion reported exactly at the end"""
    steps = impl.split(" ")[0].split(";")
    used = 0
    for seg, st in zip(segs, steps):
        used += len(seg)
        if st.startswith("E:"):
            ctx.violation(case, "%s failed on a well-formed message (%s)" % (what, st))
            return
        f = st.split("/")
        nrs, fin = int(f[-1]), f[-3] == "T"
        left = msg_len - used
        if left > 0:
            if fin or (zero_when_done and nrs == 0):
                ctx.violation(case, "%s reports completion with %d bytes of the message still to come" % (what, left))
                return
            if nrs < 1 or nrs > left:
                ctx.violation(case, "%s: next_read_size()=%d with %d bytes of the message left (after %d bytes)" % (what, nrs, left, used))
                return
        else:
            if not fin or (zero_when_done and nrs != 0):
                ctx.violation(case, "%s does not report completion at the end of the message (finished=%s, next_read_size=%d)" % (what, fin, nrs))
                return


def trace_cases(ctx, b, rng):
    from fastbencode import bencode
    p = c29._proto()
    # LP
    body = gbody(ctx, rng)
    msg = b"%d\n" % len(body) + body + b"done\n"
    segs = c29.cut(rng, msg)
    mask = "".join(rng.choice("01") for _ in segs)
    out, d, _ = c29.run_lp(segs, mask)
    case = dict(kind="trace-lp", body=hexb(body), segs=[hexb(s) for s in segs], mask=mask)
    oracle_trace(ctx, case, out, segs, len(msg), False, "LengthPrefixedBodyDecoder")
    ctx.case(case, len(segs) > 1)
    ctx.count("trace:lp")
    b.add(case, "lp %s %s" % (c29.hseg(segs), mask), out)
    # CK
    chunks = [gbody(ctx, rng) if rng.random() < 0.2 else c29.gbytes(rng, 0, 9) for _ in range(rng.randint(0, 4))]
    fail = [c29.gbytes(rng, 0, 6) for _ in range(rng.randint(0, 3))] if rng.random() < 0.3 else None
    msg = c29.real_stream_bytes(chunks, fail)
    segs = c29.cut(rng, msg)
    out, d, _ = c29.run_ck(segs, "".join(rng.choice("01") for _ in segs))
    case = dict(kind="trace-ck", chunks=[hexb(x) for x in chunks], fail=None if fail is None else [hexb(x) for x in fail],
                segs=[hexb(s) for s in segs])
    oracle_trace(ctx, case, out, segs, len(msg), False, "ChunkedBodyDecoder")
    ctx.case(case, len(segs) > 1)
    ctx.count("trace:ck")
    b.add(case, "ck %s" % c29.hseg(segs), out)
    # V3 (recording handler, arbitrary part sequences)
    marker = rng.random() < 0.5
    hdr = bencode({c29.gbytes(rng, 1, 4): c29.gbytes(rng, 0, 5) for _ in range(rng.randint(0, 2))})
    parts = []
    for _ in range(rng.randint(0, 5)):
        k = rng.choice("obs")
        parts.append((k, rng.choice(b"SEC\x00e") if k == "o" else c29.gen_struct(rng) if k == "s" else gbody(ctx, rng)))
    msg = (p.MESSAGE_VERSION_THREE if marker else b"") + v3_wire(hdr, parts)
    segs = c29.cut(rng, msg)
    out, d, h = c29.run_v3(marker, segs)
    case = dict(kind="trace-v3", marker=marker, hdr=hexb(hdr), parts=[[k, v if k == "o" else hexb(v)] for k, v in parts],
                segs=[hexb(s) for s in segs])
    oracle_trace(ctx, case, out, segs, len(msg), True, "ProtocolThreeDecoder")
    # hint of the freshly constructed decoder
    d0 = p.ProtocolThreeDecoder(c29.make_rec(), expect_version_marker=marker)
    try:
        n0 = d0.next_read_size()
    except Exception as e:
        n0 = None
        ctx.violation(case, "fresh ProtocolThreeDecoder.next_read_size() raised %s" % type(e).__name__)
    if n0 is not None and not (1 <= n0 <= len(msg)):
        ctx.violation(case, "fresh ProtocolThreeDecoder asks for %d bytes, message has %d" % (n0, len(msg)))
    ctx.case(case, len(segs) > 1)
    ctx.count("trace:v3")
    b.add(case, "v3 %s %s" % ("T" if marker else "F", c29.hseg(segs)), out)
    # protocol 1 server
    w = rng.random() < 0.6
    args = [b"C29.b" if w else b"C29.n"] + c29.gargs(rng, True)
    body = gbody(ctx, rng) if w else None
    msg = b"\x01".join(args) + b"\n" + (b"%d\n" % len(body) + body + b"done\n" if w else b"")
    segs = c29.cut(rng, msg)
    out, sp = c29.run_req(w, segs)
    case = dict(kind="trace-req", w=w, args=[hexb(a) for a in args], body=None if body is None else hexb(body),
                segs=[hexb(s) for s in segs])
    oracle_trace(ctx, case, out, segs, len(msg), True, "SmartServerRequestProtocolOne")
    ctx.case(case, len(segs) > 1)
    ctx.count("trace:req")
    b.add(case, "req %s %s" % ("T" if w else "F", c29.hseg(segs)), out)
    # malformed input: the model must follow the code (hints included) — no oracle
    if rng.random() < 0.25:
        data = rng.choice([
            b"%d\n" % rng.randint(0, 5) + c29.gbytes(rng, 0, 12, b"doneX\n12"),
            c29.corrupt_line(rng) + b"\n" + c29.gbytes(rng, 0, 6),
        ])
        segs = c29.cut(rng, data)
        mask = "0" * len(segs)
        out, _, _ = c29.run_lp(segs, mask)
        case = dict(kind="trace-lp-bad", data=hexb(data), segs=[hexb(s) for s in segs])
        ctx.case(case, True)
        ctx.count("trace:lp-bad")
        b.add(case, "lp %s %s" % (c29.hseg(segs), mask), out)
        data = rng.choice([
            b"chunked\n" + c29.corrupt_line(rng) + b"\n" + c29.gbytes(rng, 0, 5) + b"END\n",
            c29.gbytes(rng, 0, 10, b"chunkedX") + b"\n3\nabcEND\n",
            b"chunked\n2\nab" + c29.gbytes(rng, 0, 6, b"END\nR0"),
        ])
        if _lenient_int_line(data):
            # ASSUMPTIONS: length lines that only Python's lenient int() accepts (sign, blanks,
            # '_', '0x') are outside the model; such a line can arise from the random filler
            ctx.count("trace:ck-bad:lenient-int-skipped")
            return
        segs = c29.cut(rng, data)
        out, _, _ = c29.run_ck(segs, "0" * len(segs))
        case = dict(kind="trace-ck-bad", data=hexb(data), segs=[hexb(s) for s in segs])
        ctx.case(case, True)
        ctx.count("trace:ck-bad")
        b.add(case, "ck %s" % c29.hseg(segs), out)


def _lenient_int_line(data):
    """True if some line of `data` is accepted by int(line, 16) or int(line) without being a
    plain string of (hex) digits."""
    import re
    for line in data.split(b"\n"):
        if re.fullmatch(rb"[0-9a-fA-F]+", line):
            continue
        for base in (16, 10):
            try:
                int(line, base)
            except ValueError:
                continue
            return True
    return False


def loop_cases(ctx, b, rng):
    serve_cases(ctx, b, rng)
    client_cases(ctx, b, rng)


def corpus_cases(ctx, b):
    """fixed small messages under the basic schedules (every run), then the > 64 KiB family"""
    rng = ctx.rng
    from fastbencode import bencode
    p = c29._proto()
    fx = c29.handler_variant()
    m3 = p.MESSAGE_VERSION_THREE
    for sched in ([1], [1 << 20], [2], [1, 1 << 20], [3, 1]):
        for body in (b"", b"a", b"done\n", b"0123456789"):
            lp = b"%d\n" % len(body) + body + b"done\n"
            run_client(ctx, b, dict(shape="lp", expect=body), "lp", "-", lp, sched, read_lp)
            run_server(ctx, b, dict(shape="hand-v1"), [b"C29.b\n" + lp], sched, expect=[([], body)])
            run_server(ctx, b, dict(shape="hand-v2"), [p.REQUEST_VERSION_TWO + b"C29.b\x01x\n" + lp], sched, expect=[([b"x"], body)])
            run_client(ctx, b, dict(shape="v1-ok-b", expect=((b"ok",), body)), "c1b", "-", b"ok\n" + lp, sched, reader12(1, "b"))
            run_client(ctx, b, dict(shape="v2-ok-b", expect=((b"ok", b"1"), body)), "c2b", "-",
                       p.RESPONSE_VERSION_TWO + b"success\nok\x011\n" + lp, sched, reader12(2, "b"))
        run_server(ctx, b, dict(shape="hand-v1"), [b"C29.n\n"], sched, expect=[([], None)])
        run_server(ctx, b, dict(shape="hand-v2"), [p.REQUEST_VERSION_TWO + b"C29.n\x01ab\n"], sched, expect=[([b"ab"], None)])
        run_server(ctx, b, dict(shape="hand-v1"), [b"C29.n\x01a\n"], sched, expect=[([b"a"], None)])
        run_client(ctx, b, dict(shape="v1-ok-n", expect=((b"ok",),)), "c1n", "-", b"ok\n", sched, reader12(1, "n"))
        run_client(ctx, b, dict(shape="v2-failed-n", expect=("failed", (b"no",))), "c2n", "-",
                   p.RESPONSE_VERSION_TWO + b"failed\nno\n", sched, reader12(2, "n"))
        for chunks, fail in (([], None), ([b""], None), ([b"ab", b""], [b"x"]), ([b"a" * 17], [])):
            ck = c29.real_stream_bytes(chunks, fail)
            exp = [("d", x) for x in chunks] + ([("f", tuple(fail))] if fail is not None else [])
            run_client(ctx, b, dict(shape="ck", expect=exp), "ck", "-", ck, sched, read_ck)
            run_client(ctx, b, dict(shape="v2-ok-s", expect=((b"ok",), exp)), "c2s", "-",
                       p.RESPONSE_VERSION_TWO + b"success\nok\n" + ck, sched, reader12(2, "s"))
        de = bencode({})
        for parts in ([], [("o", 83), ("s", bencode([b"ok"]))], [("o", 83), ("s", bencode([b"ok"])), ("b", b""), ("b", b"xyz")]):
            run_client(ctx, b, dict(shape="hand-v3"), "v3c", fx, m3 + v3_wire(de, parts), sched, read_v3)
        run_server(ctx, b, dict(shape="hand-v3"), [m3 + v3_wire(de, [("s", bencode([b"C29.n"]))])], sched, expect=[([], None)])
        run_server(ctx, b, dict(shape="hand-v3"), [m3 + v3_wire(de, [("s", bencode([b"C29.b"])), ("b", b"")])], sched, expect=[([], b"")])
        run_server(ctx, b, dict(shape="hand-v3"), [m3 + v3_wire(de, [("s", bencode([b"C29.b", b"a"])), ("b", b"abc"), ("b", b"")])], sched,
                   expect=[([b"a"], b"abc")])
        # the decoder gives up on an undecodable structure: the rest of the message stays on the pipe
        run_server(ctx, b, dict(shape="undecodable-v3"), [m3 + v3_wire(de, [("s", b"x"), ("b", b"abc")])], sched, wellformed=False)
        run_server(ctx, b, dict(shape="undecodable-v3"), [m3 + v3_wire(b"le", [("s", bencode([b"C29.n"]))])], sched, wellformed=False)
        # three requests of three protocol versions back to back on one pipe
        run_server(ctx, b, dict(shape="hand-v1+hand-v3+hand-v2"),
                   [b"C29.b\x01q\n3\nabcdone\n", m3 + v3_wire(de, [("s", bencode([b"C29.n", b"z"]))]), p.REQUEST_VERSION_TWO + b"C29.n\n"],
                   sched, expect=[([b"q"], b"abc"), ([b"z"], None), ([], None)])
        # every truncation point of a short request of each version
        for msg in (b"C29.b\n2\nhidone\n", p.REQUEST_VERSION_TWO + b"C29.n\n", m3 + v3_wire(de, [("s", bencode([b"C29.b"])), ("b", b"hi")])):
            for k in (range(len(msg)) if sched == [1 << 20] else (0, 1, len(msg) // 2, len(msg) - 1)):
                run_server(ctx, b, dict(shape="short"), [msg], sched, trunc=k)
    # bodies above the medium's 64 KiB cap (requests are capped, the loops must still end exactly)
    for sched in ([1 << 20], [1 << 20, 3, 70000]):
        for _ in range(ctx.pick(1, 3)):
            desc, wire, wf, exp = gen_request(ctx, rng, big=True)
            run_server(ctx, b, dict(desc, big=True), [wire], sched, wf, expect=None if exp is None else [exp])
            client_cases(ctx, b, rng, big=True, sched=sched)


def run(ctx, n=None):
    c29.register_verbs()
    rng = ctx.rng
    b = c29.Batch()
    ctx.extra["response_handler_variant"] = c29.handler_variant()
    corpus_cases(ctx, b)
    benc_cases(ctx, b, rng, ctx.pick(4, 5))
    n = n or ctx.pick(2200, 12000)
    for _ in range(n):
        loop_cases(ctx, b, rng)
        trace_cases(ctx, b, rng)
    ctx.diff(b.cases, b.lines, b.outs)


def widen(ctx):
    run(ctx, n=3000)


def replay(ctx, case):
    c29.register_verbs()
    rng = ctx.rng
    b = c29.Batch()
    k = case.get("kind")
    big = lambda h: h.startswith("len=")
    if k == "serve":
        if any(big(x) for x in case["msgs"]):
            return dict(case=case, note="message above 20000 bytes is not stored; re-run the check with the same seed")
        run_server(ctx, b, dict(shape=case.get("shape", "?")), [unhex(x) for x in case["msgs"]], case["sched"],
                   case["wellformed"], case["trunc"])
    elif k == "client":
        if big(case["msg"]):
            return dict(case=case, note="message above 20000 bytes is not stored; re-run the check with the same seed")
        mk = case["machine"]
        reader = {"lp": read_lp, "ck": read_ck, "v3c": read_v3}.get(mk) or reader12(int(mk[1]), mk[2])
        run_client(ctx, b, dict(shape=case.get("shape", mk)), mk, case["w"], unhex(case["msg"]), case["sched"], reader,
                   case["wellformed"], case["trunc"])
    elif k == "benc":
        b.add(case, "benc %s" % case["raw"], benc_kind(unhex(case["raw"])))
    elif k in ("trace-lp", "trace-ck", "trace-v3", "trace-req"):
        segs = [unhex(s) for s in case["segs"]]
        n = sum(len(s) for s in segs)
        if k == "trace-lp":
            out, _, _ = c29.run_lp(segs, case["mask"])
            oracle_trace(ctx, case, out, segs, n, False, "LengthPrefixedBodyDecoder")
            b.add(case, "lp %s %s" % (c29.hseg(segs), case["mask"]), out)
        elif k == "trace-ck":
            out, _, _ = c29.run_ck(segs, "0" * len(segs))
            oracle_trace(ctx, case, out, segs, n, False, "ChunkedBodyDecoder")
            b.add(case, "ck %s" % c29.hseg(segs), out)
        elif k == "trace-v3":
            out, _, _ = c29.run_v3(case["marker"], segs)
            oracle_trace(ctx, case, out, segs, n, True, "ProtocolThreeDecoder")
            b.add(case, "v3 %s %s" % ("T" if case["marker"] else "F", c29.hseg(segs)), out)
        else:
            out, _ = c29.run_req(case["w"], segs)
            oracle_trace(ctx, case, out, segs, n, True, "SmartServerRequestProtocolOne")
            b.add(case, "req %s %s" % ("T" if case["w"] else "F", c29.hseg(segs)), out)
    else:
        return dict(case=case, note="malformed-trace cases are replayed by re-running the check with the same seed")
    model = ctx.model(b.lines) if b.lines else []
    return dict(case=case, impl=b.outs, model=model, agree=b.outs == model,
                oracle_failures=[v["what"] for v in ctx.violations])
