import BreezyVerif.Lemmas.C52
/-!
C52 — every reconfiguration and every format conversion preserves the
observation of a location (branch tip, history, tags, working tree content and
pending changes), for every location state, every target and every path
through the layout graph (no bound on its length), whether the operation
succeeds, is refused, or fails half-way.
-/
namespace BreezyVerif.C52

/-- the flags of every factory only destroy a tree that exists and only create one that does not -/
theorem factory_tree_flags (l : Loc) (t : Target) (f : Flags) (h : factory l t = .ok f) :
    (f.destroyTree = true → l.tree = true) ∧ (f.createTree = true → l.tree = false) := by
  cases t <;> simp [factory, plan, planShared] at h
  all_goals first
    | (subst h; simp) ; done
    | (cases hr : l.repo <;> simp_all <;> (subst h; simp))
    | skip
  all_goals (cases hr : l.repo <;> try simp_all) <;> (try subst h) <;> simp_all

/-- **One transition** (`to_branch`, `to_tree`, `to_checkout`,
`to_lightweight_checkout`, `to_standalone`, `to_use_shared`, not forced):
tip, history, tags and format tag are unchanged; a working tree that is kept
keeps its content and pending changes; a tree is only removed when it has no
pending changes; a tree that is created is the clean tree of the tip.  Holds
for the state reached on success, on refusal and on a failure in mid-`apply`. -/
theorem convert_preserves_obs (t : Target) (l : Loc) : Keeps l (reconfigure t false l).1 := by
  unfold reconfigure
  cases hf : factory l t with
  | error e => exact keeps_refl l
  | ok f =>
    have hfl := factory_tree_flags l t f hf
    by_cases ha : f.any = true
    · simp only [ha, if_true]
      have hp := applyFlags_parts l f false
      refine keeps_of_parts l _ f hp.1 hfl.1 hfl.2 ?_
      rcases hp.2 with h | ⟨hs, h⟩
      · exact Or.inl h
      · exact Or.inr ⟨by simpa using hs, h⟩
    · simp only [ha]; exact keeps_refl l

/-- a format conversion changes the format tag and nothing that is observed -/
theorem upgrade_preserves_obs (fmt : Nat) (l l' : Loc) (h : convert fmt l = some l') :
    obs l' = obs l ∧ l'.format = fmt ∧ l'.branch = l.branch ∧ l'.repo = l.repo := by
  unfold convert at h
  split at h
  · simp at h
  · simp only [Option.some.injEq] at h; subst h; simp [obs]

theorem keeps_treeInv (l l' : Loc) (h : Keeps l l') (hi : TreeInv l) : TreeInv l' := by
  unfold Keeps at h; unfold TreeInv at *
  obtain ⟨h1, _, _, _, h5, h6, h7⟩ := h
  intro ht hd
  cases hlt : l.tree
  · have := h7 hlt ht; rw [this.2, h1]
  · have := h5 hlt ht
    rw [this.1, h1]; exact hi hlt (by rw [← this.2]; exact hd)

/-- **Any path through the layout graph.**  Starting from a location whose
clean tree (if it has one and it is clean) is the tree of its tip, after any
sequence of reconfigurations — each attempted whatever happened to the one
before — tip, history, tags and format are unchanged; pending changes are never
lost (a tree with pending changes is still there, untouched); and whenever the
location has a working tree at the start and at the end, its content and
pending-change state are the same. -/
theorem reconfigure_composes (ts : List Target) (l : Loc) (hi : TreeInv l) :
    let l' := runAll false ts l
    l'.tip = l.tip ∧ l'.hist = l.hist ∧ l'.tags = l.tags ∧ l'.format = l.format ∧
    (l.tree = true → l.dirty = true → l'.tree = true ∧ l'.treeCode = l.treeCode ∧ l'.dirty = true) ∧
    (l.tree = true → l'.tree = true → l'.treeCode = l.treeCode ∧ l'.dirty = l.dirty) ∧
    (l'.tree = true → l.tree = false → l'.dirty = false ∧ l'.treeCode = cleanCode l.tip) := by
  induction ts generalizing l with
  | nil =>
    show _ ∧ _
    simp only [runAll]
    refine ⟨trivial, trivial, trivial, trivial, ?_, ?_, ?_⟩ <;> intro a b <;> simp_all
  | cons t ts ih =>
    simp only [runAll]
    have hk := convert_preserves_obs t l
    have hi' := keeps_treeInv l _ hk hi
    have := ih (reconfigure t false l).1 hi'
    unfold Keeps at hk
    unfold TreeInv at hi hi'
    obtain ⟨k1, k2, k3, k4, k5, k6, k7⟩ := hk
    obtain ⟨a1, a2, a3, a4, a5, a6, a7⟩ := this
    generalize (reconfigure t false l).1 = m at *
    generalize runAll false ts m = r at *
    refine ⟨by omega, by omega, by omega, by omega, ?_, ?_, ?_⟩
    · intro ht hd
      cases hmt : m.tree
      · have := k6 ht hmt; simp_all
      · have := k5 ht hmt
        have := a5 hmt (by simp_all)
        simp_all
    · intro ht hrt
      cases hmt : m.tree
      · have hld := k6 ht hmt
        have ha7 := a7 hrt hmt
        have hcode := hi ht hld
        simp_all
      · have := k5 ht hmt
        have := a6 hmt hrt
        simp_all
    · intro hrt hlt
      cases hmt : m.tree
      · have := a7 hrt hmt; simp_all
      · have := k7 hlt hmt
        have := a6 hmt hrt
        simp_all

/-- why `_check` matters: with `force` a tree with pending changes is removed -/
theorem force_destroys_witness :
    let l : Loc := ⟨true, true, .unbound, .own, false, false, true, 0, 1, 0, 0, 0⟩
    (reconfigure .branch true l).1.tree = false ∧ (reconfigure .branch true l).2 = none ∧
    (reconfigure .branch false l) = (l, some .uncommittedChanges) := by decide

/-- a failure in the middle of `apply` leaves the earlier steps done: a branch
without a remembered location asked to become a checkout gets its working tree
and then fails with NoBindLocation -/
theorem partial_apply_witness :
    let l : Loc := ⟨false, false, .unbound, .own, false, false, true, 0, 1, 0, 0, 0⟩
    (reconfigure .checkout false l).2 = some .noBindLocation ∧ (reconfigure .checkout false l).1.tree = true ∧
    (reconfigure .checkout false l).1.branch = .unbound := by decide

/-! non-vacuity: a dirty bound checkout in a shared repository walks through five layouts and keeps everything -/
example :
    let l : Loc := ⟨true, true, .bound, .shared, true, true, true, 0, 5, 0, 0, 0⟩
    TreeInv l ∧
    (runAll false [.lightweightCheckout, .tree, .standalone, .checkout, .useShared, .branch] l).branch = .unbound ∧
    obs (runAll false [.lightweightCheckout, .tree, .standalone, .checkout, .useShared, .branch] l) = obs l := by
  refine ⟨by intro _ h; simp at h, by decide, by decide⟩

example : convert 0 ⟨true, true, .bound, .shared, true, true, true, 3, 5, 0, 0, 0⟩ ≠ none := by decide

end BreezyVerif.C52
