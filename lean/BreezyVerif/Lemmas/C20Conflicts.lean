import BreezyVerif.Lemmas.C20
/-! C20 — helper lemmas: conflict ↔ stanza. -/
namespace BreezyVerif.C20

theorem ofString_typestring (ct : CType) : CType.ofString ct.typestring = some ct := by
  cases ct <;> rfl

theorem typestring_crSafe (ct : CType) : crSafe ct.typestring := by
  cases ct <;> decide

theorem tags_valid : validTag tPath = true ∧ validTag tType = true ∧ validTag tFileId = true
    ∧ validTag tConflictPath = true ∧ validTag tAction = true ∧ validTag tConflictFileId = true
    ∧ validTag tHash = true := by decide

/-- the stanza written for a well-formed conflict, read back by the factory -/
theorem from_as_stanza_aux (c : Conflict) (h : c.wf = true) :
    ∃ s, asStanza c = some s ∧ fromStanza s = .ok c := by
  obtain ⟨ct, p, f, cp, a, cf⟩ := c
  have hts := ofString_typestring ct
  unfold Conflict.wf at h
  unfold asStanza
  simp only at h ⊢
  cases hsh : ct.shape <;> simp only [hsh] at h ⊢
  · -- plain
    simp only [Bool.and_eq_true, Option.isNone_iff_eq_none] at h
    obtain ⟨⟨rfl, rfl⟩, rfl⟩ := h
    refine ⟨_, rfl, ?_⟩
    cases f <;>
      simp [fromStanza, buildConflict, sget, optPair, hts, hsh, allowedTags, requiredTags,
        tPath, tType, tFileId, tConflictPath, tAction, tConflictFileId]
  · -- pathc
    simp only [Bool.and_eq_true, Option.isNone_iff_eq_none] at h
    obtain ⟨rfl, rfl⟩ := h
    refine ⟨_, rfl, ?_⟩
    cases f <;> cases cp <;>
      simp [fromStanza, buildConflict, sget, optPair, hts, hsh, allowedTags, requiredTags,
        tPath, tType, tFileId, tConflictPath, tAction, tConflictFileId]
  · -- handled
    simp only [Bool.and_eq_true, Option.isNone_iff_eq_none, Option.isSome_iff_exists] at h
    obtain ⟨⟨⟨a, rfl⟩, rfl⟩, rfl⟩ := h
    refine ⟨_, rfl, ?_⟩
    cases f <;>
      simp [fromStanza, buildConflict, sget, optPair, hts, hsh, allowedTags, requiredTags,
        tPath, tType, tFileId, tConflictPath, tAction, tConflictFileId]
  · -- handledPath
    simp only [Bool.and_eq_true, Option.isSome_iff_exists] at h
    obtain ⟨⟨a, rfl⟩, ⟨cp, rfl⟩⟩ := h
    refine ⟨_, rfl, ?_⟩
    cases f <;> cases cf <;>
      simp [fromStanza, buildConflict, sget, optPair, hts, hsh, allowedTags, requiredTags,
        tPath, tType, tFileId, tConflictPath, tAction, tConflictFileId]

def optSafe : Option Str → Prop
  | none => True
  | some v => crSafe v

instance (o : Option Str) : Decidable (optSafe o) := by
  cases o <;> unfold optSafe <;> infer_instance

/-- no attribute of the conflict has a line ending in CR -/
def Conflict.crSafe (c : Conflict) : Prop :=
  C20.crSafe c.path ∧ optSafe c.fileId ∧ optSafe c.conflictPath ∧ optSafe c.action ∧ optSafe c.conflictFileId

instance (c : Conflict) : Decidable c.crSafe := by unfold Conflict.crSafe; infer_instance

theorem asStanza_ok (c : Conflict) (s : Stanza) (hc : c.crSafe) (h : asStanza c = some s) : StanzaOk s := by
  obtain ⟨ct, p, f, cp, a, cf⟩ := c
  obtain ⟨hp, hf, hcp, ha, hcf⟩ := hc
  simp only at hp hf hcp ha hcf
  have hty := typestring_crSafe ct
  obtain ⟨t1, t2, t3, t4, t5, t6, _⟩ := tags_valid
  unfold asStanza at h
  simp only at h
  cases hsh : ct.shape <;> simp only [hsh] at h
  · cases f <;> simp only [optPair, Option.some.injEq] at h <;> subst h <;>
      simp_all [StanzaOk, optSafe]
  · cases f <;> cases cp <;> simp only [optPair, Option.some.injEq] at h <;> subst h <;>
      simp_all [StanzaOk, optSafe]
  · cases a with
    | none => simp at h
    | some a =>
      cases f <;> simp only [optPair, Option.some.injEq] at h <;> subst h <;>
        simp_all [StanzaOk, optSafe]
  · cases a with
    | none => simp at h
    | some a =>
      cases cp with
      | none => simp at h
      | some cp =>
        cases f <;> cases cf <;> simp only [optPair, Option.some.injEq] at h <;> subst h <;>
          simp_all [StanzaOk, optSafe]

theorem stanzas_of_conflicts (cs : List Conflict) (h : ∀ c ∈ cs, c.wf = true ∧ c.crSafe) :
    ∃ ss, cs.mapM asStanza = some ss ∧ (∀ s ∈ ss, StanzaOk s) ∧ ss.mapM fromStanza = .ok cs := by
  induction cs with
  | nil => exact ⟨[], rfl, by simp, rfl⟩
  | cons c t ih =>
    obtain ⟨ss, h1, h2, h3⟩ := ih (fun x hx => h x (by simp [hx]))
    obtain ⟨s, hs1, hs2⟩ := from_as_stanza_aux c (h c (by simp)).1
    refine ⟨s :: ss, ?_, ?_, ?_⟩
    · simp [List.mapM_cons, hs1, h1]
    · intro x hx
      rcases List.mem_cons.mp hx with rfl | hx
      · exact asStanza_ok c x (h c (by simp)).2 hs1
      · exact h2 x hx
    · simp only [List.mapM_cons, hs2, h3]; rfl

end BreezyVerif.C20
