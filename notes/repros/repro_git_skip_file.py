"""family git-smart-add-ignores-skip-file: GitWorkingTree.smart_add never calls action.skip_file, so
`brz add` (which passes AddWithSkipLargeAction) adds files larger than add.maximum_file_size in a git
tree; the same call in a bzr tree skips them (documented in `brz help add`).
Run: /venv/bin/python repro_git_skip_file.py   (VERIF_REPO=<tree> to test another tree); exit 1 = defect."""
from repro_common import *
from breezy.add import AddWithSkipLargeAction
res = {}
for fmt in ("2a", "git"):
    wt = mktree(fmt); r = wt.basedir
    write(r, "small", "s\n"); write(r, "d/big.bin", "x" * 5000)
    act = AddWithSkipLargeAction(should_print=False); act._max_size = 1000   # = option add.maximum_file_size
    WorkingTree.open(r).smart_add([r], action=act)
    res[fmt] = versioned(wt)
    print(fmt, res[fmt])
done("d/big.bin" in res["git"])
