"""C28 finding `branch-unlock-config-save-failure-keeps-lock`.

BzrBranch.unlock() runs `self.conf_store.save_changes()` (when this is the last
unlock) BEFORE its `try: self.control_files.unlock() finally: ...` block.  If
saving fails (disk full, permission denied, transport error ...) the exception
is logged and discarded by @only_raises(LockNotHeld, LockBroken): unlock()
returns None although nothing was released -- the branch, its repository and
the physical lock directory on disk stay locked, and the caller cannot know.

Run:  /venv/bin/python repro_save_failure_unlock.py [path-to-breezy-checkout]
exit 1 = defect present, 0 = absent.
"""
import os
import sys
import tempfile

repo = sys.argv[1] if len(sys.argv) > 1 else "/repo"
sys.path.insert(0, repo)
home = tempfile.mkdtemp(prefix="c28sv-", dir="/var/tmp")
os.environ.update(HOME=home, BRZ_HOME=home, BRZ_EMAIL="t <t@example.com>", BRZ_LOG="/dev/null")
import breezy
breezy.initialize()
import breezy.bzr  # noqa
import breezy.bzr.bzrdir  # noqa
import breezy.bzr.groupcompress_repo  # noqa
import breezy.bzr.workingtree_4  # noqa
from breezy.branch import Branch
from breezy.controldir import ControlDir, format_registry

wt = ControlDir.create_standalone_workingtree(os.path.join(home, "t"), format=format_registry.make_controldir("2a"))
wt.commit("one")
b = Branch.open(wt.branch.base)
b.lock_write()
b.get_config_stack().set("nickname", "x")      # creates b.conf_store with a pending change


def failing_save():
    raise OSError(28, "No space left on device")


b.conf_store.save_changes = failing_save
res = b.unlock()            # the matching last unlock
print("unlock() returned %r; branch locked: %s; repository locked: %s; lock on disk: %s"
      % (res, b.is_locked(), bool(b.repository.is_locked()), b.get_physical_lock_status()))
bad = b.is_locked() or b.get_physical_lock_status()
if bad:
    print("DEFECT: the last unlock returned normally but released nothing")
    sys.exit(1)
print("ok")
