import BreezyVerif.Lemmas.C03
/-
C03 — the batched walk `_walk_to_common_revisions` (`walkLoop`): loop invariant,
termination, and what the result satisfies for every batch size ≥ 1.
-/
namespace BreezyVerif.C03

open BreezyVerif.C33 (PMap parentsOf parentsL bfs Reach present dedup allKeys refsOf mem_dedup present_iff
  not_present_iff mem_parentsL parentsOf_refs filter_length_lt)

/-! ### the restricted graph and `find_seen_ancestors` -/

theorem parentsOf_restrict (g : PMap) (seen : List Rev) (k : Rev) :
    parentsOf (restrict g seen) k =
      if k ∈ seen then (parentsOf g k).map (fun ps => ps.filter (· ∈ seen)) else none := by
  unfold restrict
  induction g with
  | nil => simp [parentsOf]
  | cons kv rest ih =>
    obtain ⟨k', ps⟩ := kv
    by_cases hk' : k' ∈ seen
    · by_cases hkk : k' = k
      · subst hkk
        simp [hk', parentsOf]
      · simp only [List.filter_cons, hk', decide_true, if_true, List.map_cons, parentsOf, hkk, if_false]
        exact ih
    · by_cases hkk : k' = k
      · subst hkk
        simp only [List.filter_cons, hk', decide_false, Bool.false_eq_true, if_false]
        rw [ih]
        simp [hk']
      · simp only [List.filter_cons, hk', decide_false, Bool.false_eq_true, if_false, parentsOf, hkk]
        exact ih

/-- a step of the restricted graph is a step of the graph between seen keys -/
theorem restrict_step {g : PMap} {seen : List Rev} {j k : Rev} {ps' : List Rev}
    (hps : parentsOf (restrict g seen) j = some ps') (hk : k ∈ ps') :
    j ∈ seen ∧ k ∈ seen ∧ ∃ ps, parentsOf g j = some ps ∧ k ∈ ps := by
  rw [parentsOf_restrict] at hps
  by_cases hj : j ∈ seen
  · simp only [hj, if_true] at hps
    cases hp : parentsOf g j with
    | none => simp [hp] at hps
    | some ps =>
      simp only [hp, Option.map_some, Option.some.injEq] at hps
      subst hps
      simp only [List.mem_filter, decide_eq_true_eq] at hk
      exact ⟨hj, hk.2, ps, rfl, hk.1⟩
  · simp [hj] at hps

theorem restrict_step_mk {g : PMap} {seen : List Rev} {j k : Rev} {ps : List Rev}
    (hj : j ∈ seen) (hk : k ∈ seen) (hps : parentsOf g j = some ps) (hkp : k ∈ ps) :
    ∃ ps', parentsOf (restrict g seen) j = some ps' ∧ k ∈ ps' := by
  refine ⟨ps.filter (· ∈ seen), ?_, ?_⟩
  · rw [parentsOf_restrict]; simp [hj, hps]
  · simp [hkp, hk]

/-- reachability inside `seen` is reachability -/
theorem reach_of_restrict {g : PMap} {seen start : List Rev} {k : Rev}
    (h : Reach (restrict g seen) [] start k) : ∃ s ∈ start, Reach g [] [s] k := by
  induction h with
  | base hk => exact ⟨_, hk, Reach.base (by simp)⟩
  | step _ _ hps hk ih =>
    obtain ⟨s, hs, hr⟩ := ih
    obtain ⟨_, _, ps, hps', hk'⟩ := restrict_step hps hk
    exact ⟨s, hs, Reach.step hr (by simp) hps' hk'⟩

theorem restrict_reach_mono {g : PMap} {seen seen' start : List Rev} (hsub : ∀ k ∈ seen, k ∈ seen') {k : Rev}
    (h : Reach (restrict g seen) [] start k) : Reach (restrict g seen') [] start k := by
  induction h with
  | base hk => exact Reach.base hk
  | step _ _ hps hk ih =>
    obtain ⟨hj, hk', ps, hps', hkp⟩ := restrict_step hps hk
    obtain ⟨ps'', h1, h2⟩ := restrict_step_mk (hsub _ hj) (hsub _ hk') hps' hkp
    exact Reach.step ih (by simp) h1 h2

theorem mem_seenAnc (g : PMap) (seen hv : List Rev) (k : Rev) :
    k ∈ seenAnc g seen hv ↔ Reach (restrict g seen) [] (hv.filter (· ∈ seen)) k := by
  unfold seenAnc
  exact mem_reach ..

theorem seenAnc_base {g : PMap} {seen hv : List Rev} {h : Rev} (hh : h ∈ hv) (hs : h ∈ seen) :
    h ∈ seenAnc g seen hv :=
  (mem_seenAnc ..).mpr (Reach.base (by simp [hh, hs]))

theorem seenAnc_sound {g : PMap} {seen hv : List Rev} {k : Rev} (hk : k ∈ seenAnc g seen hv) :
    ∃ h ∈ hv, h ∈ seen ∧ Reach g [] [h] k := by
  obtain ⟨s, hs, hr⟩ := reach_of_restrict ((mem_seenAnc ..).mp hk)
  simp only [List.mem_filter, decide_eq_true_eq] at hs
  exact ⟨s, hs.1, hs.2, hr⟩

/-! ### the loop invariant -/

/-- invariant of `walkLoop`; `acc` are the present revisions collected in the running batch -/
structure WInv (g : PMap) (has : Rev → Bool) (start : Rev) (w : Walk) (acc : List Rev) : Prop where
  sound : ∀ k ∈ w.seen ++ w.next, Reach g [] [start] k
  disj : ∀ k ∈ w.next, k ∉ w.seen
  univ : ∀ k ∈ w.seen ++ w.next, k ∈ allKeys g [start]
  startIn : start ∈ w.seen ∨ (w.next = [start] ∧ acc = [])
  ghost : ∀ k ∈ w.seen, parentsOf g k = none → k ∈ w.stopped
  closed : ∀ j ∈ w.seen, j ∉ w.stopped → ∀ ps, parentsOf g j = some ps → ∀ p ∈ ps,
    p ∈ w.seen ∨ (j ∈ w.cur ∧ p ∈ w.next)
  why : ∀ k ∈ w.stopped, parentsOf g k = none ∨
    ∃ h, has h = true ∧ present g h = true ∧ Reach g [] [start] h ∧ Reach g [] [h] k
  held : ∀ k ∈ w.seen, has k = true → present g k = true → k ∈ w.stopped ∨ k ∈ acc
  accIn : ∀ k ∈ acc, k ∈ w.seen ∧ present g k = true

theorem winv_init (g : PMap) (has : Rev → Bool) (start : Rev) :
    WInv g has start ⟨[], [], [], [start]⟩ [] where
  sound := by intro k hk; simp at hk; subst hk; exact Reach.base (by simp)
  disj := by intro k _; simp
  univ := by intro k hk; simp at hk; subst hk; simp [allKeys]
  startIn := Or.inr ⟨rfl, rfl⟩
  ghost := by intro k hk; cases hk
  closed := by intro j hj; cases hj
  why := by intro k hk; cases hk
  held := by intro k hk; cases hk
  accIn := by intro k hk; cases hk

theorem mem_layer_next {g : PMap} {w : Walk} {p : Rev} :
    p ∈ (w.layer g).next ↔ p ∉ w.seen ++ w.next ∧ ∃ j ∈ w.next, ∃ ps, parentsOf g j = some ps ∧ p ∈ ps := by
  unfold Walk.layer
  simp only [mem_dedup, List.mem_filter, List.mem_flatMap, decide_eq_true_eq, present_iff, mem_parentsL]
  constructor
  · rintro ⟨⟨j, ⟨hj, _⟩, ps, hps, hp⟩, hns⟩
    exact ⟨hns, j, hj, ps, hps, hp⟩
  · rintro ⟨hns, j, hj, ps, hps, hp⟩
    exact ⟨⟨j, ⟨hj, ps, hps⟩, ps, hps, hp⟩, hns⟩

theorem winv_layer {g : PMap} {has : Rev → Bool} {start : Rev} {w : Walk} {acc : List Rev}
    (h : WInv g has start w acc) : WInv g has start (w.layer g) (acc ++ (w.layer g).cur) where
  sound := by
    intro k hk
    rcases List.mem_append.mp hk with hk | hk
    · exact h.sound k hk
    · obtain ⟨_, j, hj, ps, hps, hp⟩ := mem_layer_next.mp hk
      exact Reach.step (h.sound j (List.mem_append_right _ hj)) (by simp) hps hp
  disj := by
    intro k hk
    exact (mem_layer_next.mp hk).1
  univ := by
    intro k hk
    rcases List.mem_append.mp hk with hk | hk
    · exact h.univ k hk
    · obtain ⟨_, j, _, ps, hps, hp⟩ := mem_layer_next.mp hk
      exact List.mem_append_right _ (parentsOf_refs hps hp)
  startIn := by
    rcases h.startIn with hs | ⟨hs, _⟩
    · exact Or.inl (List.mem_append_left _ hs)
    · exact Or.inl (List.mem_append_right _ (by rw [hs]; simp))
  ghost := by
    intro k hk hnone
    show k ∈ w.stopped ++ w.next.filter fun k => !present g k
    rcases List.mem_append.mp hk with hk | hk
    · exact List.mem_append_left _ (h.ghost k hk hnone)
    · exact List.mem_append_right _ (List.mem_filter.mpr ⟨hk, not_present_iff.mpr hnone⟩)
  closed := by
    intro j hj hns ps hps p hp
    have hns' : j ∉ w.stopped := fun hc => hns (List.mem_append_left _ hc)
    by_cases hin : p ∈ w.seen ++ w.next
    · exact Or.inl hin
    · rcases List.mem_append.mp hj with hj | hj
      · rcases h.closed j hj hns' ps hps p hp with h1 | ⟨_, h1⟩
        · exact absurd (List.mem_append_left _ h1) hin
        · exact absurd (List.mem_append_right _ h1) hin
      · refine Or.inr ⟨List.mem_filter.mpr ⟨hj, present_iff.mpr ⟨ps, hps⟩⟩, ?_⟩
        exact mem_layer_next.mpr ⟨hin, j, hj, ps, hps, hp⟩
  why := by
    intro k hk
    rcases List.mem_append.mp hk with hk | hk
    · exact h.why k hk
    · exact Or.inl (not_present_iff.mp (List.mem_filter.mp hk).2)
  held := by
    intro k hk hhas hpres
    rcases List.mem_append.mp hk with hk | hk
    · rcases h.held k hk hhas hpres with h1 | h1
      · exact Or.inl (List.mem_append_left _ h1)
      · exact Or.inr (List.mem_append_left _ h1)
    · exact Or.inr (List.mem_append_right _ (List.mem_filter.mpr ⟨hk, hpres⟩))
  accIn := by
    intro k hk
    rcases List.mem_append.mp hk with hk | hk
    · exact ⟨List.mem_append_left _ (h.accIn k hk).1, (h.accIn k hk).2⟩
    · have := List.mem_filter.mp hk
      exact ⟨List.mem_append_right _ this.1, this.2⟩

theorem winv_batchEnd {g : PMap} {has : Rev → Bool} {start : Rev} {w : Walk} {acc : List Rev}
    (h : WInv g has start w acc) (hpre : acc ≠ [] ∨ w.next = []) : WInv g has start (w.batchEnd g has acc) [] where
  sound := by
    intro k hk
    rcases List.mem_append.mp hk with hk | hk
    · exact h.sound k (List.mem_append_left _ hk)
    · exact h.sound k (List.mem_append_right _ (List.mem_filter.mp hk).1)
  disj := by
    intro k hk
    exact h.disj k (List.mem_filter.mp hk).1
  univ := by
    intro k hk
    rcases List.mem_append.mp hk with hk | hk
    · exact h.univ k (List.mem_append_left _ hk)
    · exact h.univ k (List.mem_append_right _ (List.mem_filter.mp hk).1)
  startIn := by
    rcases h.startIn with hs | ⟨hs, ha⟩
    · exact Or.inl hs
    · rcases hpre with hp | hp
      · exact absurd ha hp
      · rw [hp] at hs; cases hs
  ghost := by
    intro k hk hnone
    exact List.mem_append_left _ (h.ghost k hk hnone)
  closed := by
    intro j hj hns ps hps p hp
    have hns1 : j ∉ w.stopped := fun hc => hns (List.mem_append_left _ hc)
    have hns2 : j ∉ seenAnc g w.seen (acc.filter has) := fun hc => hns (List.mem_append_right _ hc)
    rcases h.closed j hj hns1 ps hps p hp with h1 | ⟨h1, h2⟩
    · exact Or.inl h1
    · refine Or.inr ⟨List.mem_filter.mpr ⟨h1, by simpa using hns2⟩, ?_⟩
      refine List.mem_filter.mpr ⟨h2, ?_⟩
      rw [List.any_eq_true]
      refine ⟨j, List.mem_filter.mpr ⟨h1, by simpa using hns2⟩, ?_⟩
      simp only [decide_eq_true_eq]
      exact mem_parentsL.mpr ⟨ps, hps, hp⟩
  why := by
    intro k hk
    rcases List.mem_append.mp hk with hk | hk
    · exact h.why k hk
    · obtain ⟨x, hx, hxs, hr⟩ := seenAnc_sound hk
      have hx' := List.mem_filter.mp hx
      exact Or.inr ⟨x, hx'.2, (h.accIn x hx'.1).2, h.sound x (List.mem_append_left _ hxs), hr⟩
  held := by
    intro k hk hhas hpres
    rcases h.held k hk hhas hpres with h1 | h1
    · exact Or.inl (List.mem_append_left _ h1)
    · exact Or.inl (List.mem_append_right _ (seenAnc_base (List.mem_filter.mpr ⟨h1, hhas⟩) hk))
  accIn := by intro k hk; cases hk

/-! ### termination and the generic run rule -/

/-- keys of the universe not yet seen -/
def muW (g : PMap) (start : Rev) (w : Walk) : Nat :=
  ((allKeys g [start]).filter (· ∉ w.seen)).length

theorem muW_layer {g : PMap} {has : Rev → Bool} {start : Rev} {w : Walk} {acc : List Rev}
    (h : WInv g has start w acc) (hq : w.next ≠ []) : muW g start (w.layer g) < muW g start w := by
  obtain ⟨x, xs, hx⟩ := List.exists_cons_of_ne_nil hq
  have hxn : x ∈ w.next := by rw [hx]; simp
  unfold muW
  apply filter_length_lt (x := x)
  · intro y hy
    simp only [decide_eq_true_eq] at hy ⊢
    exact fun hy' => hy (List.mem_append_left _ hy')
  · exact h.univ x (List.mem_append_right _ hxn)
  · simpa using h.disj x hxn
  · simp only [decide_eq_false_iff_not, Decidable.not_not]
    exact List.mem_append_right _ hxn

theorem muW_batchEnd (g : PMap) (has : Rev → Bool) (start : Rev) (w : Walk) (acc : List Rev) :
    muW g start (w.batchEnd g has acc) = muW g start w := rfl

theorem batchEnd_next_nil {g : PMap} {has : Rev → Bool} {w : Walk} {acc : List Rev} (h : w.next = []) :
    (w.batchEnd g has acc).next = [] := by
  simp [Walk.batchEnd, Walk.stopAny, h]

/-- Hoare rule for `walkLoop`: the loop terminates within its fuel, and every
property `Q` preserved by the two kinds of step holds, with the invariant, of
the final state (whose query is empty). -/
theorem walkLoop_run {g : PMap} {has : Rev → Bool} {n : Nat} {start : Rev} (hn : 0 < n)
    (Q : Walk → List Rev → Prop)
    (hQl : ∀ w acc, WInv g has start w acc → Q w acc → acc.length < n → w.next ≠ [] →
      Q (w.layer g) (acc ++ (w.layer g).cur))
    (hQs : ∀ w acc, WInv g has start w acc → Q w acc → (acc ≠ [] ∨ w.next = []) →
      Q (w.batchEnd g has acc) []) :
    ∀ (fuel : Nat) (w : Walk) (acc : List Rev), WInv g has start w acc → Q w acc →
      2 * muW g start w + (if acc = [] then 0 else 1) < fuel →
      ∃ w', walkLoop g has n fuel w acc = some w' ∧ WInv g has start w' [] ∧ Q w' [] ∧ w'.next = [] := by
  intro fuel
  induction fuel with
  | zero => intro w acc _ _ hlt; omega
  | succ fuel ih =>
    intro w acc hinv hq hlt
    unfold walkLoop
    by_cases hne : w.next = []
    · -- the searcher is exhausted
      have hemp : w.next.isEmpty = true := by simp [hne]
      simp only [hemp, Bool.not_true, Bool.and_false, Bool.false_eq_true, if_false]
      by_cases hlen : acc.length < n
      · simp only [hlen, if_true]
        exact ⟨_, rfl, winv_batchEnd hinv (Or.inr hne), hQs w acc hinv hq (Or.inr hne), batchEnd_next_nil hne⟩
      · simp only [hlen, if_false]
        have hacc : acc ≠ [] := by
          intro h; subst h; simp at hlen; omega
        apply ih _ _ (winv_batchEnd hinv (Or.inl hacc)) (hQs w acc hinv hq (Or.inl hacc))
        rw [muW_batchEnd]
        simp only [hacc, if_false] at hlt
        simp only [if_true]
        omega
    · have hemp : w.next.isEmpty = false := by
        cases hnx : w.next with
        | nil => exact absurd hnx hne
        | cons _ _ => rfl
      by_cases hlen : acc.length < n
      · simp only [hlen, hemp, decide_true, Bool.not_false, Bool.and_self, if_true]
        apply ih _ _ (winv_layer hinv) (hQl w acc hinv hq hlen hne)
        have := muW_layer hinv hne
        split <;> split at hlt <;> omega
      · have hacc : acc ≠ [] := by
          intro h; subst h; simp at hlen; omega
        simp only [hlen, decide_false, Bool.false_and, Bool.false_eq_true, if_false]
        apply ih _ _ (winv_batchEnd hinv (Or.inl hacc)) (hQs w acc hinv hq (Or.inl hacc))
        rw [muW_batchEnd]
        simp only [hacc, if_false] at hlt
        simp only [if_true]
        omega

theorem muW_init_le (g : PMap) (start : Rev) : muW g start ⟨[], [], [], [start]⟩ ≤ (allKeys g [start]).length := by
  unfold muW
  exact List.length_filter_le _ _

/-- the walk always terminates within its fuel, in a state satisfying the invariant (and `Q`) -/
theorem walkB_run {g : PMap} {has : Rev → Bool} {n : Nat} {start : Rev} (hn : 0 < n)
    (Q : Walk → List Rev → Prop)
    (hQ0 : Q ⟨[], [], [], [start]⟩ [])
    (hQl : ∀ w acc, WInv g has start w acc → Q w acc → acc.length < n → w.next ≠ [] →
      Q (w.layer g) (acc ++ (w.layer g).cur))
    (hQs : ∀ w acc, WInv g has start w acc → Q w acc → (acc ≠ [] ∨ w.next = []) →
      Q (w.batchEnd g has acc) []) :
    ∃ w', walkB g has n start = some w' ∧ WInv g has start w' [] ∧ Q w' [] ∧ w'.next = [] := by
  unfold walkB
  apply walkLoop_run hn Q hQl hQs _ _ _ (winv_init g has start) hQ0
  have := muW_init_le g start
  simp only [if_true]
  omega

/-! ### what a final state says -/

section Final
variable {g : PMap} {has : Rev → Bool} {start : Rev} {w : Walk}

theorem final_sub (h : WInv g has start w []) {k : Rev} (hk : k ∈ w.seen) (hns : k ∉ w.stopped) :
    Reach g [] [start] k ∧ present g k = true := by
  refine ⟨h.sound k (List.mem_append_left _ hk), ?_⟩
  cases hp : parentsOf g k with
  | none => exact absurd (h.ghost k hk hp) hns
  | some ps => exact present_iff.mpr ⟨ps, hp⟩

theorem final_notin (h : WInv g has start w []) {k : Rev} (hk : k ∈ w.seen) (hns : k ∉ w.stopped) :
    has k = false := by
  cases hh : has k with
  | false => rfl
  | true =>
    rcases h.held k hk hh (final_sub h hk hns).2 with h1 | h1
    · exact absurd h1 hns
    · cases h1

/-- every key reachable from the start is in the result, or a ghost, or behind
a present key that the target holds and that is itself reachable -/
theorem final_cases (h : WInv g has start w []) (hnext : w.next = []) {k : Rev}
    (hr : Reach g [] [start] k) :
    (k ∈ w.seen ∧ k ∉ w.stopped) ∨ parentsOf g k = none ∨
      ∃ x, has x = true ∧ present g x = true ∧ Reach g [] [start] x ∧ Reach g [] [x] k := by
  have hstart : start ∈ w.seen := by
    rcases h.startIn with hs | ⟨hs, _⟩
    · exact hs
    · rw [hnext] at hs; cases hs
  have key : ∀ k, k ∈ w.seen → (k ∈ w.seen ∧ k ∉ w.stopped) ∨ parentsOf g k = none ∨
      ∃ x, has x = true ∧ present g x = true ∧ Reach g [] [start] x ∧ Reach g [] [x] k := by
    intro k hk
    by_cases hs : k ∈ w.stopped
    · exact Or.inr (h.why k hs)
    · exact Or.inl ⟨hk, hs⟩
  induction hr with
  | base hk => simp at hk; subst hk; exact key _ hstart
  | @step j k ps _ _ hps hk ih =>
    rcases ih with ⟨hj, hjs⟩ | hnone | ⟨x, hx1, hx2, hx3, hx4⟩
    · rcases h.closed j hj hjs ps hps k hk with h1 | ⟨_, h1⟩
      · exact key k h1
      · rw [hnext] at h1; cases h1
    · rw [hps] at hnone; cases hnone
    · exact Or.inr (Or.inr ⟨x, hx1, hx2, hx3, Reach.step hx4 (by simp) hps hk⟩)

end Final

/-! ### a start revision the target holds: everything is stopped after the first batch -/

/-- nothing stopped yet and everything seen is reachable from the start inside `seen`, or the search is dead -/
def HeldInv (g : PMap) (start : Rev) (w : Walk) (acc : List Rev) : Prop :=
  (w.next = [] ∧ ∀ k ∈ w.seen, k ∈ w.stopped) ∨
  ((∀ k ∈ w.seen, Reach (restrict g w.seen) [] [start] k) ∧
   (∀ p ∈ w.next, (p = start ∧ w.seen = []) ∨ ∃ j ∈ w.cur, p ∈ parentsL g j) ∧
   (∀ j ∈ w.cur, j ∈ w.seen) ∧
   (w.seen = [] → w.next = [start] ∧ acc = []) ∧
   (w.seen ≠ [] → start ∈ acc))

theorem heldInv_layer {g : PMap} {has : Rev → Bool} {start : Rev} (hp : present g start = true) {w : Walk} {acc : List Rev}
    (_hinv : WInv g has start w acc) (h : HeldInv g start w acc) (hne : w.next ≠ []) :
    HeldInv g start (w.layer g) (acc ++ (w.layer g).cur) := by
  rcases h with ⟨h1, _⟩ | ⟨hreach, hnext, hcur, hempty, hacc⟩
  · exact absurd h1 hne
  · refine Or.inr ⟨?_, ?_, ?_, ?_, ?_⟩
    · intro k hk
      show Reach (restrict g (w.seen ++ w.next)) [] [start] k
      rcases List.mem_append.mp hk with hk | hk
      · exact restrict_reach_mono (fun _ hx => List.mem_append_left _ hx) (hreach k hk)
      · rcases hnext k hk with ⟨h1, _⟩ | ⟨j, hj, hpj⟩
        · subst h1; exact Reach.base (by simp)
        · obtain ⟨ps, hps, hkp⟩ := mem_parentsL.mp hpj
          have hjr := restrict_reach_mono (seen' := w.seen ++ w.next) (fun _ hx => List.mem_append_left _ hx)
            (hreach j (hcur j hj))
          obtain ⟨ps', h1, h2⟩ := restrict_step_mk (seen := w.seen ++ w.next)
            (List.mem_append_left _ (hcur j hj)) (List.mem_append_right _ hk) hps hkp
          exact Reach.step hjr (by simp) h1 h2
    · intro p hpn
      obtain ⟨_, j, hj, ps, hps, hpp⟩ := mem_layer_next.mp hpn
      exact Or.inr ⟨j, List.mem_filter.mpr ⟨hj, present_iff.mpr ⟨ps, hps⟩⟩, mem_parentsL.mpr ⟨ps, hps, hpp⟩⟩
    · intro j hj
      exact List.mem_append_right _ (List.mem_filter.mp hj).1
    · intro hs
      have : w.next = [] := by
        have hs' : w.seen ++ w.next = [] := hs
        exact (List.append_eq_nil_iff.mp hs').2
      exact absurd this hne
    · intro _
      by_cases hs : w.seen = []
      · obtain ⟨hn, _⟩ := hempty hs
        apply List.mem_append_right
        show start ∈ w.next.filter (present g)
        rw [hn]; simp [hp]
      · exact List.mem_append_left _ (hacc hs)

theorem heldInv_batchEnd {g : PMap} {has : Rev → Bool} {start : Rev} (hh : has start = true) {w : Walk} {acc : List Rev}
    (hinv : WInv g has start w acc) (h : HeldInv g start w acc) (hpre : acc ≠ [] ∨ w.next = []) :
    HeldInv g start (w.batchEnd g has acc) [] := by
  rcases h with ⟨h1, h2⟩ | ⟨hreach, _, hcur, hempty, hacc⟩
  · exact Or.inl ⟨batchEnd_next_nil h1, fun k hk => List.mem_append_left _ (h2 k hk)⟩
  · have hs : w.seen ≠ [] := by
      intro hs
      obtain ⟨hn, ha⟩ := hempty hs
      rcases hpre with hp | hp
      · exact hp ha
      · rw [hp] at hn; cases hn
    have hsa := hacc hs
    have hstartSeen : start ∈ w.seen := (hinv.accIn start hsa).1
    have hall : ∀ k ∈ w.seen, k ∈ seenAnc g w.seen (acc.filter has) := by
      intro k hk
      rw [mem_seenAnc]
      refine reach_mono (fun x hx => ?_) (hreach k hk)
      simp only [List.mem_singleton] at hx
      subst hx
      simp [hsa, hh, hstartSeen]
    have hcurNil : w.cur.filter (· ∉ seenAnc g w.seen (acc.filter has)) = [] := by
      apply List.filter_eq_nil_iff.mpr
      intro j hj
      simp [hall j (hcur j hj)]
    refine Or.inl ⟨?_, fun k hk => List.mem_append_right _ (hall k hk)⟩
    show w.next.filter _ = []
    apply List.filter_eq_nil_iff.mpr
    intro p _
    rw [hcurNil]
    simp

theorem heldInv_init (g : PMap) (start : Rev) : HeldInv g start ⟨[], [], [], [start]⟩ [] := by
  refine Or.inr ⟨?_, ?_, ?_, fun _ => ⟨rfl, rfl⟩, fun h => absurd rfl h⟩
  · intro k hk; cases hk
  · intro p hp
    simp only [List.mem_singleton] at hp
    exact Or.inl ⟨hp, rfl⟩
  · intro j hj; cases hj

/-- the search started at a revision both repositories hold finds nothing -/
theorem walkB_held_nil {g : PMap} {has : Rev → Bool} {n : Nat} {start : Rev} (hn : 0 < n)
    (hp : present g start = true) (hh : has start = true) :
    ∃ w, walkB g has n start = some w ∧ w.seen.filter (· ∉ w.stopped) = [] := by
  obtain ⟨w, hw, _, hq, hnx⟩ := walkB_run (g := g) (has := has) (start := start) hn (HeldInv g start)
    (heldInv_init g start)
    (fun w acc hinv hq _ hne => heldInv_layer hp hinv hq hne)
    (fun w acc hinv hq hpre => heldInv_batchEnd hh hinv hq hpre)
  refine ⟨w, hw, ?_⟩
  rcases hq with ⟨_, h2⟩ | ⟨_, _, _, hempty, _⟩
  · apply List.filter_eq_nil_iff.mpr
    intro k hk
    simp [h2 k hk]
  · by_cases hs : w.seen = []
    · rw [hnx] at hempty; exact absurd (hempty hs).1 (by simp)
    · -- seen ≠ [] requires start ∈ acc = []
      rename_i hacc
      exact absurd (hacc hs) (by simp)

end BreezyVerif.C03
