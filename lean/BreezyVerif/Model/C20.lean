import BreezyVerif.Common
/-
C20 — conflict and merge-hash records.

Text is modelled at the character level (`Str := List Char`, a Python `str`
without lone surrogates; the UTF-8 layer underneath is a bijection and is
trusted).  A file id is a byte string that must be valid UTF-8 and is
represented by its decoded text.

Part 1: `breezy/bzr/conflicts.py`: the ten conflict classes (four constructor
shapes), `Conflict.as_stanza` and `ConflictList.from_stanzas` /
`Conflict.factory`.
Part 2: the rio stanza text format (external `bzrformats.rio`, modelled from its
documented grammar and its observed behaviour): writer `Stanza.to_lines`,
reader `RioReader` — lines are split on `\n`, *trailing `\r` characters of every
line are dropped*, a blank line ends a stanza, an empty stanza ends the file.
Part 3: `breezy/bzr/workingtree.py`: `_put_rio`, `set_conflicts`/`conflicts`,
`set_merge_modified`/`merge_modified`.
Part 4: `ConflictList.select_conflicts` and `breezy/conflicts.py: resolve`
with the `done` action.
-/
namespace BreezyVerif.C20

abbrev Str := List Char

/-! ## conflicts -/

inductive CType where
  | text | contents | path | dupId | dupEntry | parentLoop
  | unvParent | missParent | delParent | nonDirParent
  deriving DecidableEq, Repr

def CType.all : List CType :=
  [.text, .contents, .path, .dupId, .dupEntry, .parentLoop, .unvParent, .missParent, .delParent, .nonDirParent]

/-- the class attribute `typestring` -/
def CType.typestring : CType → Str
  | .text => "text conflict".toList
  | .contents => "contents conflict".toList
  | .path => "path conflict".toList
  | .dupId => "duplicate id".toList
  | .dupEntry => "duplicate".toList
  | .parentLoop => "parent loop".toList
  | .unvParent => "unversioned parent".toList
  | .missParent => "missing parent".toList
  | .delParent => "deleting parent".toList
  | .nonDirParent => "non-directory parent".toList

/-- `ctype[type]` -/
def CType.ofString (s : Str) : Option CType := CType.all.find? fun t => t.typestring == s

/-- the four `__init__` signatures -/
inductive Shape where
  /-- `Conflict(path, file_id=None)` : TextConflict -/
  | plain
  /-- `PathConflict(path, conflict_path=None, file_id=None)` : PathConflict, ContentsConflict -/
  | pathc
  /-- `HandledConflict(action, path, file_id=None)` -/
  | handled
  /-- `HandledPathConflict(action, path, conflict_path, file_id=None, conflict_file_id=None)` -/
  | handledPath
  deriving DecidableEq, Repr

def CType.shape : CType → Shape
  | .text => .plain
  | .contents | .path => .pathc
  | .unvParent | .missParent | .delParent | .nonDirParent => .handled
  | .dupId | .dupEntry | .parentLoop => .handledPath

structure Conflict where
  ctype : CType
  path : Str
  fileId : Option Str
  conflictPath : Option Str
  action : Option Str
  conflictFileId : Option Str
  deriving DecidableEq, Repr

/-- the attributes a Python object of that class can have / must have -/
def Conflict.wf (c : Conflict) : Bool :=
  match c.ctype.shape with
  | .plain => c.conflictPath.isNone && c.action.isNone && c.conflictFileId.isNone
  | .pathc => c.action.isNone && c.conflictFileId.isNone
  | .handled => c.action.isSome && c.conflictPath.isNone && c.conflictFileId.isNone
  | .handledPath => c.action.isSome && c.conflictPath.isSome

abbrev Stanza := List (Str × Str)

def tPath : Str := ['p', 'a', 't', 'h']
def tType : Str := ['t', 'y', 'p', 'e']
def tFileId : Str := ['f', 'i', 'l', 'e', '_', 'i', 'd']
def tConflictPath : Str := ['c', 'o', 'n', 'f', 'l', 'i', 'c', 't', '_', 'p', 'a', 't', 'h']
def tAction : Str := ['a', 'c', 't', 'i', 'o', 'n']
def tConflictFileId : Str := ['c', 'o', 'n', 'f', 'l', 'i', 'c', 't', '_', 'f', 'i', 'l', 'e', '_', 'i', 'd']
def tHash : Str := ['h', 'a', 's', 'h']

def optPair (tag : Str) : Option Str → Stanza
  | none => []
  | some v => [(tag, v)]

/-- `as_stanza` of the four class families; `none` = `Stanza.add(tag, None)`
raises TypeError (a required attribute is None) -/
def asStanza (c : Conflict) : Option Stanza :=
  let base : Stanza := [(tPath, c.path), (tType, c.ctype.typestring)] ++ optPair tFileId c.fileId
  match c.ctype.shape with
  | .plain => some base
  | .pathc => some (base ++ optPair tConflictPath c.conflictPath)
  | .handled =>
    match c.action with
    | some a => some (base ++ [(tAction, a)])
    | none => none
  | .handledPath =>
    match c.action, c.conflictPath with
    | some a, some cp => some (base ++ [(tAction, a), (tConflictPath, cp)] ++ optPair tConflictFileId c.conflictFileId)
    | _, _ => none

/-- `Stanza.as_dict()[tag]`: the last value wins -/
def sget (s : Stanza) (tag : Str) : Option Str :=
  match s.reverse.find? fun p => p.1 == tag with
  | some p => some p.2
  | none => none

inductive Err where
  /-- ConflictFormatError / MergeModifiedFormatError: bad or missing header line -/
  | format
  /-- ValueError from the rio reader -/
  | value
  /-- KeyError: unknown conflict type -/
  | key
  /-- TypeError: missing / unexpected constructor argument -/
  | type
  deriving DecidableEq, Repr

def allowedTags : Shape → List Str
  | .plain => [tPath, tFileId]
  | .pathc => [tPath, tConflictPath, tFileId]
  | .handled => [tAction, tPath, tFileId]
  | .handledPath => [tAction, tPath, tConflictPath, tFileId, tConflictFileId]

def requiredTags : Shape → List Str
  | .plain => [tPath]
  | .pathc => [tPath]
  | .handled => [tAction, tPath]
  | .handledPath => [tAction, tPath, tConflictPath]

/-- `ctype[type](**kwargs)`: the constructor call with the remaining stanza entries -/
def buildConflict (ct : CType) (s : Stanza) : Except Err Conflict :=
  let sh := ct.shape
  if !(s.all fun p => p.1 == tType || (allowedTags sh).contains p.1) then .error .type
  else if !((requiredTags sh).all fun t => (sget s t).isSome) then .error .type
  else
    match sget s tPath with
    | none => .error .type
    | some p =>
      .ok { ctype := ct, path := p, fileId := sget s tFileId, conflictPath := sget s tConflictPath,
            action := sget s tAction, conflictFileId := sget s tConflictFileId }

/-- `Conflict.factory(**stanza.as_dict())` -/
def fromStanza (s : Stanza) : Except Err Conflict :=
  match sget s tType with
  | none => .error .type
  | some ts =>
    match CType.ofString ts with
    | none => .error .key
    | some ct => buildConflict ct s

/-! ## rio text -/

/-- `value.split("\n")` (never empty) -/
def splitNL : Str → List Str
  | [] => [[]]
  | c :: r =>
    if c = '\n' then [] :: splitNL r
    else
      match splitNL r with
      | l :: ls => (c :: l) :: ls
      | [] => [[c]]

/-- `Stanza.to_lines` for one pair (lines without their terminating `\n`) -/
def valueLines (tag value : Str) : List Str :=
  match splitNL value with
  | l0 :: ls => (tag ++ ':' :: ' ' :: l0) :: ls.map fun l => '\t' :: l
  | [] => [tag ++ [':', ' ']]

def stanzaLines (s : Stanza) : List Str := s.flatMap fun p => valueLines p.1 p.2

/-- the lines written by `_put_rio` after the header: stanzas separated by one blank line -/
def bodyLines : List Stanza → List Str
  | [] => []
  | [s] => stanzaLines s
  | s :: rest => stanzaLines s ++ [] :: bodyLines rest

def unlines (ls : List Str) : Str := ls.flatMap fun l => l ++ ['\n']

/-- `_put_rio(filename, stanzas, header)` : the file content -/
def putRio (header : Str) (ss : List Stanza) : Str := unlines (header :: bodyLines ss)

/-- iteration over a file: split on `\n`; a final unterminated line counts, an
empty remainder does not -/
def fileLines (t : Str) : List Str :=
  let parts := splitNL t
  match parts.getLast? with
  | some [] => parts.dropLast
  | _ => parts

/-- the reader drops every trailing `\r` of a line -/
def stripCR (l : Str) : Str := (l.reverse.dropWhile fun c => c == '\r').reverse

def validTagChar (c : Char) : Bool := c.isAlphanum || c == '-' || c == '_'

def validTag (t : Str) : Bool := !t.isEmpty && t.all validTagChar

/-- split at the first `": "` -/
def splitTag : Str → Option (Str × Str)
  | [] => none
  | [_] => none
  | c :: d :: r =>
    if c = ':' && d = ' ' then some ([], r)
    else
      match splitTag (d :: r) with
      | some (t, v) => some (c :: t, v)
      | none => none

/-- the lines of one stanza, right to left: `(pending continuation text, pairs)` -/
def parseLines : List Str → Except Err (Str × Stanza)
  | [] => .ok ([], [])
  | l :: rest =>
    match parseLines rest with
    | .error e => .error e
    | .ok (pend, ps) =>
      match l with
      | [] => .error .value
      | c :: t =>
        if c = '\t' then .ok ('\n' :: (t ++ pend), ps)
        else
          match splitTag l with
          | none => .error .value
          | some (tag, v) => if validTag tag then .ok ([], (tag, v ++ pend) :: ps) else .error .value

def parseBlock (ls : List Str) : Except Err Stanza :=
  match parseLines ls with
  | .error e => .error e
  | .ok ([], ps) => .ok ps
  | .ok (_ :: _, _) => .error .value   -- continuation line before any tag

/-- split a list of lines at blank lines -/
def splitBlocks : List Str → List (List Str)
  | [] => [[]]
  | l :: rest =>
    if l.isEmpty then [] :: splitBlocks rest
    else
      match splitBlocks rest with
      | b :: bs => (l :: b) :: bs
      | [] => [[l]]

/-- `RioReader`: stanzas until the first empty one -/
def readStanzas (body : Str) : Except Err (List Stanza) :=
  let lines := (fileLines body).map stripCR
  ((splitBlocks lines).takeWhile fun b => !b.isEmpty).mapM parseBlock

/-- check the header line, return the rest of the file -/
def afterHeader (header text : Str) : Option Str :=
  if (header ++ ['\n']).isPrefixOf text then some (text.drop (header.length + 1)) else none

def getRio (header : Str) (file : Option Str) : Except Err (List Stanza) :=
  match file with
  | none => .ok []
  | some text =>
    match afterHeader header text with
    | none => .error .format
    | some body => readStanzas body

/-! ## working tree persistence -/

def conflictHeader : Str := "BZR conflict list format 1".toList
def mergeHeader : Str := "BZR merge-modified list format 1".toList

/-- `set_conflicts`: the new content of `.bzr/checkout/conflicts`
(`none`: `as_stanza` raised) -/
def setConflicts (cs : List Conflict) : Option Str :=
  (cs.mapM asStanza).map (putRio conflictHeader)

/-- `conflicts()` on the file content (`none`: no such file) -/
def getConflicts (file : Option Str) : Except Err (List Conflict) :=
  match getRio conflictHeader file with
  | .error e => .error e
  | .ok ss => ss.mapM fromStanza

/-- versioned entries of the tree: path, file id, and what `get_file_sha1(path)`
returns now: the sha1 of a regular file that is present, `none` (Python `None`)
for a directory, a symlink, the tree root or a versioned file that is missing on
disk -/
structure TFile where
  path : Str
  fileId : Str
  sha : Option Str
  deriving DecidableEq, Repr

def path2id (tree : List TFile) (p : Str) : Option Str := (tree.find? fun f => f.path == p).map (·.fileId)
def id2file (tree : List TFile) (i : Str) : Option TFile := tree.find? fun f => f.fileId == i

/-- `set_merge_modified(modified_hashes)` : file content -/
def setMergeModified (tree : List TFile) (hashes : List (Str × Str)) : Str :=
  putRio mergeHeader (hashes.filterMap fun ph =>
    (path2id tree ph.1).map fun i => [(tFileId, i), (tHash, ph.2)])

/-- Python `d[k] = v` on an insertion-ordered dict -/
def dset (d : List (Str × Str)) (k v : Str) : List (Str × Str) :=
  match d with
  | [] => [(k, v)]
  | (a, b) :: r => if a = k then (a, v) :: r else (a, b) :: dset r k v

def dget (d : List (Str × Str)) (k : Str) : Option Str :=
  match d with
  | [] => none
  | (a, b) :: r => if a = k then some b else dget r k

/-- `Stanza.get(tag)`: the first value -/
def sgetFirst (s : Stanza) (tag : Str) : Option Str :=
  match s.find? fun p => p.1 == tag with
  | some p => some p.2
  | none => none

/-- the loop of `merge_modified` over the stanzas (`none`: a stanza lacks
`file_id` or `hash` — the real code raises KeyError) -/
def mmLoop (tree : List TFile) : List Stanza → List (Str × Str) → Option (List (Str × Str))
  | [], acc => some acc
  | s :: rest, acc =>
    match sgetFirst s tFileId, sgetFirst s tHash with
    | some i, some h =>
      match id2file tree i with
      | none => mmLoop tree rest acc
      | some f => if some h = f.sha then mmLoop tree rest (dset acc f.path h) else mmLoop tree rest acc
    | _, _ => none

def getMergeModified (tree : List TFile) (file : Option Str) : Except Err (List (Str × Str)) :=
  match getRio mergeHeader file with
  | .error .format => .error .format
  | .error e => .error e
  | .ok ss =>
    match mmLoop tree ss [] with
    | some d => .ok d
    | none => .error .key

/-! ## selection -/

/-- components of a path as `std::path::Path::components` sees them: empty and
`.` segments vanish, except a leading `/` (root) and a leading `.` -/
def splitSlash : Str → List Str
  | [] => [[]]
  | c :: r =>
    if c = '/' then [] :: splitSlash r
    else
      match splitSlash r with
      | l :: ls => (c :: l) :: ls
      | [] => [[c]]

def components (p : Str) : List Str :=
  let segs := splitSlash p
  let keep := fun (s : Str) => !s.isEmpty && s != ['.']
  match segs with
  | [] :: rest => if p.isEmpty then [] else ['/'] :: rest.filter keep
  | ['.'] :: rest => ['.'] :: rest.filter keep
  | _ => segs.filter keep

/-- `osutils.is_inside(dir, fname)` = `Path::starts_with` -/
def isInside (dir fname : Str) : Bool := (components dir).isPrefixOf (components fname)

def isInsideAny (dirs : List Str) (fname : Str) : Bool := dirs.any fun d => isInside d fname

/-- is this conflict selected by `paths`?  `ids` = file ids of those `paths`
that are versioned (`tree.path2id`) -/
def isSelected (paths : List Str) (ids : List Str) (recurse : Bool) (c : Conflict) : Bool :=
  let byPath := fun (o : Option Str) =>
    match o with
    | none => false
    | some cp => paths.contains cp || (recurse && isInsideAny paths cp)
  let byId := fun (o : Option Str) =>
    match o with
    | none => false
    | some i => ids.contains i
  byPath (some c.path) || byPath c.conflictPath || byId c.fileId || byId c.conflictFileId

/-- the loop of `select_conflicts`: (not selected, selected) -/
def selectLoop (paths ids : List Str) (recurse : Bool) :
    List Conflict → List Conflict × List Conflict → List Conflict × List Conflict
  | [], acc => acc
  | c :: rest, (new, sel) =>
    if isSelected paths ids recurse c then selectLoop paths ids recurse rest (new, sel ++ [c])
    else selectLoop paths ids recurse rest (new ++ [c], sel)

def selectConflicts (tree : List (Str × Str)) (paths : List Str) (recurse : Bool) (cs : List Conflict) :
    List Conflict × List Conflict :=
  let ids := paths.filterMap fun p => (tree.find? fun e => e.1 == p).map (·.2)
  selectLoop paths ids recurse cs ([], [])

/-- `resolve(tree, paths, action=…)` on the conflicts file for an arbitrary
action: `handles c = false` means `c.do(action, tree)` raises
NotImplementedError (no `action_<name>` method, or the base-class stub), and
the conflict is appended to the kept ones (`new_conflicts.append(conflict)`);
otherwise the conflict is processed and dropped.  `paths = none`: everything is
processed. -/
def resolveWith (handles : Conflict → Bool) (tree : List (Str × Str)) (paths : Option (List Str))
    (recurse : Bool) (file : Option Str) : Except Err (Option Str) :=
  match getConflicts file with
  | .error e => .error e
  | .ok cs =>
    let (new, toProcess) := match paths with
      | none => ([], cs)
      | some ps => selectConflicts tree ps recurse cs
    .ok (setConflicts (new ++ toProcess.filter fun c => !handles c))

/-- `Conflict.do("auto")`: only `TextConflict` overrides `action_auto` (and that
one looks at the file: modelled by the caller through `textAuto`) -/
def handlesAuto (textAuto : Str → Bool) (c : Conflict) : Bool :=
  match c.ctype with
  | .text => textAuto c.path
  | _ => false

/-- `resolve(tree, paths, action="done")` on the conflicts file: the new file
content (`paths = none`: resolve everything); `action_done` is a no-op that
every class inherits -/
def resolveDone (tree : List (Str × Str)) (paths : Option (List Str)) (recurse : Bool)
    (file : Option Str) : Except Err (Option Str) :=
  match getConflicts file with
  | .error e => .error e
  | .ok cs =>
    let new := match paths with
      | none => []
      | some ps => (selectConflicts tree ps recurse cs).1
    .ok (setConflicts new)

end BreezyVerif.C20
