import BreezyVerif.Lemmas.C43B
/-!
C43 — helper lemmas, part 3: the children-first discipline finishes the
pending renames in the order of the new paths, a permutation of the staging
order.
-/
namespace BreezyVerif.C43

theorem perm_insertByNew (x : Nat × Path) (l : List (Nat × Path)) : (insertByNew x l).Perm (x :: l) := by
  induction l with
  | nil => exact List.Perm.refl _
  | cons y r ih =>
    unfold insertByNew
    split
    · exact List.Perm.refl _
    · exact ((List.Perm.cons y ih).trans (List.Perm.swap x y r))

theorem perm_sortByNew (l : List (Nat × Path)) : (sortByNew l).Perm l := by
  unfold sortByNew
  induction l with
  | nil => exact List.Perm.refl _
  | cons x r ih =>
    simp only [List.foldr_cons]
    exact (perm_insertByNew x _).trans (List.Perm.cons x ih)

/-- the move a pending top-level rename stands for -/
def pendMove (p : Nat × Path) : String × String :=
  (sname p.1, match p.2 with | [n] => n | _ => "")

theorem pendMove_pendOf (rs : List (String × String)) (k : Nat) :
    (pendOf rs k).map pendMove = finishMoves rs k := by
  induction rs generalizing k with
  | nil => rfl
  | cons r rs ih =>
    obtain ⟨o, n⟩ := r
    simp only [pendOf, List.map_cons, finishMoves, ih]
    simp [pendMove]

def TopLevel (l : List (Nat × Path)) : Prop := ∀ p ∈ l, ∃ n, p.2 = [n]

theorem topLevel_pendOf (rs : List (String × String)) (k : Nat) : TopLevel (pendOf rs k) := by
  induction rs generalizing k with
  | nil => intro p hp; cases hp
  | cons r rs ih =>
    obtain ⟨o, n⟩ := r
    intro p hp
    simp only [pendOf] at hp
    rcases List.mem_cons.mp hp with rfl | h
    · exact ⟨n, rfl⟩
    · exact ih (k + 1) p h

/-- finishing any list of pending top-level renames = running their moves -/
theorem finishRen_eq_moves (root : Node) (l : List (Nat × Path)) (h : TopLevel l) :
    finishRen root l = seqRename root (l.map pendMove) := by
  induction l generalizing root with
  | nil => rfl
  | cons p l ih =>
    obtain ⟨k, path⟩ := p
    obtain ⟨n, hn⟩ := h (k, path) List.mem_cons_self
    simp only at hn
    subst hn
    have e : pendMove (k, [n]) = (sname k, n) := by simp [pendMove]
    simp only [List.map_cons, e, finishRen, seqRename, stamp_eq]
    cases tRename root [sname k] [n] with
    | error e => rfl
    | ok r1 => exact ih r1 (fun q hq => h q (List.mem_cons_of_mem _ hq))

theorem Independent.perm {l l' : List (String × String)} (hp : l.Perm l') (h : Independent l) :
    Independent l' := by
  obtain ⟨h1, h2, h3⟩ := h
  refine ⟨(List.Perm.nodup_iff (hp.map _)).mp h1, (List.Perm.nodup_iff (hp.map _)).mp h2, ?_⟩
  intro a ha hb
  exact h3 a ((hp.map _).mem_iff.mpr ha) ((hp.map _).mem_iff.mpr hb)

end BreezyVerif.C43
