#!/bin/bash
# tools/try_seed_head.sh Cxx [suffix]: apply the seeded patch of /var/tmp/seed-Cxx<suffix> on a fresh worktree of
# /repo HEAD (so fixes committed after the seed was made are present) and run check Cxx against it.
p=$1; s=$2; n=sh-$p$s; cd /verif
tools/mkworktree.sh $n >/dev/null
( cd /var/tmp/wt-$n && git apply --3way /var/tmp/seed-$p$s/patch.diff >/dev/null 2>&1 || echo "PATCH-DID-NOT-APPLY" )
# Rust seeds: reuse the seed's rebuilt .so files
if (cd /var/tmp/seed-$p$s && git diff --name-only | grep -q '^crates/'); then cp /var/tmp/seed-$p$s/breezy/*.so /var/tmp/wt-$n/breezy/; fi
VERIF_SEED=${VERIF_SEED:-1} VERIF_REPO=/var/tmp/wt-$n /venv/bin/python harness/run.py $p 2>&1 | grep -E "^VIOLATION|tier=" | head -3
python3 - <<EOF
import json,os
f='/verif/replays/$p-${VERIF_SEED:-1}.json'
if os.path.exists(f):
    d=json.load(open(f)); print({k:str(v)[:350] for k,v in d.items() if k in ('what','family','kind')})
EOF
tools/rmworktree.sh $n
