import BreezyVerif.Lemmas.C44
import BreezyVerif.Lemmas.C44B
import BreezyVerif.Lemmas.C44C
import BreezyVerif.Lemmas.C44D
/-!
C44 — theorems.  Trees, histories (any length, any number of parents, ghosts) are
universally quantified; nothing is bounded.
-/
namespace BreezyVerif.C44

/-! ## one commit: file commands -/

/-- distinct file ids, distinct file paths -/
def WF (t : Tree) : Prop := (t.map (·.fid)).Nodup ∧ ((flat t).map (·.1)).Nodup

instance (t : Tree) : Decidable (WF t) := by unfold WF; exact inferInstance

/-- no entry that is present on both sides changed its name, parent, path or kind:
the commit only adds, deletes and modifies -/
def Stable (old new : Tree) : Prop :=
  ∀ o ∈ old, ∀ n ∈ new, o.fid = n.fid → o.own = n.own ∧ o.path = n.path ∧ o.dir = n.dir

theorem mods_eq (old new : Tree) : mods old new = (modPairs old new).map fun e => Cmd.mod e.1 e.2 := rfl

theorem modPairs_nodup (old new : Tree) (hn : WF new) : ((modPairs old new).map (·.1)).Nodup := by
  have hsub : List.Sublist (modPairs old new) (flat new) := by
    unfold modPairs flat
    exact List.Sublist.map _ List.filter_sublist
  exact List.Nodup.sublist (List.Sublist.map _ hsub) hn.2

/-- **Adds, deletes and modifications survive.**  For every pair of well-formed
trees in which no surviving entry moved, importing the exporter's file commands
on top of the old files gives exactly the new files. -/
theorem export_import_tree_norename (old new : Tree) (ho : WF old) (hn : WF new) (hs : Stable old new) :
    FlatEq (applyCmds (flat old) (exportCmds old new)) (flat new) := by
  -- no entry counts as renamed
  have hren : ownRenames old new = [] := by
    unfold ownRenames
    generalize hl : List.filterMap _ old = l
    have : l = [] := by
      rw [← hl]
      apply List.filterMap_eq_nil_iff.mpr
      intro o ho'
      cases hf : find new o.fid with
      | none => rfl
      | some n =>
        obtain ⟨hmem, hfid⟩ := find_some hf
        have := (hs o ho' n hmem hfid.symm).1
        simp [this]
    rw [this]; rfl
  have hcmds : exportCmds old new =
      (((removed old new).filter (!·.dir)).map (·.path)).map Cmd.del ++
        (modPairs old new).map (fun e => Cmd.mod e.1 e.2) := by
    unfold exportCmds
    simp only [hren, renamePass, List.nil_append, mods_eq]
    congr 1
    rw [List.map_map]
    congr 1
    apply List.filter_congr
    intro e he
    have : e.path ∈ (removed old new).map (·.path) := List.mem_map.mpr ⟨e, he, rfl⟩
    simp [this]
  intro q
  rw [hcmds, applyCmds_append]
  -- membership in the removed list
  have hrm : ∀ e, e ∈ removed old new ↔ e ∈ old ∧ find new e.fid = none := by
    intro e
    unfold removed
    rw [mem_sortBy, List.mem_filter]
    simp
  by_cases hq : q ∈ (modPairs old new).map (·.1)
  · -- a path that gets an `M`
    obtain ⟨⟨q', v⟩, hmem, rfl⟩ := List.mem_map.mp hq
    rw [lookup_mods_mem _ (modPairs_nodup old new hn) _ _ v hmem]
    unfold modPairs at hmem
    obtain ⟨n, hn', heq⟩ := List.mem_map.mp hmem
    injection heq with h1 h2
    have hn2 := List.mem_filter.mp (List.mem_filter.mp hn').1
    simp only [Bool.not_eq_true'] at hn2
    rw [← h1, ← h2]
    exact (lookup_flat_mem new hn.2 n hn2.1 hn2.2).symm
  · rw [lookup_mods_other _ _ _ hq, lookup_dels]
    -- is `q` the path of a new file?
    by_cases hex : ∃ n ∈ new, n.dir = false ∧ n.path = q
    · obtain ⟨n, hnm, hnd, rfl⟩ := hex
      rw [lookup_flat_mem new hn.2 n hnm hnd]
      -- it needs no `M`, so it existed with the same value
      have hnm' : needsMod old n = false := by
        cases h : needsMod old n with
        | false => rfl
        | true =>
          exfalso; apply hq
          unfold modPairs
          exact List.mem_map.mpr ⟨(n.path, n.val), List.mem_map.mpr ⟨n, List.mem_filter.mpr
            ⟨List.mem_filter.mpr ⟨hnm, by simp [hnd]⟩, h⟩, rfl⟩, rfl⟩
      unfold needsMod at hnm'
      cases hf : find old n.fid with
      | none => simp [hf] at hnm'
      | some o =>
        simp only [hf, ne_eq, decide_eq_false_iff_not, Decidable.not_not] at hnm'
        obtain ⟨hom, hofid⟩ := find_some hf
        obtain ⟨_, hpath, hdir⟩ := hs o hom n hnm hofid
        have hod : o.dir = false := by rw [hdir, hnd]
        -- not deleted: the only old file at this path is `o`, which survives
        have hnotdel : n.path ∉ ((removed old new).filter (!·.dir)).map (·.path) := by
          intro hin
          obtain ⟨e, he, hep⟩ := List.mem_map.mp hin
          have he' := List.mem_filter.mp he
          simp only [Bool.not_eq_true'] at he'
          obtain ⟨heo, hefind⟩ := (hrm e).mp he'.1
          -- e and o are old files with the same path, hence equal values … and e = o by path uniqueness
          have h1 := lookup_flat_mem old ho.2 e heo he'.2
          have h2 := lookup_flat_mem old ho.2 o hom hod
          -- show e.fid = o.fid through the position in the file list: use nodup of paths
          have hpe : e.path = o.path := by rw [hep, hpath]
          have : e = o := by
            have hflat : ∀ (l : Tree), ((flat l).map (·.1)).Nodup → ∀ a ∈ l, ∀ b ∈ l, a.dir = false → b.dir = false →
                a.path = b.path → a = b := by
              intro l
              induction l with
              | nil => intro _ a ha; cases ha
              | cons x xs ih =>
                intro hnd' a ha b hb had hbd hab
                unfold flat at hnd' ih
                cases hxd : x.dir with
                | true =>
                  simp only [List.filter_cons, hxd, Bool.not_true, Bool.false_eq_true, if_false] at hnd'
                  rcases List.mem_cons.mp ha with h | h
                  · subst h; rw [had] at hxd; cases hxd
                  · rcases List.mem_cons.mp hb with h' | h'
                    · subst h'; rw [hbd] at hxd; cases hxd
                    · exact ih hnd' a h b h' had hbd hab
                | false =>
                  simp only [List.filter_cons, hxd, Bool.not_false, if_true, List.map_cons, List.nodup_cons] at hnd'
                  have hin : ∀ c ∈ xs, c.dir = false → c.path ∈ ((xs.filter (!·.dir)).map fun e => (e.path, e.val)).map (·.1) := by
                    intro c hc hcd
                    exact List.mem_map.mpr ⟨(c.path, c.val), List.mem_map.mpr ⟨c, List.mem_filter.mpr ⟨hc, by simp [hcd]⟩, rfl⟩, rfl⟩
                  rcases List.mem_cons.mp ha with h | h
                  · rcases List.mem_cons.mp hb with h' | h'
                    · rw [h, h']
                    · subst h; exact absurd (hab ▸ hin b h' hbd) hnd'.1
                  · rcases List.mem_cons.mp hb with h' | h'
                    · subst h'; exact absurd (hab ▸ hin a h had) hnd'.1
                    · exact ih hnd'.2 a h b h' had hbd hab
            exact hflat old ho.2 e heo o hom he'.2 hod hpe
          subst this
          have := find_none hefind n hnm
          exact this hofid.symm
        rw [if_neg hnotdel, ← hpath, lookup_flat_mem old ho.2 o hom hod, hnm']
    · -- not a new file path: it must end up absent
      have hnone : lookup (flat new) q = none :=
        lookup_flat_none new q (fun e he hd hp => hex ⟨e, he, hd, hp⟩)
      rw [hnone]
      by_cases hdel : q ∈ ((removed old new).filter (!·.dir)).map (·.path)
      · simp [hdel]
      · rw [if_neg hdel]
        apply lookup_flat_none
        intro o hom hod hop
        -- an old file at q: it survives (else it would be deleted), so q is a new file path
        cases hf : find new o.fid with
        | none =>
          apply hdel
          exact List.mem_map.mpr ⟨o, List.mem_filter.mpr ⟨(hrm o).mpr ⟨hom, hf⟩, by simp [hod]⟩, hop⟩
        | some n =>
          obtain ⟨hnm, hnfid⟩ := find_some hf
          obtain ⟨_, hpath, hdir⟩ := hs o hom n hnm hnfid.symm
          exact hex ⟨n, hnm, by rw [← hdir, hod], by rw [← hpath, hop]⟩

/-! ### commits with renames -/

/-- an entry whose own (parent, name) is unchanged keeps its path and kind (nothing
sits below a renamed directory); an entry whose own changed is a file or symlink
on both sides (no directory is renamed) -/
def RenOK (old new : Tree) : Prop :=
  ∀ o ∈ old, ∀ n ∈ new, o.fid = n.fid →
    (o.own = n.own → o.path = n.path ∧ o.dir = n.dir) ∧ (o.own ≠ n.own → o.dir = false ∧ n.dir = false)

/-- no rename chain, cycle or swap: the new path of a renamed entry is not the old
path of a renamed entry -/
def NoChain (old new : Tree) : Prop :=
  ∀ a ∈ ownRenames old new, ∀ b ∈ ownRenames old new, a.2.path ≠ b.1.path

theorem ownRenames_indep (old new : Tree) (ho : WF old) (hn : WF new) (hr : RenOK old new) (hc : NoChain old new) :
    Indep (ownRenames old new) := by
  refine ⟨?_, hc⟩
  have hfid := ownRenames_fids old new ho.1
  -- membership facts for every pair
  have hmem : ∀ pr ∈ ownRenames old new, pr.1 ∈ old ∧ pr.2 ∈ new ∧ pr.2.fid = pr.1.fid ∧ pr.1.dir = false ∧ pr.2.dir = false := by
    rintro ⟨o, n⟩ hpr
    obtain ⟨h1, h2, h3⟩ := (mem_ownRenames old new o n).mp hpr
    obtain ⟨h4, h5⟩ := find_some h2
    obtain ⟨h6, h7⟩ := (hr o h1 n h4 h5.symm).2 h3
    exact ⟨h1, h4, h5, h6, h7⟩
  -- strengthen the pairwise statement with membership
  have : (ownRenames old new).Pairwise fun a b => a ∈ ownRenames old new ∧ b ∈ ownRenames old new ∧ a.1.fid ≠ b.1.fid := by
    rw [List.pairwise_iff_forall_sublist] at hfid ⊢
    intro a b hab
    exact ⟨hab.subset (by simp), hab.subset (by simp), hfid hab⟩
  refine this.imp ?_
  rintro a b ⟨ha, hb, hne⟩
  obtain ⟨a1, a2, a3, a4, a5⟩ := hmem a ha
  obtain ⟨b1, b2, b3, b4, b5⟩ := hmem b hb
  constructor
  · intro he
    exact hne (congrArg Ent.fid (file_path_inj old ho.2 a.1 a1 b.1 b1 a4 b4 he))
  · intro he
    have := congrArg Ent.fid (file_path_inj new hn.2 a.2 a2 b.2 b2 a5 b5 he)
    rw [a3, b3] at this
    exact hne this

/-- **Renames survive** (no chains, no directory renames).  For every pair of
well-formed trees in which the renamed entries are files or symlinks whose new
paths avoid the old path of every renamed entry, and every other surviving
entry keeps its path (`RenOK`, `NoChain`) - together with any adds, deletes,
modifications, renames onto the path of a deleted entry (`D new`, `R old new`)
and modifications of renamed entries - importing the exporter's file commands on
top of the old files gives exactly the new files.

Partial: rename chains / swaps and renamed directories are excluded; they are
exactly the two witnesses below (`rename_swap_witness`,
`directory_rename_witness`), where the statement is false.  The statement is
about the importer on path space; the real importer additionally mishandles a
NEW entry at the path a rename vacates (known finding
import-new-entry-at-path-vacated-by-rename), which the correspondence check
excludes and the oracle reports. -/
theorem export_import_tree_rename_partial (old new : Tree) (ho : WF old) (hn : WF new)
    (hr : RenOK old new) (hc : NoChain old new) :
    FlatEq (applyCmds (flat old) (exportCmds old new)) (flat new) := by
  have hind := ownRenames_indep old new ho hn hr hc
  -- facts about the renamed pairs
  have hR : ∀ o n, (o, n) ∈ ownRenames old new →
      o ∈ old ∧ n ∈ new ∧ n.fid = o.fid ∧ o.own ≠ n.own ∧ o.dir = false ∧ n.dir = false := by
    intro o n hpr
    obtain ⟨h1, h2, h3⟩ := (mem_ownRenames old new o n).mp hpr
    obtain ⟨h4, h5⟩ := find_some h2
    obtain ⟨h6, h7⟩ := (hr o h1 n h4 h5.symm).2 h3
    exact ⟨h1, h4, h5, h3, h6, h7⟩
  have hrm : ∀ e, e ∈ removed old new ↔ e ∈ old ∧ find new e.fid = none := by
    intro e
    unfold removed
    rw [mem_sortBy, List.mem_filter]
    simp
  -- the command list in three phases
  have hcmds : exportCmds old new =
      (renamePass (ownRenames old new) ((removed old new).map (·.path))).1 ++
      (((removed old new).filter fun e => !e.dir && decide (e.path ∈
          (renamePass (ownRenames old new) ((removed old new).map (·.path))).2)).map (·.path)).map Cmd.del ++
      (modPairs old new).map (fun e => Cmd.mod e.1 e.2) := by
    unfold exportCmds
    simp only [mods_eq, List.map_map]
    rfl
  -- the delete phase, by path
  have hdel : ∀ q, q ∈ (((removed old new).filter fun e => !e.dir && decide (e.path ∈
          (renamePass (ownRenames old new) ((removed old new).map (·.path))).2)).map (·.path)) ↔
      (∃ e ∈ old, find new e.fid = none ∧ e.dir = false ∧ e.path = q) ∧ ∀ pr ∈ ownRenames old new, pr.2.path ≠ q := by
    intro q
    simp only [List.mem_map, List.mem_filter, Bool.and_eq_true, Bool.not_eq_true', decide_eq_true_eq, renamePass_dels, hrm]
    constructor
    · rintro ⟨e, ⟨⟨he1, he2⟩, he3, _, he5⟩, rfl⟩
      exact ⟨⟨e, he1, he2, he3, rfl⟩, he5⟩
    · rintro ⟨⟨e, he1, he2, he3, rfl⟩, h5⟩
      exact ⟨e, ⟨⟨he1, he2⟩, he3, ⟨e, ⟨he1, he2⟩, rfl⟩, h5⟩, rfl⟩
  intro q
  rw [hcmds, applyCmds_append, applyCmds_append]
  -- phase 1: the renames
  have h1 : ∀ p, lookup (applyCmds (flat old) (renamePass (ownRenames old new) ((removed old new).map (·.path))).1) p
      = renSpec (flat old) (ownRenames old new) p :=
    renamePass_apply _ _ _ hind (fun pr hpr => (hR pr.1 pr.2 hpr).2.2.2.2.2)
      (fun pr hpr => lookup_flat_mem old ho.2 pr.1 (hR pr.1 pr.2 hpr).1 (hR pr.1 pr.2 hpr).2.2.2.2.1)
  by_cases hq : q ∈ (modPairs old new).map (·.1)
  · -- a path that gets an `M`
    obtain ⟨⟨q', v⟩, hmem, rfl⟩ := List.mem_map.mp hq
    rw [lookup_mods_mem _ (modPairs_nodup old new hn) _ _ v hmem]
    unfold modPairs at hmem
    obtain ⟨n, hn', heq⟩ := List.mem_map.mp hmem
    injection heq with e1 e2
    have hn2 := List.mem_filter.mp (List.mem_filter.mp hn').1
    simp only [Bool.not_eq_true'] at hn2
    rw [← e1, ← e2]
    exact (lookup_flat_mem new hn.2 n hn2.1 hn2.2).symm
  · rw [lookup_mods_other _ _ _ hq, lookup_dels, h1]
    by_cases hex : ∃ n ∈ new, n.dir = false ∧ n.path = q
    · -- the path of a new file that needs no `M`: it existed with the same value
      obtain ⟨n, hnm, hnd, rfl⟩ := hex
      rw [lookup_flat_mem new hn.2 n hnm hnd]
      have hnm' : needsMod old n = false := by
        cases h : needsMod old n with
        | false => rfl
        | true =>
          exfalso; apply hq
          unfold modPairs
          exact List.mem_map.mpr ⟨(n.path, n.val), List.mem_map.mpr ⟨n, List.mem_filter.mpr
            ⟨List.mem_filter.mpr ⟨hnm, by simp [hnd]⟩, h⟩, rfl⟩, rfl⟩
      unfold needsMod at hnm'
      cases hf : find old n.fid with
      | none => simp [hf] at hnm'
      | some o =>
        simp only [hf, ne_eq, decide_eq_false_iff_not, Decidable.not_not] at hnm'
        obtain ⟨hom, hofid⟩ := find_some hf
        have hfn : find new o.fid = some n := by rw [hofid]; exact find_of_mem hn.1 hnm
        by_cases hown : o.own = n.own
        · -- not renamed: same path, neither source nor target of a rename, not deleted
          obtain ⟨hpath, hdir⟩ := (hr o hom n hnm hofid).1 hown
          have hod : o.dir = false := by rw [hdir, hnd]
          have hnt : ∀ pr ∈ ownRenames old new, pr.2.path ≠ n.path := by
            rintro ⟨o', n'⟩ hpr he
            obtain ⟨a1, a2, a3, a4, a5, a6⟩ := hR o' n' hpr
            have hnn : n' = n := file_path_inj new hn.2 n' a2 n hnm a6 hnd he
            have hfe : o'.fid = o.fid := by rw [← a3, hnn, hofid]
            have hoo : o' = o := by
              have h1' := find_of_mem ho.1 a1
              rw [hfe, find_of_mem ho.1 hom] at h1'
              exact (Option.some.inj h1').symm
            rw [hoo, hnn] at a4
            exact a4 hown
          have hns : ¬ ∃ pr ∈ ownRenames old new, pr.1.path = n.path := by
            rintro ⟨⟨o', n'⟩, hpr, he⟩
            obtain ⟨a1, a2, a3, a4, a5, a6⟩ := hR o' n' hpr
            simp only at he
            have : o' = o := file_path_inj old ho.2 o' a1 o hom a5 hod (he.trans hpath.symm)
            subst this
            have : find new o'.fid = some n' := ((mem_ownRenames old new o' n').mp hpr).2.1
            rw [hfn] at this
            cases this
            exact a4 hown
          have hnotdel : n.path ∉ (((removed old new).filter fun e => !e.dir && decide (e.path ∈
              (renamePass (ownRenames old new) ((removed old new).map (·.path))).2)).map (·.path)) := by
            rw [hdel]
            rintro ⟨⟨e, he1, he2, he3, he4⟩, _⟩
            have : e = o := file_path_inj old ho.2 e he1 o hom he3 hod (he4.trans hpath.symm)
            subst this
            rw [hfn] at he2; cases he2
          rw [if_neg hnotdel, renSpec_other _ _ _ hnt, if_neg hns, ← hpath, lookup_flat_mem old ho.2 o hom hod, hnm']
        · -- renamed: the rename carries the value over
          have hpr : (o, n) ∈ ownRenames old new := (mem_ownRenames old new o n).mpr ⟨hom, hfn, hown⟩
          have hnotdel : n.path ∉ (((removed old new).filter fun e => !e.dir && decide (e.path ∈
              (renamePass (ownRenames old new) ((removed old new).map (·.path))).2)).map (·.path)) := by
            rw [hdel]
            rintro ⟨_, h5⟩
            exact h5 (o, n) hpr rfl
          rw [if_neg hnotdel, renSpec_target _ _ hind o n hpr, hnm']
    · -- not the path of a new file: absent afterwards
      have hnone : lookup (flat new) q = none :=
        lookup_flat_none new q (fun e he hd hp => hex ⟨e, he, hd, hp⟩)
      rw [hnone]
      split
      · rfl
      · rename_i hnd
        have hnt : ∀ pr ∈ ownRenames old new, pr.2.path ≠ q := by
          rintro ⟨o', n'⟩ hpr he
          obtain ⟨a1, a2, a3, a4, a5, a6⟩ := hR o' n' hpr
          exact hex ⟨n', a2, a6, he⟩
        rw [renSpec_other _ _ _ hnt]
        split
        · rfl
        · rename_i hns
          apply lookup_flat_none
          intro o hom hod hop
          -- an old file at q that is no rename source: it survives unrenamed (then q is a new
          -- file path) or it is removed (then q is deleted)
          cases hf : find new o.fid with
          | none =>
            apply hnd
            rw [hdel]
            exact ⟨⟨o, hom, hf, hod, hop⟩, hnt⟩
          | some n =>
            obtain ⟨hnm, hnfid⟩ := find_some hf
            by_cases hown : o.own = n.own
            · obtain ⟨hpath, hdir⟩ := (hr o hom n hnm hnfid.symm).1 hown
              exact hex ⟨n, hnm, by rw [← hdir, hod], by rw [← hpath, hop]⟩
            · exact hns ⟨(o, n), (mem_ownRenames old new o n).mpr ⟨hom, hf, hown⟩, hop⟩

/-- a rename, a rename onto the path of a deleted file, a modified renamed file, an add, a deletion and a
plain modification in one commit satisfy the hypotheses -/
example :
    let old : Tree := [⟨1, 1, 11, false, 100⟩, ⟨2, 2, 12, false, 200⟩, ⟨3, 3, 13, false, 300⟩, ⟨4, 4, 14, false, 400⟩,
      ⟨5, 5, 15, false, 500⟩, ⟨6, 6, 16, true, 0⟩, ⟨7, 7, 17, false, 700⟩]
    let new : Tree := [⟨1, 8, 18, false, 100⟩, ⟨2, 3, 13, false, 201⟩, ⟨4, 4, 14, false, 401⟩, ⟨6, 6, 16, true, 0⟩,
      ⟨7, 7, 17, false, 700⟩, ⟨9, 9, 19, false, 900⟩]
    WF old ∧ WF new ∧ RenOK old new ∧ NoChain old new ∧
    exportCmds old new = [.ren 1 8, .del 3, .ren 2 3, .del 5, .mod 3 201, .mod 4 401, .mod 9 900] := by
  refine ⟨by decide, by decide, by unfold RenOK; decide, by unfold NoChain; decide +kernel, by decide +kernel⟩

/-! ### the exporter's defects, as witnesses on concrete trees -/

/-- two files exchange their names: `R 1 2`, `R 2 1` loses one of them -/
theorem rename_swap_witness :
    let old : Tree := [⟨1, 1, 11, false, 100⟩, ⟨2, 2, 12, false, 200⟩]
    let new : Tree := [⟨1, 2, 12, false, 100⟩, ⟨2, 1, 11, false, 200⟩]
    exportCmds old new = [.ren 1 2, .ren 2 1] ∧
    applyCmds (flat old) (exportCmds old new) = [(1, 100)] ∧ lookup (flat new) 2 = some 100 := by
  decide +kernel

/-- a directory (entry 1, path 1 → 4) is renamed; its child (entry 2, own unchanged,
path 2 → 5) gets no command in the plain format and stays at the old path -/
theorem directory_rename_witness :
    let old : Tree := [⟨1, 1, 11, true, 0⟩, ⟨2, 2, 12, false, 100⟩]
    let new : Tree := [⟨1, 4, 14, true, 0⟩, ⟨2, 5, 12, false, 100⟩]
    exportCmds old new = [] ∧ lookup (applyCmds (flat old) (exportCmds old new)) 5 = none ∧
    lookup (flat new) 5 = some 100 := by
  decide +kernel

/-! ## the whole history -/

/-- the export order is topological: every parent position is smaller than the commit's own -/
def Topo (h : List Commit) : Prop := ∀ i (hi : i < h.length), ∀ p ∈ (h[i]'hi).parents, p ≤ i

/-- what the imported revision at position `i` should be -/
def expected (h : List Commit) (c : Commit) (files : Flat) : Rev :=
  { parents := c.parents.filter (· ≠ 0), files := files, info := c.info }

theorem importStep_ok (done : List Rev) (x : XCommit) (hm : ∀ m ∈ marksOf x, m ≠ 0 ∧ m ≤ done.length) :
    importStep done x = .ok (done ++ [{
      parents := marksOf x, files := applyCmds (baseOf done x) x.cmds, info := x.info }]) := by
  have : (marksOf x).any (badMark done) = false := by
    rw [List.any_eq_false]
    intro m hmem
    have := hm m hmem
    simp only [badMark, Bool.or_eq_true, beq_iff_eq, decide_eq_true_eq, not_or, Nat.not_lt]
    exact this
  simp [importStep, this]

theorem marks_eq (h : List Commit) (c : Commit) : marksOf (exportOne h c) = c.parents.filter (· ≠ 0) := by
  unfold marksOf exportOne
  simp only
  cases c.parents.filter (· ≠ 0) <;> simp

/-- **Graph shape, metadata and order survive, for every history.**  Importing the
exported stream of a topologically ordered history never meets an unknown mark
and yields one revision per commit, in order, whose parents are the positions of
the non-ghost parents and whose metadata is the commit's. -/
theorem import_export_graph (h : List Commit) (ht : Topo h) :
    ∃ rs, importAll (exportAll h) = .ok rs ∧ rs.length = h.length ∧
      ∀ i (hi : i < h.length) (hr : i < rs.length),
        (rs[i]'hr).parents = (h[i]'hi).parents.filter (· ≠ 0) ∧ (rs[i]'hr).info = (h[i]'hi).info := by
  -- generalise over prefixes of the stream
  suffices H : ∀ k, k ≤ h.length → ∃ rs, ((exportAll h).take k).foldlM importStep [] = .ok rs ∧ rs.length = k ∧
      ∀ i (hi : i < h.length) (hr : i < rs.length),
        (rs[i]'hr).parents = (h[i]'hi).parents.filter (· ≠ 0) ∧ (rs[i]'hr).info = (h[i]'hi).info by
    obtain ⟨rs, h1, h2, h3⟩ := H h.length (Nat.le_refl _)
    refine ⟨rs, ?_, h2, h3⟩
    unfold importAll
    have : (exportAll h).length = h.length := by simp [exportAll]
    rw [← this, List.take_length] at h1
    exact h1
  intro k
  induction k with
  | zero => intro _; exact ⟨[], rfl, rfl, fun i _ hr => absurd hr (by simp)⟩
  | succ k ih =>
    intro hk
    have hk' : k < h.length := hk
    obtain ⟨rs, h1, h2, h3⟩ := ih (Nat.le_of_lt hk')
    have hlen : (exportAll h).length = h.length := by simp [exportAll]
    have hx : (exportAll h).take (k + 1) = (exportAll h).take k ++ [exportOne h (h[k]'hk')] := by
      rw [List.take_succ]
      have : (exportAll h)[k]? = some (exportOne h (h[k]'hk')) := by
        simp [exportAll, List.getElem?_map, List.getElem?_eq_getElem hk']
      simp [this]
    rw [hx, foldlM_append_single, h1]
    simp only [bind, Except.bind]
    -- the marks of commit k are known
    have hmarks : ∀ m ∈ marksOf (exportOne h (h[k]'hk')), m ≠ 0 ∧ m ≤ rs.length := by
      intro m hm
      have hm' : m ∈ (h[k]'hk').parents.filter (· ≠ 0) := by
        rw [marks_eq] at hm
        exact hm
      have := List.mem_filter.mp hm'
      refine ⟨by simpa using this.2, ?_⟩
      rw [h2]
      exact ht k hk' m this.1
    rw [importStep_ok rs _ hmarks]
    refine ⟨_, rfl, by simp [h2], ?_⟩
    intro i hi hr
    by_cases hik : i < rs.length
    · have := h3 i hi hik
      simp only [List.getElem_append_left hik]
      exact this
    · have hieq : i = rs.length := by
        simp only [List.length_append, List.length_singleton] at hr
        omega
      subst hieq
      simp only [List.getElem_append_right (Nat.le_refl _), Nat.sub_self, List.getElem_singleton]
      have hkk : rs.length = k := h2
      constructor
      · simp only [hkk]
        exact marks_eq h (h[k]'hk')
      · simp only [exportOne, hkk]


/-- the file commands of commit `c` reproduce its files from its first parent's,
and that first parent is exported (not a ghost) -/
def CommitOK (h : List Commit) (c : Commit) : Prop :=
  (c.parents.filter (· ≠ 0)).head? = c.parents.head? ∧
  FlatEq (applyCmds (flat (treeAt h (c.parents.head?.getD 0)))
      (exportCmds (treeAt h (c.parents.head?.getD 0)) c.tree)) (flat c.tree)

/-- **Isomorphism.**  For every topologically ordered history in which every
commit's file commands are faithful (`CommitOK`: proved for commits that add,
delete and modify — `export_import_tree_norename`; refuted for name swaps and for
directory renames — the two witnesses), the imported history is isomorphic to the
exported one: position ↦ imported revision preserves parents (ghosts dropped),
metadata and the files of every tree. -/
theorem import_export_iso_partial (h : List Commit) (ht : Topo h) (hok : ∀ c ∈ h, CommitOK h c) :
    ∃ rs, importAll (exportAll h) = .ok rs ∧ rs.length = h.length ∧
      ∀ i (hi : i < h.length) (hr : i < rs.length),
        (rs[i]'hr).parents = (h[i]'hi).parents.filter (· ≠ 0) ∧ (rs[i]'hr).info = (h[i]'hi).info ∧
        FlatEq (rs[i]'hr).files (flat (h[i]'hi).tree) := by
  suffices H : ∀ k, k ≤ h.length → ∃ rs, ((exportAll h).take k).foldlM importStep [] = .ok rs ∧ rs.length = k ∧
      ∀ i (hi : i < h.length) (hr : i < rs.length),
        (rs[i]'hr).parents = (h[i]'hi).parents.filter (· ≠ 0) ∧ (rs[i]'hr).info = (h[i]'hi).info ∧
        FlatEq (rs[i]'hr).files (flat (h[i]'hi).tree) by
    obtain ⟨rs, h1, h2, h3⟩ := H h.length (Nat.le_refl _)
    refine ⟨rs, ?_, h2, h3⟩
    unfold importAll
    have : (exportAll h).length = h.length := by simp [exportAll]
    rw [← this, List.take_length] at h1
    exact h1
  intro k
  induction k with
  | zero => intro _; exact ⟨[], rfl, rfl, fun i _ hr => absurd hr (by simp)⟩
  | succ k ih =>
    intro hk
    have hk' : k < h.length := hk
    obtain ⟨rs, h1, h2, h3⟩ := ih (Nat.le_of_lt hk')
    have hx : (exportAll h).take (k + 1) = (exportAll h).take k ++ [exportOne h (h[k]'hk')] := by
      rw [List.take_succ]
      have : (exportAll h)[k]? = some (exportOne h (h[k]'hk')) := by
        simp [exportAll, List.getElem?_map, List.getElem?_eq_getElem hk']
      simp [this]
    rw [hx, foldlM_append_single, h1]
    simp only [bind, Except.bind]
    have hmarks : ∀ m ∈ marksOf (exportOne h (h[k]'hk')), m ≠ 0 ∧ m ≤ rs.length := by
      intro m hm
      have hm' : m ∈ (h[k]'hk').parents.filter (· ≠ 0) := by
        rw [marks_eq] at hm
        exact hm
      have := List.mem_filter.mp hm'
      refine ⟨by simpa using this.2, ?_⟩
      rw [h2]
      exact ht k hk' m this.1
    rw [importStep_ok rs _ hmarks]
    refine ⟨_, rfl, by simp [h2], ?_⟩
    intro i hi hr
    by_cases hik : i < rs.length
    · have := h3 i hi hik
      simp only [List.getElem_append_left hik]
      exact this
    · have hieq : i = rs.length := by
        simp only [List.length_append, List.length_singleton] at hr
        omega
      subst hieq
      simp only [List.getElem_append_right (Nat.le_refl _), Nat.sub_self, List.getElem_singleton]
      have hkk : rs.length = k := h2
      refine ⟨?_, ?_, ?_⟩
      · simp only [hkk]
        exact marks_eq h (h[k]'hk')
      · simp only [exportOne, hkk]
      · -- the files: start from the imported first parent, which matches the exported one
        simp only [hkk]
        obtain ⟨hhead, hfaith⟩ := hok (h[k]'hk') (List.getElem_mem hk')
        have hbase : FlatEq (baseOf rs (exportOne h (h[k]'hk')))
            (flat (treeAt h ((h[k]'hk').parents.head?.getD 0))) := by
          unfold baseOf
          simp only [exportOne, hhead]
          cases hp : (h[k]'hk').parents.head? with
          | none => intro q; simp [treeAt, flat, lookup]
          | some f =>
            simp only [Option.getD_some]
            have hfmem : f ∈ (h[k]'hk').parents := List.mem_of_head? hp
            have hfne : f ≠ 0 := by
              have : (List.filter (fun x => decide (x ≠ 0)) (h[k]'hk').parents).head? = some f := by rw [hhead, hp]
              have := List.mem_of_head? this
              simpa using (List.mem_filter.mp this).2
            have hfle : f ≤ k := ht k hk' f hfmem
            have hf1 : f - 1 < rs.length := by omega
            have hf2 : f - 1 < h.length := by omega
            have := (h3 (f - 1) hf2 hf1).2.2
            simp only [List.getElem?_eq_getElem hf1, treeAt, hfne, if_false, List.getElem?_eq_getElem hf2]
            exact this
        intro q
        rw [applyCmds_congr hbase _ q]
        exact hfaith q

instance (old new : Tree) : Decidable (RenOK old new) := by unfold RenOK; exact inferInstance

instance (old new : Tree) : Decidable (NoChain old new) := by unfold NoChain; exact inferInstance

/-- the first parent of the commit is exported (it is no ghost), both trees are
well formed and the changes are in the domain of `export_import_tree_rename_partial` -/
def CommitFine (h : List Commit) (c : Commit) : Prop :=
  (c.parents.filter (· ≠ 0)).head? = c.parents.head? ∧
  WF (treeAt h (c.parents.head?.getD 0)) ∧ WF c.tree ∧
  RenOK (treeAt h (c.parents.head?.getD 0)) c.tree ∧ NoChain (treeAt h (c.parents.head?.getD 0)) c.tree

instance (h : List Commit) (c : Commit) : Decidable (CommitFine h c) := by unfold CommitFine; exact inferInstance

theorem CommitFine.ok {h : List Commit} {c : Commit} (hf : CommitFine h c) : CommitOK h c :=
  ⟨hf.1, export_import_tree_rename_partial _ _ hf.2.1 hf.2.2.1 hf.2.2.2.1 hf.2.2.2.2⟩

/-- **Isomorphism, unconditionally on the commands.**  For every topologically
ordered history (any length, merges with any number of parents, ghost parents
after the first) whose commits only add, delete, modify and rename files and
symlinks without chains (`CommitFine`, a decidable condition on the trees - no
assumption about the exporter or importer), the imported history is isomorphic
to the exported one: same parents (ghosts dropped), same metadata, same files
in every tree.

Partial: commits with rename chains / swaps or renamed directories are excluded
(the two witnesses). -/
theorem import_export_iso_of_fine_partial (h : List Commit) (ht : Topo h) (hf : ∀ c ∈ h, CommitFine h c) :
    ∃ rs, importAll (exportAll h) = .ok rs ∧ rs.length = h.length ∧
      ∀ i (hi : i < h.length) (hr : i < rs.length),
        (rs[i]'hr).parents = (h[i]'hi).parents.filter (· ≠ 0) ∧ (rs[i]'hr).info = (h[i]'hi).info ∧
        FlatEq (rs[i]'hr).files (flat (h[i]'hi).tree) :=
  import_export_iso_partial h ht fun c hc => (hf c hc).ok

/-- a history with a branch, a merge and a ghost: commit 2 renames and modifies,
commit 3 (a sibling) adds and deletes, commit 4 merges 3 into 2 (and names a
ghost), commit 5 renames onto the path of a file it deletes -/
def exHistory : List Commit :=
  let t1 : Tree := [⟨1, 1, 11, false, 100⟩, ⟨2, 2, 12, false, 200⟩, ⟨3, 3, 13, true, 0⟩, ⟨4, 4, 14, false, 400⟩]
  let t2 : Tree := [⟨1, 5, 15, false, 101⟩, ⟨2, 2, 12, false, 200⟩, ⟨3, 3, 13, true, 0⟩, ⟨4, 4, 14, false, 400⟩]
  let t3 : Tree := [⟨1, 1, 11, false, 100⟩, ⟨3, 3, 13, true, 0⟩, ⟨4, 4, 14, false, 400⟩, ⟨6, 6, 16, false, 600⟩]
  let t4 : Tree := [⟨1, 5, 15, false, 101⟩, ⟨3, 3, 13, true, 0⟩, ⟨4, 4, 14, false, 400⟩, ⟨6, 6, 16, false, 600⟩]
  let t5 : Tree := [⟨1, 4, 14, false, 101⟩, ⟨3, 3, 13, true, 0⟩, ⟨6, 6, 16, false, 601⟩]
  [⟨[], t1, 1⟩, ⟨[1], t2, 2⟩, ⟨[1], t3, 3⟩, ⟨[2, 3, 0], t4, 4⟩, ⟨[4], t5, 5⟩]

example : (∀ c ∈ exHistory, CommitFine exHistory c) ∧ Topo exHistory := by
  constructor
  · decide +kernel
  · intro i hi p hp
    simp only [exHistory, List.length_cons, List.length_nil] at hi
    have : i = 0 ∨ i = 1 ∨ i = 2 ∨ i = 3 ∨ i = 4 := by omega
    rcases this with h | h | h | h | h <;> subst h <;> simp [exHistory] at hp <;> omega

/-- ... and its import: five revisions, the merge with its two exported parents, the last tree with the
renamed file at the deleted file's path -/
example :
    (importAll (exportAll exHistory)).toOption.map (fun rs => rs.map (·.parents)) = some [[], [1], [1], [2, 3], [4]] ∧
    (importAll (exportAll exHistory)).toOption.bind (fun rs => rs[4]?.map (fun r => (lookup r.files 4, lookup r.files 1, lookup r.files 6)))
      = some (some 101, none, some 601) := by
  decide +kernel

/-! ## metadata and tags -/

/-- **The zone survives.**  For every offset that is a whole number of minutes -
either sign, any size - parsing the `+HHMM` field the exporter writes gives the
offset back (`format_who_when`, `parse_tz`). -/
theorem zone_roundtrip (off : Int) (h : off % 60 = 0) : parseZone (formatZone off) = off :=
  zone_roundtrip_aux off h

example : ((-12600 : Int) % 60 = 0) ∧ formatZone (-12600) = ⟨true, 3, 30⟩ ∧ formatZone 20700 = ⟨false, 5, 45⟩ := by decide

/-- ... and only then: the seconds of an offset are dropped (bzr stores the zone in seconds) -/
theorem zone_seconds_lost_witness : parseZone (formatZone 90) = 60 ∧ parseZone (formatZone (-3599)) = -3540 := by decide

/-- **A committer `Name <email>` survives.**  For every name without `<` that is
not empty and does not end in white space, every non-empty email without `<`
and `>`, and every date field (it contains no `>`): the exporter splits the
committer into name and email (`_get_name_email`), writes
`Name <email> date` (`format_who_when`), the parser reads name and email back
(`_who_when`: `([^<]*)<(.*)> (.+)`, the name right-stripped) and the importer
joins them (`_format_name_email`) to the original string. -/
theorem committer_roundtrip_name_email (bare : Bool) (N E : Str) (d : Char) (ds : Str)
    (hN0 : N ≠ []) (hN1 : ∀ c ∈ N, c ≠ '<') (hN2 : rstrip N = N)
    (hE0 : E ≠ []) (hE : ∀ c ∈ E, c ≠ '<' ∧ c ≠ '>') (hd : ∀ c ∈ d :: ds, c ≠ '>') :
    committerRoundtrip bare (N ++ [' ', '<'] ++ E ++ ['>']) (d :: ds) = some (N ++ [' ', '<'] ++ E ++ ['>']) := by
  unfold committerRoundtrip
  rw [split_name_email N E hN2 hE]
  simp only
  rw [parse_format N E d ds hN1 hN2 (fun c hc => (hE c hc).2) hd]
  simp only [joinWho]
  have h1 : E.isEmpty = false := by cases E <;> simp_all
  have h2 : N.isEmpty = false := by cases N <;> simp_all
  simp [h1, h2]

/-- **A committer without `<` survives** when it does not end in white space: it
travels as the name with an empty email (`who <> date`) -/
theorem committer_roundtrip_plain (bare : Bool) (u : Str) (d : Char) (ds : Str) (hu1 : ∀ c ∈ u, c ≠ '<')
    (hu2 : rstrip u = u) (hd : ∀ c ∈ d :: ds, c ≠ '>') :
    committerRoundtrip bare u (d :: ds) = some u := by
  unfold committerRoundtrip splitCommitter
  have : u.contains '<' = false := by
    cases h : u.contains '<' with
    | false => rfl
    | true => simp at h; exact absurd rfl (hu1 '<' h)
  simp only [this, Bool.not_false, if_true]
  rw [parse_format u [] d ds hu1 hu2 (by intro c hc; cases hc) hd]
  simp [joinWho]

example : rstrip "Jürgen M".toList = "Jürgen M".toList ∧ (∀ c ∈ "j@example.com".toList, c ≠ '<' ∧ c ≠ '>') ∧
    committerRoundtrip false "A: B <c@d>".toList "1500000000 +0530".toList = some "A: B <c@d>".toList := by decide

/-- **... and the forms that do not**: an email in angle brackets with no name comes back with a leading
blank (as found; the `bare` variant returns it unchanged); two blanks before `<`, a blank after `>`, an
empty `<>` and a name that ends in a blank are normalised; a name containing `<` is cut there. -/
theorem committer_defects_witness :
    committerRoundtrip false "<joe@example.com>".toList "1 +0000".toList = some " <joe@example.com>".toList ∧
    committerRoundtrip true "<joe@example.com>".toList "1 +0000".toList = some "<joe@example.com>".toList ∧
    committerRoundtrip false "Joe  <j@x>".toList "1 +0000".toList = some "Joe <j@x>".toList ∧
    committerRoundtrip false "Joe <j@x> ".toList "1 +0000".toList = some "Joe <j@x>".toList ∧
    committerRoundtrip false "Joe <>".toList "1 +0000".toList = some "Joe".toList ∧
    committerRoundtrip false "Joe ".toList "1 +0000".toList = some "Joe".toList ∧
    committerRoundtrip false "a<b <c@d>".toList "1 +0000".toList = some "a <b <c@d>".toList := by decide +kernel

/-- **Tags survive.**  For every list of tags with distinct names whose revisions
were exported with marks `1..n` (position 0 = outside the exported ancestry):
after importing the `reset refs/tags/…` commands the exporter writes, every
tag that points into the exported history - and, in the plain format, whose
`refs/tags/<name>` is a valid git ref (`check_ref_format`, modelled byte by
byte) - is bound to the image of its revision; every other name is unbound. -/
theorem tags_preserved (plain : Bool) (n : Nat) (tags : List Tag) (hn : (tags.map (·.name)).Nodup)
    (hp : ∀ t ∈ tags, t.pos ≤ n) :
    (∀ t ∈ tags, tagLookup (importTags n (exportTags plain tags)) t.name =
      if t.pos ≠ 0 ∧ (plain = false ∨ validRef (refsTags ++ t.name) = true) then some t.pos else none) ∧
    (∀ x, x ∉ tags.map (·.name) → tagLookup (importTags n (exportTags plain tags)) x = none) := by
  rw [importTags_export plain n tags hp]
  have hkn : ((tags.filter fun t => t.pos != 0 && (!plain || validRef (refsTags ++ t.name))).map (·.name)).Nodup :=
    List.Nodup.sublist (List.Sublist.map _ List.filter_sublist) hn
  have hinj : ∀ a ∈ tags, ∀ b ∈ tags, a.name = b.name → a = b := by
    have := List.pairwise_map.mp (show (tags.map (·.name)).Pairwise (· ≠ ·) from hn)
    intro a ha b hb hab
    by_cases he : a = b
    · exact he
    · exfalso
      rw [List.pairwise_iff_forall_sublist] at this
      obtain ⟨i, hi, rfl⟩ := List.mem_iff_getElem.mp ha
      obtain ⟨j, hj, rfl⟩ := List.mem_iff_getElem.mp hb
      have hij : i ≠ j := fun e => he (by subst e; rfl)
      rcases Nat.lt_or_gt_of_ne hij with hlt | hgt
      · exact (List.pairwise_iff_getElem.mp (List.pairwise_map.mp (show (tags.map (·.name)).Pairwise (· ≠ ·) from hn)) i j hi hj hlt) hab
      · exact (List.pairwise_iff_getElem.mp (List.pairwise_map.mp (show (tags.map (·.name)).Pairwise (· ≠ ·) from hn)) j i hj hi hgt) hab.symm
  constructor
  · intro t ht
    rw [tagLookup_foldl _ hkn]
    by_cases hk : t.pos ≠ 0 ∧ (plain = false ∨ validRef (refsTags ++ t.name) = true)
    · rw [if_pos hk]
      have hmem : t ∈ tags.filter fun t => t.pos != 0 && (!plain || validRef (refsTags ++ t.name)) := by
        refine List.mem_filter.mpr ⟨ht, ?_⟩
        obtain ⟨h1, h2⟩ := hk
        rcases h2 with h2 | h2 <;> simp [h1, h2]
      cases hf : List.find? (fun t' => t'.name == t.name) (tags.filter fun t => t.pos != 0 && (!plain || validRef (refsTags ++ t.name))) with
      | none =>
        have := List.find?_eq_none.mp hf t hmem
        simp at this
      | some t' =>
        have h1 := List.mem_of_find?_eq_some hf
        have h2 := List.find?_some hf
        simp only [beq_iff_eq] at h2
        have := hinj t' (List.mem_filter.mp h1).1 t ht h2
        rw [this]
    · rw [if_neg hk]
      cases hf : List.find? (fun t' => t'.name == t.name) (tags.filter fun t => t.pos != 0 && (!plain || validRef (refsTags ++ t.name))) with
      | none => rfl
      | some t' =>
        exfalso
        have h1 := List.mem_of_find?_eq_some hf
        have h2 := List.find?_some hf
        simp only [beq_iff_eq] at h2
        have := hinj t' (List.mem_filter.mp h1).1 t ht h2
        subst this
        have h3 := (List.mem_filter.mp h1).2
        simp only [Bool.and_eq_true, bne_iff_ne, ne_eq, Bool.or_eq_true, Bool.not_eq_true'] at h3
        exact hk h3
  · intro x hx
    rw [tagLookup_foldl _ hkn]
    cases hf : List.find? (fun t' => t'.name == x) (tags.filter fun t => t.pos != 0 && (!plain || validRef (refsTags ++ t.name))) with
    | none => rfl
    | some t' =>
      exfalso
      have h1 := List.mem_of_find?_eq_some hf
      have h2 := List.find?_some hf
      simp only [beq_iff_eq] at h2
      exact hx (List.mem_map.mpr ⟨t', (List.mem_filter.mp h1).1, h2⟩)

/-- tags "v1" (valid), "with space" (no git ref), "x..y" (no git ref) and one that points outside the export -/
example :
    let tags : List Tag := [⟨[118, 49], 2⟩, ⟨[119, 105, 116, 104, 32, 115], 1⟩, ⟨[120, 46, 46, 121], 3⟩, ⟨[122], 0⟩]
    (tags.map (·.name)).Nodup ∧ (∀ t ∈ tags, t.pos ≤ 3) ∧
    exportTags true tags = [(refsTags ++ [118, 49], 2)] ∧ (exportTags false tags).length = 3 := by
  decide

/-! ### non-vacuity -/

example : WF [⟨1, 1, 11, false, 100⟩, ⟨2, 2, 12, false, 200⟩, ⟨3, 3, 13, true, 0⟩] ∧
    Topo [⟨[], [], 1⟩, ⟨[1], [], 2⟩, ⟨[1, 0], [], 3⟩, ⟨[3, 2], [], 4⟩] := by
  constructor
  · decide
  · intro i hi p hp
    simp only [List.length_cons, List.length_nil] at hi
    have : i = 0 ∨ i = 1 ∨ i = 2 ∨ i = 3 := by omega
    rcases this with h | h | h | h <;> subst h <;> simp at hp <;> omega

/-- the hypotheses of `export_import_tree_norename` on an add + modification + deletion -/
example : Stable [⟨1, 1, 11, false, 100⟩, ⟨2, 2, 12, false, 200⟩, ⟨3, 3, 13, true, 0⟩]
    [⟨1, 1, 11, false, 101⟩, ⟨3, 3, 13, true, 0⟩, ⟨4, 4, 14, false, 400⟩] := by
  unfold Stable; decide

/-- an add, a modification and a deletion in one commit -/
example :
    let old : Tree := [⟨1, 1, 11, false, 100⟩, ⟨2, 2, 12, false, 200⟩, ⟨3, 3, 13, true, 0⟩]
    let new : Tree := [⟨1, 1, 11, false, 101⟩, ⟨3, 3, 13, true, 0⟩, ⟨4, 4, 14, false, 400⟩]
    exportCmds old new = [.del 2, .mod 1 101, .mod 4 400] ∧
    applyCmds (flat old) (exportCmds old new) = [(4, 400), (1, 101)] := by
  decide +kernel

end BreezyVerif.C44
