import BreezyVerif.Common
import BreezyVerif.Model.C30
import BreezyVerif.Driver.C29Handle
/-!
C30 driver.  Every op of the C29 driver (per-read traces incl. `next_read_size`) plus

  pipe KIND W PREFED MSG SCHED OFF
     KIND  lp | ck | v3s | v3c | req      W  T/F (req: verb reads a body), `-` otherwise
     PREFED  `~` or hex: bytes given to the decoder in one accept_bytes before the loop
             (what `_build_protocol` feeds)            MSG  remaining bytes of the message
     SCHED  comma separated naturals, used cyclically from index OFF: the i-th read
            returns max 1 (min SCHED[i] want) bytes
  -> `h1,h2,… finished/<leftover>/<T|F decoded completely>`  or  `h1,… block/<want>/<avail>`
-/
namespace BreezyVerif.C30
open BreezyVerif.C29

def showHints (l : List Int) : String :=
  if l.isEmpty then "-" else ",".intercalate (l.map toString)

def showOutcome {S : Type} (M : Machine S) : Outcome S → String
  | .finished s left => "finished/" ++ toHex left ++ "/" ++ showBool (M.fin s)
  | .wouldBlock _ want avail => "block/" ++ toString want ++ "/" ++ toString avail
  | .outOfFuel => "fuel"

def runPipe {S : Type} (M : Machine S) (s0 : S) (pre : Option Bytes) (msg : Bytes)
    (sched : List Nat) (off : Nat) : String :=
  let sc : Nat → Nat := fun i => if sched.isEmpty then 0 else sched.getD (i % sched.length) 0
  let s := match pre with | none => s0 | some p => M.feed s0 p
  let fuel := msg.length + 2
  showHints (pipeHints M sc fuel off s msg) ++ " " ++ showOutcome M (pipeLoop M sc fuel off s msg)

def handle : List String → String
  | ["pipe", kind, w, pre, msg, sched, off] =>
    match parseOptB pre, fromHex msg, parseNatList sched, off.toNat? with
    | some pre, some msg, some sched, some off =>
      match kind, w with
      | "lp", "-" => runPipe lpMachine LP.init pre msg sched off
      | "ck", "-" => runPipe ckMachine CK.init pre msg sched off
      | "v3s", "-" => runPipe v3Machine (V3.init false) pre msg sched off
      | "v3c", "-" => runPipe v3Machine (V3.init true) pre msg sched off
      | "req", "T" => runPipe (reqMachine fun _ => true) (.line []) pre msg sched off
      | "req", "F" => runPipe (reqMachine fun _ => false) (.line []) pre msg sched off
      | _, _ => "bad-op"
    | _, _, _, _ => "bad-op"
  | args => BreezyVerif.C29.handleLine args

end BreezyVerif.C30

def main : IO Unit := BreezyVerif.runDriver BreezyVerif.C30.handle
