"""C37 — conditional git ref updates honour the expected old value.

Anchors: breezy/git/transportgit.py TransportRefsContainer.set_if_equals,
remove_if_equals, add_if_new (with read_loose_ref, get_packed_refs,
_remove_packed_ref and dulwich's RefsContainer.follow/read_ref they rest on).

T2: ref stores over a fixed universe of six ref names (HEAD, branches, a tag, a
nested name, a remote ref) are generated — absent / loose / packed / loose+packed /
symbolic refs incl. chains, dangling targets and loops — written to a memory (or
local disk) transport, one real TransportRefsContainer operation is run with a
matching / non-matching / ZERO_SHA / None expected value, and the result flag and
the complete store afterwards (every loose file, the packed-refs file) are
compared with the Lean model applied to the store observed before the operation.
Sequences of operations on one container and the six interleavings of the
read/write phases of two concurrent updaters (threads stopped at the
transport's put_bytes) are compared the same way.
Oracle (no model): the compare-and-swap specification evaluated on the
observed stores; for two updaters, linearizability (the outcome equals that of
one of the two sequential orders).

Findings handled here (DESIGN §7 F2): the model's setIfEquals/removeIfEquals are
the CAS behaviour the theorems are about; the code as found is modelled by
`...Legacy`.  Families, computed from the concrete case:
  cas-old-value-ignored          set_if_equals/remove_if_equals with a non-matching expected value
                                 return True and overwrite/delete (F2)
  remove-packed-cache-unloaded   remove_if_equals on a container whose packed-refs cache was never
                                 loaded returns True but leaves the packed entry (ref still exists)
  cas-race-unlocked              two updaters: both compare, then both write (no lock is taken)
A difference from the model is not recorded as a T2 mismatch only if the
implementation agrees exactly with the legacy model on that case and the case
belongs to one of these families.

Mutants this check was built against (on the fixed code): comparison dropped for packed-only refs;
compare against the name instead of the followed real name; `!=` -> `==`;
absent ref compared with None instead of ZERO_SHA; add_if_new ignoring packed
entries; remove_if_equals following symrefs; write before compare; returning
True without writing.  Harmless: helper extracted, packed lookup via dict.get
default, reading the loose ref once.
"""
import itertools
import os
import threading

from vlib import env

THEOREMS = [
    "cas_success_iff", "cas_fail_unchanged", "cas_success_writes", "cas_success_resolves",
    "remove_cas_success_iff", "remove_cas_fail_unchanged", "remove_cas_success_removes",
    "add_if_new_never_overwrites", "add_if_new_success_iff",
    "cas_linearizable_under_lock", "cas_atomic_schedules", "cas_atomic_second_fails",
    "cas_race_witness", "cas_legacy_witness",
]

RULE = ("stores over 6 ref names x values {absent, loose sha, packed sha, both, symref (chain, dangling, loop)}; "
        "operations set_if_equals / remove_if_equals / add_if_new with expected value in {None, current, other, "
        "ZERO_SHA}; a case is non-trivial when the expected value is given, or the name is symbolic, packed or absent "
        "(i.e. anything but an unconditional update of a plain loose ref)")
ASSUMPTIONS = [
    "ref names and SHAs are abstract (the harness maps indices to real names / 40-digit SHAs; SHA 0 is ZERO_SHA)",
    "dulwich RefsContainer.follow/read_ref, read/write_packed_refs and the transport are called, not verified; "
    "follow is modelled and compared per case",
    "two updaters interleave at the granularity read-phase / write-phase (transport put_bytes)",
]
TRUSTED = ["peeled entries of packed-refs and reflogs are not modelled; invalid ref names are outside the generator"]

NAMES = [b"HEAD", b"refs/heads/a", b"refs/heads/b", b"refs/tags/t", b"refs/heads/d/e", b"refs/remotes/o/m"]
NIDX = {n: i for i, n in enumerate(NAMES)}
SYMREF = b"ref: "


def sha(k):
    return (b"%040x" % k)


def unsha(b):
    return int(b, 16)


# --------------------------------------------------------------------------
# stores


def make_transport(store, kind="memory"):
    """write a model store ({'loose': {i: ('S', k) | ('R', j)}, 'packed': {i: k}}) to a transport"""
    from breezy import urlutils
    if kind == "memory":
        from dromedary.memory import MemoryTransport
        t = MemoryTransport()
    else:
        from breezy.transport import get_transport_from_path
        t = get_transport_from_path(env.fresh_dir("refs"))
    for d in ("refs", "refs/heads", "refs/tags", "refs/heads/d", "refs/remotes", "refs/remotes/o"):
        t.mkdir(d)
    for i, v in store["loose"].items():
        body = (sha(v[1]) if v[0] == "S" else SYMREF + NAMES[v[1]]) + b"\n"
        t.put_bytes(urlutils.quote_from_bytes(NAMES[i]), body)
    if store["packed"]:
        lines = [b"# pack-refs with: peeled\n"]
        for i in sorted(store["packed"], key=lambda i: NAMES[i]):
            lines.append(sha(store["packed"][i]) + b" " + NAMES[i] + b"\n")
        t.put_bytes("packed-refs", b"".join(lines))
    return t


def observe(t):
    """the store as it is on the transport (independent of any container cache)"""
    from breezy import urlutils
    from dulwich.refs import read_packed_refs
    from dromedary.errors import NoSuchFile, ReadError
    loose, packed = {}, {}
    for i, n in enumerate(NAMES):
        try:
            b = t.get_bytes(urlutils.quote_from_bytes(n))
        except (NoSuchFile, ReadError):
            continue
        line = b.split(b"\n")[0]
        if line.startswith(SYMREF):
            tgt = line[len(SYMREF):]
            loose[i] = ("R", NIDX[tgt]) if tgt in NIDX else ("X", tgt.hex())
        else:
            loose[i] = ("S", unsha(line[:40]))
    try:
        f = t.get("packed-refs")
    except NoSuchFile:
        pass
    else:
        with f:
            for s, n in read_packed_refs(f):
                packed[NIDX[n] if n in NIDX else n.hex()] = unsha(s)
    return dict(loose=loose, packed=packed)


def enc_store(st):
    l = ",".join("%d:%s%d" % (i, v[0], v[1]) for i, v in sorted(st["loose"].items())) or "-"
    p = ",".join("%d:%d" % (i, k) for i, k in sorted(st["packed"].items())) or "-"
    return l + " " + p


def js_store(st):
    return dict(loose={str(i): list(v) for i, v in sorted(st["loose"].items())},
                packed={str(i): k for i, k in sorted(st["packed"].items())})


def unjs_store(j):
    return dict(loose={int(i): tuple(v) for i, v in j["loose"].items()}, packed={int(i): k for i, k in j["packed"].items()})


def gen_store(rng):
    loose, packed = {}, {}
    for i in range(len(NAMES)):
        r = rng.random()
        if r < 0.3:
            continue
        if r < 0.5:
            loose[i] = ("S", rng.randint(0, 4))
        elif r < 0.62 and i != 0:
            packed[i] = rng.randint(0, 4)
        elif r < 0.72 and i != 0:
            loose[i] = ("S", rng.randint(0, 4))
            packed[i] = rng.randint(0, 4)
        else:
            loose[i] = ("R", rng.randrange(len(NAMES)))
            if i != 0 and rng.random() < 0.2:
                packed[i] = rng.randint(1, 4)
    if rng.random() < 0.08:      # a long chain 0 -> 1 -> 2 -> 3 -> 4 -> 5 (-> sha | absent | loop)
        for i in range(5):
            loose[i] = ("R", i + 1)
        loose.pop(5, None)
        packed.pop(5, None)
        e = rng.random()
        if e < 0.4:
            loose[5] = ("S", 3)
        elif e < 0.6:
            packed[5] = 2
        elif e < 0.8:
            loose[5] = ("R", rng.randrange(6))
    return dict(loose=loose, packed=packed)


# --------------------------------------------------------------------------
# the specification, evaluated in Python on observed stores (oracle; no model)


def spec_read(st, i):
    if i in st["loose"]:
        return st["loose"][i]
    if i in st["packed"]:
        return ("S", st["packed"][i])
    return None


def spec_current(st, i):
    v = spec_read(st, i)
    return v if v is not None else ("S", 0)


def container_realname(refs, name):
    """the real name as the container's own follow() sees it"""
    from dulwich.refs import SymrefLoop  # noqa
    try:
        names, _ = refs.follow(name)
        return names[-1]
    except Exception:  # noqa: BLE001  (KeyError, IndexError, SymrefLoop)
        return name


def apply_spec(st, op, real):
    """expected (flag, store) for op under the CAS specification; `real` = real ref index"""
    st2 = dict(loose=dict(st["loose"]), packed=dict(st["packed"]))
    kind = op[0]
    if kind == "set":
        _, n, old, new = op
        if old is not None and spec_current(st, real) != ("S", old):
            return False, st2
        st2["loose"][real] = ("S", new)
        return True, st2
    if kind == "rm":
        _, n, old = op
        if old is not None and spec_current(st, n) != ("S", old):
            return False, st2
        st2["loose"].pop(n, None)
        st2["packed"].pop(n, None)
        return True, st2
    raise ValueError(kind)


def run_op(refs, op):
    from dulwich.refs import SymrefLoop
    try:
        if op[0] == "set":
            return refs.set_if_equals(NAMES[op[1]], None if op[2] is None else sha(op[2]), sha(op[3]))
        if op[0] == "rm":
            return refs.remove_if_equals(NAMES[op[1]], None if op[2] is None else sha(op[2]))
        if op[0] == "add":
            return refs.add_if_new(NAMES[op[1]], sha(op[2]))
    except SymrefLoop:
        return "E:Loop"
    raise ValueError(op)


def op_line(op, st, legacy=False, cache=True):
    if op[0] == "set":
        return "%s %s %d %s %d" % ("setL" if legacy else "set", enc_store(st), op[1], "~" if op[2] is None else op[2], op[3])
    if op[0] == "rm":
        if legacy:
            return "rmL %s %s %d %s" % ("T" if cache else "F", enc_store(st), op[1], "~" if op[2] is None else op[2])
        return "rm %s %d %s" % (enc_store(st), op[1], "~" if op[2] is None else op[2])
    return "add %s %d %d" % (enc_store(st), op[1], op[2])


def res_str(flag, st):
    if flag == "E:Loop":
        return flag
    return "%s %s" % ("T" if flag else "F", enc_store(st))


def gen_op(rng, st):
    n = rng.randrange(len(NAMES))
    k = rng.random()
    if k < 0.5:
        kind = "set"
    elif k < 0.8:
        kind = "rm"
    else:
        kind = "add"
    if kind == "add":
        return ("add", n, rng.randint(1, 5))
    # expected value: None / the current value of the name that will be compared / something else / ZERO
    target = n
    if kind == "set":
        seen = []
        cur = n
        for _ in range(7):
            v = spec_read(st, cur)
            if v is None or v[0] != "R" or cur in seen:
                break
            seen.append(cur)
            cur = v[1]
        target = cur
    cur = spec_current(st, target)
    r = rng.random()
    if r < 0.2:
        old = None
    elif r < 0.6:
        old = cur[1] if cur[0] == "S" else rng.randint(0, 4)
    elif r < 0.7:
        old = 0
    else:
        old = rng.randint(0, 5)
    if kind == "set":
        return ("set", n, old, rng.randint(1, 5))
    return ("rm", n, old)


def nontrivial(op, st):
    v = st["loose"].get(op[1])
    plain = v is not None and v[0] == "S" and op[1] not in st["packed"]
    return not (op[0] == "set" and op[2] is None and plain)


# --------------------------------------------------------------------------


def check_one(ctx, st0, ops, kind="memory", preload=True, pending=None):
    """run `ops` in sequence on one container; oracle per op; queue T2 lines"""
    from breezy.git.transportgit import TransportRefsContainer
    t = make_transport(st0, kind)
    refs = TransportRefsContainer(t)
    if preload:
        refs.get_packed_refs()
    cache = preload
    for k, op in enumerate(ops):
        before = observe(t)
        real = NIDX.get(container_realname(refs, NAMES[op[1]]), op[1]) if op[0] in ("set", "add") else op[1]
        flag = run_op(refs, op)
        after = observe(t)
        case = dict(kind="op", transport=kind, preload=preload, store=js_store(st0), ops=[list(o) for o in ops], at=k)
        ctx.case(["op", kind, preload, enc_store(before), list(op)], nontrivial=nontrivial(op, before))
        ctx.count("op:%s:%s" % (op[0], flag))
        # ---- oracle
        if op[0] in ("set", "rm"):
            exp_flag, exp_st = apply_spec(before, op, real)
            if flag != exp_flag or after != exp_st:
                fam = None
                cur = spec_current(before, real)
                if op[2] is not None and cur != ("S", op[2]) and flag is True:
                    fam = "cas-old-value-ignored"
                elif (op[0] == "rm" and flag is True and exp_flag is True and not cache and op[1] in before["packed"]
                      and after["packed"].get(op[1]) == before["packed"][op[1]] and op[1] not in after["loose"]):
                    fam = "remove-packed-cache-unloaded"
                what = ("%s(%s, old=%s%s) on %s: returned %s, store afterwards %s; the ref compared (%s) held %s "
                        "-> expected %s, %s" % (
                            {"set": "set_if_equals", "rm": "remove_if_equals"}[op[0]], NAMES[op[1]].decode(),
                            "None" if op[2] is None else "sha%d" % op[2], ", new=sha%d" % op[3] if op[0] == "set" else "",
                            enc_store(before), flag, enc_store(after), NAMES[real].decode(), cur, exp_flag,
                            enc_store(exp_st)))
                ctx.violation(case, what, family=fam)
        else:
            # add_if_new never overwrites an existing ref
            for i in set(before["loose"]) | set(before["packed"]):
                if spec_read(before, i) is not None and spec_read(after, i) != spec_read(before, i) and flag != "E:Loop":
                    ctx.violation(case, "add_if_new(%s) changed existing ref %s: %s -> %s" % (
                        NAMES[op[1]].decode(), NAMES[i].decode(), spec_read(before, i), spec_read(after, i)))
            if flag is True and spec_read(before, real) is not None:
                ctx.violation(case, "add_if_new(%s) returned True although %s existed" % (NAMES[op[1]].decode(), NAMES[real].decode()))
            if flag is False and after != before:
                ctx.violation(case, "add_if_new returned False but changed the store")
        # ---- T2
        if pending is not None:
            pending.append((case, op, before, res_str(flag, after), cache))
        if op[0] == "rm" or (op[0] == "set" and op[2] is not None):
            pass
        cache = cache or refs._packed_refs is not None


def flush(ctx, pending):
    lines = []
    for case, op, before, impl, cache in pending:
        lines.append(op_line(op, before))
        lines.append(op_line(op, before, legacy=True, cache=cache) if op[0] != "add" else op_line(op, before))
    rep = ctx.model(lines)
    for i, (case, op, before, impl, cache) in enumerate(pending):
        model, legacy = rep[2 * i], rep[2 * i + 1]
        ctx.traces += 1
        if impl == model:
            continue
        if impl == legacy and op[0] in ("set", "rm"):
            ctx.count("op:legacy-behaviour")     # reported by the oracle with its family
        else:
            ctx.mismatch(case, impl, model, line=lines[2 * i])
    del pending[:]


# --------------------------------------------------------------------------
# two updaters


class HookTransport:
    """delegates to a transport; put_bytes first reports to the scheduler and waits"""

    def __init__(self, inner, gate):
        self._inner = inner
        self._gate = gate

    def __getattr__(self, name):
        return getattr(self._inner, name)

    def put_bytes(self, *a, **kw):
        self._gate.reached.set()
        self._gate.go.wait()
        return self._inner.put_bytes(*a, **kw)


class Gate:
    def __init__(self):
        self.reached = threading.Event()
        self.go = threading.Event()


class Updater:
    def __init__(self, t, upd):
        from breezy.git.transportgit import TransportRefsContainer
        self.gate = Gate()
        self.refs = TransportRefsContainer(HookTransport(t, self.gate))
        self.upd = upd
        self.result = None
        self.thread = None
        self.finished = threading.Event()

    def _run(self):
        try:
            n, o, w = self.upd
            self.result = self.refs.set_if_equals(NAMES[n], sha(o), sha(w))
        except Exception as e:  # noqa: BLE001
            self.result = "E:" + type(e).__name__
        finally:
            self.finished.set()
            self.gate.reached.set()

    def step(self):
        if self.thread is None:
            self.thread = threading.Thread(target=self._run, daemon=True)
            self.thread.start()
            self.gate.reached.wait(20)      # read phase done: at put_bytes, or finished
        elif not self.finished.is_set():
            self.gate.go.set()
            self.finished.wait(20)

    def close(self):
        self.gate.go.set()
        if self.thread is not None:
            self.thread.join(20)


SCHEDULES = ["AABB", "ABAB", "ABBA", "BAAB", "BABA", "BBAA"]


def run_schedule(st0, a, b, sched):
    t = make_transport(st0)
    ua, ub = Updater(t, a), Updater(t, b)
    try:
        for c in sched:
            (ua if c == "A" else ub).step()
    finally:
        ua.close()
        ub.close()
    return ua.result, ub.result, observe(t)


def seq_outcome(st0, first, second):
    """CAS specification applied sequentially (oracle)"""
    def real_of(st, n):
        seen, cur = [], n
        for _ in range(7):
            v = spec_read(st, cur)
            if v is None or v[0] != "R" or cur in seen:
                break
            seen.append(cur)
            cur = v[1]
        return cur
    f1, s1 = apply_spec(st0, ("set",) + tuple(first), real_of(st0, first[0]))
    f2, s2 = apply_spec(s1, ("set",) + tuple(second), real_of(s1, second[0]))
    return f1, f2, s2


def sec_sched(ctx, legacy_f2):
    cases, lines, impls = [], [], []
    for _ in range(ctx.pick(25, 250)):
        st0 = gen_store(ctx.rng)
        # no symref loops / over-long chains here (follow must succeed)
        n = ctx.rng.randrange(len(NAMES))
        seen, cur, okc = [], n, True
        for _ in range(7):
            v = spec_read(st0, cur)
            if v is None or v[0] != "R":
                break
            if cur in seen or len(seen) >= 4:
                okc = False
                break
            seen.append(cur)
            cur = v[1]
        if not okc:
            continue
        curv = spec_current(st0, cur)
        old = curv[1] if curv[0] == "S" and ctx.rng.random() < 0.8 else ctx.rng.randint(0, 4)
        a = (n, old, 5)
        b = (ctx.rng.choice([n, n, cur]), old if ctx.rng.random() < 0.8 else ctx.rng.randint(0, 4), 6)
        for sched in SCHEDULES:
            ra, rb, final = run_schedule(st0, a, b, sched)
            case = dict(kind="sched", store=js_store(st0), a=list(a), b=list(b), sched=sched)
            ctx.case(["sched", enc_store(st0), list(a), list(b), sched])
            ctx.count("sched:%s:%s%s" % (sched, "T" if ra is True else "F", "T" if rb is True else "F"))
            o1 = seq_outcome(st0, a, b)
            o2 = seq_outcome(st0, b, a)
            o2 = (o2[1], o2[0], o2[2])
            if (ra, rb, final) not in (o1, o2):
                fam = "cas-old-value-ignored" if legacy_f2 else (
                    "cas-race-unlocked" if sched in ("ABAB", "ABBA", "BAAB", "BABA") and ra is True and rb is True else None)
                ctx.violation(case, "two updaters %s and %s of %s, schedule %s (read/write phases): results %s/%s, final "
                              "store %s; no sequential order of the two compare-and-swaps gives this (A;B -> %s, B;A -> %s)"
                              % (a, b, enc_store(st0), sched, ra, rb, enc_store(final), o1[:2], o2[:2]), family=fam)
            if not legacy_f2:
                cases.append(case)
                lines.append("sched %s %s %s %s" % (enc_store(st0), ",".join(map(str, a)), ",".join(map(str, b)), sched))
                impls.append("%s done:%s done:%s" % (enc_store(final), "T" if ra is True else "F", "T" if rb is True else "F"))
    if lines:
        ctx.diff(cases, lines, impls, tie="T2 schedules")


# --------------------------------------------------------------------------


def probe_legacy():
    """does the code as found ignore the expected value? (decides how schedule results are classified)"""
    from breezy.git.transportgit import TransportRefsContainer
    t = make_transport(dict(loose={1: ("S", 1)}, packed={}))
    return TransportRefsContainer(t).set_if_equals(NAMES[1], sha(2), sha(3)) is True


def follow_check(ctx):
    """RefsContainer.follow vs the model (chain of names, end value, SymrefLoop)"""
    from breezy.git.transportgit import TransportRefsContainer
    from dulwich.refs import SymrefLoop
    cases, lines, impls = [], [], []
    for _ in range(ctx.pick(300, 3000)):
        st = gen_store(ctx.rng)
        refs = TransportRefsContainer(make_transport(st))
        n = ctx.rng.randrange(len(NAMES))
        try:
            names, v = refs.follow(NAMES[n])
            out = "%s %s" % (",".join(str(NIDX[x]) for x in names) or "-", "~" if v is None else unsha(v))
        except SymrefLoop:
            out = "E:Loop"
        cases.append(dict(kind="follow", store=js_store(st), n=n))
        lines.append("follow %s %d" % (enc_store(st), n))
        impls.append(out)
        ctx.count("follow:" + ("loop" if out == "E:Loop" else "len%d" % len(out.split(" ")[0].split(","))))
    ctx.diff(cases, lines, impls, tie="T2 follow")


def corpus_cases():
    d = os.path.join(env.VERIF, "corpus", "C37")
    out = []
    if os.path.isdir(d):
        import json
        for fn in sorted(os.listdir(d)):
            if fn.endswith(".json"):
                out.append(json.load(open(os.path.join(d, fn))))
    return out


def run(ctx):
    pending = []
    for rec in corpus_cases():
        replay(ctx, rec["case"])
        ctx.count("corpus")
    legacy_f2 = probe_legacy()
    ctx.extra["expected_value_ignored_by_code"] = legacy_f2
    follow_check(ctx)
    # exhaustive: one name, every kind of current value x every expected value x both conditional ops
    vals = [None, ("S", 1), ("S", 0)]
    for lo, pk, oldv in itertools.product([None, ("S", 1), ("S", 2), ("R", 2), ("R", 1)], [None, 1, 3],
                                          [None, 0, 1, 2, 3]):
        for tgt_lo, tgt_pk in itertools.product([None, ("S", 1), ("S", 3)], [None, 1]):
            st = dict(loose={}, packed={})
            if lo is not None:
                st["loose"][1] = lo
            if pk is not None:
                st["packed"][1] = pk
            if tgt_lo is not None:
                st["loose"][2] = tgt_lo
            if tgt_pk is not None:
                st["packed"][2] = tgt_pk
            for op in (("set", 1, oldv, 4), ("rm", 1, oldv), ("add", 1, 4)):
                if op[0] == "add" and oldv is not None:
                    continue
                check_one(ctx, st, [op], pending=pending)
    del vals
    ctx.extra["exhaustive_single_name"] = True
    for _ in range(ctx.pick(1500, 15000)):
        st = gen_store(ctx.rng)
        check_one(ctx, st, [gen_op(ctx.rng, st)], pending=pending)
    for _ in range(ctx.pick(300, 3000)):       # sequences on one container (stale caches, repeated CAS)
        st = gen_store(ctx.rng)
        ops, cur = [], st
        for _ in range(ctx.rng.randint(2, 4)):
            ops.append(gen_op(ctx.rng, cur))
        check_one(ctx, st, ops, pending=pending)
    for _ in range(ctx.pick(300, 3000)):       # container whose packed-refs cache has not been loaded
        st = gen_store(ctx.rng)
        check_one(ctx, st, [gen_op(ctx.rng, st)], preload=False, pending=pending)
    for _ in range(ctx.pick(100, 1500)):       # local disk transport
        st = gen_store(ctx.rng)
        check_one(ctx, st, [gen_op(ctx.rng, st)], kind="disk", pending=pending)
    flush(ctx, pending)
    sec_sched(ctx, legacy_f2)


def replay(ctx, case):
    n0 = len(ctx.violations)
    if case["kind"] == "op":
        st = unjs_store(case["store"])
        ops = [tuple(o) for o in case["ops"]]
        pending = []
        check_one(ctx, st, ops, kind=case.get("transport", "memory"), preload=case.get("preload", True), pending=pending)
        impl = [p[3] for p in pending]
        model = ctx.model([op_line(p[1], p[2]) for p in pending])
        return dict(case=case, names={i: n.decode() for i, n in enumerate(NAMES)}, impl=impl, model=model,
                    oracle_failures=[v["what"] for v in ctx.violations[n0:]])
    if case["kind"] == "sched":
        st = unjs_store(case["store"])
        a, b = tuple(case["a"]), tuple(case["b"])
        ra, rb, final = run_schedule(st, a, b, case["sched"])
        o1 = seq_outcome(st, a, b)
        o2 = seq_outcome(st, b, a)
        o2 = (o2[1], o2[0], o2[2])
        if (ra, rb, final) not in (o1, o2):
            ctx.violation(case, "schedule %s: results %s/%s final %s is not the outcome of a sequential order"
                          % (case["sched"], ra, rb, enc_store(final)),
                          family="cas-old-value-ignored" if probe_legacy() else "cas-race-unlocked")
        m = ctx.model(["sched %s %s %s %s" % (enc_store(st), ",".join(map(str, a)), ",".join(map(str, b)), case["sched"])])[0]
        return dict(case=case, impl="%s %s %s" % (enc_store(final), ra, rb), model=m,
                    oracle_failures=[v["what"] for v in ctx.violations[n0:]])
    if case["kind"] == "follow":
        from breezy.git.transportgit import TransportRefsContainer
        st = unjs_store(case["store"])
        refs = TransportRefsContainer(make_transport(st))
        try:
            names, v = refs.follow(NAMES[case["n"]])
            out = "%s %s" % (",".join(str(NIDX[x]) for x in names) or "-", "~" if v is None else unsha(v))
        except Exception as e:  # noqa: BLE001
            out = "E:" + type(e).__name__
        return dict(case=case, impl=out, model=ctx.model(["follow %s %d" % (enc_store(st), case["n"])])[0])
    raise ValueError(case["kind"])
