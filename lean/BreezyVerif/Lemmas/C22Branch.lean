import BreezyVerif.Lemmas.C22Top
/-!
C22 — lemmas about breezy's layer: left-hand history, revno conversions,
iteration filters.
-/
namespace BreezyVerif.C22

/-! ### left-hand history -/

theorem lefthand_succ (g : Graph) (fuel r : Nat) :
    lefthand g (fuel + 1) r = match g[r]? with
      | none => []
      | some ps => r :: (match leftParent g ps with
          | some l => lefthand g fuel l
          | none => []) := rfl

theorem lefthand_le {g : Graph} (hw : WF g) : ∀ (fuel r x : Nat), x ∈ lefthand g fuel r → x ≤ r := by
  intro fuel
  induction fuel with
  | zero => intro r x h; simp [lefthand] at h
  | succ fuel ih =>
    intro r x h
    rw [lefthand_succ] at h
    split at h
    · cases h
    · rename_i ps hps
      rcases List.mem_cons.mp h with rfl | h
      · exact Nat.le_refl _
      · split at h
        · rename_i l hl
          have hm := leftParent_mem hl
          have := ih l x h
          rcases hw r ps hps l hm.1 with h1 | h1 <;> omega
        · cases h

theorem lefthand_pairwise {g : Graph} (hw : WF g) : ∀ (fuel r : Nat),
    (lefthand g fuel r).Pairwise (fun a b => b < a) := by
  intro fuel
  induction fuel with
  | zero => intro r; simp [lefthand]
  | succ fuel ih =>
    intro r
    rw [lefthand_succ]
    split
    · exact List.Pairwise.nil
    · rename_i ps hps
      split
      · rename_i l hl
        have hm := leftParent_mem hl
        refine List.Pairwise.cons ?_ (ih l)
        intro x hx
        have := lefthand_le hw fuel l x hx
        rcases hw r ps hps l hm.1 with h1 | h1 <;> omega
      · exact List.pairwise_singleton _ _

theorem lefthand_nodup {g : Graph} (hw : WF g) (fuel r : Nat) : (lefthand g fuel r).Nodup := by
  have := lefthand_pairwise hw fuel r
  exact this.imp (fun h => by omega)

theorem history_nodup (b : Branch) (hw : WF b.g) : b.history.Nodup := by
  unfold Branch.history
  split
  · exact List.nodup_nil
  · exact lefthand_nodup hw _ _

theorem lefthand_head (g : Graph) : ∀ (fuel l p : Nat), (lefthand g fuel l)[0]? = some p → p = l
  | 0, _, _, h => by simp [lefthand] at h
  | fuel + 1, l, p, h => by
    rw [lefthand_succ] at h
    split at h
    · simp at h
    · simp only [List.getElem?_cons_zero, Option.some.injEq] at h; exact h.symm

/-- consecutive entries of the left-hand history are child and left-hand parent -/
theorem lefthand_next (g : Graph) : ∀ (fuel x i r p : Nat), (lefthand g fuel x)[i]? = some r →
    (lefthand g fuel x)[i + 1]? = some p → lpOf g r = some p := by
  intro fuel
  induction fuel with
  | zero => intro x i r p h; simp [lefthand] at h
  | succ fuel ih =>
    intro x i r p hi hn
    rw [lefthand_succ] at hi hn
    split at hi
    · simp at hi
    · rename_i ps hps
      simp only [hps] at hn
      cases i with
      | zero =>
        simp only [List.getElem?_cons_zero, Option.some.injEq] at hi
        subst hi
        simp only [List.getElem?_cons_succ] at hn
        unfold lpOf; rw [hps]
        split at hn
        · rename_i l hl
          show leftParent g ps = some p
          rw [hl, lefthand_head g fuel l p hn]
        · simp at hn
      | succ i =>
        simp only [List.getElem?_cons_succ] at hi hn
        split at hi
        · rename_i l hl
          simp only [hl] at hn
          exact ih l i r p hi hn
        · simp at hi

theorem history_next (b : Branch) (i r p : Nat) (h1 : b.history[i]? = some r)
    (h2 : b.history[i + 1]? = some p) : lpOf b.g r = some p := by
  unfold Branch.history at h1 h2
  split at h1
  · simp at h1
  · rename_i t ht
    simp only [ht] at h2
    exact lefthand_next b.g _ _ _ _ _ h1 h2

/-! ### get_rev_id / revision_id_to_revno -/

theorem getRevId_pos (b : Branch) (n : Nat) (h1 : 1 ≤ n) (h2 : n ≤ b.lastRevno) (r : Nat)
    (hr : b.history[b.lastRevno - n]? = some r) : b.getRevId n = .ok (.rev r) := by
  unfold Branch.getRevId
  have e1 : ¬ ((n : Int) = 0) := by omega
  have e2 : ¬ ((n : Int) ≤ 0 ∨ (n : Int) > (b.lastRevno : Int)) := by omega
  have e3 : ((b.lastRevno : Int) - (n : Int)).toNat = b.lastRevno - n := by omega
  simp only [e1, e2, if_false, e3, hr]

theorem getRevId_nth (b : Branch) (n : Nat) (h1 : 1 ≤ n) (h2 : n ≤ b.lastRevno) :
    ∃ r, b.history.reverse[n - 1]? = some r ∧ b.getRevId n = .ok (.rev r) := by
  have hL : b.lastRevno = b.history.length := rfl
  have hlt : b.lastRevno - n < b.history.length := by omega
  refine ⟨b.history[b.lastRevno - n], ?_, ?_⟩
  · rw [List.getElem?_reverse (by omega)]
    have : b.history.length - 1 - (n - 1) = b.lastRevno - n := by omega
    rw [this]
    exact List.getElem?_eq_getElem hlt
  · exact getRevId_pos b n h1 h2 _ (List.getElem?_eq_getElem hlt)

theorem getRevId_rev_inv (b : Branch) (k : Int) (r : Nat) (h : b.getRevId k = .ok (.rev r)) :
    ∃ n : Nat, k = n ∧ 1 ≤ n ∧ n ≤ b.lastRevno ∧ b.history[b.lastRevno - n]? = some r := by
  unfold Branch.getRevId at h
  split at h
  · cases h
  · split at h
    · cases h
    · rename_i h0 hr
      split at h
      · rename_i r' hr'
        cases h
        refine ⟨k.toNat, by omega, by omega, by omega, ?_⟩
        have : ((b.lastRevno : Int) - k).toNat = b.lastRevno - k.toNat := by omega
        rw [← this]; exact hr'
      · cases h

theorem revno_of_getRevId (b : Branch) (hw : WF b.g) (k : Int) (r : Nat)
    (h : b.getRevId k = .ok (.rev r)) : b.revisionIdToRevno (.rev r) = .ok k := by
  obtain ⟨n, hk, h1, h2, hget⟩ := getRevId_rev_inv b k r h
  subst hk
  have hnd := history_nodup b hw
  have hL : b.lastRevno = b.history.length := rfl
  have hlt : b.lastRevno - n < b.history.length := by omega
  have hidx : b.history.idxOf? r = some (b.lastRevno - n) := by
    rw [List.idxOf?_eq_some_iff]
    have hg : b.history[b.lastRevno - n] = r := by
      have := List.getElem?_eq_getElem hlt
      rw [this] at hget; exact Option.some.inj hget
    refine ⟨hlt, hg, ?_⟩
    intro j hj hjr
    have hjl : j < b.history.length := by omega
    have := (List.getElem_inj (h₀ := hjl) (h₁ := hlt) hnd).mp (by rw [hjr, hg])
    omega
  unfold Branch.revisionIdToRevno
  simp only [hidx]
  congr 1
  omega

theorem getRevId_of_revno (b : Branch) (k : Int) (r : Nat)
    (h : b.revisionIdToRevno (.rev r) = .ok k) : b.getRevId k = .ok (.rev r) := by
  simp only [Branch.revisionIdToRevno] at h
  split at h
  · rename_i i hi
    cases h
    rw [List.idxOf?_eq_some_iff] at hi
    obtain ⟨hlt, hg, _⟩ := hi
    have hL : b.lastRevno = b.history.length := rfl
    have hk : ((b.lastRevno : Int) - (i : Int)) = ((b.lastRevno - i : Nat) : Int) := by omega
    rw [hk]
    apply getRevId_pos b (b.lastRevno - i) (by omega) (by omega)
    have : b.lastRevno - (b.lastRevno - i) = i := by omega
    rw [this, List.getElem?_eq_getElem hlt, hg]
  · cases h

/-! ### sub-list facts for the iteration filters -/

theorem takeThrough_sublist {α : Type} (p : α → Bool) : ∀ l : List α, List.Sublist (takeThrough p l) l
  | [] => List.Sublist.slnil
  | a :: l => by
    unfold takeThrough
    split
    · exact (List.nil_sublist l).cons_cons a
    · exact (takeThrough_sublist p l).cons_cons a

theorem takeThrough_eq {α : Type} (p : α → Bool) : ∀ l : List α,
    takeThrough p l = l.takeWhile (fun a => !p a) ++ (l.find? p).toList
  | [] => rfl
  | a :: l => by
    unfold takeThrough
    by_cases h : p a = true
    · simp [h]
    · simp only [h, Bool.false_eq_true, if_false, List.takeWhile_cons, List.find?_cons]
      simp [takeThrough_eq p l]

theorem withMergesLoop_sublist (g : Graph) (stop lp : RevId) : ∀ (l : List MS) (reached : Bool) (wl : List Nat),
    List.Sublist (withMergesLoop g stop lp reached wl l) l
  | [], _, _ => by simp [withMergesLoop]
  | e :: rest, reached, wl => by
    unfold withMergesLoop
    split
    · exact List.nil_sublist _
    · split
      · split
        · dsimp only
          split
          · exact (withMergesLoop_sublist g stop lp rest _ _).cons_cons e
          · exact (withMergesLoop_sublist g stop lp rest _ _).cons_cons e
        · exact (withMergesLoop_sublist g stop lp rest _ _).cons_cons e
      · exact (withMergesLoop_sublist g stop lp rest _ _).cons e

theorem nonAncLoop_sublist (g : Graph) : ∀ (l : List MS) (clean : Bool) (wl : List Nat),
    List.Sublist (nonAncLoop g clean wl l) l
  | [], _, _ => by simp [nonAncLoop]
  | e :: rest, clean, wl => by
    unfold nonAncLoop
    split
    · exact (nonAncLoop_sublist g rest _ _).cons_cons e
    · split
      · exact (nonAncLoop_sublist g rest _ _).cons_cons e
      · exact (nonAncLoop_sublist g rest _ _).cons e

theorem filterStartNonAncestors_sublist (g : Graph) : ∀ l : List MS, List.Sublist (filterStartNonAncestors g l) l
  | [] => List.Sublist.slnil
  | e :: rest => by
    simp only [filterStartNonAncestors]
    split
    · exact List.Sublist.refl _
    · split
      · exact (List.nil_sublist rest).cons_cons e
      · exact (nonAncLoop_sublist g rest _ _).cons_cons e

theorem applyStop_sublist (b : Branch) (start : Option RevId) (l : List MS) (stop : Option RevId)
    (rule : StopRule) (out : List MS) (h : applyStop b start l stop rule = .ok out) : List.Sublist out l := by
  unfold applyStop at h
  split at h
  · cases h; exact List.Sublist.refl _
  · cases h; exact List.takeWhile_sublist _
  · cases h; exact takeThrough_sublist _ _
  · split at h
    · cases h; exact List.filter_sublist
    · cases h
  · split at h
    · split at h
      · cases h
      · cases h; exact withMergesLoop_sublist _ _ _ _ _ _
    · cases h
    · cases h

end BreezyVerif.C22
