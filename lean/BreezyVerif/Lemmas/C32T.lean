import BreezyVerif.Lemmas.C32S
/-
Helper lemmas for the lock-scope session model, part 2: `pullCore` on coherent
caches is `specPull` (result, stored state) and leaves coherent caches.
-/
namespace BreezyVerif.C32

theorem mergeTags_spec (ow : Bool) (stags : Tags) (c : Caches) (st : St) (h2 : cacheOK c.tags st.tags) :
    mergeTags ow stags c st =
      (match stags with
       | [] => (0, c, st)
       | _ =>
         if (reconcile ow stags st.tags 0).1 = st.tags
         then ((reconcile ow stags st.tags 0).2, { c with tags := some st.tags }, st)
         else ((reconcile ow stags st.tags 0).2, { c with tags := some (reconcile ow stags st.tags 0).1 },
               { st with tags := (reconcile ow stags st.tags 0).1 })) := by
  cases stags with
  | nil => rfl
  | cons a rest =>
    simp only [mergeTags]
    rw [cReadTags_coh c st h2]
    simp only [cSetTags]

theorem updateRevisions_spec (src : Graph) (ow : Bool) (n : Nat) (r : RevId) (c : Caches) (st : St) (last : RevId) :
    updateRevisions src (addRevs src) ow n r c st last =
      (if r = nullRev then (none, c, st)
       else match lookup r src with
         | none => (some .noSuchRevision, c, st)
         | some _ =>
           if ow then (none, { tip := some (n, r), tags := none }, { addRevs src st (fetchRevs src r) with tip := (n, r) })
           else if isAnc (addRevs src st (fetchRevs src r)).revs r last then (none, c, addRevs src st (fetchRevs src r))
           else if isAnc (addRevs src st (fetchRevs src r)).revs last r then
             (none, { tip := some (n, r), tags := none }, { addRevs src st (fetchRevs src r) with tip := (n, r) })
           else (some .diverged, c, addRevs src st (fetchRevs src r))) := by
  unfold updateRevisions cSetTip
  rfl

theorem pullCore_spec (src : Graph) (ow : Bool) (n : Nat) (r : RevId) (stags : Tags) (c : Caches) (st : St)
    (h1 : cacheOK c.tip st.tip) (h2 : cacheOK c.tags st.tags) :
    ((pullCore src (addRevs src) ow n r stags c st).1, (pullCore src (addRevs src) ow n r stags c st).2.2)
        = specPull src ow n r stags st
      ∧ cacheOK (pullCore src (addRevs src) ow n r stags c st).2.1.tip
          (pullCore src (addRevs src) ow n r stags c st).2.2.tip
      ∧ cacheOK (pullCore src (addRevs src) ow n r stags c st).2.1.tags
          (pullCore src (addRevs src) ow n r stags c st).2.2.tags := by
  unfold pullCore specPull specUpdate specMerge
  rw [cReadTip_coh c st h1]
  simp only [updateRevisions_spec]
  by_cases hr : r = nullRev
  · simp only [hr, if_true]
    rw [mergeTags_spec _ _ _ _ (by exact h2)]
    cases stags with
    | nil => simp [cReadTip, cacheOK]; rcases h2 with h | h <;> simp [h]
    | cons a rest =>
      simp only []
      split <;> simp_all [cReadTip, cacheOK]
  · simp only [hr, if_false]
    cases hl : lookup r src with
    | none => simp [cacheOK]; rcases h2 with h | h <;> simp [h]
    | some ps =>
      simp only []
      cases ow with
      | true =>
        simp only [if_true]
        rw [mergeTags_spec _ _ _ _ (cacheOK_none _)]
        cases stags with
        | nil => simp [cReadTip, cacheOK]
        | cons a rest =>
          simp only []
          split <;> simp_all [cReadTip, cacheOK, addRevs_tags]
      | false =>
        simp only [Bool.false_eq_true, if_false]
        by_cases ha : isAnc (addRevs src st (fetchRevs src r)).revs r st.tip.2 = true
        · simp only [ha, if_true]
          rw [mergeTags_spec _ _ _ _ (by exact h2)]
          cases stags with
          | nil => simp [cReadTip, cacheOK, addRevs_tip]; rcases h2 with h | h <;> simp [h, addRevs_tags]
          | cons a rest =>
            simp only []
            split <;> simp_all [cReadTip, cacheOK, addRevs_tags, addRevs_tip]
        · have ha' : isAnc (addRevs src st (fetchRevs src r)).revs r st.tip.2 = false := by simpa using ha
          simp only [ha', Bool.false_eq_true, if_false]
          by_cases hb : isAnc (addRevs src st (fetchRevs src r)).revs st.tip.2 r = true
          · simp only [hb, if_true]
            rw [mergeTags_spec _ _ _ _ (cacheOK_none _)]
            cases stags with
            | nil => simp [cReadTip, cacheOK]
            | cons a rest =>
              simp only []
              split <;> simp_all [cReadTip, cacheOK, addRevs_tags]
          · have hb' : isAnc (addRevs src st (fetchRevs src r)).revs st.tip.2 r = false := by simpa using hb
            simp only [hb', Bool.false_eq_true, if_false]
            simp [cacheOK, addRevs_tip, addRevs_tags]
            rcases h2 with h | h <;> simp [h]

/-! ### frame facts of the specification's pull -/

theorem specUpdate_lock (src : Graph) (ow : Bool) (n : Nat) (r : RevId) (st : St) :
    (specUpdate src ow n r st).2.lock = st.lock := by
  unfold specUpdate
  split
  · rfl
  · split
    · rfl
    · simp only []
      split
      · rfl
      · split
        · rfl
        · split <;> rfl

theorem specUpdate_tags (src : Graph) (ow : Bool) (n : Nat) (r : RevId) (st : St) :
    (specUpdate src ow n r st).2.tags = st.tags := by
  unfold specUpdate
  split
  · rfl
  · split
    · rfl
    · simp only []
      split
      · rfl
      · split
        · rfl
        · split <;> rfl

theorem specMerge_lock (ow : Bool) (stags : Tags) (old : Nat × RevId) (s1 : St) :
    (specMerge ow stags old s1).2.lock = s1.lock := by
  unfold specMerge
  split
  · rfl
  · simp only []
    split <;> rfl

theorem specPull_lock (src : Graph) (ow : Bool) (n : Nat) (r : RevId) (stags : Tags) (st : St) :
    (specPull src ow n r stags st).2.lock = st.lock := by
  unfold specPull
  have h := specUpdate_lock src ow n r st
  split
  · rename_i e s1 heq
    rw [heq] at h
    exact h
  · rename_i s1 heq
    rw [heq] at h
    rw [specMerge_lock]
    exact h

theorem specUpdate_owner (src : Graph) (ow : Bool) (n : Nat) (r : RevId) (st : St) :
    (specUpdate src ow n r st).2.owner = st.owner := by
  unfold specUpdate
  split
  · rfl
  · split
    · rfl
    · simp only []
      split
      · rfl
      · split
        · rfl
        · split <;> rfl

theorem specMerge_owner (ow : Bool) (stags : Tags) (old : Nat × RevId) (s1 : St) :
    (specMerge ow stags old s1).2.owner = s1.owner := by
  unfold specMerge
  split
  · rfl
  · simp only []
    split <;> rfl

theorem specPull_owner (src : Graph) (ow : Bool) (n : Nat) (r : RevId) (stags : Tags) (st : St) :
    (specPull src ow n r stags st).2.owner = st.owner := by
  unfold specPull
  have h := specUpdate_owner src ow n r st
  split
  · rename_i e s1 heq
    rw [heq] at h
    exact h
  · rename_i s1 heq
    rw [heq] at h
    rw [specMerge_owner]
    exact h

theorem specPull_nil_tags (src : Graph) (ow : Bool) (n : Nat) (r : RevId) (st : St) :
    (specPull src ow n r [] st).2.tags = st.tags := by
  unfold specPull
  have h := specUpdate_tags src ow n r st
  split
  · rename_i e s1 heq
    rw [heq] at h
    exact h
  · rename_i s1 heq
    rw [heq] at h
    exact h

theorem updateRevisions_tagsC (src : Graph) (fetch : St → List RevId → St) (ow : Bool) (n : Nat) (r : RevId)
    (c : Caches) (st : St) (last : RevId) (h : c.tags = none) :
    (updateRevisions src fetch ow n r c st last).2.1.tags = none := by
  unfold updateRevisions cSetTip
  split
  · exact h
  · split
    · exact h
    · simp only []
      split
      · rfl
      · split
        · exact h
        · split
          · rfl
          · exact h

theorem cReadTip_tags (c : Caches) (st : St) : (cReadTip c st).2.tags = c.tags := by
  unfold cReadTip
  split <;> rfl

/-- a pull without source tags never fills an empty tags cache -/
theorem pullCore_nil_tagsC (src : Graph) (fetch : St → List RevId → St) (ow : Bool) (n : Nat) (r : RevId)
    (c : Caches) (st : St) (h : c.tags = none) :
    (pullCore src fetch ow n r [] c st).2.1.tags = none := by
  unfold pullCore
  simp only []
  have hu := updateRevisions_tagsC src fetch ow n r (cReadTip c st).2 st (cReadTip c st).1.2
    (by rw [cReadTip_tags]; exact h)
  split
  · rename_i e c2 s2 heq
    rw [heq] at hu
    exact hu
  · rename_i c2 s2 heq
    rw [heq] at hu
    simp only [mergeTags, cReadTip_tags]
    exact hu

end BreezyVerif.C32
