"""C43 finding (third manifestation of the deferred-deletion defect; the other two are committed known findings):
a revision removes directory `a` (with content) and renames the EMPTY directory `d` to `a`.
upload_tree defers `rmdir a` (not empty yet), finishes the rename (d -> a), then finish_deletions removes `a` -
which now is the renamed directory.  No error is raised; the remote has no `a` although the tree has one.
Run:  cd /verif && [VERIF_REPO=<tree>] /venv/bin/python /var/tmp/imp-C43C44/c43/repro_empty_dir_onto_deleted_dir.py (exit 1 = defect)"""
import io, os, sys
sys.path.insert(0, "/verif/harness")
from vlib import env
env.boot()
from breezy import transport as T
from breezy.plugins.upload.cmds import BzrUploader
wt = env.make_tree("2a"); r = wt.basedir
os.mkdir(r + "/a"); open(r + "/a/b", "w").write("1\n"); os.mkdir(r + "/d")
wt.smart_add([r]); r1 = wt.commit("1")
wt.remove(["a"], keep_files=False, force=True); wt.rename_one("d", "a"); r2 = wt.commit("2")
remote = env.fresh_dir("p"); t = T.get_transport(remote)
for rid in (r1, r2):
    BzrUploader(wt.branch, t, io.StringIO(), wt.branch.repository.revision_tree(rid), rid, quiet=True).upload_tree()
tree = wt.branch.repository.revision_tree(r2)
with tree.lock_read():
    want = sorted(p for p, _ in tree.iter_entries_by_dir() if p)
got = sorted(n for n in os.listdir(remote) if not n.startswith(".bzr-upload"))
print("tree:", want, "remote:", got)
sys.exit(0 if want == got else 1)
