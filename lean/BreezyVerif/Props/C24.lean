import BreezyVerif.Lemmas.C24
import BreezyVerif.Lemmas.C24Bencode
/-!
C24 — theorems.  Tag dictionaries are arbitrary finite maps (association lists
with unique keys, `Nodup` of the key list being the explicit hypothesis where it
is needed) over *any* key and value types with decidable equality; selectors
are arbitrary predicates; nothing is bounded.

`srcSel sel src n` is the source's definition of `n` if `n` passes the selector,
`specVal`/`specUpd` (Lemmas/C24.lean) spell out the statement per tag name.
-/
namespace BreezyVerif.C24

section reconcile
variable {κ ν : Type} [DecidableEq κ] [DecidableEq ν]

/-- Complete pointwise characterisation of the resulting dictionary. -/
theorem reconcile_result_pointwise (src dst : Dict κ ν) (ow : Bool) (sel : Option (κ → Bool))
    (hn : (dkeys src).Nodup) (n : κ) :
    dget (reconcile src dst ow sel).result n = specVal (srcSel sel src n) (dget dst n) ow :=
  foldl_result ow sel src hn _ n

/-- Complete pointwise characterisation of the reported updates. -/
theorem reconcile_updates_pointwise (src dst : Dict κ ν) (ow : Bool) (sel : Option (κ → Bool))
    (hn : (dkeys src).Nodup) (n : κ) :
    dget (reconcile src dst ow sel).updates n = specUpd (srcSel sel src n) (dget dst n) ow := by
  have := foldl_updates ow sel src hn ⟨dst, [], []⟩ n
  unfold reconcile
  rw [this]
  cases specUpd (srcSel sel src n) (dget dst n) ow <;> simp

/-- The reported conflicts are exactly the selected names defined differently on
both sides, when overwrite is off — as `(name, source value, destination value)`. -/
theorem reconcile_conflicts_exact (src dst : Dict κ ν) (ow : Bool) (sel : Option (κ → Bool))
    (hn : (dkeys src).Nodup) (c : κ × ν × ν) :
    c ∈ (reconcile src dst ow sel).conflicts ↔
      (ow = false ∧ srcSel sel src c.1 = some c.2.1 ∧ dget dst c.1 = some c.2.2 ∧ c.2.1 ≠ c.2.2) := by
  have := foldl_conflicts ow sel src hn ⟨dst, [], []⟩ c
  unfold reconcile
  rw [this]; simp

/-- every tag only in the source (and selected) is added, and reported as an update -/
theorem reconcile_source_only_added (src dst : Dict κ ν) (ow : Bool) (sel : Option (κ → Bool))
    (hn : (dkeys src).Nodup) (n : κ) (v : ν)
    (hsel : selected sel n = true) (hs : dget src n = some v) (hd : dget dst n = none) :
    dget (reconcile src dst ow sel).result n = some v
      ∧ dget (reconcile src dst ow sel).updates n = some v := by
  rw [reconcile_result_pointwise _ _ _ _ hn, reconcile_updates_pointwise _ _ _ _ hn]
  simp [srcSel, hsel, hs, hd, specVal, specUpd]

/-- every tag not (selectably) in the source is kept with the destination's
value — in particular every tag only in the destination — and is not reported -/
theorem reconcile_dest_only_kept (src dst : Dict κ ν) (ow : Bool) (sel : Option (κ → Bool))
    (hn : (dkeys src).Nodup) (n : κ) (hs : srcSel sel src n = none) :
    dget (reconcile src dst ow sel).result n = dget dst n
      ∧ dget (reconcile src dst ow sel).updates n = none
      ∧ ∀ v w, (n, v, w) ∉ (reconcile src dst ow sel).conflicts := by
  rw [reconcile_result_pointwise _ _ _ _ hn, reconcile_updates_pointwise _ _ _ _ hn]
  refine ⟨by simp [hs, specVal_none], by simp [hs, specUpd_none], ?_⟩
  intro v w h
  rw [reconcile_conflicts_exact _ _ _ _ hn] at h
  simp [hs] at h

/-- identical definitions are unchanged and not reported -/
theorem reconcile_same_unchanged (src dst : Dict κ ν) (ow : Bool) (sel : Option (κ → Bool))
    (hn : (dkeys src).Nodup) (n : κ) (v : ν) (hs : dget src n = some v) (hd : dget dst n = some v) :
    dget (reconcile src dst ow sel).result n = some v
      ∧ dget (reconcile src dst ow sel).updates n = none
      ∧ ∀ x w, (n, x, w) ∉ (reconcile src dst ow sel).conflicts := by
  rw [reconcile_result_pointwise _ _ _ _ hn, reconcile_updates_pointwise _ _ _ _ hn]
  refine ⟨?_, ?_, ?_⟩
  · cases h : selected sel n <;> simp [srcSel, h, hs, hd, specVal]
  · cases h : selected sel n <;> simp [srcSel, h, hs, hd, specUpd]
  · intro x w hc
    rw [reconcile_conflicts_exact _ _ _ _ hn] at hc
    obtain ⟨_, h1, h2, h3⟩ := hc
    cases h : selected sel n <;> simp [srcSel, h, hs, hd] at h1 h2
    exact h3 (h1.symm.trans h2)

/-- differing definitions without overwrite: the destination value is kept, the
conflict `(name, source, dest)` is reported, nothing is listed as updated -/
theorem reconcile_conflict_keeps_dest (src dst : Dict κ ν) (sel : Option (κ → Bool))
    (hn : (dkeys src).Nodup) (n : κ) (v w : ν) (hsel : selected sel n = true)
    (hs : dget src n = some v) (hd : dget dst n = some w) (hne : v ≠ w) :
    dget (reconcile src dst false sel).result n = some w
      ∧ (n, v, w) ∈ (reconcile src dst false sel).conflicts
      ∧ dget (reconcile src dst false sel).updates n = none := by
  rw [reconcile_result_pointwise _ _ _ _ hn, reconcile_updates_pointwise _ _ _ _ hn,
    reconcile_conflicts_exact _ _ _ _ hn]
  simp [srcSel, hsel, hs, hd, hne, specVal, specUpd]

/-- differing definitions with overwrite: the source value wins, is reported as
an update and no conflict is reported for the name -/
theorem reconcile_overwrite_takes_source (src dst : Dict κ ν) (sel : Option (κ → Bool))
    (hn : (dkeys src).Nodup) (n : κ) (v w : ν) (hsel : selected sel n = true)
    (hs : dget src n = some v) (hd : dget dst n = some w) (hne : v ≠ w) :
    dget (reconcile src dst true sel).result n = some v
      ∧ dget (reconcile src dst true sel).updates n = some v
      ∧ (reconcile src dst true sel).conflicts = [] := by
  rw [reconcile_result_pointwise _ _ _ _ hn, reconcile_updates_pointwise _ _ _ _ hn]
  refine ⟨by simp [srcSel, hsel, hs, hd, hne, specVal], by simp [srcSel, hsel, hs, hd, hne, specUpd], ?_⟩
  apply List.eq_nil_iff_forall_not_mem.mpr
  intro c hc
  rw [reconcile_conflicts_exact _ _ _ _ hn] at hc
  simp at hc

/-- `updates` is exactly the set of names whose value changed, with the new value -/
theorem updates_exact (src dst : Dict κ ν) (ow : Bool) (sel : Option (κ → Bool))
    (hn : (dkeys src).Nodup) (n : κ) :
    dget (reconcile src dst ow sel).updates n
      = if dget (reconcile src dst ow sel).result n = dget dst n then none
        else dget (reconcile src dst ow sel).result n := by
  rw [reconcile_result_pointwise _ _ _ _ hn, reconcile_updates_pointwise _ _ _ _ hn]
  unfold specVal specUpd
  cases srcSel sel src n with
  | none => simp
  | some v =>
    cases dget dst n with
    | none => simp
    | some w =>
      by_cases h : v = w
      · simp [h]
      · cases ow <;> simp [h]

/-- a name rejected by the selector is left exactly as it is in the destination -/
theorem selector_respected (src dst : Dict κ ν) (ow : Bool) (f : κ → Bool)
    (hn : (dkeys src).Nodup) (n : κ) (hf : f n = false) :
    dget (reconcile src dst ow (some f)).result n = dget dst n
      ∧ dget (reconcile src dst ow (some f)).updates n = none
      ∧ ∀ v w, (n, v, w) ∉ (reconcile src dst ow (some f)).conflicts :=
  reconcile_dest_only_kept src dst ow (some f) hn n (by simp [srcSel, selected, hf])

/-- no tag of the destination is ever lost -/
theorem reconcile_never_loses (src dst : Dict κ ν) (ow : Bool) (sel : Option (κ → Bool))
    (hn : (dkeys src).Nodup) (n : κ) (h : n ∈ dkeys dst) :
    n ∈ dkeys (reconcile src dst ow sel).result := by
  rw [← dget_isSome_iff] at h ⊢
  rw [reconcile_result_pointwise _ _ _ _ hn]
  unfold specVal
  cases hd : dget dst n with
  | none => simp [hd] at h
  | some w =>
    cases srcSel sel src n with
    | none => simp
    | some v => by_cases e : v = w <;> cases ow <;> simp [e]

/-- the resulting key set: destination names plus selected source names -/
theorem reconcile_keys (src dst : Dict κ ν) (ow : Bool) (sel : Option (κ → Bool))
    (hn : (dkeys src).Nodup) (n : κ) :
    n ∈ dkeys (reconcile src dst ow sel).result ↔
      n ∈ dkeys dst ∨ (selected sel n = true ∧ n ∈ dkeys src) := by
  rw [← dget_isSome_iff, ← dget_isSome_iff, ← dget_isSome_iff, reconcile_result_pointwise _ _ _ _ hn]
  unfold specVal srcSel
  cases hsel : selected sel n <;> cases hs : dget src n <;> cases hd : dget dst n <;> simp
  rename_i v w
  by_cases e : v = w <;> cases ow <;> simp [e]

/-- the result is again a dictionary (unique keys) -/
theorem reconcile_result_nodup (src dst : Dict κ ν) (ow : Bool) (sel : Option (κ → Bool))
    (hd : (dkeys dst).Nodup) : (dkeys (reconcile src dst ow sel).result).Nodup :=
  foldl_result_nodup ow sel src _ hd

/-! ### `InterTags._merge_to` / `InterTags.merge` -/

/-- `_merge_to` skips the write when `result == dest_dict`; what is stored is
the reconciled dictionary in every case (as a map) -/
theorem mergeTo_stored (dst src : Dict κ ν) (ow : Bool) (sel : Option (κ → Bool))
    (hd : (dkeys dst).Nodup) (n : κ) :
    dget (mergeTo dst src ow sel).1 n = dget (reconcile src dst ow sel).result n := by
  unfold mergeTo
  simp only
  split
  · rfl
  · rename_i h
    exact (dictNe_false _ _ (reconcile_result_nodup src dst ow sel hd) (by simpa using h) n).symm

/-- nothing happens when source and target are the same branch, the source does
not support tags, or the source has no tags -/
theorem merge_noop (same sup : Bool) (src tgt : Dict κ ν) (m : Option (Dict κ ν)) (ow ign : Bool)
    (sel : Option (κ → Bool)) (h : same = true ∨ sup = false ∨ src = []) :
    merge same sup src tgt m ow ign sel = ⟨tgt, m, [], []⟩ := by
  unfold merge
  have : (same || !sup || src.isEmpty) = true := by
    rcases h with h | h | h <;> simp [h]
  simp [this]

/-- the target branch's tags after `merge`: the reconciliation of source and target -/
theorem merge_target_pointwise (src tgt : Dict κ ν) (m : Option (Dict κ ν)) (ow ign : Bool)
    (sel : Option (κ → Bool)) (hs : (dkeys src).Nodup) (ht : (dkeys tgt).Nodup) (hne : src ≠ [])
    (n : κ) :
    dget (merge false true src tgt m ow ign sel).target n
      = specVal (srcSel sel src n) (dget tgt n) ow := by
  have he : src.isEmpty = false := by cases src <;> simp_all
  rw [← reconcile_result_pointwise src tgt ow sel hs, ← mergeTo_stored tgt src ow sel ht]
  unfold merge
  simp only [he, Bool.not_true, Bool.or_self, Bool.false_eq_true, if_false]
  split <;> rfl

/-- the master branch's tags after `merge`: reconciled with the *source* (not
with the target) unless `ignore_master`; untouched otherwise -/
theorem merge_master_pointwise (src tgt : Dict κ ν) (m : Dict κ ν) (ow : Bool)
    (sel : Option (κ → Bool)) (hs : (dkeys src).Nodup) (hm : (dkeys m).Nodup) (hne : src ≠ []) :
    (∃ m', (merge false true src tgt (some m) ow false sel).master = some m'
        ∧ ∀ n, dget m' n = specVal (srcSel sel src n) (dget m n) ow)
      ∧ (merge false true src tgt (some m) ow true sel).master = some m
      ∧ (merge false true src tgt none ow false sel).master = none := by
  have he : src.isEmpty = false := by cases src <;> simp_all
  refine ⟨⟨(mergeTo m src ow sel).1, ?_, ?_⟩, ?_, ?_⟩
  · unfold merge; simp [he]
  · intro n
    rw [← reconcile_result_pointwise src m ow sel hs, mergeTo_stored m src ow sel hm]
  · unfold merge; simp [he]
  · unfold merge; simp [he]

/-- the reported conflict set is the union of the target's and the master's conflicts -/
theorem merge_conflicts_exact (src tgt : Dict κ ν) (m : Option (Dict κ ν)) (ow ign : Bool)
    (sel : Option (κ → Bool)) (hne : src ≠ []) (c : κ × ν × ν) :
    c ∈ (merge false true src tgt m ow ign sel).conflicts ↔
      c ∈ (reconcile src tgt ow sel).conflicts
        ∨ ∃ md, m = some md ∧ ign = false ∧ c ∈ (reconcile src md ow sel).conflicts := by
  have he : src.isEmpty = false := by cases src <;> simp_all
  unfold merge
  simp only [he, Bool.not_true, Bool.or_self, Bool.false_eq_true, if_false]
  cases ign <;> cases m <;> simp [mergeTo, List.mem_eraseDups]

/-- the reported updates: the master's update for a name if there is one, else the target's -/
theorem merge_updates_pointwise (src tgt m : Dict κ ν) (ow : Bool) (sel : Option (κ → Bool))
    (hs : (dkeys src).Nodup) (hne : src ≠ []) (n : κ) :
    dget (merge false true src tgt (some m) ow false sel).updates n
        = (match specUpd (srcSel sel src n) (dget m n) ow with
           | some x => some x
           | none => specUpd (srcSel sel src n) (dget tgt n) ow)
      ∧ dget (merge false true src tgt none ow false sel).updates n
        = specUpd (srcSel sel src n) (dget tgt n) ow := by
  have he : src.isEmpty = false := by cases src <;> simp_all
  constructor
  · unfold merge
    simp only [he, Bool.not_true, Bool.or_self, Bool.false_eq_true, if_false, mergeTo]
    have hu : (dkeys (reconcile src m ow sel).updates).Nodup :=
      foldl_updates_nodup ow sel src ⟨m, [], []⟩ (by simp [dkeys])
    rw [dget_dupdate _ _ hu,
      reconcile_updates_pointwise _ _ _ _ hs, reconcile_updates_pointwise _ _ _ _ hs]
    cases specUpd (srcSel sel src n) (dget m n) ow <;> rfl
  · unfold merge
    simp only [he, Bool.not_true, Bool.or_self, Bool.false_eq_true, if_false, mergeTo]
    exact reconcile_updates_pointwise _ _ _ _ hs n

example : (reconcile [(1, 10), (2, 20), (3, 30), (5, 50)] [(2, 21), (3, 30), (4, 40)] false
    (some fun n => n != 5)).result = [(2, 21), (3, 30), (4, 40), (1, 10)] := by decide
example : (reconcile [(1, 10), (2, 20), (3, 30), (5, 50)] [(2, 21), (3, 30), (4, 40)] false
    (some fun n => n != 5)).conflicts = [(2, 20, 21)] := by decide
example : (reconcile [(1, 10), (2, 20), (3, 30)] [(2, 21), (3, 30), (4, 40)] true none).updates
    = [(1, 10), (2, 20)] := by decide
example : (dkeys [(1, 10), (2, 20), (3, 30), (5, 50)]).Nodup := by decide

end reconcile

/-! ### serialisation -/

/-- the stored order is the sorted order; as a map nothing changes -/
theorem sortKV_same_map (d : Dict Bytes Bytes) (hn : (dkeys d).Nodup) (k : Bytes) :
    dget (sortKV d) k = dget d k := dget_sortKV d hn k

/-- bencode round trip for every dictionary of byte strings with unique keys:
decoding the encoding gives back the items, in key order -/
theorem bencode_dict_roundtrip (d : Dict Bytes Bytes) (hn : (dkeys d).Nodup) :
    decode (encDict d) = .ok (sortKV d) := by
  unfold decode encDict
  simp only
  have hlen := encItems_length (sortKV d)
  rw [decItems_enc (sortKV d) (sortKV_sorted d hn) _ (by simp; omega) none (by simp) []]

/-- `_deserialize_tag_dict (_serialize_tag_dict d) = d` for every tag dictionary
whose names are valid UTF-8 (i.e. every Python `str` without lone surrogates),
values arbitrary byte strings: same names, same values (`sortKV_same_map`),
stored in sorted order -/
theorem tags_roundtrip (d : Dict Bytes Bytes) (hn : (dkeys d).Nodup)
    (hu : ∀ k ∈ dkeys d, validUTF8 k = true) :
    deserialize (serialize d) = .ok (sortKV d) := by
  unfold deserialize serialize
  have hne : (encDict d).isEmpty = false := by simp [encDict]
  rw [hne, bencode_dict_roundtrip d hn]
  have : (sortKV d).all (fun e => validUTF8 e.1) = true := by
    rw [List.all_eq_true]
    intro e he
    exact hu e.1 ((dkeys_sortKV e.1 d).mp (by simp only [dkeys, List.mem_map]; exact ⟨e, he, rfl⟩))
  simp [this]

/-- the empty file is the empty dictionary (initial state of a branch) -/
theorem deserialize_empty : deserialize [] = .ok [] := rfl

-- non-vacuity: "é" ↦ "r1", "a" ↦ "", both hypotheses hold and the order changes
example : (dkeys [([0xC3, 0xA9], [114, 49]), ([97], ([] : Bytes))]).Nodup := by decide
example : ∀ k ∈ dkeys [([0xC3, 0xA9], [114, 49]), ([97], ([] : Bytes))], validUTF8 k = true := by decide
example : serialize [([0xC3, 0xA9], [114, 49]), ([97], [])]
    = [100, 49, 58, 97, 48, 58, 50, 58, 0xC3, 0xA9, 50, 58, 114, 49, 101] := by decide
example : validUTF8 [0xED, 0xA0, 0x80] = false ∧ validUTF8 [0xC0, 0x80] = false
    ∧ validUTF8 [0xF4, 0x90, 0x80, 0x80] = false ∧ validUTF8 [0xF0, 0x9F, 0x98, 0x80] = true := by decide
example : deserialize [100, 49, 58, 98, 48, 58, 49, 58, 97, 48, 58, 101] = .error .malformed := by rfl

end BreezyVerif.C24
