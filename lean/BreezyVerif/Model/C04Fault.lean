import BreezyVerif.Model.C04
/-!
C04 — the ERROR paths of `breezy/bzr/pack_repo.py`: what the code executes when
one transport call of `commit_write_group` / autopack / `pack()` raises (an I/O
error, a `TransportError`, `KeyboardInterrupt`) instead of the process being
killed.  The exception travels through the `try/finally` and `except` clauses of
the real code, which perform further transport operations; the model below gives
the COMPLETE list of operations executed in such a run, as a function of the
fault position.  Core Lean only.

What is modelled (read from `/repo`, compared with the observed transport trace
of real fault-injected runs on every check run):

* `_save_pack_names`: `lock_names()` is outside the `try`, so a failing lock
  runs nothing else; everything up to `_clear_obsolete_packs` is inside
  `try … finally: self._unlock_names()`; the unlock is wrapped by
  `@only_raises(LockNotHeld, LockBroken)` (`except BaseException`: an exception
  raised by the unlock itself is logged and dropped, the method continues);
  `_obsolete_packs(...)` runs AFTER the `finally`, i.e. only when the body
  completed;
* `_clear_obsolete_packs` and `_obsolete_packs` wrap every single `delete` /
  `move` in `except (errors.PathError, errors.TransportError)`: such an error
  skips that one call; anything else (raw `OSError`, `KeyboardInterrupt`)
  propagates;
* `abort_write_group` → `NewPack.abort()`: while the write group's own pack is
  still `_new_pack` (until `allocate`), the upload stream is closed if it is
  still open and the upload file is deleted; indices already written stay
  behind (unlisted);
* a pack written by a `Packer` (autopack, `pack()`) is not aborted on a plain
  exception (only on `RetryWithNewPacks`): its files stay behind;
* `pack()`: the final `_clear_obsolete_packs()` only runs when
  `_try_pack_operations` returned.
-/
namespace BreezyVerif.C04

inductive FKind where
  /-- raw `OSError` (ENOSPC …): `LocalTransport` re-raises it untranslated -/
  | io
  /-- `errors.TransportError` / `errors.PathError` family -/
  | transport
  /-- `KeyboardInterrupt` -/
  | interrupt
  /-- raised by a non-mutating call (`get`, `readv`, `list_dir` …) made just
  before operation `pos`: not attributable to the operation itself -/
  | read
  deriving DecidableEq, Repr

structure Fault where
  /-- index into the operation list of the fault-free run -/
  pos : Nat
  /-- the call completed before the exception was raised (an interrupt
  delivered right after the system call) -/
  after : Bool
  kind : FKind
  deriving DecidableEq, Repr

/-- caught by the `except (errors.PathError, errors.TransportError)` around a
single `delete` / `move` -/
def Fault.caught (f : Fault) : Bool := f.kind == .transport

/-- raised by the operation itself (so `@only_raises` on unlock drops it) -/
def Fault.own (f : Fault) : Bool := f.kind != .read

/-- number of operations of a segment that completed when the fault hits its
`i`-th operation -/
def Fault.done (f : Fault) (i : Nat) : Nat := if f.after && f.own then i + 1 else i

/-- the exception propagates: the rest of the segment is not executed -/
def cutAt (seg : List Op) (i : Nat) (f : Fault) : List Op := seg.take (f.done i)

/-- the exception is caught around operation `i`: the rest is executed -/
def skipAt (seg : List Op) (i : Nat) (f : Fault) : List Op := seg.take (f.done i) ++ seg.drop (i + 1)

/-- `_clear_obsolete_packs(preserve)` deleting in the order `ord` in which
`list_dir` returned the files (files not mentioned in `ord` last) -/
def clearOrd (d : Disk) (preserve : List Nat) (ord : List File) : List Op :=
  let t := clearTargets d preserve
  (ord.filter (fun f => t.contains f) ++ t.filter (fun f => !ord.contains f)).map Op.delete

def saveN (d : Disk) (v : View) : List Nat := mergeNames d.names v.atLoad v.names

def saveClear (d : Disk) (obs : Option (List Nat)) (ord : List File) : List Op :=
  match obs with
  | none => []
  | some s => clearOrd d s ord

def saveObsol (chk : Bool) (d : Disk) (obs : Option (List Nat)) : List Op :=
  match obs with
  | none => []
  | some s => (s.filter (fun n => !(alreadyObsolete d).contains n)).flatMap (obsoleteOps chk)

/-- the fault-free `_save_pack_names` with the deletions in `list_dir` order
(`saveOps` with `clearOrd` instead of `clearOps`) -/
def saveOpsOrd (chk : Bool) (d : Disk) (v : View) (obs : Option (List Nat)) (ord : List File) : List Op :=
  [Op.lock, Op.putNames (saveN d v)] ++ saveClear d obs ord ++ [Op.unlock] ++ saveObsol chk d obs

/-- **`_save_pack_names` with a fault at its `f.pos`-th operation**: everything
the method executes, including its `finally` clause. -/
def saveFault (chk : Bool) (d : Disk) (v : View) (obs : Option (List Nat)) (ord : List File) (f : Fault) : List Op :=
  let head := [Op.lock, Op.putNames (saveN d v)]
  let clear := saveClear d obs ord
  let obsol := saveObsol chk d obs
  if f.pos = 0 then cutAt [Op.lock] 0 f
  else if f.pos = 1 then [Op.lock] ++ cutAt [Op.putNames (saveN d v)] 0 f ++ [Op.unlock]
  else if f.pos < 2 + clear.length then
    if f.caught then head ++ skipAt clear (f.pos - 2) f ++ [Op.unlock] ++ obsol
    else head ++ cutAt clear (f.pos - 2) f ++ [Op.unlock]
  else if f.pos = 2 + clear.length then
    if f.own then head ++ clear ++ cutAt [Op.unlock] 0 f ++ obsol
    else head ++ clear ++ [Op.unlock]
  else
    if f.caught then head ++ clear ++ [Op.unlock] ++ skipAt obsol (f.pos - (3 + clear.length)) f
    else head ++ clear ++ [Op.unlock] ++ cutAt obsol (f.pos - (3 + clear.length)) f

/-- does the exception leave `_save_pack_names`? -/
def saveRaises (chk : Bool) (d : Disk) (obs : Option (List Nat)) (ord : List File) (f : Fault) : Bool :=
  let c := (saveClear d obs ord).length
  let o := (saveObsol chk d obs).length
  if f.pos ≤ 1 then true
  else if f.pos < 2 + c then !f.caught
  else if f.pos = 2 + c then !f.own
  else if f.pos < 3 + c + o then !f.caught
  else false

/-- `NewPack.abort()`: close the upload stream if it is still open, delete the
upload file -/
def abortNewPack (d : Disk) (tmp : File) : List Op :=
  (if tmp ∈ d.torn then [Op.endWrite tmp] else []) ++ [Op.delete tmp]

def Fault.shift (f : Fault) (n : Nat) : Fault := { f with pos := f.pos - n }

/-- the write group's own pack: a fault inside `open_write_stream` … `finish()`
is followed by `abort_write_group` (nothing if the pack object was never
created) -/
def newPackFault (chk : Bool) (d : Disk) (tmp : File) (name : Nat) (f : Fault) : List Op :=
  let done := cutAt (newPackOps chk tmp name) f.pos f
  if f.pos = 0 then done else done ++ abortNewPack (run d done) tmp

/-- **`commit_write_group` with a fault** (`commitOpsWith` is the fault-free
list; positions refer to it) -/
def commitFaultWith (chk : Bool) (d : Disk) (v : View) (plan : Plan) (tmp0 new0 tmp1 new1 : Nat)
    (ord : List File) (f : Fault) : List Op :=
  let pre := newPackOps chk (upTmp tmp0 false) new0
  let names1 := v.names ++ [new0]
  if f.pos < pre.length then newPackFault chk d (upTmp tmp0 false) new0 f
  else
    let g := f.shift pre.length
    match plan with
    | .combine [] => pre ++ saveFault chk d ⟨names1, v.atLoad⟩ (some []) ord g
    | .combine s =>
      let pre1 := newPackOps chk (upTmp tmp1 true) new1
      if g.pos < pre1.length then pre ++ cutAt pre1 g.pos g
      else pre ++ pre1 ++ saveFault chk d ⟨names1.filter (fun n => !s.contains n) ++ [new1], v.atLoad⟩ (some s) ord
        (g.shift pre1.length)
    | .error => pre
    | .noAutopack => pre ++ saveFault chk d ⟨names1, v.atLoad⟩ none ord g

def commitFault (chk : Bool) (d : Disk) (v : View) (counts : List (Nat × Nat)) (tmp0 new0 tmp1 new1 : Nat)
    (ord : List File) (f : Fault) : List Op :=
  commitFaultWith chk d v (planAutopack counts) tmp0 new0 tmp1 new1 ord f

/-- the final `_clear_obsolete_packs()` of `pack(clean_obsolete_packs=True)`
with a fault at its `i`-th deletion -/
def finalClearFault (d : Disk) (ord : List File) (i : Nat) (f : Fault) : List Op :=
  if f.caught then skipAt (clearOrd d [] ord) i f else cutAt (clearOrd d [] ord) i f

/-- a body of `pack()` that contains a `_save_pack_names` call, followed by the
final clear -/
def packTail (chk : Bool) (d : Disk) (v : View) (s : List Nat) (clean : Bool) (pre : List Op)
    (ord : List File) (f : Fault) : List Op :=
  let sv := saveOpsOrd chk d v (some s) ord
  if f.pos < pre.length then cutAt pre f.pos f
  else if f.pos < pre.length + sv.length then
    let g := f.shift pre.length
    let ex := pre ++ saveFault chk d v (some s) ord g
    if saveRaises chk d (some s) ord g then ex
    else ex ++ (if clean then clearOrd (run d ex) [] ord else [])
  else
    let body := pre ++ sv
    body ++ (if clean then finalClearFault (run d body) ord (f.pos - body.length) f else [])

/-- **`pack(hint)` with a fault** (`packOpsSel` is the fault-free list) -/
def packFaultSel (chk : Bool) (d : Disk) (v : View) (s : List Nat) (optimal clean : Bool)
    (tmp1 new1 : Nat) (ord : List File) (f : Fault) : List Op :=
  if !chk && v.names.length ≤ 1 then []
  else if !s.isEmpty && !optimal && v.names.contains new1 then
    cutAt (newPackOps chk (upTmp tmp1 true) new1) f.pos f
  else if s.isEmpty then packTail chk d v [] clean [] ord f
  else if optimal then
    let body := [Op.beginWrite (upTmp tmp1 true), Op.endWrite (upTmp tmp1 true), Op.delete (upTmp tmp1 true)]
    if f.pos < 3 then cutAt body f.pos f
    else body ++ (if clean then finalClearFault (run d body) ord (f.pos - 3) f else [])
  else
    packTail chk d ⟨v.names.filter (fun n => !s.contains n) ++ [new1], v.atLoad⟩ s clean
      (newPackOps chk (upTmp tmp1 true) new1) ord f

def packFault (chk : Bool) (d : Disk) (v : View) (hint : Option (List Nat)) (optimal clean : Bool)
    (tmp1 new1 : Nat) (ord : List File) (f : Fault) : List Op :=
  packFaultSel chk d v (hintSel v hint) optimal clean tmp1 new1 ord f

/-! ## Does the exception leave the operation?  (compared with the real run) -/

def finalClearRaises (d : Disk) (ord : List File) (i : Nat) (f : Fault) : Bool :=
  if i < (clearOrd d [] ord).length then !f.caught else false

def commitRaisesWith (chk : Bool) (d : Disk) (v : View) (plan : Plan) (tmp0 new0 tmp1 new1 : Nat)
    (ord : List File) (f : Fault) : Bool :=
  let pre := newPackOps chk (upTmp tmp0 false) new0
  if f.pos < pre.length then true
  else
    let g := f.shift pre.length
    match plan with
    | .combine [] => saveRaises chk d (some []) ord g
    | .combine s =>
      let pre1 := newPackOps chk (upTmp tmp1 true) new1
      if g.pos < pre1.length then true else saveRaises chk d (some s) ord (g.shift pre1.length)
    | .error => true
    | .noAutopack => saveRaises chk d none ord g

def packTailRaises (chk : Bool) (d : Disk) (v : View) (s : List Nat) (clean : Bool) (pre : List Op)
    (ord : List File) (f : Fault) : Bool :=
  let sv := saveOpsOrd chk d v (some s) ord
  if f.pos < pre.length then true
  else if f.pos < pre.length + sv.length then saveRaises chk d (some s) ord (f.shift pre.length)
  else if clean then finalClearRaises (run d (pre ++ sv)) ord (f.pos - (pre ++ sv).length) f else false

def packRaisesSel (chk : Bool) (d : Disk) (v : View) (s : List Nat) (optimal clean : Bool)
    (tmp1 new1 : Nat) (ord : List File) (f : Fault) : Bool :=
  if !chk && v.names.length ≤ 1 then false
  else if !s.isEmpty && !optimal && v.names.contains new1 then true
  else if s.isEmpty then packTailRaises chk d v [] clean [] ord f
  else if optimal then
    let body := [Op.beginWrite (upTmp tmp1 true), Op.endWrite (upTmp tmp1 true), Op.delete (upTmp tmp1 true)]
    if f.pos < 3 then true
    else if clean then finalClearRaises (run d body) ord (f.pos - 3) f else false
  else
    packTailRaises chk d ⟨v.names.filter (fun n => !s.contains n) ++ [new1], v.atLoad⟩ s clean
      (newPackOps chk (upTmp tmp1 true) new1) ord f

/-- **The seeded defect as a model variant**: `_obsolete_packs(...)` moved into
the `finally:` clause of `_save_pack_names`, so that it also runs when the
`put_file` of `pack-names` raised. -/
def saveFaultObsoleteInFinally (chk : Bool) (d : Disk) (v : View) (s : List Nat) (f : Fault) : List Op :=
  if f.pos = 1 then
    [Op.lock] ++ cutAt [Op.putNames (saveN d v)] 0 f ++ saveObsol chk d (some s) ++ [Op.unlock]
  else saveFault chk d v (some s) [] f

end BreezyVerif.C04
