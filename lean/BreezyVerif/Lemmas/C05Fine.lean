import BreezyVerif.Model.C05Fine
import BreezyVerif.Lemmas.C05Files
/-!
C05 — the invariants `InvA`, `InvB` at transport-operation granularity
(`Model/C05Fine.lean`): every queued operation of every process is an unlock, a
delete inside `obsolete_packs/`, or a move of a pack the process is about to
obsolete — each of them is safe for every listed and every finished unlisted
pack, whatever the other processes do in between.
-/
namespace BreezyVerif.C05
open BreezyVerif.C04

theorem upd_self {α : Type} (f : Nat → α) (i : Nat) : upd f i (f i) = f := by
  funext j; simp only [upd]; split
  · rename_i hj; rw [hj]
  · rfl

/-- `InvA` does not look at files -/
theorem invA_disk (s : Sys) (h : InvA s) (d' : Disk) (hd : d'.names = s.disk.names) :
    InvA { s with disk := d' } := by
  have := invA_files s 0 h d' hd (s.procs 0) rfl rfl
  rw [upd_self] at this
  exact this

theorem invA_forget (s : Sys) (h : InvA s) (i : Nat) :
    InvA { s with procs := upd s.procs i { s.procs i with toObsolete := [] } } := by
  have := invA_files s i h s.disk rfl { s.procs i with toObsolete := [] } rfl rfl
  exact this

/-- the file part of the state may change in any way that keeps the listed and
the finished unlisted packs readable -/
theorem invB_disk (s : Sys) (g : InvB s) (d' : Disk) (hd : d'.names = s.disk.names)
    (hr : ∀ n, ready s.chk s.disk n = true →
      (n ∈ s.disk.names ∨ ∃ p, n ∈ (s.procs p).names ∧ n ∉ (s.procs p).atLoad) → ready s.chk d' n = true) :
    InvB { s with disk := d' } := by
  refine ⟨g.bound_comb, g.bound_obs, ?_, ?_, ?_, g.cn, g.cb, ?_⟩
  · intro n hn
    have hn' : n ∈ s.disk.names := by rw [← hd]; exact hn
    exact hr n (g.r1 n hn') (Or.inl hn')
  · intro p n hn hna
    exact hr n (g.r2 p n hn hna) (Or.inr ⟨p, hn, hna⟩)
  · intro p n hn
    exact ⟨fun h => (g.obs p n hn).1 (by rw [← hd]; exact h), (g.obs p n hn).2⟩
  · intro p n hn h
    exact g.cd p n hn (by rw [← hd]; exact h)

theorem invB_forget (s : Sys) (g : InvB s) (i : Nat) :
    InvB { s with procs := upd s.procs i { s.procs i with toObsolete := [] } } := by
  have eN : ∀ p, (upd s.procs i { s.procs i with toObsolete := [] } p).names = (s.procs p).names := by
    intro p; by_cases hp : p = i
    · subst hp; simp
    · rw [upd_other _ _ hp]
  have eA : ∀ p, (upd s.procs i { s.procs i with toObsolete := [] } p).atLoad = (s.procs p).atLoad := by
    intro p; by_cases hp : p = i
    · subst hp; simp
    · rw [upd_other _ _ hp]
  have eC : ∀ p, (upd s.procs i { s.procs i with toObsolete := [] } p).combined = (s.procs p).combined := by
    intro p; by_cases hp : p = i
    · subst hp; simp
    · rw [upd_other _ _ hp]
  have eT : ∀ p n, n ∈ (upd s.procs i { s.procs i with toObsolete := [] } p).toObsolete →
      n ∈ (s.procs p).toObsolete := by
    intro p n hn; by_cases hp : p = i
    · subst hp; simp only [upd_same] at hn; cases hn
    · simpa only [upd_other _ _ hp] using hn
  refine ⟨?_, ?_, g.r1, ?_, ?_, ?_, ?_, ?_⟩
  · intro p n hn; rw [eC] at hn; exact g.bound_comb p n hn
  · intro p n hn; exact g.bound_obs p n (eT p n hn)
  · intro p n hn hna; rw [eN] at hn; rw [eA] at hna; exact g.r2 p n hn hna
  · intro p n hn
    refine ⟨(g.obs p n (eT p n hn)).1, ?_⟩
    intro q hq; rw [eN, eA] at hq
    exact (g.obs p n (eT p n hn)).2 q hq
  · intro p n hn; rw [eC] at hn; rw [eN]; exact g.cn p n hn
  · intro p n hn; rw [eC] at hn; exact g.cb p n hn
  · intro p n hn hd; rw [eC] at hn; rw [eA]; exact g.cd p n hn hd

/-! ### the queued operations -/

structure PendOK (f : FSys) : Prop where
  ok : ∀ i, ∀ op ∈ f.pend i, op = Op.unlock ∨ (∃ g, op = Op.delete g ∧ g.dir = .obsolete) ∨
      (f.obsPhase i = true ∧ ∃ n ∈ (f.s.procs i).toObsolete, op ∈ obsoleteOps f.s.chk n)
  idle : ∀ i, f.pend i = [] → f.obsPhase i = false

/-- a queued operation is safe for every listed and every finished unlisted pack -/
theorem pend_safe (f : FSys) (g : InvB f.s) (k : PendOK f) (i : Nat) (op : Op) (hop : op ∈ f.pend i) (n : Nat)
    (hn : n ∈ f.s.disk.names ∨ ∃ p, n ∈ (f.s.procs p).names ∧ n ∉ (f.s.procs p).atLoad) :
    safeOp [n] op = true := by
  rcases k.ok i op hop with rfl | ⟨gf, rfl, hg⟩ | ⟨_, m, hm, hop'⟩
  · rfl
  · simp [safeOp, obsolete_not_touches [n] gf hg]
  · apply obsoleteOps_safe f.s.chk [n] m _ op hop'
    simp only [List.mem_singleton]
    rintro rfl
    rcases hn with hn | ⟨p, hp1, hp2⟩
    · exact (g.obs i m hm).1 hn
    · exact (g.obs i m hm).2 p ⟨hp1, hp2⟩

theorem isPut_of_pend (f : FSys) (k : PendOK f) (i : Nat) (op : Op) (hop : op ∈ f.pend i) : isPut op = false := by
  rcases k.ok i op hop with rfl | ⟨gf, rfl, _⟩ | ⟨_, m, _, hop'⟩
  · rfl
  · rfl
  · simp only [obsoleteOps, List.mem_cons, List.mem_map] at hop'
    rcases hop' with rfl | ⟨e, _, rfl⟩ <;> rfl

theorem step_procs_other (s : Sys) (i j : Nat) (a : Act) (h : j ≠ i) : (step s i a).procs j = s.procs j := by
  cases a <;> simp only [step, doReload] <;> (try split) <;> simp [upd_other _ _ h]

theorem step_chk (s : Sys) (i : Nat) (a : Act) : (step s i a).chk = s.chk := by
  cases a <;> simp only [step, doReload] <;> (try split) <;> rfl

structure FInv (f : FSys) : Prop where
  a : InvA f.s
  b : InvB f.s
  k : PendOK f

theorem finv_init (s : Sys) (h : InvA s) (g : InvB s) : FInv (FSys.init s) :=
  ⟨h, g, ⟨fun _ _ hop => (by cases hop), fun _ _ => rfl⟩⟩

/-- performing one queued operation -/
theorem finv_op (f : FSys) (i : Nat) (v : FInv f) : FInv (fstep f i .op) := by
  simp only [fstep]
  split
  · exact v
  · rename_i o rest hp
    have ho : o ∈ f.pend i := by rw [hp]; simp
    have hnames : (C04.step f.s.disk o).names = f.s.disk.names :=
      step_names_noPut _ _ (isPut_of_pend f v.k i o ho)
    have hA : InvA { f.s with disk := C04.step f.s.disk o } := invA_disk f.s v.a _ hnames
    have hB : InvB { f.s with disk := C04.step f.s.disk o } := by
      apply invB_disk f.s v.b _ hnames
      intro n hr hn
      exact (step_safe f.s.chk [n] f.s.disk o (pend_safe f v.b v.k i o ho n hn)).2 n (by simp) hr
    split
    · rename_i hlast
      refine ⟨invA_forget _ hA i, invB_forget _ hB i, ?_, ?_⟩
      · intro j op hop
        by_cases hj : j = i
        · subst hj; simp only [upd_same] at hop; cases hop
        · simp only [upd_other _ _ hj] at hop ⊢
          exact v.k.ok j op hop
      · intro j hj'
        by_cases hj : j = i
        · subst hj; simp
        · simp only [upd_other _ _ hj] at hj' ⊢
          exact v.k.idle j hj'
    · rename_i hlast
      refine ⟨hA, hB, ?_, ?_⟩
      · intro j op hop
        by_cases hj : j = i
        · subst hj
          simp only [upd_same] at hop
          exact v.k.ok j op (by rw [hp]; exact List.mem_cons_of_mem _ hop)
        · simp only [upd_other _ _ hj] at hop
          exact v.k.ok j op hop
      · intro j hj'
        by_cases hj : j = i
        · subst hj
          simp only [upd_same] at hj'
          subst hj'
          simpa using hlast
        · simp only [upd_other _ _ hj] at hj'
          exact v.k.idle j hj'

theorem run_lock_put_names (d : Disk) (M : List Nat) : (run d [Op.lock, Op.putNames M]).names = M := rfl

theorem ready_lock_put (chk : Bool) (d : Disk) (M : List Nat) (n : Nat) (h : ready chk d n = true) :
    ready chk (run d [Op.lock, Op.putNames M]) n = true := h

theorem clearOps_shape (d : Disk) (c : List Nat) : ∀ op ∈ clearOps d c, ∃ g, op = Op.delete g ∧ g.dir = .obsolete := by
  intro op hop
  simp only [clearOps, clearTargets, List.mem_map, List.mem_filter] at hop
  obtain ⟨g, ⟨_, hg⟩, rfl⟩ := hop
  simp only [Bool.and_eq_true, decide_eq_true_eq] at hg
  exact ⟨g, rfl, hg.1⟩

/-- beginning a phase -/
theorem finv_begin (f : FSys) (i : Nat) (a : Act) (v : FInv f) : FInv (fstep f i (.begin a)) := by
  simp only [fstep]
  split
  · exact v
  · rename_i hidle
    have hpi : f.pend i = [] := by simpa using hidle
    -- a step that leaves `pend` and `obsPhase` alone and only touches process `i`
    have keepK : ∀ s' : Sys, s'.chk = f.s.chk → (∀ j, j ≠ i → s'.procs j = f.s.procs j) →
        PendOK { f with s := s' } := by
      intro s' hc hp
      refine ⟨?_, v.k.idle⟩
      intro j op hop
      by_cases hj : j = i
      · subst hj; rw [hpi] at hop; cases hop
      · have := v.k.ok j op hop
        simp only [hc, hp j hj]
        exact this
    have atomic : ∀ b : Act, FInv { f with s := step f.s i b } := fun b =>
      ⟨invA_step f.s i b v.a, invB_step f.s i b v.a v.b,
        keepK _ (step_chk f.s i b) (fun j hj => step_procs_other f.s i j b hj)⟩
    cases a with
    | reload => exact atomic .reload
    | finish revs => exact atomic (.finish revs)
    | repack sel => exact atomic (.repack sel)
    | save clear =>
      simp only
      · refine ⟨?_, ?_, ?_, ?_⟩
        · have h1 := invA_save f.s i clear v.a
          simp only [step] at h1
          have h2 := invA_disk _ h1 (run f.s.disk [Op.lock, Op.putNames
            (mergeNames f.s.disk.names (f.s.procs i).atLoad (f.s.procs i).names)]) (by
              simp only [names_saveStep]; rfl)
          exact h2
        · exact invB_saveAux f.s i v.a v.b _ _ _ _ rfl (run_lock_put_names _ _)
            (fun n hr => ready_lock_put _ _ _ n hr)
            (by
              intro n hn
              rcases List.mem_append.mp hn with hn | hn
              · exact Or.inl hn
              · exact Or.inr (List.mem_filter.mp hn).1)
        · intro j op hop
          by_cases hj : j = i
          · subst hj
            simp only [beginSave, upd_same, List.mem_append, List.mem_singleton] at hop
            rcases hop with hop | rfl
            · cases clear
              · cases hop
              · exact Or.inr (Or.inl (clearOps_shape _ _ op hop))
            · exact Or.inl rfl
          · simp only [beginSave, upd_other _ _ hj] at hop ⊢
            exact v.k.ok j op hop
        · intro j hj'
          by_cases hj : j = i
          · subst hj
            simp [beginSave] at hj'
          · simp only [beginSave, upd_other _ _ hj] at hj'
            exact v.k.idle j hj'
    | obsolete =>
      simp only
      split
      · exact ⟨invA_forget _ v.a i, invB_forget _ v.b i,
          keepK _ rfl (fun j hj => upd_other _ _ hj)⟩
      · rename_i hne
        refine ⟨v.a, v.b, ?_, ?_⟩
        · intro j op hop
          by_cases hj : j = i
          · subst hj
            simp only [upd_same] at hop
            obtain ⟨n, hn, hop'⟩ := List.mem_flatMap.mp hop
            exact Or.inr (Or.inr ⟨by simp, n, hn, hop'⟩)
          · simp only [upd_other _ _ hj] at hop ⊢
            exact v.k.ok j op hop
        · intro j hj'
          by_cases hj : j = i
          · subst hj
            simp only [upd_same] at hj'
            rw [hj'] at hne
            simp at hne
          · simp only [upd_other _ _ hj] at hj' ⊢
            exact v.k.idle j hj'
    | clearAll =>
      refine ⟨v.a, v.b, ?_, ?_⟩
      · intro j op hop
        by_cases hj : j = i
        · subst hj
          simp only [upd_same] at hop
          exact Or.inr (Or.inl (clearOps_shape _ _ op hop))
        · simp only [upd_other _ _ hj] at hop
          exact v.k.ok j op hop
      · intro j hj'
        by_cases hj : j = i
        · subst hj; exact v.k.idle j hpi
        · simp only [upd_other _ _ hj] at hj'
          exact v.k.idle j hj'

theorem finv_step (f : FSys) (i : Nat) (a : FAct) (v : FInv f) : FInv (fstep f i a) := by
  cases a with
  | begin a => exact finv_begin f i a v
  | op => exact finv_op f i v

theorem finv_exec (f : FSys) (sched : FSchedule) (v : FInv f) : FInv (fexec f sched) := by
  induction sched generalizing f with
  | nil => exact v
  | cons a rest ih => exact ih _ (finv_step f a.1 a.2 v)

theorem fstep_chk (f : FSys) (i : Nat) (a : FAct) : (fstep f i a).s.chk = f.s.chk := by
  cases a with
  | op =>
    simp only [fstep]
    split
    · rfl
    · split <;> rfl
  | begin a =>
    simp only [fstep]
    split
    · rfl
    · cases a with
      | save clear => rfl
      | obsolete => simp only; split <;> rfl
      | clearAll => rfl
      | reload => exact step_chk _ _ _
      | finish revs => exact step_chk _ _ _
      | repack sel => exact step_chk _ _ _

theorem fexec_chk (f : FSys) (sched : FSchedule) : (fexec f sched).s.chk = f.s.chk := by
  induction sched generalizing f with
  | nil => rfl
  | cons a rest ih =>
    show (fexec (fstep f a.1 a.2) rest).s.chk = f.s.chk
    rw [ih, fstep_chk]

/-! ### the phase-granularity step is one particular operation-granularity run -/

theorem upd_upd {α : Type} (g : Nat → α) (i : Nat) (x y : α) : upd (upd g i x) i y = upd g i y := by
  funext j; simp only [upd]; split <;> rfl

theorem fexec_cons (f : FSys) (a : Nat × FAct) (rest : FSchedule) :
    fexec f (a :: rest) = fexec (fstep f a.1 a.2) rest := rfl

/-- performing all queued deletes / the unlock of process `i`, nobody in between -/
theorem drain_plain (ops : List Op) (f : FSys) (i : Nat) (hp : f.pend i = ops) (ho : f.obsPhase i = false) :
    fexec f (List.replicate ops.length (i, FAct.op)) =
      { f with s := { f.s with disk := run f.s.disk ops }, pend := upd f.pend i [] } := by
  induction ops generalizing f with
  | nil =>
    obtain ⟨s, pend, ob⟩ := f
    simp only at hp
    simp only [List.length_nil, List.replicate_zero, fexec, List.foldl_nil, run_nil]
    congr
    rw [← hp, upd_self]
  | cons o rest ih =>
    simp only [List.length_cons, List.replicate_succ, fexec_cons]
    have e : fstep f i .op = { f with s := { f.s with disk := C04.step f.s.disk o }, pend := upd f.pend i rest } := by
      simp only [fstep, hp, ho, Bool.and_false]
      rfl
    rw [e]
    have := ih { f with s := { f.s with disk := C04.step f.s.disk o }, pend := upd f.pend i rest }
      (upd_same _ _ _) ho
    rw [this]
    simp only [upd_upd, run_cons]

/-- performing all queued moves of `_obsolete_packs`, nobody in between -/
theorem drain_obs (ops : List Op) (hne : ops ≠ []) (f : FSys) (i : Nat) (hp : f.pend i = ops)
    (ho : f.obsPhase i = true) :
    fexec f (List.replicate ops.length (i, FAct.op)) =
      { s := { f.s with disk := run f.s.disk ops,
                        procs := upd f.s.procs i { f.s.procs i with toObsolete := [] } },
        pend := upd f.pend i [], obsPhase := upd f.obsPhase i false } := by
  induction ops generalizing f with
  | nil => exact absurd rfl hne
  | cons o rest ih =>
    simp only [List.length_cons, List.replicate_succ, fexec_cons]
    by_cases hr : rest = []
    · subst hr
      simp only [fstep, hp, ho, List.isEmpty_nil, Bool.and_self, if_true, List.length_nil, List.replicate_zero,
        fexec, List.foldl_nil, run_cons, run_nil]
    · have e : fstep f i .op =
          { f with s := { f.s with disk := C04.step f.s.disk o }, pend := upd f.pend i rest } := by
        simp only [fstep, hp]
        have : rest.isEmpty = false := by cases rest <;> simp_all
        simp only [this, Bool.false_and]
        rfl
      rw [e]
      have := ih hr { f with s := { f.s with disk := C04.step f.s.disk o }, pend := upd f.pend i rest }
        (upd_same _ _ _) ho
      rw [this]
      simp only [upd_upd, run_cons]

theorem fexec_append (f : FSys) (a b : FSchedule) : fexec f (a ++ b) = fexec (fexec f a) b := by
  simp [fexec, List.foldl_append]

theorem upd_nil_of (g : Nat → List Op) (i : Nat) (h : g i = []) : upd g i [] = g := by
  rw [← h, upd_self]

theorem upd_false_of (g : Nat → Bool) (i : Nat) (h : g i = false) : upd g i false = g := by
  rw [← h, upd_self]

/-- **Refinement.**  A phase of the phase-granularity model is the run of the
operation-granularity model in which the process begins the phase and performs
all its queued operations with nobody in between. -/
theorem phase_step_is_fine_run (f : FSys) (i : Nat) (a : Act) (hidle : f.pend i = []) (hobs : f.obsPhase i = false) :
    ∃ k, fexec f (phaseAsOps i a k) = { f with s := step f.s i a } := by
  have hb : ∀ b : Act, (!(f.pend i).isEmpty) = false := by intro _; simp [hidle]
  cases a with
  | reload => exact ⟨0, by simp [phaseAsOps, fexec, fstep, hidle]⟩
  | finish revs => exact ⟨0, by simp [phaseAsOps, fexec, fstep, hidle]⟩
  | repack sel => exact ⟨0, by simp [phaseAsOps, fexec, fstep, hidle]⟩
  | save clear =>
    refine ⟨((if clear then clearOps f.s.disk (f.s.procs i).combined else []) ++ [Op.unlock]).length, ?_⟩
    simp only [phaseAsOps, fexec_cons]
    have e : fstep f i (.begin (.save clear)) = beginSave f i clear := by simp [fstep, hidle]
    rw [e, drain_plain _ (beginSave f i clear) i (by simp [beginSave]) (by simpa [beginSave] using hobs)]
    simp only [beginSave, upd_upd, upd_nil_of _ _ hidle, step, ← run_append, List.append_assoc]
  | obsolete =>
    by_cases he : ((f.s.procs i).toObsolete.flatMap (obsoleteOps f.s.chk)).isEmpty = true
    · refine ⟨0, ?_⟩
      have hnil : (f.s.procs i).toObsolete.flatMap (obsoleteOps f.s.chk) = [] := by simpa using he
      simp only [phaseAsOps, List.replicate_zero, fexec, List.foldl_cons, List.foldl_nil, fstep, hidle,
        List.isEmpty_nil, Bool.not_true, Bool.false_eq_true, if_false, he, if_true, step, hnil, run_nil]
    · refine ⟨((f.s.procs i).toObsolete.flatMap (obsoleteOps f.s.chk)).length, ?_⟩
      simp only [phaseAsOps, fexec_cons]
      have e : fstep f i (.begin .obsolete) =
          { f with pend := upd f.pend i ((f.s.procs i).toObsolete.flatMap (obsoleteOps f.s.chk)),
                   obsPhase := upd f.obsPhase i true } := by
        simp [fstep, hidle, he]
      rw [e, drain_obs _ (by intro h; rw [h] at he; simp at he) _ i (upd_same _ _ _) (upd_same _ _ _)]
      simp only [upd_upd, upd_nil_of _ _ hidle, upd_false_of _ _ hobs, step]
  | clearAll =>
    refine ⟨(clearOps f.s.disk []).length, ?_⟩
    simp only [phaseAsOps, fexec_cons]
    have e : fstep f i (.begin .clearAll) = { f with pend := upd f.pend i (clearOps f.s.disk []) } := by
      simp [fstep, hidle]
    rw [e, drain_plain (clearOps f.s.disk []) { f with pend := upd f.pend i (clearOps f.s.disk []) } i
      (upd_same _ _ _) hobs]
    simp only [upd_upd, upd_nil_of _ _ hidle, step]

/-- every phase-granularity execution is an operation-granularity execution -/
theorem exec_is_fine_run (s : Sys) (sched : Schedule) :
    ∃ fs : FSchedule, fexec (FSys.init s) fs = FSys.init (exec s sched) := by
  induction sched generalizing s with
  | nil => exact ⟨[], rfl⟩
  | cons a rest ih =>
    obtain ⟨k, hk⟩ := phase_step_is_fine_run (FSys.init s) a.1 a.2 rfl rfl
    obtain ⟨fs, hfs⟩ := ih (step s a.1 a.2)
    refine ⟨phaseAsOps a.1 a.2 k ++ fs, ?_⟩
    rw [fexec_append, hk]
    exact hfs

/-- the reader clause from the invariants alone (used at both granularities) -/
theorem reload_finds_of_inv (s : Sys) (h : InvA s) (g : InvB s) (p : Nat) :
    ∀ n ∈ (s.procs p).names, ∀ r ∈ s.content n,
      ∃ m ∈ ((step s p .reload).procs p).names,
        r ∈ (step s p .reload).content m ∧ ready (step s p .reload).chk (step s p .reload).disk m = true := by
  intro n hn r hr
  have hnames : ((step s p .reload).procs p).names = mergeNames s.disk.names (s.procs p).atLoad (s.procs p).names := by
    simp [step, doReload, reloadProc_names]
  show ∃ m ∈ ((step s p .reload).procs p).names, r ∈ s.content m ∧ ready s.chk s.disk m = true
  rw [hnames]
  have privCase : ∀ m, m ∈ (s.procs p).names → m ∉ (s.procs p).atLoad → r ∈ s.content m →
      ∃ m ∈ mergeNames s.disk.names (s.procs p).atLoad (s.procs p).names,
        r ∈ s.content m ∧ ready s.chk s.disk m = true := by
    intro m hm hma hrm
    have hmd : m ∉ s.disk.names := fun hd => (h.priv p m hm hma).2 (h.ev m hd)
    exact ⟨m, mem_mergeNames.mpr (Or.inr ⟨hm, hma, hmd⟩), hrm, g.r2 p m hm hma⟩
  by_cases ha : n ∈ (s.procs p).atLoad
  · obtain ⟨m, hm, hrm⟩ := h.kept n (h.al p n ha) r hr
    by_cases hdrop : m ∈ (s.procs p).atLoad ∧ m ∉ (s.procs p).names
    · obtain ⟨m', hm', hma', hrm'⟩ := h.covers p m hdrop.1 hdrop.2 r hrm
      exact privCase m' hm' hma' hrm'
    · exact ⟨m, mem_mergeNames.mpr (Or.inl ⟨hm, hdrop⟩), hrm, g.r1 m hm⟩
  · exact privCase n hn ha hr

end BreezyVerif.C05
