import BreezyVerif.Common
/-!
C29 / C30 — smart-protocol wire codecs (breezy/bzr/smart/protocol.py, message.py).

Every decoder is modelled as the state machine the Python code implements:
`feed : S → Bytes → S` is one call of `accept_bytes`, run until the code would
raise `_NeedMoreBytes` / stop changing state.  Each constructor of a state type
carries exactly the data that is live in that state of the Python object
(`_in_buffer`, `bytes_left`, `_body`, `_trailer_buffer`, `chunk_in_progress`,
`chunks`, `error_in_progress`, `unused_data`, `_number_needed_bytes`).
`nextReadSize` is `next_read_size()` (an `Int`, because the Python expression
`5 - len(self._trailer_buffer)` can go negative on malformed input).

Encoders are plain functions to `Bytes`.

Core Lean only (linked into the driver executable).
-/
namespace BreezyVerif.C29

/-! ## bytes, lines, numbers -/

/-- `buf.find(b"\n")` + split: `(line without the newline, rest after it)` -/
def splitLine : Bytes → Option (Bytes × Bytes)
  | [] => none
  | c :: cs =>
    if c = 10 then some ([], cs)
    else match splitLine cs with
      | none => none
      | some (l, r) => some (c :: l, r)

/-- value of one digit character (0-9, a-f, A-F), none otherwise -/
def digitRaw (c : UInt8) : Option Nat :=
  let n := c.toNat
  if 48 ≤ n ∧ n ≤ 57 then some (n - 48)
  else if 97 ≤ n ∧ n ≤ 102 then some (n - 87)
  else if 65 ≤ n ∧ n ≤ 70 then some (n - 55)
  else none

def digitVal (base : Nat) (c : UInt8) : Option Nat :=
  match digitRaw c with
  | some d => if d < base then some d else none
  | none => none

def parseDigits (base : Nat) (acc : Nat) : Bytes → Option Nat
  | [] => some acc
  | c :: cs =>
    match digitVal base c with
    | none => none
    | some d => parseDigits base (acc * base + d) cs

/-- strict `int(line, base)`: a non-empty string of digits of that base.
(Python's `int` additionally accepts surrounding whitespace, a sign, `_`
separators and for base 16 a `0x` prefix; the encoders never produce those and
the model rejects them — see ASSUMPTIONS of the check.) -/
def parseNat (base : Nat) (cs : Bytes) : Option Nat :=
  if cs.isEmpty then none else parseDigits base 0 cs

def digitChar (d : Nat) : UInt8 :=
  if d < 10 then UInt8.ofNat (48 + d) else UInt8.ofNat (87 + d)

/-- `b"%d" % n` (base 10) / `f"{n:x}"` (base 16): most significant digit first -/
def natDigits (base : Nat) (n : Nat) : Bytes :=
  if _h : n < base ∨ base < 2 then [digitChar n]
  else natDigits base (n / base) ++ [digitChar (n % base)]
termination_by n
decreasing_by
  have : 2 ≤ base := by omega
  have : base ≤ n := by omega
  exact Nat.div_lt_self (by omega) (by omega)

/-- `struct.pack("!L", n)` (caller guarantees `n < 2^32`; Python raises otherwise) -/
def be32 (n : Nat) : Bytes :=
  [UInt8.ofNat (n / 16777216 % 256), UInt8.ofNat (n / 65536 % 256),
   UInt8.ofNat (n / 256 % 256), UInt8.ofNat (n % 256)]

/-- `struct.unpack("!L", b)` on the first four bytes -/
def unbe32 : Bytes → Nat
  | a :: b :: c :: d :: _ => a.toNat * 16777216 + b.toNat * 65536 + c.toNat * 256 + d.toNat
  | _ => 0

/-! ## `\x01`-tuples (protocol 1 and 2 argument lines) -/

/-- `b"\x01".join(args)` -/
def joinSoh : List Bytes → Bytes
  | [] => []
  | [a] => a
  | a :: rest => a ++ 1 :: joinSoh rest

/-- `_encode_tuple(args)` -/
def encodeTuple (args : List Bytes) : Bytes := joinSoh args ++ [10]

/-- `bytes.split(b"\x01")`: always at least one field -/
def splitSoh : Bytes → List Bytes
  | [] => [[]]
  | c :: cs =>
    if c = 1 then [] :: splitSoh cs
    else match splitSoh cs with
      | [] => [[c]]          -- unreachable; splitSoh is never empty
      | f :: fs => (c :: f) :: fs

inductive TupleResult where
  | none_                 -- `None` (empty input)
  | notTerminated         -- SmartProtocolError
  | ok (args : List Bytes)
  deriving DecidableEq, Repr

/-- `_decode_tuple(req_line)` -/
def decodeTuple (line : Bytes) : TupleResult :=
  if line.isEmpty then .none_
  else if line.getLast? = some 10 then .ok (splitSoh line.dropLast)
  else .notTerminated

/-! ## LengthPrefixedBodyDecoder -/

/-- `b"done\n"` -/
def doneMarker : Bytes := [100, 111, 110, 101, 10]

inductive LP where
  /-- `_state_accept_expecting_length`, `buf` = `_in_buffer` (no newline yet) -/
  | expectingLength (buf : Bytes)
  /-- `_state_accept_reading_body`, `left` = `bytes_left`, `body` = `_body` (undrained) -/
  | readingBody (left : Nat) (body : Bytes)
  /-- `_state_accept_reading_trailer` -/
  | readingTrailer (body trailer : Bytes)
  /-- `_state_accept_reading_unused`, `finished_reading = True` -/
  | done (body unused : Bytes)
  /-- `int(...)` raised ValueError out of accept_bytes -/
  | failed
  deriving DecidableEq, Repr

namespace LP

def init : LP := .expectingLength []

/-- `_state_accept_reading_trailer` on trailer buffer `t` (already extended) -/
def trailerStep (body t : Bytes) : LP :=
  if doneMarker.isPrefixOf t then .done body (t.drop 5) else .readingTrailer body t

/-- `_state_accept_reading_body` with `in_buf = x` followed (when the body is
complete) by the trailer state on an empty buffer -/
def bodyStep (left : Nat) (body x : Bytes) : LP :=
  if left ≤ x.length then trailerStep (body ++ x.take left) (x.drop left)
  else .readingBody (left - x.length) (body ++ x)

/-- `_state_accept_expecting_length` on buffer `b`, and what follows -/
def lengthStep (b : Bytes) : LP :=
  match splitLine b with
  | none => .expectingLength b
  | some (line, rest) =>
    match parseNat 10 line with
    | none => .failed
    | some n => bodyStep n [] rest

/-- `accept_bytes(x)` -/
def feed : LP → Bytes → LP
  | .expectingLength buf, x => lengthStep (buf ++ x)
  | .readingBody l body, x => bodyStep l body x
  | .readingTrailer body t, x => trailerStep body (t ++ x)
  | .done body u, x => .done body (u ++ x)
  | .failed, _ => .failed

/-- `read_pending_data()`: returns `_body` and clears it -/
def drain : LP → Bytes × LP
  | .readingBody l body => (body, .readingBody l [])
  | .readingTrailer body t => (body, .readingTrailer [] t)
  | .done body u => (body, .done [] u)
  | s => ([], s)

def finished : LP → Bool
  | .done .. => true
  | _ => false

def unused : LP → Bytes
  | .done _ u => u
  | _ => []

def body : LP → Bytes
  | .readingBody _ b => b
  | .readingTrailer b _ => b
  | .done b _ => b
  | _ => []

/-- `next_read_size()` -/
def nextReadSize : LP → Int
  | .readingBody l _ => (l : Int) + 5
  | .readingTrailer _ t => 5 - (t.length : Int)
  | .expectingLength _ => 6
  | .done .. => 1
  | .failed => 6

end LP

/-- `_encode_bulk_data(body)` -/
def lpEncode (body : Bytes) : Bytes :=
  natDigits 10 body.length ++ 10 :: (body ++ doneMarker)

/-- feed a list of reads one after the other -/
def feedAll {S : Type} (feed : S → Bytes → S) (s : S) : List Bytes → S
  | [] => s
  | x :: xs => feedAll feed (feed s x) xs

/-! ## ChunkedBodyDecoder -/

def chunkedHeader : Bytes := [99, 104, 117, 110, 107, 101, 100]   -- "chunked"
def errLine : Bytes := [69, 82, 82]                                -- "ERR"
def endLine : Bytes := [69, 78, 68]                                -- "END"

inductive Chunk where
  | data (b : Bytes)
  | failure (args : List Bytes)      -- FailedSmartServerResponse(args)
  deriving DecidableEq, Repr

structure CKAcc where
  chunks : List Chunk        -- completed chunks in arrival order (undrained `chunks` deque)
  error : Bool
  errParts : List Bytes      -- `error_in_progress`
  deriving DecidableEq, Repr

def CKAcc.empty : CKAcc := ⟨[], false, []⟩

/-- end of `_state_accept_reading_chunk` when the chunk is complete -/
def CKAcc.push (a : CKAcc) (c : Bytes) : CKAcc :=
  if a.error then { a with errParts := a.errParts ++ [c] }
  else { a with chunks := a.chunks ++ [.data c] }

/-- the `ERR` branch of `_state_accept_expecting_length` -/
def CKAcc.startErr (a : CKAcc) : CKAcc := { a with error := true, errParts := [] }

/-- `_finished()` -/
def CKAcc.finish (a : CKAcc) : List Chunk :=
  if a.error then a.chunks ++ [.failure a.errParts] else a.chunks

inductive CKErr where
  | badHeader | badLength
  deriving DecidableEq, Repr

inductive CK where
  | expectingHeader (buf : Bytes)
  | expectingLength (buf : Bytes) (acc : CKAcc)
  | readingChunk (left : Nat) (cur : Bytes) (acc : CKAcc)
  | done (chunks : List Chunk) (unused : Bytes)
  | failed (e : CKErr)
  deriving DecidableEq, Repr

theorem splitLine_length {b line rest : Bytes} (h : splitLine b = some (line, rest)) :
    rest.length < b.length := by
  induction b generalizing line with
  | nil => simp [splitLine] at h
  | cons c cs ih =>
    unfold splitLine at h
    split at h
    · simp at h; obtain ⟨_, rfl⟩ := h; simp
    · split at h
      · simp at h
      · rename_i l r heq
        simp at h; obtain ⟨_, rfl⟩ := h
        have := ih heq
        simp; omega

namespace CK

def init : CK := .expectingHeader []

/-- `_state_accept_expecting_length` on buffer `b`, followed by everything the
`accept_bytes` loop then runs (chunk bodies that are already buffered, further
length lines) -/
def lengthStep (b : Bytes) (acc : CKAcc) : CK :=
  match h : splitLine b with
  | none => .expectingLength b acc
  | some (line, rest) =>
    if line = errLine then lengthStep rest acc.startErr
    else if line = endLine then .done acc.finish rest
    else match parseNat 16 line with
      | none => .failed .badLength
      | some n =>
        if n ≤ rest.length then lengthStep (rest.drop n) (acc.push (rest.take n))
        else .readingChunk (n - rest.length) rest acc
termination_by b.length
decreasing_by
  · exact splitLine_length h
  · have := splitLine_length h; simp; omega

/-- `_state_accept_expecting_header` on buffer `b` -/
def headerStep (b : Bytes) : CK :=
  match splitLine b with
  | none => .expectingHeader b
  | some (line, rest) =>
    if line = chunkedHeader then lengthStep rest .empty else .failed .badHeader

/-- `accept_bytes(x)` -/
def feed : CK → Bytes → CK
  | .expectingHeader buf, x => headerStep (buf ++ x)
  | .expectingLength buf acc, x => lengthStep (buf ++ x) acc
  | .readingChunk l cur acc, x =>
    if l ≤ x.length then lengthStep (x.drop l) (acc.push (cur ++ x.take l))
    else .readingChunk (l - x.length) (cur ++ x) acc
  | .done cs u, x => .done cs (u ++ x)
  | .failed e, _ => .failed e

def finished : CK → Bool
  | .done .. => true
  | _ => false

def unused : CK → Bytes
  | .done _ u => u
  | _ => []

/-- all chunks completed so far (what `read_next_chunk` has returned or will return) -/
def chunks : CK → List Chunk
  | .expectingLength _ a => a.chunks
  | .readingChunk _ _ a => a.chunks
  | .done cs _ => cs
  | _ => []

/-- `next_read_size()` -/
def nextReadSize : CK → Int
  | .readingChunk l _ _ => (l : Int) + 4
  | .expectingLength buf _ => if buf.length = 0 then 2 else 1
  | .done .. => 1
  | .expectingHeader buf => max 0 (8 - (buf.length : Int))
  | .failed _ => 1

end CK

/-- `_send_chunks` for byte chunks -/
def encodeChunks : List Bytes → Bytes
  | [] => []
  | c :: cs => natDigits 16 c.length ++ 10 :: (c ++ encodeChunks cs)

/-- `_send_stream(stream)`: `chunks` then optionally a
`FailedSmartServerResponse(args)` which ends the stream -/
def ckEncode (chunks : List Bytes) (err : Option (List Bytes)) : Bytes :=
  chunkedHeader ++ 10 :: (encodeChunks chunks ++
    (match err with
     | none => []
     | some args => errLine ++ 10 :: encodeChunks args) ++ endLine ++ [10])

/-- what the receiver should see for `ckEncode chunks err` -/
def ckExpected (chunks : List Bytes) (err : Option (List Bytes)) : List Chunk :=
  chunks.map .data ++ (match err with | none => [] | some args => [.failure args])

/-! ## ProtocolThreeDecoder (framing level) -/

/-- `MESSAGE_VERSION_THREE` = `b"bzr message 3 (bzr 1.6)\n"` -/
def marker3 : Bytes :=
  [98, 122, 114, 32, 109, 101, 115, 115, 97, 103, 101, 32, 51, 32, 40, 98, 122, 114, 32, 49, 46,
   54, 41, 10]

/-- `REQUEST_VERSION_TWO` = `b"bzr request 2\n"` -/
def request2 : Bytes := [98, 122, 114, 32, 114, 101, 113, 117, 101, 115, 116, 32, 50, 10]
/-- `RESPONSE_VERSION_TWO` = `b"bzr response 2\n"` -/
def response2 : Bytes := [98, 122, 114, 32, 114, 101, 115, 112, 111, 110, 115, 101, 32, 50, 10]

/-- calls made on the message handler -/
inductive Ev where
  | headers (raw : Bytes)        -- headers_received(bdecode(raw))
  | byte (b : UInt8)             -- byte_part_received
  | bytes (b : Bytes)            -- bytes_part_received
  | struct (raw : Bytes)      -- structure_part_received(bdecode(raw))
  | end_                         -- end_received
  deriving DecidableEq, Repr

inductive V3Tag where
  | version | headers | part | oneByte | bytes | struct
  deriving DecidableEq, Repr

inductive V3Err where
  | badVersion      -- UnexpectedProtocolVersionMarker
  | badKind         -- SmartProtocolError: Bad message kind byte
  deriving DecidableEq, Repr

inductive V3 where
  /-- waiting for more bytes in state `tag`; `needed` = `_number_needed_bytes` -/
  | run (tag : V3Tag) (buf : Bytes) (evs : List Ev) (needed : Nat)
  /-- `_state_accept_reading_unused` -/
  | done (evs : List Ev) (unused : Bytes)
  /-- `decoding_failed = True` -/
  | failed (evs : List Ev) (e : V3Err)
  deriving DecidableEq, Repr

/-- `_extract_length_prefixed_bytes`: `inl n` = `_NeedMoreBytes(n)`,
`inr (payload, rest)` -/
def extractLP (buf : Bytes) : Sum Nat (Bytes × Bytes) :=
  if buf.length < 4 then .inl 4
  else
    let n := unbe32 buf
    if buf.length < 4 + n then .inl (4 + n)
    else .inr ((buf.drop 4).take n, buf.drop (4 + n))

theorem extractLP_length {buf p r : Bytes} (h : extractLP buf = .inr (p, r)) :
    r.length < buf.length := by
  unfold extractLP at h
  split at h
  · simp at h
  · simp only at h
    split at h
    · simp at h
    · simp at h; obtain ⟨_, rfl⟩ := h; simp; omega

namespace V3

/-- run the state machine on buffer `buf` from state `tag` until it needs more bytes -/
def proc (tag : V3Tag) (buf : Bytes) (evs : List Ev) : V3 :=
  match tag with
  | .version =>
    if buf.length < marker3.length then
      if buf.isPrefixOf marker3 then .run .version buf evs marker3.length
      else .failed evs .badVersion
    else if marker3.isPrefixOf buf then proc .headers (buf.drop marker3.length) evs
    else .failed evs .badVersion
  | .headers =>
    match h : extractLP buf with
    | .inl n => .run .headers buf evs n
    | .inr (p, r) => proc .part r (evs ++ [.headers p])
  | .part =>
    match buf with
    | [] => .run .part [] evs 1
    | k :: r =>
      if k = 111 then proc .oneByte r evs            -- b"o"
      else if k = 115 then proc .struct r evs     -- b"s"
      else if k = 98 then proc .bytes r evs          -- b"b"
      else if k = 101 then .done (evs ++ [.end_]) r  -- b"e"
      else .failed evs .badKind
  | .oneByte =>
    match buf with
    | [] => .run .oneByte [] evs 1
    | b :: r => proc .part r (evs ++ [.byte b])
  | .bytes =>
    match h : extractLP buf with
    | .inl n => .run .bytes buf evs n
    | .inr (p, r) => proc .part r (evs ++ [.bytes p])
  | .struct =>
    match h : extractLP buf with
    | .inl n => .run .struct buf evs n
    | .inr (p, r) => proc .part r (evs ++ [.struct p])
termination_by buf.length
decreasing_by
  all_goals first
    | exact extractLP_length h
    | (simp [marker3] at *; omega)
    | simp

/-- `ProtocolThreeDecoder(handler, expect_version_marker)` -/
def init (expectMarker : Bool) : V3 :=
  if expectMarker then .run .version [] [] (marker3.length + 4) else .run .headers [] [] 4

/-- `accept_bytes(x)` -/
def feed : V3 → Bytes → V3
  | .run tag buf evs _, x => proc tag (buf ++ x) evs
  | .done evs u, x => .done evs (u ++ x)
  | .failed evs e, _ => .failed evs e

def finished : V3 → Bool
  | .done .. => true
  | _ => false

def unused : V3 → Bytes
  | .done _ u => u
  | _ => []

def events : V3 → List Ev
  | .run _ _ evs _ => evs
  | .done evs _ => evs
  | .failed evs _ => evs

/-- `next_read_size()` -/
def nextReadSize : V3 → Int
  | .run _ buf _ needed => (needed : Int) - (buf.length : Int)
  | .done .. => 0
  | .failed .. => 0

end V3

/-- one message part as written by `_ProtocolThreeEncoder` -/
inductive Part where
  | byte (b : UInt8)           -- `o` + one byte (status / body-stream markers)
  | bytes (b : Bytes)          -- `_write_prefixed_body`
  | struct (raw : Bytes)    -- `_write_structure` (raw = bencode(args))
  deriving DecidableEq, Repr

def Part.encode : Part → Bytes
  | .byte b => [111, b]
  | .bytes b => 98 :: (be32 b.length ++ b)
  | .struct raw => 115 :: (be32 raw.length ++ raw)

def Part.ev : Part → Ev
  | .byte b => .byte b
  | .bytes b => .bytes b
  | .struct raw => .struct raw

def Part.size : Part → Nat
  | .byte _ => 1
  | .bytes b => b.length
  | .struct raw => raw.length

def encodeParts : List Part → Bytes
  | [] => []
  | p :: ps => p.encode ++ encodeParts ps

/-- everything after the version marker: headers, parts, `e` -/
def v3EncodeBody (headers : Bytes) (parts : List Part) : Bytes :=
  be32 headers.length ++ headers ++ encodeParts parts ++ [101]

/-- a whole v3 message as written by ProtocolThreeRequester / Responder -/
def v3Encode (headers : Bytes) (parts : List Part) : Bytes :=
  marker3 ++ v3EncodeBody headers parts

/-- bencode of a list of byte strings: `_write_structure(args)` payload -/
def bencodeArgs (args : List Bytes) : Bytes :=
  108 :: (args.flatMap (fun a => natDigits 10 a.length ++ 58 :: a) ++ [101])

/-- split at the first `:` -/
def splitColon : Bytes → Option (Bytes × Bytes)
  | [] => none
  | c :: cs =>
    if c = 58 then some ([], cs)
    else match splitColon cs with
      | none => none
      | some (l, r) => some (c :: l, r)

theorem splitColon_length {b line rest : Bytes} (h : splitColon b = some (line, rest)) :
    rest.length < b.length := by
  induction b generalizing line with
  | nil => simp [splitColon] at h
  | cons c cs ih =>
    unfold splitColon at h
    split at h
    · simp at h; obtain ⟨_, rfl⟩ := h; simp
    · split at h
      · simp at h
      · rename_i l r heq
        simp at h; obtain ⟨_, rfl⟩ := h
        have := ih heq
        simp; omega

/-- items of a bencoded list of byte strings, up to and including the final `e` -/
def bdecodeItems (b : Bytes) : Option (List Bytes) :=
  if b = [101] then some []
  else
    match h : splitColon b with
    | none => none
    | some (ds, rest) =>
      match parseNat 10 ds with
      | none => none
      | some n =>
        if rest.length < n then none
        else (bdecodeItems (rest.drop n)).map (rest.take n :: ·)
termination_by b.length
decreasing_by
  have := splitColon_length h
  simp only [List.length_drop]; omega

/-- `bdecode_as_tuple` restricted to a flat list of byte strings -/
def bdecodeArgs : Bytes → Option (List Bytes)
  | 108 :: rest => bdecodeItems rest
  | _ => none

/-! ## ConventionalResponseHandler (message.py) on the event stream -/

structure Resp where
  status : Option UInt8 := none
  args : Option Bytes := none            -- raw structure
  parts : List Bytes := []               -- `_bytes_parts`
  bodyStarted : Bool := false
  streamStatus : Option UInt8 := none
  errArgs : Option Bytes := none
  ended : Bool := false
  deriving DecidableEq, Repr

inductive RespErr where
  | unknownStatus | unexpectedByte | unexpectedStructure | headersAgain
  deriving DecidableEq, Repr

/-- one handler callback.  `fx = false` is the code as found (a status byte counts
as the body-stream status only once a bytes part has been seen, `_body_started`);
`fx = true` is the handler with the proposed fix for finding F15 (a status byte
after the args is the stream status; a structure after a stream status is the
error structure).  The harness probes which variant the working tree implements. -/
def Resp.step (fx : Bool) (r : Resp) : Ev → Except RespErr Resp
  | .headers _ => .ok r
  | .byte b =>
    if b ≠ 69 ∧ b ≠ 83 then .error .unknownStatus
    else if r.bodyStarted || (fx && r.args.isSome) then
      if r.streamStatus.isSome then .error .unexpectedByte
      else .ok { r with streamStatus := some b }
    else
      if r.status.isSome then .error .unexpectedByte
      else .ok { r with status := some b }
  | .bytes b => .ok { r with bodyStarted := true, parts := r.parts ++ [b] }
  | .struct raw =>
    if !r.bodyStarted && !(fx && r.streamStatus.isSome) then
      if r.args.isSome then .error .unexpectedStructure
      else .ok { r with args := some raw }
    else
      if r.streamStatus ≠ some 69 then .error .unexpectedStructure
      else .ok { r with errArgs := some raw }
  | .end_ => .ok { r with ended := true }

def Resp.run (fx : Bool) (r : Resp) : List Ev → Except RespErr Resp
  | [] => .ok r
  | e :: es => match r.step fx e with
    | .error x => .error x
    | .ok r' => r'.run fx es

/-- a conventional response as `ProtocolThreeResponder.send_response` writes it:
status byte, args, then either nothing, one body, or a stream of chunks
optionally cut short by an error (`oE` + error structure) -/
inductive RespBody where
  | none_
  | body (b : Bytes)
  | stream (chunks : List Bytes) (err : Option Bytes)
  deriving DecidableEq, Repr

def respParts (ok : Bool) (args : Bytes) (body : RespBody) : List Part :=
  [.byte (if ok then 83 else 69), .struct args] ++
  (match body with
   | .none_ => []
   | .body b => [.bytes b]
   | .stream cs err => cs.map .bytes ++
      (match err with | none => [] | some e => [.byte 69, .struct e]))

/-! ## protocol 1 / 2 server-side request decoding
(`SmartServerRequestProtocolOne.accept_bytes`; version 2 is the same after the
medium has consumed the `bzr request 2\n` marker).  Whether the command reads a
body is a property of the verb (the request handler), here a parameter. -/

inductive Req where
  /-- `_has_dispatched = False`: buffering the argument line -/
  | line (buf : Bytes)
  /-- dispatched, command expects a body: `_body_decoder` is live -/
  | body (args : List Bytes) (d : LP)
  /-- response sent (`_finished`), `unused_data` -/
  | done (args : List Bytes) (body : Option Bytes) (unused : Bytes)
  | failed
  deriving DecidableEq, Repr

namespace Req

def afterBody (args : List Bytes) : LP → Req
  | .done b u => .done args (some b) u
  | .failed => .failed
  | d => .body args d

def lineStep (wantsBody : List Bytes → Bool) (b : Bytes) : Req :=
  match splitLine b with
  | none => .line b
  | some (l, rest) =>
    let args := splitSoh l
    if wantsBody args then afterBody args (LP.feed LP.init rest)
    else .done args none rest

def feed (wantsBody : List Bytes → Bool) : Req → Bytes → Req
  | .line buf, x => lineStep wantsBody (buf ++ x)
  | .body args d, x => afterBody args (d.feed x)
  | .done a b u, x => .done a b (u ++ x)
  | .failed, _ => .failed

/-- `next_read_size()` of the server protocol object -/
def nextReadSize : Req → Int
  | .line _ => 1
  | .body _ d => d.nextReadSize
  | .done .. => 0
  | .failed => 0

def finished : Req → Bool
  | .done .. => true
  | _ => false

def unused : Req → Bytes
  | .done _ _ u => u
  | _ => []

end Req

/-- a version-1 request on the wire (`call` / `call_with_body_bytes`) -/
def reqEncode (args : List Bytes) (body : Option Bytes) : Bytes :=
  encodeTuple args ++ (match body with | none => [] | some b => lpEncode b)

/-- `_serialise_offsets` -/
def serialiseOffsets : List (Nat × Nat) → Bytes
  | [] => []
  | [(s, l)] => natDigits 10 s ++ 44 :: natDigits 10 l
  | (s, l) :: rest => natDigits 10 s ++ 44 :: (natDigits 10 l ++ 10 :: serialiseOffsets rest)

/-! ## `_deserialise_offsets` (breezy/bzr/smart/vfs.py: ReadvRequest) -/

/-- `bytes.split(sep)`: always at least one field -/
def splitByte (sep : UInt8) : Bytes → List Bytes
  | [] => [[]]
  | c :: cs =>
    if c = sep then [] :: splitByte sep cs
    else match splitByte sep cs with
      | [] => [[c]]          -- unreachable; splitByte is never empty
      | f :: fs => (c :: f) :: fs

/-- one line `start,length`: `start, length = line.split(b","); (int(start), int(length))`;
`none` = ValueError (not exactly two fields, or a field that is not a digit string) -/
def parseOffsetLine (line : Bytes) : Option (Nat × Nat) :=
  match splitByte 44 line with
  | [a, b] =>
    match parseNat 10 a, parseNat 10 b with
    | some x, some y => some (x, y)
    | _, _ => none
  | _ => none

/-- `_deserialise_offsets(text)`: the non-empty lines of `text.split(b"\n")` -/
def deserialiseOffsets (text : Bytes) : Option (List (Nat × Nat)) :=
  ((splitByte 10 text).filter (fun l => !l.isEmpty)).mapM parseOffsetLine

/-! ## ConventionalRequestHandler (message.py) on the event stream

The calls it makes on its `request_handler` (`SmartServerRequestHandler`) are recorded
in order.  Whether the verb's `do()` returns a response at once (`w = false`:
`request_handler.finished_reading` after `args_received`) or waits for a body
(`w = true`) is a property of the verb, here a parameter; a body-taking verb is assumed
to answer in `do_end()` (as every registered verb does). -/

inductive RqExp where
  | args | body | error | end_ | nothing
  deriving DecidableEq, Repr

inductive RqCall where
  | args (raw : Bytes)             -- request_handler.args_received(bdecode(raw))
  | body (b : Bytes)               -- request_handler.accept_body(b)
  | postBodyError (raw : Bytes)    -- request_handler.post_body_error_received(bdecode(raw))
  | end_                           -- request_handler.end_received()
  deriving DecidableEq, Repr

inductive RqErr where
  | unexpectedByte      -- "Unexpected message part: byte(...)"
  | badStatusByte       -- "Non-success status byte in request body"
  | unexpectedStruct    -- "Unexpected message part: structure(...)"
  | unexpectedBytes     -- "Unexpected message part: bytes(...)"
  | prematureEnd        -- "End of message received prematurely"
  deriving DecidableEq, Repr

structure Rq where
  expecting : RqExp := .args
  calls : List RqCall := []
  finished : Bool := false        -- request_handler.finished_reading
  responses : Nat := 0            -- responder.send_response calls
  deriving DecidableEq, Repr

/-- one message-handler callback of `ConventionalRequestHandler` -/
def Rq.step (w : Bool) (r : Rq) : Ev → Except RqErr Rq
  | .headers _ => .ok r
  | .byte b =>
    if r.expecting = .body then
      if b = 83 then .ok { r with expecting := .end_ }
      else if b = 69 then .ok { r with expecting := .error }
      else .error .badStatusByte
    else .error .unexpectedByte
  | .struct raw =>
    if r.expecting = .args then
      let r1 : Rq := { r with calls := r.calls ++ [RqCall.args raw], finished := !w }
      if r1.finished then .ok { r1 with responses := r1.responses + 1, expecting := .end_ }
      else .ok { r1 with expecting := .body }
    else if r.expecting = .error then
      .ok { r with expecting := .end_, calls := r.calls ++ [RqCall.postBodyError raw] }
    else .error .unexpectedStruct
  | .bytes b =>
    if r.expecting = .body then .ok { r with calls := r.calls ++ [RqCall.body b] }
    else .error .unexpectedBytes
  | .end_ =>
    if r.expecting ≠ .body ∧ r.expecting ≠ .end_ then .error .prematureEnd
    else
      -- request_handler.end_received() runs the command's do_end(): finished_reading
      .ok { r with expecting := .nothing, calls := r.calls ++ [RqCall.end_], finished := true,
                   responses := if r.responses = 0 then 1 else r.responses }

def Rq.run (w : Bool) (r : Rq) : List Ev → Except RqErr Rq
  | [] => .ok r
  | e :: es => match r.step w e with
    | .error x => .error x
    | .ok r' => r'.run w es

/-- a conventional request as `ProtocolThreeRequester` writes it (`call`,
`call_with_body_bytes`, `call_with_body_readv_array` = a body of serialised offsets,
`call_with_body_stream`: chunks, then `oE s(error)` if the stream raised): no status byte -/
def reqParts (args : Bytes) (body : RespBody) : List Part :=
  [.struct args] ++
  (match body with
   | .none_ => []
   | .body b => [.bytes b]
   | .stream cs err => cs.map .bytes ++
      (match err with | none => [] | some e => [.byte 69, .struct e]))

/-- what `SmartServerRequestHandler` does with the recorded calls: the body bytes its
command's `do_end()` finally executes with (`accept_body` chunks joined), `none` if the
command never runs `do_end`.  `post_body_error_received` is a no-op in the code as found,
so an aborted stream is executed like a complete one (known finding F16). -/
def executedBody (calls : List RqCall) : Option Bytes :=
  if calls.contains RqCall.end_ then
    some (calls.flatMap fun c => match c with | .body b => b | _ => [])
  else none

/-! ## protocol 2 client: response parsing (`SmartClientRequestProtocolTwo.read_response_tuple`,
`read_body_bytes`, `read_streamed_body`) over the whole byte stream the medium delivers
(`read_line` = up to and including the next newline; the body decoders above) -/

def successLine : Bytes := [115, 117, 99, 99, 101, 115, 115]   -- "success"
def failedLine : Bytes := [102, 97, 105, 108, 101, 100]         -- "failed"

/-- how the caller reads on after the tuple: nothing, `read_body_bytes`, `read_streamed_body` -/
inductive V2Kind where
  | none_ | bytes | stream
  deriving DecidableEq, Repr

inductive V2Body where
  | none_
  | bytes (b : Bytes)
  | stream (chunks : List Chunk)
  deriving DecidableEq, Repr

inductive V2Err where
  | incomplete        -- the stream ends inside the message
  | badVersion        -- UnexpectedProtocolVersionMarker
  | badStatus         -- SmartProtocolError("bad protocol status")
  | badBody           -- the body decoder raised
  deriving DecidableEq, Repr

structure V2Resp where
  ok : Bool                  -- `success` / `failed` (failed: ErrorFromSmartServer(args))
  args : List Bytes
  body : V2Body
  deriving DecidableEq, Repr

/-- `response2` without its final newline -/
def response2Line : Bytes := response2.dropLast

def v2Decode (kind : V2Kind) (data : Bytes) : Except V2Err (V2Resp × Bytes) :=
  match splitLine data with
  | none => .error .incomplete
  | some (ver, r1) =>
    if ver ≠ response2Line then .error .badVersion
    else match splitLine r1 with
      | none => .error .incomplete
      | some (st, r2) =>
        match splitLine r2 with
        | none => .error .incomplete
        | some (tl, r3) =>
          let args := splitSoh tl
          if st = failedLine then .ok (⟨false, args, .none_⟩, r3)
          else if st ≠ successLine then .error .badStatus
          else match kind with
            | .none_ => .ok (⟨true, args, .none_⟩, r3)
            | .bytes =>
              match LP.feed LP.init r3 with
              | .done b u => .ok (⟨true, args, .bytes b⟩, u)
              | .failed => .error .badBody
              | _ => .error .incomplete
            | .stream =>
              match CK.feed CK.init r3 with
              | .done cs u => .ok (⟨true, args, .stream cs⟩, u)
              | .failed _ => .error .badBody
              | _ => .error .incomplete

/-- `SmartServerRequestProtocolTwo._send_response` -/
def v2RespEncode (ok : Bool) (args : List Bytes) (body : Option (Sum Bytes (List Bytes × Option (List Bytes)))) :
    Bytes :=
  response2 ++ (if ok then successLine else failedLine) ++ [10] ++ encodeTuple args ++
  (match body with
   | none => []
   | some (.inl b) => lpEncode b
   | some (.inr (cs, err)) => ckEncode cs err)

end BreezyVerif.C29
