"""C03 — fetch, push and pull copy history completely and faithfully.

Mechanism: InterVersionedFileRepository.search_missing_revision_ids / _walk_to_common_revisions (batched
breadth-first walk, batch size 50), RepoFetcher, StreamSource / GroupCHKStreamSource / StreamSink (and their
Remote* counterparts behind the insert_stream / get_stream smart verbs), InterDifferingSerializer._fetch_batch,
Inter1and2Helper root generation, Branch.pull / Branch.push (NotInOtherForRevs + fetch_spec).

Model (lean/BreezyVerif/Model/C03.lean): a repository is three finite maps (revisions: id -> parents+metadata
token; inventories: id -> entries (file, name token, text revision, content token); texts: (file, text revision)
-> content token) plus the per-file graph (text key -> per-file parents, `RepoH`).
 * `missing` - the revision search when the whole source ancestry fits one batch; `missingB n` - the search as the
   code performs it for ANY history length: `walkLoop` models the two nested loops of _walk_to_common_revisions on
   the searcher state (seen, stopped, current layer, next query): layers are taken until >= n present revisions
   are collected, the target is asked which it has, `find_seen_ancestors` of those (reachability inside the seen
   set) are stopped (`stop_searching_any`: current layer filtered, next query keeps what a non-stopped key
   references), repeat; result seen - stopped.  With several batches the result depends on the layering for
   targets that hold a revision without one of its parents (theorem missingB_batch_matters_witness).
 * `fetchB n kind` - the copy: revision records, inventories, per-file parents and the texts selected by the
   kind of copy: `filtered x` (stream sources: entries in no inventory of an excluded boundary parent; the exclusion
   as found at the pinned commit or as repaired by the fix: commit - the harness probes which one the tree has) or
   `perRevision` (InterDifferingSerializer: per sent revision the entries none of its own parents' inventories
   has); for targets supporting external lookups also the parent inventories StreamSink asks for.
 * `fetchSeq` - sequences of fetches from one source.
 * Model/C03Stacked.lean - a source STACKED on a fallback behind the smart server: `served` (a server recreating a
   search recipe in its own graph), `chainRevs` (RemoteStreamSource.missing_parents_chain: stacked part, then the
   search refined by what was seen and what that references, sent to the fallback), `unionRepo`, `chainCopy`.
Theorems (Props/C03.lean, all unbounded): the one-batch set (anc_total ... fetch_consistent), and for every batch
size n >= 1 and history length: walkB_total, missingB_sound / _behind / _closed / _held_nil, fetchB_monotone /
_complete / _faithful / _testament / _texts_faithful / _consistent (both kinds of copy; perRevision needs an
acyclic history: perRevision_cyclic_witness), fetchB_idempotent(+_acyclic), fetchBH_perfile_faithful (per-file
parents), fetch(B)_preserves_closed / _agree, fetchSeq_invariant and fetchSeq_from_empty (no hypothesis on the
target: any sequence of fetches from a consistent source into an empty repository gives faithful complete copies),
stacked_chain_eq_union / stacked_chain_records_eq_union (fetching from a repository stacked on a self-contained
fallback delivers exactly the revisions, records and inventories a fetch from the union repository delivers, for
every search) and chain_left_parent_only_witness (recording only left-hand parents loses fallback-only revisions).

T2: generated histories are built in two "home" repositories of the source format with BranchBuilder (merges,
ghost parents that exist nowhere, ghost parents that exist in the other home, renames, deletions, kind variety,
many small files per commit whose contents share long lines and contain NUL / binary bytes).  A target repository
of the target format then receives a sequence of fetches of random revisions from the two homes (so later fetches
meet partially overlapping contents, including revisions whose parent is a ghost in the target but present in the
source), locally, with the source or the target opened through an in-process smart server (bzr://127.0.0.1), or
through Branch.pull / Branch.push with a stop revision.  In ~45 % of the random/ghost scenarios the search batch
size (a class attribute the test suite overrides too) is 1, 2, 3 or 5, so short histories span several batches.
"long" scenarios build > 2 batches of history at the DEFAULT batch size with targets that hold a revision h
without h's parent g (which the source has and merged long ago, like g's parent s1); the requested revisions are
chosen by simulating the first search batch: one from which h lies in the LAST layer of the batch (g not seen when
h is stopped: the search walks round h and returns g), one from which g lies in the last layer and s1 has not been
seen (g is left out, s1 is returned: a sent revision whose child is an excluded parent the target lacks - the
constellation that separates InterDifferingSerializer's per-revision text selection from the stream filter), one
from which all three are inside the batch; plus mid-history-then-tip fetches in the thorough tier; plus the
search alone against targets holding ARBITRARY subsets of the source revisions for batch sizes 1, 2, 3, 7, 50.
On knit-delta targets texts the stream filter left out may still arrive as compression parents
(get_stream_for_missing_keys): there the correspondence accepts extra texts, never missing ones.
"stacked" scenarios: the history lives in one home; a fallback F takes the ancestry of a trunk revision (or of
arbitrary ones), a repository S stacked on F takes a feature tip that merges trunk revisions across the boundary
(trunk parent in the right-hand or in either position, never an ancestor of the other parent); unstacked targets
(2a, 1.9, 1.9-rich-root, pack-0.92; empty or partially filled) fetch from bzr://.../S opened through its branch (a
RemoteRepository with a fallback).  The source state sent to the model is the UNION of S and F.
For every fetch the abstract state of source and target before the fetch is sent to the Lean driver (`fetchb`:
batched search, per-revision or filtered copy, per-file parents) and its prediction (error kind, missing revision
set, and the FULL records of the target afterwards: revision id:metadata:parents, inventory entries, text content
tokens, per-file parents) is compared with the real repositories; where the whole ancestry fits one batch the
one-batch model (`fetch`) is compared as well; where the copy is not compared (finding reported by the oracle,
InterDifferingSerializer with stored ghost-parent inventories) the search result still is (`walk`).

Oracle (independent of the model) after every fetch: the requested revision and every source-present ancestor
(all of them for closed targets or find_ghosts=True) is in the target with an equal Revision object, an equal
Testament short text, equal inventory entries, equal per-file graph parents, and every file text byte-identical
to the source text with sha1 equal to the sha1 recorded in the inventory; everything the target had is unchanged;
check() of the target reports nothing the source's check() does not; a second identical fetch finds nothing
missing and leaves pack names and all key sets unchanged.  Search-only cases: the result lies inside the source
ancestry and outside the target, equals ancestry - target for ancestry-closed targets, is empty when the target
holds the requested revision.  Timeouts / exhausted resources raise InfraError (exit 2), never a violation.

Findings on the unchanged tree (reported with family slugs computed from the failing case):
 gc-rabin-delta-nul-after-source-end                bzrformats' compiled RabinGroupCompressor stores wrong bytes
                                                    (classifier: 2a target, same length, every differing byte is NUL
                                                    in the source text)
 chk-stream-excludes-inventory-of-ghost-parent      GroupCHKStreamSource (2a -> 2a) leaves out the texts shared with a
                                                    boundary parent of which the source holds only the inventory
 xml-stream-excludes-inventory-of-ghost-parent      the same in KnitPackStreamSource / fileids_altered_by_revision_ids
                                                    (every other format pair)
 chk-/xml-stream-excludes-parent-the-target-lacks   the same exclusion when the target has a ghost the source has and
                                                    find_ghosts=False
 stacked-smart-source-rich-root-upgrade-root-parents-not-heads    1.9 (non-rich-root) repository stacked on a
                                                    fallback, fetched over bzr:// into 2a: the root texts are generated
                                                    server-side from the stacked repository WITHOUT its fallback, so
                                                    heads() keeps a parent that is an ancestor of another through
                                                    fallback-only revisions (/var/tmp/imp-C03/repro_stacked_root_parents.py)
 fetch-fails-when-target-has-a-ghost-the-source-has:<Exception>   the fetch raises in that situation
                                                    (:BzrCheckError = InterDifferingSerializer into 2a,
                                                    /var/tmp/imp-C03/repro_ids_bzrcheckerror.py)

Mutants this was built against (scratch worktrees; O = caught by the oracle with a concrete fetch,
T = caught by the correspondence only):
 M1  _walk_to_common_revisions stops only have_revs, not their seen ancestors              O (search-only) + T
 M2  search_missing_revision_ids: `if find_ghosts and ...` (branches swapped)               O + T
 M3  _find_parent_keys_of_revisions does not subtract the revisions themselves              O (texts missing / refused)
 M5  RemoteStreamSink ignores the missing-basis reply                                       O (remote target + ghost parent)
 M6  StreamSink never asks for missing parent inventories                                   O (new failure kinds)
 M10 _present_source_revisions_for keeps ghosts                                             T (missing set)
 M11 StreamSource.get_stream streams only the newest version of every altered file          O
 M12 batch loop `while len(next_revs) <= batch_size` (off by one)                           T (long scenario, batched tie)
 M13 InterBranch.fetch drops the stop revision from the fetch spec (pull/push)              O (pull mode)
 M14 RemoteStreamSource.missing_parents_rev_handler records only the left-hand parent        O (stacked scenarios:
     (seeded change C03b)                                                                    target lacks ancestors)
 H1  harmless rewrite of the have_revs union in _walk_to_common_revisions                   clean
 H2  harmless rewrite of ghosts_to_check / null_set handling                                clean
 (a mutant of RemoteRepository._serialise_search_recipe is not on the fetch path: C33 covers it)
"""
import hashlib
import os
import random
import shutil
import threading

from vlib import env

THEOREMS = [
    "anc_total", "anc_spec", "missing_spec", "missing_closed",
    "fetch_monotone", "fetch_complete", "fetch_find_ghosts_complete", "fetch_faithful", "fetch_testament",
    "fetch_texts_faithful", "fetch_idempotent", "fetch_consistent",
    "fetch_ghost_not_filled_witness", "fetch_orphan_inventory_witness",
    # any history length / batch size, both kinds of copy
    "walkB_total", "missingB_sound", "missingB_behind", "missingB_closed", "missingB_held_nil",
    "missingB_batch_matters_witness",
    "fetchB_monotone", "fetchB_complete", "fetchB_faithful", "fetchB_testament", "fetchB_texts_faithful",
    "fetchB_consistent", "perRevision_cyclic_witness", "fetchB_idempotent", "fetchB_idempotent_acyclic",
    # the hypotheses are invariants; sequences; per-file history
    "fetchB_preserves_closed", "fetchB_preserves_agree", "fetch_preserves_closed", "fetch_preserves_agree",
    "fetchSeq_invariant", "fetchSeq_from_empty", "fetchBH_perfile_faithful",
    # a source stacked on a fallback behind the smart server = the union repository
    "stacked_chain_eq_union", "stacked_chain_records_eq_union", "chain_left_parent_only_witness",
]
RULE = ("scenario = (seed, source format, target format, transport mode local|remote-src|remote-tgt|pull|push, kind); "
        "random/ghost/fork kinds: a generated history of 6-16 revisions in two home repositories (search batch size 50, "
        "or 1/2/3/5 in ~45 % of them); long kind: 110-200 revisions at the default batch size; stacked kind: 8-25 revisions split "
        "between a fallback and a repository stacked on it, served over bzr://; case = one fetch (source "
        "home, target, revision, find_ghosts) performed on the target's current contents, or one revision search "
        "against a target holding an arbitrary subset of the source; non-trivial = the fetch copies >= 1 revision "
        "while the target already holds >= 1 revision of the source ancestry, or meets a ghost (search-only: a "
        "non-empty result with a non-empty overlap); distinct by (abstract source, abstract target, rev, flags)")
ASSUMPTIONS = [
    "revision ids identify content: two repositories holding the same revision id hold equal records (checked per case)",
    "the searcher (compiled vcsgraph._BreadthFirstSearcher) is modelled on its next_with_ghosts / find_seen_ancestors / "
    "stop_searching_any / get_state behaviour; the model is compared with it on every search (batched tie, search tie)",
]
TRUSTED = [
    "serialisers, group compression, CHK page filtering, pack files and the smart protocol are exercised by the "
    "correspondence run, not modelled; the theorems are about the abstract copy",
    "the one-batch model's ancestry walk is Model/C33.bfs (its own correspondence is checked by C33); the batched walk "
    "is modelled in Model/C03.walkLoop",
]

NULL = b"null:"

# ------------------------------------------------------------------ contents
LONG = [
    b"!START OF MERGE CONFLICT!I HOPE THIS IS UNIQUE\n",
    b"the quick brown fox jumps over the lazy dog\n",
    b"<<<<<<< TREE\n=======\n>>>>>>> MERGE-SOURCE\n",
]
SHORT = [b"a\n", b"b\r\n", b"c", b"\n", b"x\n", b"d\nc\n", b"y", b"<<<<<<<\n", b"\xff\xfe", b"\r"]
TAILS = [b"", b"", b"\x00z\n", b"\x00", b"\x00\x00\x00\x00", b"\x01\x02\x00bin\x00", b"\x00\x00tail", b"z\n", b"\x7f\x80\x00"]


NUL_FAMILY = [True]


def gen_content(rng):
    c = _gen_content(rng)
    if not NUL_FAMILY[0]:
        # scenarios outside the NUL family: other binary bytes only (bzrformats finding, see classify_corruption)
        c = c.replace(b"\x00", b"\x01")
    return c


def _gen_content(rng):
    r = rng.random()
    if r < 0.08:
        return b""
    if r < 0.2:
        return b"".join(rng.choice(SHORT) for _ in range(rng.randint(1, 3)))
    head = b"".join(rng.choice(SHORT) for _ in range(rng.randint(0, 2)))
    body = rng.choice(LONG)
    if rng.random() < 0.3:
        body = body[rng.randint(1, 12):]
    return head + body + rng.choice(TAILS)


# ------------------------------------------------------------------ abstract history
class Rev:
    __slots__ = ("rid", "home", "parents", "ghosts", "actions", "tree", "msg", "ts", "tz", "committer", "props")


def gen_history(rng, nrevs, nfiles0, shape=None):
    """format-independent history script.  tree: path -> (file_id, kind, content)"""
    revs = []
    by_id = {}
    heads = {"A": None, "B": None}
    counter = [0]
    fid_counter = [0]

    def new_fid():
        fid_counter[0] += 1
        return b"f%d" % fid_counter[0]

    has = {"A": set(), "B": set()}
    ghosty = []                                        # revisions with a parent the other home has

    def ancestry(rid):
        out, todo = set(), [rid]
        while todo:
            x = todo.pop()
            if x in out or x not in by_id:
                continue
            out.add(x)
            todo.extend(by_id[x].parents)
        return out

    for i in range(nrevs):
        rv = Rev()
        rv.rid = b"r%02d" % (i + 1)
        rv.home = "A" if i == 0 else rng.choice("AAB") if heads["B"] is not None or i > 1 else "A"
        if i >= 2 and heads["B"] is None and rng.random() < 0.5:
            rv.home = "B"
        oh = "B" if rv.home == "A" else "A"
        rv.ghosts = []
        # ---- parents
        if shape is not None:
            rv.home, parents, rv.ghosts = shape[i][0], list(shape[i][1]), list(shape[i][2])
            oh = "B" if rv.home == "A" else "A"
        elif i == 0:
            parents = []
        else:
            left = heads[rv.home]
            if left is None or rng.random() < 0.25:
                left = rng.choice(revs).rid            # branch off an arbitrary revision
            parents = [left]
            r = rng.random()
            pref = [x for x in ghosty if by_id[x].home == oh and x not in has[rv.home] and x != left]
            if pref and rng.random() < 0.7:
                r = 0.0
            if r < 0.45 and len(revs) >= 2:
                cands = [x.rid for x in revs if x.rid != left]
                foreign = [x for x in cands if x not in has[rv.home] and x in has[oh]]
                if pref and (r == 0.0 or rng.random() < 0.8):
                    other = rng.choice(pref)           # merge a revision whose ghost parent this home has
                elif foreign and rng.random() < 0.5:
                    other = rng.choice(foreign)
                else:
                    other = rng.choice(cands)
                parents.append(other)
                if other not in has[rv.home] and other not in pref and rng.random() < 0.65:
                    rv.ghosts.append(other)            # merged without fetching: ghost in the home repository
                    ghosty.append(rv.rid)
            if rng.random() < 0.15:
                counter[0] += 1
                g = b"ghost%d" % counter[0]
                parents.append(g)
                rv.ghosts.append(g)
        for p in parents:
            if p not in rv.ghosts and p not in has[rv.home]:
                has[rv.home] |= ancestry(p) & has[oh]  # what the fetch before the commit brings (approximation)
        has[rv.home].add(rv.rid)
        rv.parents = parents
        # ---- tree
        base = dict(by_id[parents[0]].tree) if parents else {}
        actions = []
        tree = dict(base)
        if not parents:
            actions.append(("add", ("", b"root-id", "directory", None)))
            tree[""] = (b"root-id", "directory", None)
            for k in range(nfiles0):
                p = "f%d" % k
                c = gen_content(rng)
                fid = new_fid()
                actions.append(("add", (p, fid, "file", c)))
                tree[p] = (fid, "file", c)
            actions.append(("add", ("d", b"dir-d", "directory", None)))
            tree["d"] = (b"dir-d", "directory", None)
        else:
            # bring in the other parents' files (a merge that takes the other side)
            for op in parents[1:]:
                if op in by_id and op not in rv.ghosts:
                    have_ids = {v[0] for v in tree.values()}
                    for p, (fid, kind, c) in sorted(by_id[op].tree.items()):
                        if p and fid not in have_ids and p not in tree and os.path.dirname(p) in tree and rng.random() < 0.7:
                            actions.append(("add", (p, fid, kind, c)))
                            tree[p] = (fid, kind, c)
                        elif p in tree and tree[p][0] == fid and kind == "file" and tree[p][2] != c and rng.random() < 0.5:
                            actions.append(("modify", (p, c)))
                            tree[p] = (fid, kind, c)
            files = sorted(p for p, v in tree.items() if v[1] == "file")
            nmod = rng.randint(0, min(5, len(files)))
            for p in rng.sample(files, nmod):
                c = gen_content(rng)
                if c != tree[p][2] and not any(a[0] == "modify" and a[1][0] == p for a in actions) \
                        and not any(a[0] == "add" and a[1][0] == p for a in actions):
                    actions.append(("modify", (p, c)))
                    tree[p] = (tree[p][0], "file", c)
            r = rng.random()
            touched = {a[1][0] for a in actions if a[0] in ("add", "modify")}
            if r < 0.3:
                d = rng.choice(["", "d"]) if "d" in tree else ""
                p = (d + "/" if d else "") + "n%d" % i
                if p not in tree:
                    c = gen_content(rng)
                    fid = new_fid()
                    actions.append(("add", (p, fid, "file", c)))
                    tree[p] = (fid, "file", c)
            elif r < 0.45 and files:
                p = rng.choice(files)
                if p not in touched:
                    q = (rng.choice(["", "d/"]) if "d" in tree else "") + "m%d" % i
                    if q not in tree:
                        actions.append(("rename", (p, q)))
                        tree[q] = tree.pop(p)
            elif r < 0.55 and len(files) > 2:
                p = rng.choice(files)
                if p not in touched:
                    actions.append(("unversion", p))
                    del tree[p]
            elif r < 0.62:
                p = "e%d" % i
                if p not in tree:
                    actions.append(("add", (p, b"dir-e%d" % i, "directory", None)))
                    tree[p] = (b"dir-e%d" % i, "directory", None)
        rv.actions = actions
        rv.tree = tree
        rv.msg = rng.choice(["msg %d" % i, "multi\nline %d" % i, "unicode é %d" % i, ""])
        rv.ts = 1600000000 + i * 37 + rng.choice([0, 0.5])
        rv.tz = rng.choice([0, 3600, -5400])
        rv.committer = rng.choice(["Joe <joe@example.com>", "Jürgen <j@example.com>"])
        rv.props = {} if rng.random() < 0.7 else {"branch-nick": "nick%d" % i, "bugs": "http://x/%d fixed" % i}
        revs.append(rv)
        by_id[rv.rid] = rv
        heads[rv.home] = rv.rid
    return revs


def ghost_shape(rng):
    """a small history in which home A commits a merge of a revision it never fetched (a ghost in A that B has),
    and B later merges that commit: a target that takes the merge from A first is not closed w.r.t. B"""
    r = lambda i: b"r%02d" % i  # noqa: E731
    shape = [("A", [], []),
             ("A", [r(1)], []),
             ("B", [r(rng.choice([1, 2]))], []),
             ("A", [r(2), r(3)], [r(3)]),                       # r04: r03 is a ghost in A
             ("B", [r(3), r(4)], []),                           # r05: B has both
             (rng.choice("AB"), [r(5)] if rng.random() < 0.5 else [r(4), r(5)], []),
             ("B", [r(5)], [])]
    if rng.random() < 0.5:
        shape.append(("A", [r(4)], []))
    return shape


def fork_shape(rng):
    """no ghosts, one home: a chain up to a fork point P, two or three children of P, merges of them;
    the target first fetches P, then the merge (partial overlap exactly at the fork point)"""
    r = lambda i: b"r%02d" % i  # noqa: E731
    n0 = rng.randint(1, 3)
    shape = [("A", [], [])] + [("A", [r(i)], []) for i in range(1, n0)]
    P = n0
    kids = rng.randint(2, 3)
    ids = []
    nxt = P + 1
    for k in range(kids):
        shape.append(("A", [r(P)], []))
        ids.append(nxt)
        nxt += 1
        if rng.random() < 0.4:
            shape.append(("A", [r(ids[-1])], []))
            ids[-1] = nxt
            nxt += 1
    shape.append(("A", [r(ids[0]), r(ids[1])], []))
    m = nxt
    nxt += 1
    if kids == 3:
        shape.append(("A", [r(m), r(ids[2])], []))
        m = nxt
        nxt += 1
    if rng.random() < 0.5:
        shape.append(("A", [r(m)], []))
        m = nxt
    return shape, r(P), r(m)


# ------------------------------------------------------------------ realisation
class World:
    """two home repositories of one format + any number of targets, all below one directory"""

    def __init__(self, root):
        self.root = root
        self.repos = {}

    def path(self, name):
        return os.path.join(self.root, name)


def make_repo(path, fmt, shared=False):
    from breezy.controldir import ControlDir, format_registry
    os.makedirs(path, exist_ok=True)
    cd = ControlDir.create(path, format=format_registry.make_controldir(fmt))
    return cd.create_repository(shared=shared)


def build_homes(world, revs, fmt):
    """realise the history in repositories A and B (branch + repo each)"""
    from breezy.branchbuilder import BranchBuilder
    from breezy.controldir import format_registry
    from breezy import transport as _mod_transport
    builders = {}
    for h in "AB":
        os.makedirs(world.path(h))
        builders[h] = BranchBuilder(_mod_transport.get_transport(world.path(h)),
                                    format=format_registry.make_controldir(fmt))
    log = []
    for rv in revs:
        bb = builders[rv.home]
        repo = bb.get_branch().repository
        for p in rv.parents:
            if p in rv.ghosts:
                continue
            if not repo.has_revision(p):
                other = builders["B" if rv.home == "A" else "A"].get_branch().repository
                log.append((rv.home, p))
                repo.fetch(other, revision_id=p)
        kwargs = {}
        bb.build_snapshot(rv.parents, rv.actions, message=rv.msg, timestamp=rv.ts, timezone=rv.tz,
                          committer=rv.committer, revision_id=rv.rid,
                          allow_leftmost_as_ghost=False, **kwargs)
        if rv.props:
            pass
    return {h: builders[h].get_branch().repository for h in "AB"}, log


# ------------------------------------------------------------------ abstract state of a real repository
def _tok(b, n=6):
    return int(hashlib.sha1(b).hexdigest()[:n], 16)


def open_repo(path):
    from breezy.repository import Repository
    return Repository.open(path)


def read_state(path):
    """concrete, format-independent state of the repository at `path` (fresh object, no fallbacks):
    revs: rid -> (parents, meta tuple); invs: rid -> {fid: (path, kind, exec, link, textrev, sha1)} without the
    root entry; texts: (fid, rev) -> sha1 of the stored fulltext; tparents: (fid, rev) -> per-file parents"""
    repo = open_repo(path)
    st = dict(revs={}, invs={}, texts={}, tparents={}, roots={}, rich=repo.supports_rich_root())
    with repo.lock_read():
        rids = sorted(k[-1] for k in repo.revisions.keys())
        for rid, rev in repo.iter_revisions(rids):
            st["revs"][rid] = (tuple(rev.parent_ids),
                               (rev.committer, rev.timestamp, rev.timezone, rev.message,
                                tuple(sorted(rev.properties.items()))))
        iids = sorted(k[-1] for k in repo.inventories.keys())
        for inv in repo.iter_inventories(iids):
            ents = {}
            for p, ie in inv.iter_entries():
                if p == "":
                    st["roots"][inv.revision_id] = (ie.file_id, ie.revision)
                    continue
                ents[ie.file_id] = (p, ie.kind, bool(getattr(ie, "executable", False)),
                                    getattr(ie, "symlink_target", None), ie.revision,
                                    getattr(ie, "text_sha1", None))
            st["invs"][inv.revision_id] = ents
        keys = sorted(repo.texts.keys())
        for rec in repo.texts.get_record_stream(keys, "unordered", True):
            try:
                st["texts"][rec.key] = rec.get_bytes_as("fulltext")
            except Exception as e:   # unreadable text
                st["texts"][rec.key] = ("unreadable: %s" % type(e).__name__).encode()
        st["tparents"] = {k: tuple(v) for k, v in repo.texts.get_parent_map(keys).items()}
        try:
            st["packs"] = sorted(repo._pack_collection.names())
        except AttributeError:
            st["packs"] = None
    return st


def read_union(W, name):
    """state of the repository `name`; for a stacked repository the union with its fallbacks (what a fetch from
    it sees), own keys first"""
    st = read_state(W.path(name))
    for fb in getattr(W, "union", {}).get(name, [])[1:]:
        other = read_state(W.path(fb))
        for kind in ("revs", "invs", "texts", "tparents", "roots"):
            for k, v in other[kind].items():
                st[kind].setdefault(k, v)
    return st


def open_src(W, name, mode=None):
    """the source repository object: through the smart server for remote-src; with its fallbacks when stacked"""
    stacked = name in getattr(W, "union", {})
    if mode == "remote-src":
        return W.server.open_repo(name, via_branch=stacked)
    if stacked:
        from breezy.branch import Branch
        return Branch.open(W.path(name)).repository
    return open_repo(W.path(name))


class Numbering:
    def __init__(self):
        self.rev = {}
        self.fid = {}

    def r(self, rid):
        return self.rev[rid]

    def f(self, fid):
        return self.fid[fid]


def numbering(states, extra_revs=()):
    nb = Numbering()
    rids = set(extra_revs)
    fids = set()
    for st in states:
        for rid, (ps, _m) in st["revs"].items():
            rids.add(rid)
            rids.update(ps)
        for rid, ents in st["invs"].items():
            rids.add(rid)
            for fid, e in ents.items():
                fids.add(fid)
                rids.add(e[4])
        for (fid, rev) in st["texts"]:
            fids.add(fid[0] if isinstance(fid, tuple) else fid)
            rids.add(rev)
        for (fid, rev), ps in (st.get("tparents") or {}).items():
            fids.add(fid)
            rids.add(rev)
            rids.update(p[-1] for p in ps)
    rids.discard(NULL)
    nb.rev = {rid: i + 1 for i, rid in enumerate(sorted(rids))}
    nb.fid = {fid: i + 1 for i, fid in enumerate(sorted(fids))}
    return nb


def enc_state(st, nb, root_ids):
    """three protocol fields for one repository; the root directory's entry and texts are left out
    (its text revision is rewritten by rich-root upgrades)"""
    revs = ";".join("%d:%d:%s" % (nb.r(rid), _tok(repr(m).encode()),
                                  ".".join(str(nb.r(p)) for p in ps if p != NULL) or "-")
                    for rid, (ps, m) in sorted(st["revs"].items())) or "-"
    invs = ";".join("%d:%s" % (nb.r(rid), ",".join(
        "%d.%d.%d.%d" % (nb.f(fid), _tok(repr(e[:4]).encode()), nb.r(e[4]),
                         _tok(e[5] or b"")) for fid, e in sorted(ents.items())) or "-")
        for rid, ents in sorted(st["invs"].items())) or "-"
    texts = ";".join("%d.%d.%d" % (nb.f(fid), nb.r(rev), _tok(hashlib.sha1(t).hexdigest().encode()))
                     for (fid, rev), t in sorted(st["texts"].items()) if fid not in root_ids) or "-"
    return revs, invs, texts


def enc_tpar(st, nb, root_ids):
    """per-file parents of every text (root texts left out): `f.t:p.p` joined by `;`"""
    return ";".join("%d.%d:%s" % (nb.f(fid), nb.r(rev), ".".join(str(nb.r(p[-1])) for p in ps) or "-")
                    for (fid, rev), ps in sorted((st.get("tparents") or {}).items())
                    if fid not in root_ids and (fid, rev) in st["texts"]) or "-"


def canon_full(st, nb, root_ids):
    """the four fields the `fetchb` reply carries for the target afterwards: full revision records,
    full inventories, texts with content tokens, per-file parents"""
    revs, invs, texts = enc_state(st, nb, root_ids)
    return revs, invs, texts.replace(";", ","), enc_tpar(st, nb, root_ids)


def canon_after(st, nb, root_ids):
    revs = ",".join(str(x) for x in sorted(nb.r(r) for r in st["revs"])) or "-"
    invs = ",".join(str(x) for x in sorted(nb.r(r) for r in st["invs"])) or "-"
    texts = ",".join("%d.%d.%d" % t for t in sorted(
        (nb.f(fid), nb.r(rev), _tok(hashlib.sha1(t).hexdigest().encode()))
        for (fid, rev), t in st["texts"].items() if fid not in root_ids)) or "-"
    return revs, invs, texts


# ------------------------------------------------------------------ infrastructure failures are not findings
def _is_infra(e):
    """timeouts, full disks, exhausted descriptors/memory: the machine, not the code.  (A reset connection is NOT
    infrastructure: that is how a client sees an exception in the smart server's handler.)"""
    import errno
    import socket
    if isinstance(e, (MemoryError, socket.timeout, TimeoutError, env.InfraError)):
        return True
    if any(c.__name__ == "ConnectionTimeout" for c in type(e).__mro__):
        return True
    if "timed out" in str(e).lower() and any(
            c.__name__ in ("ConnectionError", "SmartProtocolError", "TransportError") for c in type(e).__mro__):
        return True
    if isinstance(e, OSError) and e.errno in (errno.ENOSPC, errno.EMFILE, errno.ENFILE, errno.ENOMEM, errno.EDQUOT,
                                              errno.ETIMEDOUT):
        return True
    return False


def _reraise_infra(e, where):
    if _is_infra(e):
        raise env.InfraError("%s: %s: %s" % (where, type(e).__name__, str(e)[:200]))


# ------------------------------------------------------------------ smart server
class Server:
    def __init__(self, root):
        from breezy import transport as _mod_transport
        from breezy.bzr.smart import server as smart_server
        self.t = _mod_transport.get_transport(root)
        self.srv = smart_server.SmartTCPServer(self.t, client_timeout=300.0)
        self.srv.start_server("127.0.0.1", 0)
        self.srv.start_background_thread("-c03")
        self.opened = []

    def url(self, name):
        return "bzr://127.0.0.1:%d/%s/" % (self.srv.port, name)

    def open_repo(self, name, via_branch=False):
        from breezy.controldir import ControlDir
        cd = ControlDir.open(self.url(name))
        # a stacked repository gets its fallbacks from its branch
        r = cd.open_branch().repository if via_branch else cd.open_repository()
        self.opened.append(r)
        return r

    def stop(self):
        for r in self.opened:
            try:
                r.controldir.root_transport.disconnect()
            except Exception:
                pass
        self.srv.stop_background_thread()


# ------------------------------------------------------------------ one fetch: real run + oracle + model line
def src_ancestry(st, rev):
    """revisions present in `st` reachable from rev through present revisions"""
    seen, todo = set(), [rev]
    while todo:
        r = todo.pop()
        if r in seen or r not in st["revs"]:
            continue
        seen.add(r)
        todo.extend(st["revs"][r][0])
    return seen


def is_closed(tgt, src):
    for r, (ps, _m) in src["revs"].items():
        if r in tgt["revs"]:
            for p in ps:
                if p in src["revs"] and p not in tgt["revs"]:
                    return False
    return True


def classify_corruption(fmt_t, want, got):
    """family slug for a stored text that differs from the source text, computed from the two byte strings"""
    if fmt_t in GC_FORMATS and isinstance(got, bytes) and len(want) == len(got):
        diff = [i for i in range(len(want)) if want[i] != got[i]]
        if diff and all(want[i] == 0 for i in diff):
            return "gc-rabin-delta-nul-after-source-end"
    return None


GC_FORMATS = ("2a",)
_check_cache = {}
_probe = {}


def probe_exclusion():
    """which parents does GroupCHKStreamSource leave out: every boundary parent whose inventory the
    source has ('found', the pinned code) or only those whose revision it has ('revpresent')?
    Decided by behaviour on the smallest scenario (see notes/c03-fetch-corruption/repro_orphan_parent_inventory.py)."""
    if "x" in _probe:
        return _probe["x"]
    from breezy.branchbuilder import BranchBuilder
    from breezy.controldir import ControlDir, format_registry
    from breezy import transport as _mod_transport
    root = env.fresh_dir("c03probe")
    fmt = format_registry.make_controldir("2a")
    bs = {}
    for h in "AB":
        os.mkdir(os.path.join(root, h))
        bs[h] = BranchBuilder(_mod_transport.get_transport(os.path.join(root, h)), format=fmt)
    ra, rb = bs["A"].get_branch().repository, bs["B"].get_branch().repository
    bs["A"].build_snapshot([], [("add", ("", b"root-id", "directory", None)),
                                ("add", ("keep", b"keep-id", "file", b"never changes\n")),
                                ("add", ("f", b"f-id", "file", b"one\n"))], revision_id=b"r1")
    rb.fetch(ra, revision_id=b"r1")
    bs["B"].build_snapshot([b"r1"], [("modify", ("f", b"three\n"))], revision_id=b"r3")
    bs["A"].build_snapshot([b"r1", b"r3"], [("modify", ("f", b"four\n"))], revision_id=b"r4")
    rb.fetch(ra, revision_id=b"r4")
    bs["B"].build_snapshot([b"r3", b"r4"], [("modify", ("f", b"five\n"))], revision_id=b"r5")
    ra.fetch(rb, revision_id=b"r5")
    T = ControlDir.create(os.path.join(root, "T"), format=fmt).create_repository()
    T.fetch(ra.controldir.open_repository(), revision_id=b"r4")
    T = T.controldir.open_repository()
    with T.lock_read():
        keys = set(T.texts.keys())
    shutil.rmtree(root, ignore_errors=True)
    _probe["x"] = "revpresent" if (b"keep-id", b"r1") in keys else "found"
    return _probe["x"]


def classify_missing_text(pre_s, pre_t, post_t, new, key, find_ghosts, chk):
    """family slug for a text that an inventory copied by this fetch needs and the target lacks,
    computed from the concrete states"""
    boundary = {p for r in new for p in pre_s["revs"][r][0] if p not in new}
    for p in sorted(boundary):
        ents = pre_s["invs"].get(p)
        if ents is None or p in post_t["revs"]:
            continue
        if any((fid, e[4]) == key for fid, e in ents.items()):
            if p not in pre_s["revs"]:
                # the source holds only the inventory of p (a stored parent inventory of a ghost)
                return "%s-stream-excludes-inventory-of-ghost-parent" % ("chk" if chk else "xml")
            if not find_ghosts:
                # p is a revision of the source hidden behind a revision the target already had
                return "%s-stream-excludes-parent-the-target-lacks" % ("chk" if chk else "xml")
    return None


def check_problems(path, revs):
    repo = open_repo(path)
    out = {}
    try:
        with repo.lock_read():
            res = repo.check(sorted(revs)) if revs else None
    except Exception as e:
        return {"exception": "%s: %s" % (type(e).__name__, str(e)[:200])}
    if res is None:
        return out
    for name in ("missing_parent_links", "inconsistent_parents", "revs_with_bad_parents_in_index", "_report_items"):
        v = getattr(res, name, None)
        if v:
            out[name] = sorted(repr(x) for x in (v.items() if isinstance(v, dict) else v))
    for name in ("missing_inventory_sha_cnt", "missing_revision_cnt"):
        if getattr(res, name, 0):
            out[name] = getattr(res, name)
    return out


def do_fetch(ctx, W, case, src_name, tgt_name, rev, find_ghosts, mode, batch):
    """perform tgt.fetch(src, rev) on the real repositories, run the oracle, queue the model line"""
    from breezy import errors
    fmt_s, fmt_t = W.fmt[src_name], W.fmt[tgt_name]
    pre_s = read_union(W, src_name)
    pre_t = read_state(W.path(tgt_name))
    if src_name in getattr(W, "union", {}):
        ctx.count("source:stacked-on-a-fallback")
    if mode in ("pull", "push"):
        if rev not in pre_s["revs"] or not W.has_branch.get(tgt_name) or not W.has_branch.get(src_name):
            mode = "local"
        else:
            find_ghosts = False        # Branch.pull / push search with NotInOtherForRevs(find_ghosts=False)
    src = open_src(W, src_name, mode)
    tgt = W.server.open_repo(tgt_name) if mode == "remote-tgt" else open_repo(W.path(tgt_name))
    outcome = "ok"
    real_missing = None
    from breezy.repository import InterRepository
    inter_name = type(InterRepository.get(src, tgt)).__name__
    ctx.count("inter:" + inter_name)
    asked_fg = find_ghosts
    if inter_name == "InterKnitRepo":
        # InterKnitRepo.search_missing_revision_ids always takes the exhaustive path
        find_ghosts = True
    from breezy.bzr.vf_repository import InterVersionedFileRepository
    bs = InterVersionedFileRepository._walk_to_common_revisions_batch_size
    ctx.count("batch-size:%d" % bs)
    try:
        with src.lock_read(), tgt.lock_read():
            real_missing = set(InterRepository.get(src, tgt).search_missing_revision_ids(
                revision_ids=[rev], find_ghosts=asked_fg).get_keys())
    except errors.NoSuchRevision:
        real_missing = "E:NoSuchRevision"
    except Exception as e:
        _reraise_infra(e, "search_missing_revision_ids")
        real_missing = "E:%s" % type(e).__name__
    try:
        if mode == "pull":
            # Branch.pull: NotInOtherForRevs(find_ghosts=False) search, then Repository.fetch(fetch_spec=...)
            from breezy.branch import Branch
            Branch.open(W.path(tgt_name)).pull(Branch.open(W.path(src_name)), overwrite=True, stop_revision=rev)
        elif mode == "push":
            from breezy.branch import Branch
            Branch.open(W.path(src_name)).push(Branch.open(W.path(tgt_name)), overwrite=True, stop_revision=rev)
        else:
            tgt.fetch(src, revision_id=rev, find_ghosts=asked_fg)
    except errors.NoSuchRevision:
        outcome = "E:NoSuchRevision"
    except errors.IncompatibleRepositories:
        outcome = "E:Incompatible"
    except Exception as e:
        _reraise_infra(e, "fetch")
        outcome = "E:%s:%s" % (type(e).__name__, str(e)[:300])
    post_t = read_state(W.path(tgt_name))
    ctx.count("fetch:%s->%s" % (fmt_s, fmt_t))
    ctx.count("mode:" + mode)
    ctx.count("outcome:" + outcome.split(":")[0] + (":" + outcome.split(":")[1] if outcome != "ok" else ""))
    V = lambda what, family=None: ctx.violation(case, what, family=family)  # noqa: E731
    corrupt = False
    nviol0 = len(ctx.violations)
    # ---------------- expected errors
    incompatible = pre_s["rich"] and not pre_t["rich"]
    A = src_ancestry(pre_s, rev)
    new = set(post_t["revs"]) - set(pre_t["revs"])
    ctx.count("copied:%d" % min(len(new), 12))
    closed = is_closed(pre_t, pre_s)
    ctx.count("closed-target" if closed else "target-with-ghost-the-source-has:find_ghosts=%s" % find_ghosts)
    if not closed and not find_ghosts and outcome == "ok" and rev in pre_s["revs"]:
        # whether the search went round the held revision and filled the hole depends on the batch layering
        ctx.count("target-with-ghost-the-source-has:ghosts-%s" % ("filled" if A <= set(post_t["revs"]) else "left"))
    overlap = len(A & set(pre_t["revs"]))
    ghosty = any(p not in pre_s["revs"] for r in A for p in pre_s["revs"][r][0])
    ctx.case(dict(case, n_src=len(pre_s["revs"]), n_tgt=len(pre_t["revs"]), copied=len(new)),
             nontrivial=bool(new) and (overlap > 0 or ghosty))
    if rev not in pre_s["revs"]:
        want = "ok" if (rev in pre_t["revs"] and not find_ghosts) else "E:NoSuchRevision"
        if outcome != want:
            V("fetch of a revision absent from the source: outcome %s, expected %s" % (outcome, want))
    elif incompatible and (A - set(pre_t["revs"])):
        if outcome != "E:Incompatible":
            V("fetch from a rich-root into a non-rich-root repository did not fail with IncompatibleRepositories: %s" % outcome)
    elif outcome != "ok":
        fam = None
        if not closed and not find_ghosts:
            # the target holds a revision one of whose parents it lacks while the source has it, and the
            # caller did not ask for ghosts to be filled: the data of that parent is needed but not sent
            fam = "fetch-fails-when-target-has-a-ghost-the-source-has:" + outcome.split(":")[1]
        else:
            would = A - set(pre_t["revs"])
            orphan = [p for r_ in would for p in pre_s["revs"][r_][0]
                      if p not in would and p in pre_s["invs"] and p not in pre_s["revs"] and p not in pre_t["revs"]]
            if orphan:
                # the source holds only the inventory of a boundary parent: the stream leaves out texts the
                # target then misses as compression parents
                fam = "%s-stream-excludes-inventory-of-ghost-parent" % (
                    "chk" if fmt_s in GC_FORMATS and fmt_t in GC_FORMATS else "xml")
        V("fetch failed: %s" % outcome, family=fam)
        corrupt = corrupt or fam
    # ---------------- monotone: nothing the target had is changed
    for kind in ("revs", "invs", "texts", "tparents"):
        for k, v in pre_t[kind].items():
            if post_t[kind].get(k) != v:
                V("%s %r of the target changed or disappeared during fetch" % (kind, k))
                break
    if outcome == "ok" and rev in pre_s["revs"]:
        # ---------------- completeness
        must = A if (closed or find_ghosts) else {rev}
        lacking = sorted(must - set(post_t["revs"]))
        if lacking:
            V("after fetch the target lacks source-present ancestor(s) %r of %r" % (lacking[:4], rev))
        extra = sorted(new - A)
        if extra:
            V("fetch copied revisions outside the ancestry of the requested revision: %r" % extra[:4])
        # ---------------- faithfulness for every revision of the ancestry now in the target
        upgraded_root = (not pre_s["rich"]) and pre_t["rich"]
        srepo = open_src(W, src_name)
        trepo = open_repo(W.path(tgt_name))
        from breezy.bzr.testament import Testament
        corrupt = False
        reported = set()
        with srepo.lock_read(), trepo.lock_read():
            for r in sorted(A & set(post_t["revs"])):
                if post_t["revs"][r] != pre_s["revs"][r]:
                    V("revision %r differs between source and target: %r vs %r" % (r, pre_s["revs"][r], post_t["revs"][r]))
                if r not in post_t["invs"]:
                    V("revision %r is in the target without its inventory" % (r,))
                    continue
                if post_t["invs"][r] != pre_s["invs"].get(r):
                    a, b = pre_s["invs"].get(r) or {}, post_t["invs"][r]
                    d = sorted(k for k in set(a) | set(b) if a.get(k) != b.get(k))[:3]
                    V("inventory of %r differs between source and target at %r" % (r, d))
                if not upgraded_root and pre_s["rich"] and post_t["roots"].get(r) != pre_s["roots"].get(r):
                    V("root entry of %r differs between source and target" % (r,))
                # tree content + recorded sha1
                for fid, e in sorted(post_t["invs"][r].items()):
                    key = (fid, e[4])
                    if key not in post_t["texts"]:
                        if key in reported or (r not in new and key not in pre_s["texts"]):
                            continue
                        if (r in pre_t["revs"] or key[1] in pre_t["revs"]) and W.tainted.get(tgt_name):
                            # the target lacked this text before (damage reported when an earlier fetch caused it)
                            ctx.count("missing-text-ignored:target-was-already-damaged")
                            continue
                        reported.add(key)
                        fam = classify_missing_text(pre_s, pre_t, post_t, new, key, find_ghosts,
                                                    fmt_s in GC_FORMATS and fmt_t in GC_FORMATS) if r in new else None
                        V("text %r referenced by the inventory of %r is not in the target" % (key, r), family=fam)
                        corrupt = corrupt or fam
                        continue
                    got, want = post_t["texts"][key], pre_s["texts"].get(key)
                    if want is not None and got != want:
                        if key in reported or pre_t["texts"].get(key) == got:
                            continue       # already reported (here or by the fetch that stored it)
                        reported.add(key)
                        fam = classify_corruption(fmt_t, want, got)
                        V("text %r stored by fetch differs from the source text: source %r target %r"
                          % (key, want[:80], got[:80]), family=fam)
                        corrupt = corrupt or fam
                    elif e[1] == "file" and e[5] is not None and hashlib.sha1(got).hexdigest().encode() != e[5]:
                        spec = W.spec_text.get(key)
                        if want == got and spec is not None and key not in reported and \
                                classify_corruption(fmt_s, spec, got):
                            # the SOURCE already holds wrong bytes although no fetch stored them: its own autopack
                            # regrouped the texts with the same compressor (histories of >= 10 commits)
                            reported.add(key)
                            fam = classify_corruption(fmt_s, spec, got)
                            V("text %r held by the source differs from what was committed (%r, committed %r): damaged when "
                              "the source repacked itself" % (key, got[:60], spec[:60]), family=fam)
                            corrupt = corrupt or fam
                            W.tainted[src_name] = fam
                            continue
                        if want == got and (W.tainted.get(src_name) or W.tainted.get(tgt_name)):
                            # the source itself holds these bytes: damage done (and reported) by an earlier fetch
                            ctx.count("sha1-mismatch-ignored:inherited-from-a-damaged-repository")
                            continue
                        V("text %r in the target does not have the sha1 recorded in the inventory of %r" % (key, r))
                    if key in pre_s["tparents"] and post_t["tparents"].get(key) != pre_s["tparents"][key]:
                        V("per-file parents of %r differ: source %r target %r"
                          % (key, pre_s["tparents"][key], post_t["tparents"].get(key)))
                # per-file graph of the ROOT entry
                rt = post_t["roots"].get(r)
                if pre_t["rich"] and rt is not None and r in new:
                    rkey = (rt[0], rt[1])
                    got_rp = post_t["tparents"].get(rkey)
                    ps_ = pre_s["revs"][r][0]
                    if rkey not in post_t["texts"] and rkey in pre_s["texts"]:
                        if rkey not in reported:
                            reported.add(rkey)
                            fam = None
                            chk_ = fmt_s in GC_FORMATS and fmt_t in GC_FORMATS
                            for p_ in sorted({q_ for n_ in new for q_ in pre_s["revs"][n_][0] if q_ not in new}):
                                if p_ in post_t["revs"] or tuple((pre_s["roots"].get(p_) or ())[:2]) != rkey:
                                    continue
                                if p_ not in pre_s["revs"]:
                                    fam = "%s-stream-excludes-inventory-of-ghost-parent" % ("chk" if chk_ else "xml")
                                    break
                                if not find_ghosts:
                                    fam = "%s-stream-excludes-parent-the-target-lacks" % ("chk" if chk_ else "xml")
                                    break
                            V("root text %r named by the inventory of %r is not in the target" % (rkey, r), family=fam)
                            corrupt = corrupt or fam
                    elif pre_s["rich"]:
                        want_rp = pre_s["tparents"].get((pre_s["roots"].get(r) or rt)[:2])
                        if got_rp != want_rp and rkey not in reported:
                            V("per-file parents of the root %r of %r differ: source %r target %r" % (rkey, r, want_rp, got_rp))
                    elif rt[1] == r and all(p_ in pre_s["revs"] and p_ in post_t["revs"] for p_ in ps_) \
                            and all(post_t["roots"].get(p_, (None,))[0] == rt[0] for p_ in ps_):
                        # root text synthesised by the rich-root upgrade: its parents are the root versions of the
                        # revision's parents that are heads (no ghosts involved, one root id)
                        heads_ = [p_ for p_ in ps_ if not any(q_ != p_ and p_ in src_ancestry(pre_s, q_) for q_ in ps_)]
                        want_rp = tuple(dict.fromkeys((rt[0], p_) for p_ in heads_))
                        if got_rp is None or tuple(got_rp) != want_rp:
                            fam = None
                            if got_rp is not None and src_name in getattr(W, "union", {}) and mode == "remote-src" \
                                    and set(want_rp) < set(got_rp) \
                                    and all(k_[0] == rt[0] and k_[1] in ps_ for k_ in got_rp):
                                # the smart server generates the root texts from the stacked repository opened
                                # WITHOUT its fallback: heads() cannot see ancestry through fallback-only revisions
                                fam = "stacked-smart-source-rich-root-upgrade-root-parents-not-heads"
                            V("per-file parents of the synthesised root text %r are %r, expected %r (the parents of %r "
                              "that are heads); the target held %r before this fetch"
                              % (rkey, got_rp, want_rp, r, sorted(set(ps_) & set(pre_t["revs"]))), family=fam)
                if r in new:
                    try:
                        ts = Testament.from_revision(srepo, r).as_short_text()
                        tt = Testament.from_revision(trepo, r).as_short_text()
                    except Exception as e:
                        V("testament of %r cannot be computed: %s" % (r, type(e).__name__))
                    else:
                        if ts != tt:
                            V("testament of %r differs between source and target" % (r,))
        if corrupt or len(ctx.violations) > nviol0:
            W.tainted[tgt_name] = corrupt or "unclassified"
        # ---------------- consistency check
        if W.tainted.get(tgt_name) or W.tainted.get(src_name):
            ctx.count("check-skipped:repository-damaged-by-an-earlier-reported-fetch")
        elif new:
            ck = (W.root, src_name, tuple(sorted(pre_s["revs"])))
            if ck not in _check_cache:
                # (a stacked source is checked through the unstacked repository holding the same history)
                _check_cache[ck] = check_problems(W.path(getattr(W, "check_ref", {}).get(src_name, src_name)),
                                                  [h for h in pre_s["revs"]])
            sp = dict(_check_cache[ck])
            tp = check_problems(W.path(tgt_name), sorted(post_t["revs"]))
            sensitive = set(W.ghosty_revs)
            for st_ in (pre_s, post_t):
                for r_, (ps_, _m) in st_["revs"].items():
                    if any(p_ not in pre_s["revs"] or p_ not in post_t["revs"] for p_ in ps_):
                        sensitive.add(r_)
            if not is_closed(post_t, pre_s) and "inconsistent_parents" in tp:
                # the target's revision graph has a hole the source's has not (a ghost left unfilled): what check()
                # expects as per-file parents of the descendants differs between the two graphs
                ctx.count("check:inconsistent-parents-not-compared(target-graph-has-a-hole)")
                del tp["inconsistent_parents"]
            for probs in (tp, sp):
                # per-file parents recorded while a parent of the revision was a ghost look "inconsistent"
                # wherever that parent is present: not a property of the copy; neither is what check() says
                # about revisions the target held before (their per-file parents are compared by the monotone test)
                if "inconsistent_parents" in probs:
                    keep = [x for x in probs["inconsistent_parents"]
                            if not any(x.startswith("(%r, " % g) for g in sensitive)
                            and (probs is sp or any(x.startswith("(%r, " % g) for g in new))]
                    if len(keep) != len(probs["inconsistent_parents"]):
                        ctx.count("check:inconsistent-parents-of-ghost-merges-ignored")
                    if keep:
                        probs["inconsistent_parents"] = keep
                    else:
                        del probs["inconsistent_parents"]
            for k, v in tp.items():
                sv = sp.get(k)
                worse = (k not in sp) or (isinstance(v, list) and set(v) - set(sv)) or (isinstance(v, int) and v > sv)
                if worse and k != "exception":
                    V("check() of the target reports %s = %r (source: %r)" % (k, v if not isinstance(v, list) else v[:3], sv))
                elif k == "exception" and k not in sp:
                    V("check() of the target fails: %s" % v)
        # ---------------- second fetch transfers nothing
        if not corrupt:
            src2 = open_src(W, src_name, mode)
            tgt2 = W.server.open_repo(tgt_name) if mode == "remote-tgt" else open_repo(W.path(tgt_name))
            try:
                with src2.lock_read(), tgt2.lock_read():
                    again = set(InterRepository.get(src2, tgt2).search_missing_revision_ids(
                        revision_ids=[rev], find_ghosts=find_ghosts).get_keys())
                if again:
                    V("a second search after the fetch still finds %r missing" % sorted(again)[:4])
                tgt2.fetch(src2, revision_id=rev, find_ghosts=find_ghosts)
            except Exception as e:
                _reraise_infra(e, "second fetch")
                V("second fetch failed: %s: %s" % (type(e).__name__, str(e)[:200]))
            post2 = read_state(W.path(tgt_name))
            for kind in ("revs", "invs", "texts", "tparents", "packs"):
                if post2[kind] != post_t[kind]:
                    V("a second identical fetch changed the target's %s" % kind)
    if corrupt or len(ctx.violations) > nviol0:
        W.tainted[tgt_name] = corrupt or "unclassified"
    # ---------------- model lines
    root_ids = {v[0] for st in (pre_s, pre_t, post_t) for v in st["roots"].values()}
    nb = numbering([pre_s, pre_t, post_t], extra_revs=[rev])
    sr, si, stx = enc_state(pre_s, nb, root_ids)
    tr, ti, ttx = enc_state(pre_t, nb, root_ids)
    x = probe_exclusion() if fmt_s in GC_FORMATS and fmt_t in GC_FORMATS else "found"
    # parent inventories are requested by StreamSink (get_missing_parent_inventories); InterDifferingSerializer
    # does not use the sink (and fills parent inventories only for stacked targets)
    ext = W.ext[tgt_name] and inter_name != "InterDifferingSerializer"
    flags = "%s %s %s %d" % (x, "T" if ext else "F", "T" if find_ghosts else "F", nb.r(rev))
    # the batched model with full records and per-file parents; InterDifferingSerializer selects the texts per
    # revision (what its own parents' trees do not have), the stream sources per fetch
    xb = "perrev" if inter_name == "InterDifferingSerializer" else x
    line_b = "fetchb %d %s %s %s %s %s %s %s %s %s" % (
        bs, "%s %s %s %d" % (xb, "T" if ext else "F", "T" if find_ghosts else "F", nb.r(rev)),
        sr, si, stx, enc_tpar(pre_s, nb, root_ids), tr, ti, ttx, enc_tpar(pre_t, nb, root_ids))
    # the one-batch model describes the search when the whole source ancestry fits one batch
    line_1 = "fetch %s %s %s %s %s %s %s" % (flags, sr, si, stx, tr, ti, ttx) if len(A) < bs else None
    if isinstance(real_missing, set):
        miss = ",".join(str(x) for x in sorted(nb.r(r) for r in real_missing)) or "-"
    else:
        miss = str(real_missing)
    if outcome == "ok":
        impl_b = "ok %s %s %s %s %s" % ((miss,) + canon_full(post_t, nb, root_ids))
        impl_1 = "ok %s %s %s %s" % ((miss,) + canon_after(post_t, nb, root_ids))
        if fmt_t not in GC_FORMATS:
            case = dict(case, owned_only=True)
    else:
        impl_b = impl_1 = outcome.split(":")[0] + ":" + outcome.split(":")[1]
    # the revision search alone (what the fetch was going to copy): compared also where the copy itself is
    # not (reported findings, InterDifferingSerializer with stored ghost-parent inventories)
    line_w = "walk %d %d %s %s" % (bs, nb.r(rev), sr, ".".join(str(nb.r(r)) for r in sorted(pre_t["revs"])) or "-")
    walk_ok = isinstance(real_missing, set) and not find_ghosts and rev in pre_s["revs"]
    if inter_name == "InterDifferingSerializer" and any(i not in pre_s["revs"] for i in pre_s["invs"]):
        # InterDifferingSerializer chooses bases per revision from the trees it can read (also trees of ghost
        # parents whose inventory the source happens to hold) and copies those inventories: not modelled
        ctx.count("T2-copy-skipped(search-still-compared):InterDifferingSerializer-source-with-inventory-of-a-ghost")
        if walk_ok:
            batch.append((dict(case, tie="search"), line_w, miss))
    elif rev in pre_s["revs"] and corrupt:
        ctx.count("T2-copy-skipped(search-still-compared):reported-by-the-oracle(%s)" % str(corrupt).split(":")[0])
        if walk_ok:
            batch.append((dict(case, tie="search"), line_w, miss))
    elif not (incompatible and outcome == "E:Incompatible"):
        batch.append((dict(case, tie="batched"), line_b, impl_b))
        if line_1 is not None:
            batch.append((dict(case, tie="one-batch"), line_1, impl_1))
    return outcome, post_t


# ------------------------------------------------------------------ scenarios
QUICK_FORMATS = ["2a", "pack-0.92", "knit"]
ALL_FORMATS = ["2a", "pack-0.92", "knit", "1.9-rich-root"]


COMPATIBLE = [("pack-0.92", "2a"), ("knit", "2a"), ("pack-0.92", "knit"), ("knit", "pack-0.92"),
              ("knit", "knit"), ("pack-0.92", "pack-0.92"), ("2a", "2a")]
THOROUGH_EXTRA = [("1.9-rich-root", "2a"), ("2a", "1.9-rich-root"), ("1.9-rich-root", "1.9-rich-root"),
                  ("knit", "1.9-rich-root"), ("pack-0.92", "1.9-rich-root"), ("2a", "knit"), ("2a", "pack-0.92"),
                  ("1.9-rich-root", "pack-0.92")]


def pairs_for(ctx):
    if ctx.thorough():
        return COMPATIBLE + THOROUGH_EXTRA
    # quick: 2a->2a always (twice, see scenario_keys), plus three cross/same-format pairs rotated by the seed
    rest = COMPATIBLE[:-1] + THOROUGH_EXTRA[:2]
    k = (3 * ctx.seed) % len(rest)
    rot = rest[k:] + rest[:k]
    # 2a->2a and one non-rich-root -> rich-root upgrade in every round, plus three rotated pairs
    return [("2a", "2a"), [("pack-0.92", "2a"), ("knit", "2a")][ctx.seed % 2]] + rot[:3]


def run_scenario(ctx, key, stop_at=None):
    """key = (seed, index, fmt_s, fmt_t, mode, big).  Returns the batch of (case, line, impl)."""
    seed, idx, fmt_s, fmt_t, mode, big = key[:6]
    kind = key[6] if len(key) > 6 else "random"
    rng = random.Random(repr(("C03", seed, idx, fmt_s, fmt_t, mode)))
    W = World(env.fresh_dir("c03"))
    W.fmt = {"A": fmt_s, "B": fmt_s, "T": fmt_t}
    W.server = None
    W.tainted = {}
    W.spec_text = {}
    W.has_branch = {"A": True, "B": True}
    batch = []
    from breezy.bzr.vf_repository import InterVersionedFileRepository
    bs_default = InterVersionedFileRepository._walk_to_common_revisions_batch_size
    try:
        if kind in ("random", "ghost") and rng.random() < 0.45:
            # the batch size of the revision search is a class attribute the test suite overrides too: small
            # values make short histories span several search batches
            small = rng.choice([1, 2, 3, 5])
            if not os.environ.get("C03_DEFAULT_BATCH"):      # development: keep the default batch size everywhere
                InterVersionedFileRepository._walk_to_common_revisions_batch_size = small
        if kind == "long":
            return run_long(ctx, key, W, rng, batch, stop_at)
        if kind == "stacked":
            return run_stacked(ctx, key, W, rng, batch, stop_at)
        NUL_FAMILY[0] = rng.random() < 0.4
        ctx.count("contents:with-nul-bytes" if NUL_FAMILY[0] else "contents:binary-without-nul")
        fork = None
        if kind == "ghost":
            shape = ghost_shape(rng)
            revs = gen_history(rng, len(shape), rng.randint(4, 8), shape=shape)
        elif kind == "fork":
            shape, fp, fm = fork_shape(rng)
            fork = (fp, fm)
            revs = gen_history(rng, len(shape), rng.randint(3, 6), shape=shape)
        else:
            revs = gen_history(rng, rng.randint(6, 16 if big else 11), rng.randint(6, 12))
        from breezy.branchbuilder import BranchBuilder
        from breezy.controldir import format_registry
        from breezy import errors, transport as _mod_transport
        builders = {}
        for h in "AB":
            os.makedirs(W.path(h))
            builders[h] = BranchBuilder(_mod_transport.get_transport(W.path(h)),
                                        format=format_registry.make_controldir(fmt_s))
        if mode not in ("local", "pull", "push"):
            W.server = Server(W.root)
        W.ghosty_revs = {rv.rid for rv in revs if rv.ghosts}
        for rv in revs:
            for pth, (fid, kind, content) in rv.tree.items():
                if kind == "file":
                    W.spec_text[(fid, rv.rid)] = content
        W.ext = {h: builders[h].get_branch().repository._format.supports_external_lookups for h in "AB"}
        n = [0]

        def case_of(src, tgt, rev, fg, m):
            n[0] += 1
            return dict(key=list(key), step=n[0], src=src, tgt=tgt, rev=rev.decode(), find_ghosts=fg, mode=m)

        for rv in revs:
            bb = builders[rv.home]
            repo = bb.get_branch().repository
            other = "B" if rv.home == "A" else "A"
            for p in rv.parents:
                if p in rv.ghosts or repo.has_revision(p):
                    continue
                do_fetch(ctx, W, case_of(other, rv.home, p, False, "local"), other, rv.home, p, False, "local", batch)
                if (stop_at is not None and n[0] >= stop_at) or W.tainted:
                    if W.tainted:
                        ctx.count("scenario-stopped:a-fetch-damaged-its-target")
                    return batch
            try:
                bb.build_snapshot(rv.parents, rv.actions, message=rv.msg, timestamp=rv.ts, timezone=rv.tz,
                                  committer=rv.committer, revision_id=rv.rid)
            except (errors.GhostRevisionsHaveNoRevno, errors.OutOfDateTree):
                # the home's left-hand ancestry has a hole (left by a fetch that did not fill a ghost):
                # BranchBuilder cannot commit on top of it; the history ends here
                ctx.count("history-truncated:left-hand-ancestry-has-a-ghost")
                revs = revs[:revs.index(rv)]
                break
        make_repo(W.path("T"), fmt_t)
        if mode in ("pull", "push"):
            open_repo(W.path("T")).controldir.create_branch()
            W.has_branch["T"] = True
        W.ext["T"] = open_repo(W.path("T"))._format.supports_external_lookups
        allrevs = [rv.rid for rv in revs]
        nf = rng.randint(3, 5)
        # revisions built with a parent that is a ghost in their home but present in the other home:
        # fetching them first from their home gives a target that is not closed w.r.t. the other home
        home_revs = {h: set(read_state(W.path(h))["revs"]) for h in "AB"}
        ghosty = [rv for rv in revs if rv.rid in home_revs[rv.home] and any(
            g in allrevs and g not in home_revs[rv.home] and g in home_revs["B" if rv.home == "A" else "A"]
            for g in rv.ghosts)]
        plan = []
        forced_fg = None
        desc = None
        if ghosty and (kind == "ghost" or rng.random() < 0.8):
            g = rng.choice(ghosty)
            plan.append((g.home, g.rid))
            ctx.count("plan:fetch-a-revision-with-a-foreign-ghost-parent-first")
        if fork is not None:
            # fetch the fork point, then the merge of its children; then a fresh single-shot reference is implied
            # by the oracle's expected per-file parents
            seq = [(fork[0], False), (fork[1], rng.random() < 0.3)]
            if rng.random() < 0.5:
                seq.append((revs[-1].rid, False))
            for rev, fg in seq:
                do_fetch(ctx, W, case_of("A", "T", rev, fg, mode), "A", "T", rev, fg, mode, batch)
                if (stop_at is not None and n[0] >= stop_at) or W.tainted:
                    return batch
            return batch
        for j in range(nf):
            src = rng.choice("AAB")
            if plan and j == 0:
                src, rev = plan[0]
            elif plan and j in (1, 2) and (j == 1 or forced_fg is not None) and \
                    _descendants_in(W, "B" if plan[0][0] == "A" else "A", plan[0][1]):
                # a descendant of that revision from the other home (which has the parent the target lacks):
                # once with find_ghosts=False (the ghost stays), once with True (it must be filled), in either order
                src = "B" if plan[0][0] == "A" else "A"
                ctx.count("plan:then-its-descendant-from-the-other-home")
                if j == 1:
                    desc = rng.choice(_descendants_in(W, src, plan[0][1]))
                    forced_fg = rng.random() < 0.5
                    rev, fg_now = desc, forced_fg
                else:
                    rev, fg_now = desc, not forced_fg
                    forced_fg = None
                do_fetch(ctx, W, case_of(src, "T", rev, fg_now, mode), src, "T", rev, fg_now, mode, batch)
                if (stop_at is not None and n[0] >= stop_at) or W.tainted:
                    if W.tainted:
                        ctx.count("scenario-stopped:a-fetch-damaged-its-target")
                    return batch
                continue
            else:
                st = read_state(W.path(src))
                have = read_state(W.path("T"))["revs"]
                r = rng.random()
                cands = sorted(x for x in st["revs"] if x not in have) or sorted(st["revs"])
                if j == nf - 1 or r < 0.7:
                    rev = rng.choice(cands[len(cands) // 2:] if j >= nf - 2 else cands)
                elif r < 0.92:
                    rev = rng.choice(allrevs)
                else:
                    rev = rng.choice([b"ghost1", b"nonexistent"])
            fg = rng.random() < 0.3
            do_fetch(ctx, W, case_of(src, "T", rev, fg, mode), src, "T", rev, fg, mode, batch)
            if (stop_at is not None and n[0] >= stop_at) or W.tainted:
                if W.tainted:
                    ctx.count("scenario-stopped:a-fetch-damaged-its-target")
                return batch
        return batch
    except env.InfraError:
        raise
    except Exception as e:
        # building the history (commits through BranchBuilder) or the harness' own reads failed on the real code
        _reraise_infra(e, "scenario %r" % (key,))
        import traceback
        tb = traceback.extract_tb(e.__traceback__)
        where = next(("%s:%s" % (os.path.basename(f.filename), f.name) for f in reversed(tb) if "/breezy/" in f.filename), "?")
        ctx.violation(dict(key=list(key), step=None), "scenario could not be executed on the real code: %s: %s (in %s)"
                      % (type(e).__name__, str(e)[:300], where))
        return batch
    finally:
        InterVersionedFileRepository._walk_to_common_revisions_batch_size = bs_default
        if W.server is not None:
            W.server.stop()
        shutil.rmtree(W.root, ignore_errors=True)


# ------------------------------------------------------------------ a stacked source behind the smart server
def stacked_shape(rng, n, right):
    """one home: a random base DAG; then a trunk line and a feature line that both start at the base tip; the
    feature line merges trunk revisions (the trunk parent in the right-hand position when `right`, else in either
    position; never an ancestor of the other parent) and goes on with random revisions and merges; a few ghost
    parents.  Returns (shape, trunk tip, feature tip): a fallback holding the trunk tip and a repository stacked on
    it holding the feature tip split the history at merges across the boundary."""
    r = lambda i: b"r%02d" % i  # noqa: E731
    shape = [("A", [], [])]
    nbase = rng.randint(1, max(1, n // 3))
    for i in range(2, nbase + 1):
        left = r(rng.randint(max(1, i - 2), i - 1))
        ps, gh = [left], []
        if i > 2 and rng.random() < 0.35:
            o = r(rng.randint(1, i - 1))
            if o != left:
                ps.append(o)
        shape.append(("A", ps, gh))
    i = nbase + 1
    base = r(nbase)
    feat = None
    trunk = base
    ntrunk = 0
    while i <= n or ntrunk == 0 or feat is None:
        k = rng.random()
        if feat is None or k < 0.3:
            # feature line moves on
            ps, gh = [feat or base], []
            if rng.random() < 0.08:
                gh = [b"ghost%d" % i]
                ps = ps + gh
            shape.append(("A", ps, gh))
            feat = r(i)
        elif k < 0.6 or ntrunk == 0:
            shape.append(("A", [trunk], []))
            trunk = r(i)
            ntrunk += 1
        else:
            # feature merges the trunk tip (or an older trunk/base revision)
            o = trunk if rng.random() < 0.7 else r(rng.randint(1, i - 1))
            if o == feat:
                o = trunk
            ps = [feat, o] if (right or rng.random() < 0.5) else [o, feat]
            shape.append(("A", ps, []))
            feat = r(i)
        i += 1
    # make sure the feature tip is (a descendant of) a merge of the current trunk tip
    shape.append(("A", [feat, trunk] if (right or rng.random() < 0.5) else [trunk, feat], []))
    feat = r(i)
    if rng.random() < 0.6:
        shape.append(("A", [feat], []))
        feat = r(i + 1)
    return shape, trunk, feat


def run_stacked(ctx, key, W, rng, batch, stop_at):
    """The source is a repository S STACKED on a fallback F, opened through the smart server (a RemoteRepository
    with a fallback: RemoteStreamSource.missing_parents_chain streams from S, then asks F for what the streamed
    revisions reference).  The history lives completely in home A; F takes the ancestry of one or two arbitrary
    revisions, S (a branch stacked on F) takes a later tip, so the history is split at arbitrary points, with
    merges across the boundary in both parent positions.  Unstacked targets (empty or partially filled from A)
    fetch revisions from bzr://.../S; the source state is the UNION of S and F."""
    from breezy.branch import Branch
    from breezy.branchbuilder import BranchBuilder
    from breezy.controldir import ControlDir, format_registry
    from breezy import transport as _mod_transport
    seed, idx, fmt_s, fmt_t, mode, big = key[:6]
    NUL_FAMILY[0] = False
    shape, trunk_tip, feat_tip = stacked_shape(rng, rng.randint(6, 12 if not big else 20), right=idx % 3 != 2)
    revs = gen_history(rng, len(shape), rng.randint(3, 6), shape=shape)
    W.fmt = {"A": fmt_s, "F": fmt_s, "S": fmt_s, "T": fmt_t, "U": fmt_t}
    W.union = {"S": ["S", "F"]}
    W.check_ref = {"S": "A"}
    W.ghosty_revs = {rv.rid for rv in revs if rv.ghosts}
    W.has_branch = {}
    for rv in revs:
        for pth, (fid, kind_, content) in rv.tree.items():
            if kind_ == "file":
                W.spec_text[(fid, rv.rid)] = content
    fmt = format_registry.make_controldir(fmt_s)
    os.makedirs(W.path("A"))
    bb = BranchBuilder(_mod_transport.get_transport(W.path("A")), format=fmt)
    for rv in revs:
        bb.build_snapshot(rv.parents, rv.actions, message=rv.msg, timestamp=rv.ts, timezone=rv.tz,
                          committer=rv.committer, revision_id=rv.rid)
    ids = [rv.rid for rv in revs]
    full = read_state(W.path("A"))
    # the fallback: ancestry of one or two revisions from the older part
    fcd = ControlDir.create(W.path("F"), format=fmt)
    frepo = fcd.create_repository()
    fcd.create_branch()
    # ... the trunk tip, sometimes an older trunk revision instead, sometimes one more arbitrary revision
    tanc = sorted(src_ancestry(full, trunk_tip))
    for f_ in [trunk_tip if rng.random() < 0.75 else rng.choice(tanc)] + \
            ([rng.choice(ids)] if rng.random() < 0.25 else []):
        frepo.fetch(open_repo(W.path("A")), revision_id=f_)
    in_f = set(read_state(W.path("F"))["revs"])
    # the stacked repository: the feature tip (or another revision the fallback lacks)
    outside = [x for x in ids if x not in in_f]
    if not outside:
        ctx.count("stacked:fallback-holds-everything")
        return batch
    tip = feat_tip if feat_tip in outside and rng.random() < 0.8 else rng.choice(outside[len(outside) // 2:])
    scd = ControlDir.create(W.path("S"), format=fmt)
    scd.create_repository()
    scd.create_branch().set_stacked_on_url("../F")
    Branch.open(W.path("S")).pull(Branch.open(W.path("A")), overwrite=True, stop_revision=tip)
    own = set(read_state(W.path("S"))["revs"])
    across = [x for x in own for j, p_ in enumerate(full["revs"][x][0]) if p_ in in_f and p_ not in own]
    for x in own:
        ps_ = full["revs"][x][0]
        for j, p_ in enumerate(ps_):
            if p_ in in_f and p_ not in own:
                ctx.count("stacked:boundary-parent-position=%d-of-%d" % (min(j, 2), min(len(ps_), 3)))
    ctx.count("stacked:own=%d,fallback=%d" % (min(len(own), 9), min(len(in_f), 9)))
    W.server = Server(W.root)
    W.ext = {}
    for t_ in "TU":
        make_repo(W.path(t_), fmt_t)
        W.ext[t_] = open_repo(W.path(t_))._format.supports_external_lookups
    nstep = [0]

    def fetch(src, tgt, rev, fg, m):
        nstep[0] += 1
        case = dict(key=list(key), step=nstep[0], src=src, tgt=tgt, rev=rev.decode(), find_ghosts=fg, mode=m)
        do_fetch(ctx, W, case, src, tgt, rev, fg, m, batch)
        return (stop_at is not None and nstep[0] >= stop_at) or bool(W.tainted.get(tgt))

    union = src_ancestry(full, tip)
    # T: empty target, the stacked tip; then another revision of the union (often fallback-only)
    if not fetch("S", "T", tip, rng.random() < 0.25, "remote-src"):
        if stop_at is None or nstep[0] < stop_at:
            fetch("S", "T", rng.choice(sorted(union | in_f)), rng.random() < 0.3, "remote-src")
    if stop_at is not None and nstep[0] >= stop_at:
        return batch
    # U: partially filled from the full repository first (a revision on either side of the boundary)
    pre = rng.choice(sorted(in_f) if rng.random() < 0.5 else sorted(union))
    if not fetch("A", "U", pre, False, "local"):
        if stop_at is None or nstep[0] < stop_at:
            fetch("S", "U", tip, False, "remote-src")
    return batch


# ------------------------------------------------------------------ long histories (several search batches)
def long_shape(rng, n, tail):
    """one home; a history of n + tail revisions: a main line with short side branches and merges, a few ghost
    parents, a side branch S (never merged before revision a) whose tip g is merged into the main line early, and a
    strictly linear tail of `tail` revisions at the end.  Returns (list of (rid, parents, ghosts), a, g)."""
    r = lambda i: b"r%03d" % i  # noqa: E731
    shape = [(r(1), [], [])]
    width = rng.choice([1, 2, 3])
    a = rng.randint(n // 4, n // 2)
    side = []
    i = 2
    while i <= n:
        if i == a + 1:
            # side branch S off the main line: two revisions; g = its tip
            shape.append((r(i), [r(i - 2)], []))
            shape.append((r(i + 1), [r(i)], []))
            side = [r(i), r(i + 1)]
            # ... merged into the main line right away (deep below the tail); the first side revision is merged
            # once more on its own, so it can be reached without passing g
            shape.append((r(i + 2), [r(i - 1), r(i + 1)], []))
            shape.append((r(i + 3), [r(i + 2)], []))
            shape.append((r(i + 4), [r(i + 3), r(i)], []))
            i += 5
            continue
        mains = [x[0] for x in shape[-width:] if x[0] not in side] or [shape[-1][0]]
        left = rng.choice(mains)
        ps, gh = [left], []
        open_heads = [x[0] for x in shape if x[0] != left and x[0] not in side
                      and not any(x[0] in y[1] for y in shape)]
        if (rng.random() < 0.3 or len(open_heads) > width) and len(shape) > 3:
            o = rng.choice(open_heads) if open_heads and rng.random() < 0.8 else \
                rng.choice([x[0] for x in shape[-3 * width - 1:]])
            if o != left:
                ps.append(o)
        if rng.random() < 0.04:
            g_ = b"ghost%d" % i
            ps.append(g_)
            gh.append(g_)
        shape.append((r(i), ps, gh))
        i += 1
    # the linear tail; the first tail revision joins every open head so that the tip has the whole history
    return shape, r(a), side[1], side[0]


def _first_batch(graph, rev, bs):
    """the layers of the first batch of _walk_to_common_revisions from `rev` (no stop inside a batch) and what has
    been seen at its end"""
    seen, layers, nxt, acc = set(), [], [rev], 0
    while acc < bs and nxt:
        seen |= set(nxt)
        found = [k for k in nxt if k in graph]
        layers.append(found)
        acc += len(found)
        new = []
        for k in found:
            for p_ in graph[k]:
                if p_ not in seen and p_ not in new:
                    new.append(p_)
        nxt = new
    return layers, seen


def run_long(ctx, key, W, rng, batch, stop_at):
    """History of > 2 search batches.  Home A holds it all.  Home B takes r_a from A and commits h = merge(r_a, g)
    WITHOUT fetching g (g = tip of a side branch A merged long ago; a ghost in B).  The target takes h from B (so it
    holds a revision whose parent g it lacks although A has it), A takes h too, merges it and continues with a
    linear line.  Then the target fetches from A: a revision from which h is met in the LAST layer of the first
    search batch (g has not been seen when h is stopped: the search goes on and returns g through the old merge),
    revisions where it is met earlier (g was seen: left out), the tip, and a mid-history revision first in a
    second target."""
    from breezy.branchbuilder import BranchBuilder
    from breezy.controldir import format_registry
    from breezy import transport as _mod_transport
    from breezy.bzr.vf_repository import InterVersionedFileRepository
    seed, idx, fmt_s, fmt_t, mode, big = key[:6]
    bs = InterVersionedFileRepository._walk_to_common_revisions_batch_size
    NUL_FAMILY[0] = False
    n = rng.randint(bs + 10, bs + 40) if not big else rng.randint(2 * bs, 3 * bs)
    tail = bs + rng.randint(8, 14)
    shape, r_a, g, s1 = long_shape(rng, n, tail)
    W.fmt = {"A": fmt_s, "B": fmt_s, "T": fmt_t, "U": fmt_t}
    W.ext = {}
    W.ghosty_revs = set()
    builders = {}
    for h_ in "AB":
        os.makedirs(W.path(h_))
        builders[h_] = BranchBuilder(_mod_transport.get_transport(W.path(h_)),
                                     format=format_registry.make_controldir(fmt_s))
        W.ext[h_] = builders[h_].get_branch().repository._format.supports_external_lookups
    if mode not in ("local", "pull", "push"):
        W.server = Server(W.root)
    nstep = [0]

    def case_of(src, tgt, rev, fg, m):
        nstep[0] += 1
        return dict(key=list(key), step=nstep[0], src=src, tgt=tgt, rev=rev.decode(), find_ghosts=fg, mode=m)

    class Stop(Exception):
        pass

    def fetch(src, tgt, rev, fg, m):
        """True = this target was damaged by a (reported) fetch: leave it alone"""
        do_fetch(ctx, W, case_of(src, tgt, rev, fg, m), src, tgt, rev, fg, m, batch)
        if stop_at is not None and nstep[0] >= stop_at:
            raise Stop()
        return bool(W.tainted.get(tgt))

    files = ["f%d" % k for k in range(3)]
    cnt = [0]

    def commit(home, rid, parents, first=False):
        cnt[0] += 1
        if first:
            acts = [("add", ("", b"root-id", "directory", None))] + [
                ("add", (f, b"id-" + f.encode(), "file", b"%s line 0\n" % f.encode())) for f in files]
        else:
            f = files[cnt[0] % len(files)]
            acts = [("modify", (f, b"%s line %d by %s\n" % (f.encode(), cnt[0], rid)))]
        builders[home].build_snapshot(parents, acts, revision_id=rid, message="m %d" % cnt[0],
                                      timestamp=1600000000 + cnt[0], timezone=0, committer="Joe <joe@example.com>")

    try:
        for (rid, ps, gh) in shape:
            commit("A", rid, ps, first=not ps)
            if gh:
                W.ghosty_revs.add(rid)
        main_tip = shape[-1][0]
        heads = [x[0] for x in shape if not any(x[0] in y[1] for y in shape)]
        ctx.count("long:revisions-before-tail=%d" % len(shape))
        # B: r_a's ancestry (one long fetch into an empty repository: several batches, nothing to stop at), then h
        if fetch("A", "B", r_a, False, "local"):
            return batch
        hrev = b"h-merge"
        builders["B"].build_snapshot([r_a, g], [("modify", (files[0], b"h\n"))], revision_id=hrev, message="h",
                                     timestamp=1600009000, timezone=0, committer="Joe <joe@example.com>")
        W.ghosty_revs.add(hrev)
        for t_ in "TU":
            make_repo(W.path(t_), fmt_t)
            if mode in ("pull", "push"):
                open_repo(W.path(t_)).controldir.create_branch()
                W.has_branch[t_] = True
            W.ext[t_] = open_repo(W.path(t_))._format.supports_external_lookups
        # T takes h from B: it now holds h without h's parent g (which A has)
        fetch("B", "T", hrev, False, mode)
        # A takes h, merges it (and every open head) and continues linearly
        if fetch("B", "A", hrev, False, "local"):
            return batch
        tailrevs = []
        prev = main_tip
        for j in range(tail):
            rid = b"t%03d" % (j + 1)
            ps = [prev] + ([x for x in heads if x != prev] + [hrev] if j == 0 else [])
            commit("A", rid, ps)
            tailrevs.append(rid)
            prev = rid
        # where does the first search batch from tailrevs[k] end?  (layers of the linear tail hold one revision each)
        graph = {rid: ps for rid, ps, _g in shape}
        graph[hrev] = [r_a, g]
        for j, rid in enumerate(tailrevs):
            graph[rid] = [tailrevs[j - 1]] if j else [main_tip] + [x for x in heads if x != main_tip] + [hrev]
        h_last, g_last, inside = [], [], []
        for k, rid in enumerate(tailrevs):
            layers, seen = _first_batch(graph, rid, bs)
            if hrev in layers[-1]:
                h_last.append(rid)          # g not seen when h is stopped: the search walks round h and returns g
            elif g in layers[-1] and s1 not in seen:
                g_last.append(rid)          # g seen (left out), its parent s1 not: s1 is returned, its child g is not
            elif hrev in seen and g in seen and s1 in seen:
                inside.append(rid)
        ctx.count("long:first-batch-ends:h-last=%d,g-last=%d,inside=%d" % (bool(h_last), bool(g_last), bool(inside)))
        # (a target damaged by a reported fetch is left alone; the other targets and the searches still run)
        if not W.tainted.get("T") and not fetch("A", "T", rng.choice(h_last or tailrevs[bs - 2:bs - 1]), False, mode):
            fetch("A", "T", tailrevs[-1], rng.random() < 0.3, mode)
        # a second target: h from B as well, then a revision from which the batch ends one layer later / inside
        other = rng.choice(g_last) if g_last else rng.choice(inside or tailrevs[-1:])
        if not fetch("B", "U", hrev, False, "local"):
            fetch("A", "U", other, False, mode)
        if inside and g_last and (big or rng.random() < 0.5):
            make_repo(W.path("X"), fmt_t)
            W.fmt["X"] = fmt_t
            W.ext["X"] = W.ext["T"]
            m2 = "local" if mode in ("pull", "push") else mode
            if not fetch("B", "X", hrev, False, "local"):
                fetch("A", "X", rng.choice(inside), False, m2)
        if big:
            # a third target without holes: mid-history revision first, then the tip (several batches)
            make_repo(W.path("V"), fmt_t)
            W.fmt["V"] = fmt_t
            W.ext["V"] = W.ext["T"]
            mid = shape[len(shape) // 2][0]
            m2 = "local" if mode in ("pull", "push") else mode
            if not fetch("A", "V", mid, False, m2):
                fetch("A", "V", tailrevs[-1], False, m2)
        search_only(ctx, W, rng, "A", batch, key)
        return batch
    except Stop:
        return batch


def search_only(ctx, W, rng, src_name, batch, key):
    """the revision search alone, against targets holding ARBITRARY subsets of the source's revisions (revision and
    inventory records inserted directly), for several batch sizes.  Oracle (no model): the result lies in the
    source ancestry and outside the target; for an ancestry-closed target it is exactly the ancestry the target
    lacks; for a requested revision the target holds it is empty."""
    from breezy.repository import InterRepository
    from breezy.bzr.vf_repository import InterVersionedFileRepository
    st = read_state(W.path(src_name))
    ids = sorted(st["revs"])
    fmt_s = W.fmt[src_name]
    fmt_t = {"knit": "pack-0.92"}.get(fmt_s, fmt_s)
    saved = InterVersionedFileRepository._walk_to_common_revisions_batch_size
    nb = numbering([st])
    sr = enc_state(st, nb, set())[0]
    try:
        for tnum in range(ctx.pick(2, 5)):
            base = src_ancestry(st, rng.choice(ids))
            keep = rng.choice([0.97, 0.85, 0.6])
            sub = {r for r in base if rng.random() < keep} | {r for r in ids if rng.random() < 0.03}
            name = "S%d" % tnum
            t = make_repo(W.path(name), fmt_t)
            srepo = open_repo(W.path(src_name))
            try:
                with srepo.lock_read(), t.lock_write():
                    t.start_write_group()
                    try:
                        ks = [(r,) for r in sorted(sub)]
                        if fmt_t in GC_FORMATS:
                            t.texts.insert_record_stream(srepo.texts.get_record_stream(
                                sorted(srepo.texts.keys()), "unordered", True))
                            for inv in srepo.iter_inventories([k[-1] for k in ks]):
                                t.add_inventory(inv.revision_id, inv, [])
                        else:
                            t.inventories.insert_record_stream(srepo.inventories.get_record_stream(ks, "unordered", True))
                        t.revisions.insert_record_stream(srepo.revisions.get_record_stream(ks, "unordered", True))
                        t.commit_write_group()
                    except BaseException:
                        t.abort_write_group()
                        raise
            except Exception as e:
                _reraise_infra(e, "building a search-only target")
                ctx.count("search-only:target-could-not-be-built(%s)" % type(e).__name__)
                continue
            tst = dict(revs={r: st["revs"][r] for r in sub})
            closed = is_closed(tst, st)
            th = ".".join(str(nb.r(r)) for r in sorted(sub)) or "-"
            for n in (1, 2, 3, 7, saved):
                InterVersionedFileRepository._walk_to_common_revisions_batch_size = n
                for rev in rng.sample(ids, min(len(ids), ctx.pick(4, 8))) + [ids[-1]]:
                    s2, t2 = open_repo(W.path(src_name)), open_repo(W.path(name))
                    case = dict(key=list(key), search_only=True, target=tnum, batch_size=n, rev=rev.decode())
                    try:
                        with s2.lock_read(), t2.lock_read():
                            real = set(InterRepository.get(s2, t2).search_missing_revision_ids(
                                revision_ids=[rev], find_ghosts=False).get_keys())
                    except Exception as e:
                        _reraise_infra(e, "search_missing_revision_ids")
                        ctx.violation(case, "search_missing_revision_ids raised %s: %s" % (type(e).__name__, str(e)[:200]))
                        continue
                    A = src_ancestry(st, rev)
                    ctx.case(dict(case, n_src=len(ids), n_tgt=len(sub)), nontrivial=bool(real) and bool(A & sub))
                    ctx.count("search-only:%s" % ("closed-target" if closed else "target-with-holes"))
                    ctx.count("search-only:batches=%d" % min(1 + len(A) // n, 6))
                    if not real <= A - sub:
                        ctx.violation(case, "the search returned %r: outside the source ancestry of %r or held by the "
                                      "target" % (sorted(real - (A - sub))[:4], rev))
                    elif closed and real != A - sub:
                        ctx.violation(case, "ancestry-closed target: the search left out %r (batch size %d)"
                                      % (sorted((A - sub) - real)[:4], n))
                    elif rev in sub and real:
                        ctx.violation(case, "the target holds %r but the search returned %r" % (rev, sorted(real)[:4]))
                    miss = ",".join(str(x) for x in sorted(nb.r(r) for r in real)) or "-"
                    batch.append((dict(case, tie="search"), "walk %d %d %s %s" % (n, nb.r(rev), sr, th), miss))
    finally:
        InterVersionedFileRepository._walk_to_common_revisions_batch_size = saved


def _descendants_in(W, home, rid):
    st = read_state(W.path(home))
    return sorted(r for r in st["revs"] if r != rid and rid in src_ancestry(st, r))


MODES5 = ["local", "remote-src", "pull", "remote-tgt", "push"]
LONG_QUICK = [("knit", "2a", "local"), ("pack-0.92", "pack-0.92", "remote-src"), ("knit", "pack-0.92", "pull"),
              ("pack-0.92", "2a", "remote-tgt"), ("knit", "knit", "push"), ("pack-0.92", "2a", "local"),
              ("knit", "2a", "remote-src")]
LONG_THOROUGH = [("2a", "2a", "local"), ("2a", "2a", "remote-tgt"), ("1.9-rich-root", "2a", "pull")]


def scenario_keys(ctx):
    keys = []
    modes = ["local", "remote-src", "remote-tgt"]
    i = 0
    for rnd in range(ctx.pick(3, 4)):
        for (a, b) in pairs_for(ctx):
            keys.append((ctx.seed, i, a, b, MODES5[(i + ctx.seed) % 5], ctx.thorough()))
            i += 1
    # one extra 2a->2a local scenario (largest groups)
    keys.append((ctx.seed, i, "2a", "2a", "local", ctx.thorough()))
    # small histories built around a ghost that the other home has (targets that are not ancestry-closed)
    gp = [("2a", "2a"), ("pack-0.92", "pack-0.92"), ("knit", "2a"), ("pack-0.92", "2a"), ("knit", "pack-0.92"), ("1.9-rich-root", "2a")]
    for j in range(ctx.pick(5, 12)):
        a, b = gp[(ctx.seed + j) % len(gp)]
        keys.append((ctx.seed, i + 1 + j, a, b, MODES5[(j + ctx.seed) % 5], False, "ghost"))
    # partial overlap exactly at a fork point, always including the non-rich-root -> rich-root upgrades,
    # locally (InterDifferingSerializer) and through the smart server (stream route)
    fp = [("pack-0.92", "2a"), ("knit", "2a"), ("pack-0.92", "rich-root-pack"), ("2a", "2a"), ("knit", "rich-root-pack"),
          ("pack-0.92", "pack-0.92")]
    nfork = ctx.pick(9, 24)
    for j in range(nfork):
        a, b = fp[j % len(fp)]
        keys.append((ctx.seed, i + 100 + j, a, b, modes[(j // len(fp) + j + ctx.seed) % 3], False, "fork"))
    # histories spanning several batches of the revision search (> 50 revisions), with a target holding a revision
    # one of whose parents it lacks, met by the search at the end of / inside a batch; + the search alone against
    # arbitrary targets
    for j in range(ctx.pick(1, 5)):
        a, b, m = LONG_QUICK[(ctx.seed + j) % len(LONG_QUICK)]
        keys.append((ctx.seed, i + 200 + j, a, b, m, ctx.thorough() and j == 0, "long"))
    if ctx.thorough():
        for j, (a, b, m) in enumerate(LONG_THOROUGH):
            keys.append((ctx.seed, i + 300 + j, a, b, m, False, "long"))
    # a source STACKED on a fallback, served over bzr:// (RemoteStreamSource.missing_parents_chain), into unstacked
    # targets of the smart-stream formats
    sp = [("2a", "2a"), ("1.9", "1.9"), ("1.9", "2a"), ("1.9", "pack-0.92"), ("1.9-rich-root", "2a"), ("2a", "2a")]
    for j in range(ctx.pick(3, 12)):
        a, b = sp[(ctx.seed + j) % len(sp)]
        keys.append((ctx.seed, i + 500 + j, a, b, "remote-src", ctx.thorough() and j % 3 == 0, "stacked"))
    return keys


def _owned(reply):
    """knit-delta formats also store the compression parents of what they receive (inventories and texts of
    revisions the target does not hold): compare only keys of revisions the target holds"""
    f = reply.split(" ")
    if f[0] != "ok":
        return reply
    if len(f) == 5:
        revs = set(f[2].split(","))
        invs = ",".join(i for i in f[3].split(",") if i in revs) or "-"
        texts = ",".join(t for t in f[4].split(",") if t != "-" and t.split(".")[1] in revs) or "-"
        return " ".join([f[0], f[1], f[2], invs, texts])
    if len(f) == 6:
        revs = {r.split(":")[0] for r in f[2].split(";")}
        invs = ";".join(i for i in f[3].split(";") if i.split(":")[0] in revs) or "-"
        texts = ",".join(t for t in f[4].split(",") if t != "-" and t.split(".")[1] in revs) or "-"
        tpar = ";".join(t for t in f[5].split(";") if t != "-" and t.split(":")[0].split(".")[1] in revs) or "-"
        return " ".join([f[0], f[1], f[2], invs, texts, tpar])
    return reply


def _only_extra_texts(impl, model):
    """both replies are ok, equal in everything but the text / per-file-parent fields, and there the real target
    holds everything the model predicts (and more)"""
    a, b = impl.split(" "), model.split(" ")
    if len(a) != len(b) or a[0] != "ok" or b[0] != "ok" or len(a) not in (5, 6):
        return False
    if a[:4] != b[:4]:
        return False
    for x, y in zip(a[4:], b[4:]):
        sep = ";" if ":" in (x + y) else ","
        sx = set(x.split(sep)) - {"-"}
        sy = set(y.split(sep)) - {"-"}
        if not sy <= sx:
            return False
    return True


def _flush(ctx, batch):
    if batch and ctx.model_available and not os.environ.get("C03_NOMODEL"):
        outs = ctx.model([b[1] for b in batch])
        for (case, line, impl), m in zip(batch, outs):
            ctx.traces += 1
            ctx.count("T2:" + case.get("tie", "batched"))
            if case.get("owned_only"):
                impl, m = _owned(impl), _owned(m)
                if impl != m and _only_extra_texts(impl, m):
                    # a knit-delta target also receives the compression parents of the texts it is sent
                    # (get_stream_for_missing_keys): texts the stream filter left out may arrive that way
                    ctx.count("T2:extra-texts-of-a-knit-delta-target-accepted")
                    continue
            if impl != m:
                ctx.mismatch(case, impl, m, line=line)


def probe_case(ctx):
    """the smallest history that showed the ghost-parent-inventory defect (fixed in /repo) runs first on every run"""
    _probe.pop("x", None)
    x = probe_exclusion()
    ctx.case(dict(probe="fetch-from-a-source-holding-only-the-inventory-of-a-ghost-parent", exclusion=x))
    ctx.count("probe:exclusion=" + x)
    if x != "revpresent":
        ctx.violation(dict(probe="orphan-parent-inventory"),
                      "2a fetch from a source that holds the inventory (not the revision) of a ghost parent into an empty "
                      "repository: text (keep-id, r1) of the copied revisions is not in the target "
                      "(notes/c03-fetch-corruption/repro_orphan_parent_inventory.py)",
                      family="chk-stream-excludes-inventory-of-ghost-parent")


def run(ctx):
    batch = []
    probe_case(ctx)
    corpus = os.path.join(env.VERIF, "corpus", "C03")
    if os.path.isdir(corpus):
        import json
        for fn in sorted(os.listdir(corpus)):
            if fn.endswith(".json"):
                c = json.load(open(os.path.join(corpus, fn)))
                batch += run_scenario(ctx, tuple(c["key"]), stop_at=c.get("step"))
    for key in scenario_keys(ctx):
        batch += run_scenario(ctx, key)
    _flush(ctx, batch)


def widen(ctx):
    batch = []
    for i in range(100, 112):
        batch += run_scenario(ctx, (ctx.seed, i, "2a", "2a", "local", True))
    for j in range(3):
        a, b, m = LONG_QUICK[(ctx.seed + 1 + j) % len(LONG_QUICK)]
        batch += run_scenario(ctx, (ctx.seed, 400 + j, a, b, m, False, "long"))
    _flush(ctx, batch)


def replay(ctx, case):
    if case.get("probe"):
        probe_case(ctx)
        return dict(case=case, exclusion=_probe.get("x"), oracle_failures=[v["what"] for v in ctx.violations])
    batch = run_scenario(ctx, tuple(case["key"]), stop_at=case.get("step"))
    if case.get("step") is None:
        return dict(case=case, oracle_failures=[v["what"] for v in ctx.violations])
    last = [b for b in batch if b[0].get("step") == case["step"] and b[0].get("tie") == case.get("tie", b[0].get("tie"))]
    out = dict(case=case, oracle_failures=[v["what"] for v in ctx.violations if v["case"] and v["case"].get("step") == case["step"]])
    if last:
        out["impl"] = last[0][2]
        out["model"] = ctx.model([last[0][1]])[0]
        out["agree"] = out["impl"] == out["model"]
    return out
