import BreezyVerif.Lemmas.C10
/-!
C10 — invariants of the `_handle_precise_ids` loop (`preciseLoop`).
-/
namespace BreezyVerif.C10

theorem mem_insertNew {l : List Id} {i j : Id} : j ∈ insertNew l i ↔ j ∈ l ∨ j = i := by
  unfold insertNew
  by_cases h : i ∈ l
  · simp only [List.contains_eq_mem, h, decide_true, if_true]
    constructor
    · exact Or.inl
    · rintro (h' | h')
      · exact h'
      · subst h'; exact h
  · simp [h]

theorem mem_addParent {l : List Id} {r : Change} {j : Id} :
    j ∈ addParent l r ↔ j ∈ l ∨ r.tgt.bind (·.parent) = some j := by
  unfold addParent
  split
  · rename_i p hp
    rw [mem_insertNew, hp]
    constructor
    · rintro (h | h)
      · exact Or.inl h
      · exact Or.inr (by rw [h])
    · rintro (h | h)
      · exact Or.inl h
      · exact Or.inr (by injection h with h; exact h.symm)
  · rename_i hp
    rw [hp]; simp

theorem mem_unionNew {l m : List Id} {j : Id} : j ∈ unionNew l m ↔ j ∈ l ∨ j ∈ m := by
  unfold unionNew
  induction m generalizing l with
  | nil => simp
  | cons x rest ih =>
    simp only [List.foldl_cons, List.mem_cons]
    rw [ih, mem_insertNew]
    constructor
    · rintro ((h | h) | h)
      · exact Or.inl h
      · exact Or.inr (Or.inl h)
      · exact Or.inr (Or.inr h)
    · rintro (h | h | h)
      · exact Or.inl (Or.inl h)
      · exact Or.inl (Or.inr h)
      · exact Or.inr h

/-- `p` is not a change: it has no record or an unchanged one -/
def NotChange (src tgt : Tree) (p : Id) : Prop := ∀ r, change src tgt p = some r → r.isChanged = false

def Change.tgtParent (c : Change) : Option Id := c.tgt.bind (·.parent)

/-- what one `examine` does -/
theorem examine_step (src tgt : Tree) (st : PState) (i : Id) :
    let st' := examine src tgt st i
    (∀ j ∈ st.changed, j ∈ st'.changed) ∧ (∀ j ∈ st.precise, j ∈ st'.precise) ∧
    (∀ c ∈ st.out, c ∈ st'.out) ∧
    (NotChange src tgt i ∨ i ∈ st'.changed) ∧
    (∀ c ∈ st'.out, c ∈ st.out ∨
      (c.isChanged = true ∧ change src tgt c.id = some c ∧ c.id ∈ st'.changed ∧
        ∀ p, c.tgtParent = some p → p ∈ st'.precise)) ∧
    (∀ j ∈ st'.changed, j ∈ st.changed ∨ ∃ c ∈ st'.out, c.id = j) := by
  intro st'
  cases hc : change src tgt i with
  | none =>
    have : st' = st := by simp [st', examine, hc]
    rw [this]
    refine ⟨fun _ h => h, fun _ h => h, fun _ h => h, Or.inl ?_, fun c h => Or.inl h, fun j h => Or.inl h⟩
    intro r hr; rw [hc] at hr; cases hr
  | some r =>
    have hid := change_id hc
    by_cases hch : r.isChanged = true
    · -- changed: emitted
      have hst : st' = (PState.mk (if stoppedDir r then unionNew (addParent st.precise r) (childrenOf src i)
                   else addParent st.precise r) (insertNew st.changed i) (st.out ++ [r])) := by
        simp [st', examine, hc, hch]
      rw [hst]
      have hprec : ∀ j, j ∈ addParent st.precise r →
          j ∈ (if stoppedDir r then unionNew (addParent st.precise r) (childrenOf src i)
                   else addParent st.precise r) := by
        intro j hj
        split
        · exact mem_unionNew.mpr (Or.inl hj)
        · exact hj
      refine ⟨fun j h => mem_insertNew.mpr (Or.inl h),
        fun j h => hprec j (mem_addParent.mpr (Or.inl h)),
        fun c h => by simp [h], Or.inr (mem_insertNew.mpr (Or.inr rfl)), ?_, ?_⟩
      · intro c hcm
        simp only [List.mem_append, List.mem_singleton] at hcm
        rcases hcm with h | h
        · exact Or.inl h
        · subst h
          refine Or.inr ⟨hch, by rw [hid]; exact hc, by rw [hid]; exact mem_insertNew.mpr (Or.inr rfl), ?_⟩
          intro p hp
          exact hprec p (mem_addParent.mpr (Or.inr hp))
      · intro j hj
        rcases mem_insertNew.mp hj with h | h
        · exact Or.inl h
        · subst h; exact Or.inr ⟨r, by simp, hid⟩
    · -- unchanged: only the parent is followed
      have hch' : r.isChanged = false := by simpa using hch
      have hst : st' = PState.mk (addParent st.precise r) st.changed st.out := by
        simp [st', examine, hc, hch']
      rw [hst]
      refine ⟨fun _ h => h, fun j hj => mem_addParent.mpr (Or.inl hj), fun _ h => h, Or.inl ?_,
        fun c h => Or.inl h, fun j h => Or.inl h⟩
      intro r' hr'; rw [hc] at hr'; cases hr'; exact hch'

/-- what a whole `for file_id in current_ids` pass does -/
theorem examine_fold (src tgt : Tree) (l : List Id) (st : PState) :
    let st' := l.foldl (examine src tgt) st
    (∀ j ∈ st.changed, j ∈ st'.changed) ∧ (∀ j ∈ st.precise, j ∈ st'.precise) ∧
    (∀ c ∈ st.out, c ∈ st'.out) ∧
    (∀ i ∈ l, NotChange src tgt i ∨ i ∈ st'.changed) ∧
    (∀ c ∈ st'.out, c ∈ st.out ∨
      (c.isChanged = true ∧ change src tgt c.id = some c ∧ c.id ∈ st'.changed ∧
        ∀ p, c.tgtParent = some p → p ∈ st'.precise)) ∧
    (∀ j ∈ st'.changed, j ∈ st.changed ∨ ∃ c ∈ st'.out, c.id = j) := by
  induction l generalizing st with
  | nil =>
    exact ⟨fun _ h => h, fun _ h => h, fun _ h => h, by simp, fun c h => Or.inl h, fun j h => Or.inl h⟩
  | cons x rest ih =>
    intro st'
    have h1 := examine_step src tgt st x
    have h2 := ih (examine src tgt st x)
    simp only at h1 h2
    obtain ⟨a1, b1, c1, d1, e1, f1⟩ := h1
    obtain ⟨a2, b2, c2, d2, e2, f2⟩ := h2
    have hst : st' = rest.foldl (examine src tgt) (examine src tgt st x) := rfl
    rw [hst]
    refine ⟨fun j h => a2 j (a1 j h), fun j h => b2 j (b1 j h), fun c h => c2 c (c1 c h), ?_, ?_, ?_⟩
    · intro i hi
      simp only [List.mem_cons] at hi
      rcases hi with h | h
      · subst h
        rcases d1 with h | h
        · exact Or.inl h
        · exact Or.inr (a2 _ h)
      · exact d2 i h
    · intro c hcm
      rcases e2 c hcm with h | h
      · rcases e1 c h with h' | ⟨p1, p2, p3, p4⟩
        · exact Or.inl h'
        · exact Or.inr ⟨p1, p2, a2 _ p3, fun p hp => b2 _ (p4 p hp)⟩
      · exact Or.inr h
    · intro j hj
      rcases f2 j hj with h | h
      · rcases f1 j h with h' | ⟨c, hc, hcj⟩
        · exact Or.inl h'
        · exact Or.inr ⟨c, c2 c hc, hcj⟩
      · exact Or.inr h

/-- the loop invariant: every tgt parent of an emitted record is pending, emitted
or not a change; every id marked emitted has a record; every record emitted by
the closure is a true changed record -/
def Inv (src tgt : Tree) (base : List Change) (st : PState) : Prop :=
  (∀ c ∈ base ++ st.out, ∀ p, c.tgtParent = some p →
      p ∈ st.precise ∨ p ∈ st.changed ∨ NotChange src tgt p) ∧
  (∀ i ∈ st.changed, ∃ c ∈ base ++ st.out, c.id = i) ∧
  (∀ c ∈ st.out, c.isChanged = true ∧ change src tgt c.id = some c)

theorem preciseLoop_inv (src tgt : Tree) (base : List Change) :
    ∀ (n : Nat) (st : PState) (out : List Change), Inv src tgt base st →
      preciseLoop src tgt n st = some out →
      (∀ c ∈ base ++ out, ∀ p, c.tgtParent = some p →
        (∃ c' ∈ base ++ out, c'.id = p) ∨ NotChange src tgt p) ∧
      (∀ c ∈ out, c.isChanged = true ∧ change src tgt c.id = some c) := by
  intro n
  induction n with
  | zero => intro st out _ h; simp [preciseLoop] at h
  | succ n ih =>
    intro st out hinv h
    unfold preciseLoop at h
    simp only at h
    by_cases hp1 : (st.precise.filter fun i => !st.changed.contains i).isEmpty = true
    · simp only [hp1, if_true, Option.some.injEq] at h
      subst h
      obtain ⟨i1, i2, i3⟩ := hinv
      refine ⟨?_, i3⟩
      intro c hc p hp
      rcases i1 c hc p hp with h | h | h
      · -- pending but already emitted
        by_cases hn : p ∈ st.changed
        · exact Or.inl (i2 p hn)
        · have hm : p ∈ st.precise.filter fun i => !st.changed.contains i := by
            simp [List.mem_filter, h, hn]
          rw [List.isEmpty_iff] at hp1
          rw [hp1] at hm; cases hm
      · exact Or.inl (i2 p h)
      · exact Or.inr h
    · simp only [hp1, Bool.false_eq_true, if_false] at h
      apply ih _ out _ h
      -- the invariant after one round
      obtain ⟨i1, i2, i3⟩ := hinv
      have F := examine_fold src tgt
        (unionNew (st.precise.filter fun i => !st.changed.contains i)
          ((st.precise.filter fun i => !st.changed.contains i).filterMap
            fun i => (pathOf tgt i).bind (idAt src)))
        { st with precise := [] }
      simp only at F
      obtain ⟨fa, _, fc, fd, fe, ff⟩ := F
      refine ⟨?_, ?_, ?_⟩
      · intro c hc p hp
        rw [List.mem_append] at hc
        rcases hc with hc | hc
        · -- base record
          rcases i1 c (List.mem_append.mpr (Or.inl hc)) p hp with h | h | h
          · by_cases hpc : p ∈ st.changed
            · exact Or.inr (Or.inl (fa p hpc))
            · have hm : p ∈ st.precise.filter fun i => !st.changed.contains i := by
                simp [List.mem_filter, h, hpc]
              rcases fd p (mem_unionNew.mpr (Or.inl hm)) with h' | h'
              · exact Or.inr (Or.inr h')
              · exact Or.inr (Or.inl h')
          · exact Or.inr (Or.inl (fa p h))
          · exact Or.inr (Or.inr h)
        · rcases fe c hc with hold | ⟨_, _, _, hnew⟩
          · rcases i1 c (List.mem_append.mpr (Or.inr hold)) p hp with h | h | h
            · by_cases hpc : p ∈ st.changed
              · exact Or.inr (Or.inl (fa p hpc))
              · have hm : p ∈ st.precise.filter fun i => !st.changed.contains i := by
                  simp [List.mem_filter, h, hpc]
                rcases fd p (mem_unionNew.mpr (Or.inl hm)) with h' | h'
                · exact Or.inr (Or.inr h')
                · exact Or.inr (Or.inl h')
            · exact Or.inr (Or.inl (fa p h))
            · exact Or.inr (Or.inr h)
          · exact Or.inl (hnew p hp)
      · intro i hi
        rcases ff i hi with h | ⟨c, hc, hci⟩
        · obtain ⟨c, hc, hci⟩ := i2 i h
          rw [List.mem_append] at hc
          rcases hc with hc | hc
          · exact ⟨c, List.mem_append.mpr (Or.inl hc), hci⟩
          · exact ⟨c, List.mem_append.mpr (Or.inr (fc c hc)), hci⟩
        · exact ⟨c, List.mem_append.mpr (Or.inr hc), hci⟩
      · intro c hc
        rcases fe c hc with hold | ⟨h1, h2, _, _⟩
        · exact i3 c hold
        · exact ⟨h1, h2⟩

end BreezyVerif.C10
