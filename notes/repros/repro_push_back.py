"""C29 finding `v1-bodyless-request-with-buffered-followup-terminates-connection`.

Property C29: "... bytes following the end of a message are preserved for the next message."

SmartServerSocketStreamMedium reads whatever the socket has (up to 64 kB).  If
one read delivers a complete protocol-1 request without a body (e.g. `hello\n`)
together with bytes of the following request, SmartMedium._get_line() pushes the
excess back, the request is dispatched inside _build_protocol(), and
_serve_one_request_unguarded() then calls self._push_back(protocol.unused_data)
with b"".  _push_back() checks `self._push_back_buffer is not None` (-> raise
AssertionError) BEFORE `if data == b"": return`, so the assertion fires, the
medium terminates the connection and the following request is lost.

Run:  /venv/bin/python repro_push_back.py [path-to-breezy-checkout]
exit 1 = defect present, 0 = absent.
"""
import os
import sys
import tempfile

repo = sys.argv[1] if len(sys.argv) > 1 else "/repo"
sys.path.insert(0, repo)
home = tempfile.mkdtemp(prefix="c29pb-", dir="/var/tmp")
os.environ.update(HOME=home, BRZ_HOME=home, BRZ_EMAIL="t <t@example.com>", BRZ_LOG="/dev/null")
import breezy
breezy.initialize()
from breezy.bzr.smart import medium
from dromedary.memory import MemoryTransport


class Scripted(medium.SmartServerSocketStreamMedium):
    """the socket medium with its three socket primitives replaced by a script"""

    def __init__(self, reads):
        medium.SmartServerStreamMedium.__init__(self, MemoryTransport(), "/", timeout=4.0)
        self.reads, self.out, self.terminated = list(reads), [], False

    def _wait_for_bytes_with_timeout(self, timeout_seconds):
        pass

    def _read_bytes(self, desired_count):       # one recv(): whatever has arrived
        return self.reads.pop(0) if self.reads else b""

    def _write_out(self, data):
        self.out.append(data)

    def _disconnect_client(self):
        pass

    def terminate_due_to_error(self):
        self.terminated = True
        self.finished = True


# two protocol-1 `hello` requests arriving in one TCP segment
m = Scripted([b"hello\nhello\n"])
m.serve()
print("responses written: %r; connection terminated by an error: %s" % (m.out, m.terminated))
if m.terminated or len(m.out) != 2:
    print("DEFECT: the second request was not served")
    sys.exit(1)
print("ok")
