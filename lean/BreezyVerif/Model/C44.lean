import BreezyVerif.Common
/-
C44 — fast-export followed by fast-import.

* A tree (id space) is a list of entries `(file id, path, own, dir, val)`:
  `path` is a token of the full path (tokens are ordered like the path strings),
  `own` a token of the entry's own (parent id, name) — what `changes_from` calls
  *renamed* is a change of `own`, not of `path` —, `val` a token of
  kind + content / symlink target + executable bit.
* `exportCmds old new` is `BzrFastExporter._get_filecommands` in plain format as
  the code computes it (`_process_renames_and_deletes`): for the entries whose
  `own` changed, in old-path order: `D new` if the new path is a deleted path
  (which is then no longer deleted later), `R old new`; nothing is emitted for
  directories; then `D` for the remaining deleted non-directories; then `M` for
  added non-directories, for entries whose value changed at an unchanged `own`,
  and for renamed entries whose value changed.  An entry that merely sits below a
  renamed directory gets no command.
* `applyCmds` is the importer (`CommitHandler` modify / delete / rename
  handlers) on path space.
* A history is the list of commits in export order; parents are 1-based
  positions in that list (`0` = ghost or not exported).  `exportAll` produces the
  stream (`from`, `merge`, file commands, metadata per commit), `importAll`
  replays it keeping the mark ↦ revision table.
Core Lean only.
-/
namespace BreezyVerif.C44

abbrev Path := Nat
abbrev Val := Nat

structure Ent where
  fid : Nat
  path : Path
  own : Nat
  dir : Bool
  val : Val
  deriving DecidableEq, Repr

abbrev Tree := List Ent

def find (t : Tree) (f : Nat) : Option Ent := t.find? (·.fid == f)

inductive Cmd where
  | del (p : Path)
  | ren (p q : Path)
  | mod (p : Path) (v : Val)
  deriving DecidableEq, Repr

/-- insertion sort (structural, so that concrete instances evaluate in the kernel) -/
def insertBy {α : Type} (le : α → α → Bool) (x : α) : List α → List α
  | [] => [x]
  | y :: ys => if le x y then x :: y :: ys else y :: insertBy le x ys

def sortBy {α : Type} (le : α → α → Bool) : List α → List α
  | [] => []
  | x :: xs => insertBy le x (sortBy le xs)

/-- the entries `changes_from` reports as renamed: present on both sides with a
different own (parent, name); old entry and new entry, in old-path order -/
def ownRenames (old new : Tree) : List (Ent × Ent) :=
  (old.filterMap fun o =>
    match find new o.fid with
    | some n => if o.own ≠ n.own then some (o, n) else none
    | none => none) |> sortBy fun a b => decide (a.1.path ≤ b.1.path)

/-- the removed entries, in path order -/
def removed (old new : Tree) : List Ent :=
  (old.filter fun o => (find new o.fid).isNone) |> sortBy fun a b => decide (a.path ≤ b.path)

/-- the rename pass: commands so far and the paths still to be deleted -/
def renamePass : List (Ent × Ent) → List Path → List Cmd × List Path
  | [], dels => ([], dels)
  | (o, n) :: rest, dels =>
    let hit := decide (n.path ∈ dels)
    let dels' := if hit then dels.filter (· ≠ n.path) else dels
    let r := renamePass rest dels'
    let here := (if hit && !n.dir then [Cmd.del n.path] else []) ++ (if n.dir then [] else [Cmd.ren o.path n.path])
    (here ++ r.1, r.2)

/-- does the new entry need an `M`: it is added, or its value changed -/
def needsMod (old : Tree) (n : Ent) : Bool :=
  match find old n.fid with
  | none => true
  | some o => decide (o.val ≠ n.val)

def modPairs (old new : Tree) : List (Path × Val) :=
  ((new.filter (!·.dir)).filter (needsMod old)).map fun e => (e.path, e.val)

/-- the `M` commands for added non-directories and for entries whose value changed
(renamed or not); order in the stream: symlinks first, then files as the
repository yields them — compared as a set -/
def mods (old new : Tree) : List Cmd := (modPairs old new).map fun e => Cmd.mod e.1 e.2

def exportCmds (old new : Tree) : List Cmd :=
  let rm := removed old new
  let rp := renamePass (ownRenames old new) (rm.map (·.path))
  rp.1 ++ ((rm.filter fun e => !e.dir && decide (e.path ∈ rp.2)).map fun e => Cmd.del e.path) ++ mods old new

/-! ### the importer on path space -/

abbrev Flat := List (Path × Val)

def lookup (m : Flat) (p : Path) : Option Val := (m.find? (·.1 == p)).map (·.2)

def erase (m : Flat) (p : Path) : Flat := m.filter (·.1 ≠ p)

def applyCmd (m : Flat) : Cmd → Flat
  | .del p => erase m p
  | .ren p q =>
    match lookup m p with
    | none => m                      -- "ignoring rename … old path does not exist"
    | some v => (q, v) :: erase (erase m q) p
  | .mod p v => (p, v) :: erase m p

def applyCmds (m : Flat) (cs : List Cmd) : Flat := cs.foldl applyCmd m

/-- the files and symlinks of a tree -/
def flat (t : Tree) : Flat := (t.filter (!·.dir)).map fun e => (e.path, e.val)

/-! ### histories -/

structure Commit where
  /-- 1-based positions in the export order; 0 = ghost / not exported -/
  parents : List Nat
  tree : Tree
  /-- message, committer, timestamp, timezone -/
  info : Nat
  deriving Repr

/-- one `commit` command of the stream -/
structure XCommit where
  from_ : Option Nat
  merges : List Nat
  cmds : List Cmd
  info : Nat
  deriving Repr

def treeAt (h : List Commit) (i : Nat) : Tree :=
  if i = 0 then [] else match h[i - 1]? with
    | some c => c.tree
    | none => []

/-- `_get_commit_command` + `_get_filecommands`: marks of the non-ghost parents,
file commands against the first parent's tree -/
def exportOne (h : List Commit) (c : Commit) : XCommit :=
  let ng := c.parents.filter (· ≠ 0)
  { from_ := ng.head?, merges := ng.tail,
    cmds := exportCmds (treeAt h (c.parents.head?.getD 0)) c.tree, info := c.info }

def exportAll (h : List Commit) : List XCommit := h.map (exportOne h)

/-- an imported revision: parents as positions of imported revisions -/
structure Rev where
  parents : List Nat
  files : Flat
  info : Nat
  deriving Repr

inductive Err where
  /-- a `from` / `merge` mark that no earlier commit defined -/
  | unknownMark
  deriving DecidableEq, Repr

/-- the marks a commit refers to: `from` first, then the `merge` lines -/
def marksOf (x : XCommit) : List Nat := (match x.from_ with | some f => [f] | none => []) ++ x.merges

/-- the files the commit starts from: those of its `from` revision -/
def baseOf (done : List Rev) (x : XCommit) : Flat :=
  match x.from_ with
  | some f => (match done[f - 1]? with | some r => r.files | none => [])
  | none => []

def badMark (done : List Rev) (m : Nat) : Bool := m == 0 || decide (done.length < m)

/-- `CommitHandler`: look the marks up, start from the first parent's tree, apply the file commands -/
def importStep (done : List Rev) (x : XCommit) : Except Err (List Rev) :=
  if (marksOf x).any (badMark done) then .error .unknownMark
  else .ok (done ++ [{ parents := marksOf x, files := applyCmds (baseOf done x) x.cmds, info := x.info }])

def importAll (xs : List XCommit) : Except Err (List Rev) := xs.foldlM importStep []

end BreezyVerif.C44
