/-
Line-protocol helpers shared by every driver module.  Core Lean only.

Encodings (DESIGN §2.6): fields are separated by one space; byte strings travel
as lowercase hex (`-` for the empty string); `~` is Python `None`; lists are
comma-separated inside one field (`-` for the empty list) unless a driver says
otherwise.
-/
namespace BreezyVerif

abbrev Bytes := List UInt8

def hexDigit (n : Nat) : Char :=
  if n < 10 then Char.ofNat (48 + n) else Char.ofNat (87 + n)

def hexVal (c : Char) : Option Nat :=
  if '0' ≤ c ∧ c ≤ '9' then some (c.toNat - 48)
  else if 'a' ≤ c ∧ c ≤ 'f' then some (c.toNat - 87)
  else none

def toHex (b : Bytes) : String :=
  if b.isEmpty then "-" else
  String.ofList (b.flatMap fun x => [hexDigit (x.toNat / 16), hexDigit (x.toNat % 16)])

def fromHexChars : List Char → Option Bytes
  | [] => some []
  | [_] => none
  | a :: b :: rest => do
      let x ← hexVal a
      let y ← hexVal b
      let r ← fromHexChars rest
      pure (UInt8.ofNat (x * 16 + y) :: r)

def fromHex (s : String) : Option Bytes :=
  if s == "-" then some [] else fromHexChars s.toList

/-- split a field on `,`; `-` is the empty list -/
def splitList (s : String) : List String :=
  if s == "-" then [] else s.splitOn ","

def joinList (l : List String) : String :=
  if l.isEmpty then "-" else ",".intercalate l

def parseNatList (s : String) : Option (List Nat) :=
  (splitList s).mapM String.toNat?

def parseIntList (s : String) : Option (List Int) :=
  (splitList s).mapM String.toInt?

def optNat (s : String) : Option (Option Nat) :=
  if s == "~" then some none else s.toNat?.map some

def showOptNat : Option Nat → String
  | none => "~"
  | some n => toString n

def showBool (b : Bool) : String := if b then "T" else "F"

def parseBool (s : String) : Option Bool :=
  if s == "T" then some true else if s == "F" then some false else none

end BreezyVerif

namespace BreezyVerif

partial def driverLoop (handle : List String → String) (h out : IO.FS.Stream) : IO Unit := do
  let line ← h.getLine
  if line.isEmpty then return ()
  let l := (line.dropEndWhile (fun c => c == '\n' || c == '\r')).toString
  out.putStrLn (handle (l.splitOn " "))
  driverLoop handle h out

/-- one request per line, one reply per line; fields separated by one space -/
def runDriver (handle : List String → String) : IO Unit := do
  let out ← IO.getStdout
  driverLoop handle (← IO.getStdin) out
  out.flush

end BreezyVerif
