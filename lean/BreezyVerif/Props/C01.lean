import BreezyVerif.Lemmas.C01
import BreezyVerif.Lemmas.C01Path
import BreezyVerif.Lemmas.C01Closure
import BreezyVerif.Lemmas.C01Pipe
/-!
C01 — a commit records exactly the selected working-tree state.

Theorems about `Model/C01.lean` (all trees, all selections, all exclusion
lists, all id lists — no bound on sizes):

* inventory trees: `commitTree_get`, `commit_selected`, `commit_unselected`,
  `commit_wf`, `commit_paths_selected`, `commit_paths_prefix` (the same in terms
  of the path prefix relation, for well-formed trees), `commit_all`,
  `commit_only_changed`, `commit_ids_justified` (what else the delta-consistency
  closure may record), `commit_excluded_untouched`, `status_after_commit`,
  `commit_merge_refused`, `commit_merge_all`, `closure_insufficient_witness`,
  `closure_diverges_witness`, `commit_never_fuel`, `commit_full_total`,
  `selected_path_carried_witness`;
* git trees: `git_written`, `git_untouched`, `git_deleted`, `git_selected`,
  `git_unselected`;
* pipeline over a write group with a fault at any point: `commit_abort_noop_partial`,
  `publish_ordered`, `commit_no_fault`, and the witnesses of the part of the
  statement the code does not satisfy (`late_fault_leaves_revision_witness`,
  `late_fault_moves_tip_witness`, `late_fault_master_ahead_witness`).
-/
namespace BreezyVerif.C01
open BreezyVerif.C10

/-! ### inventory trees -/

/-- the committed inventory, extensionally: ids of the change stream carry the
effective working entry (absent when unversioned or missing), all other ids
keep their basis entry -/
theorem commitTree_get (basis eff : Tree) (S : List Id) (i : Id) :
    get (commitTree basis eff S) i = if i ∈ S then get eff i else get basis i :=
  get_commitTree eff S basis i

theorem commitFrom_ok {v : Validation} {basis : Tree} {w : WT} {S : List Id} {r : Result}
    (h : commitFrom v basis w S = .ok r) :
    valid v (commitTree basis (effective w) S) S = true ∧
    deltaConsistent (commitTree basis (effective w) S) w S = true ∧ r.ids = S ∧
    r.tree = commitTree basis (effective w) S ∧
    r.wt.inv = (w.inv.filter fun x => !(w.missing.contains x.1 && S.contains x.1)) ∧
    r.wt.missing = (w.missing.filter fun i => !S.contains i) := by
  unfold commitFrom at h
  simp only at h
  split at h
  · rename_i hw
    injection h with h
    subst h
    rw [Bool.and_eq_true] at hw
    exact ⟨hw.1, hw.2, rfl, rfl, rfl, rfl⟩
  · split at h <;> cases h

/-- **selected**: every id that reached `record_iter_changes` has its working
entry in the new revision -/
theorem commit_selected {v : Validation} {basis : Tree} {w : WT} {S : List Id} {r : Result}
    (h : commitFrom v basis w S = .ok r) {i : Id} (hi : i ∈ S) :
    get r.tree i = get (effective w) i := by
  obtain ⟨_, _, _, ht, _, _⟩ := commitFrom_ok h
  rw [ht, commitTree_get]; simp [hi]

/-- **nothing else**: every other id keeps its basis entry -/
theorem commit_unselected {v : Validation} {basis : Tree} {w : WT} {S : List Id} {r : Result}
    (h : commitFrom v basis w S = .ok r) {i : Id} (hi : i ∉ S) :
    get r.tree i = get basis i := by
  obtain ⟨_, _, _, ht, _, _⟩ := commitFrom_ok h
  rw [ht, commitTree_get]; simp [hi]

/-- a commit that succeeds recorded a well-formed inventory (the validation of
`add_inventory_by_delta`), for exactly the ids of the change stream -/
theorem commit_wf {basis : Tree} {w : WT} {S : List Id} {r : Result}
    (h : commitFrom .strict basis w S = .ok r) : wf r.tree = true ∧ r.ids = S := by
  obtain ⟨hw, _, hi, ht, _, _⟩ := commitFrom_ok h
  exact ⟨ht ▸ hw, hi⟩

/-- with the validation as found (`lax`) only the weaker `wfLax` is guaranteed
— *partial*: see `excluded_child_corrupt_witness` for an accepted ill-formed
result -/
theorem commit_wf_lax_partial {basis : Tree} {w : WT} {S : List Id} {r : Result}
    (h : commitFrom .lax basis w S = .ok r) : wfLax r.tree S = true ∧ r.ids = S := by
  obtain ⟨hw, _, hi, ht, _, _⟩ := commitFrom_ok h
  exact ⟨ht ▸ hw, hi⟩

/-- every recorded entry sits at its working-tree path in the new revision
(renames of unrecorded ancestors cannot silently relocate it) -/
theorem commit_paths_agree {v : Validation} {basis : Tree} {w : WT} {S : List Id} {r : Result}
    (h : commitFrom v basis w S = .ok r) {i : Id} (hi : i ∈ S) (he : (get (effective w) i).isSome = true) :
    pathOf r.tree i = pathOf w.inv i := by
  obtain ⟨_, hd, _, ht, _, _⟩ := commitFrom_ok h
  unfold deltaConsistent at hd
  rw [List.all_eq_true] at hd
  have := hd i hi
  rw [ht]
  cases hg : get (effective w) i with
  | none => simp [hg] at he
  | some e => simpa [hg] using this

theorem commitModel_ok {v : Validation} {basis : Tree} {w : WT} {sel : Option (List Path)} {excl : List Path}
    {r : Result} (h : commitModel v basis w sel excl = .ok r) :
    ∃ cs, reportedChanges basis w (sel.map minSel) = .ok cs ∧ commitFrom v basis w (commitIds excl cs) = .ok r := by
  unfold commitModel at h
  split at h
  · cases h
  · cases h
  · rename_i cs hcs; exact ⟨cs, hcs, h⟩

/-- **selected paths**: every id at or below a selected path (in the basis or in
the working tree) whose paths are not excluded has its working entry in the
new revision.  `hm`: a missing entry differs from its basis entry (it shows
kind `None` to the comparison). -/
theorem commit_paths_selected (v : Validation) (basis : Tree) (w : WT) (sel : Option (List Path)) (excl : List Path)
    (r : Result) (h : commitModel v basis w sel excl = .ok r)
    (hm : ∀ i ∈ w.missing, get basis i ≠ get w.inv i)
    (i : Id) (hs : pathSelected basis w (sel.map minSel) i)
    (h1 : insideOpt excl (pathOf basis i) = false) (h2 : insideOpt excl (pathOf w.inv i) = false) :
    get r.tree i = get (effective w) i := by
  obtain ⟨cs, hcs, hf⟩ := commitModel_ok h
  by_cases hin : i ∈ commitIds excl cs
  · exact commit_selected hf hin
  · rw [commit_unselected hf hin, get_effective]
    cases hc : change basis w.inv i with
    | none =>
      obtain ⟨hb, hw⟩ := change_none_iff.mp hc
      rw [hb, hw]; simp
    | some c =>
      by_cases hch : c.isChanged = true
      · exfalso
        apply hin
        rw [mem_commitIds]
        exact ⟨c, reported_complete hcs hs hc hch, keep_of_paths hc h1 h2, change_id hc⟩
      · have hch' : c.isChanged = false := by simpa using hch
        have heq := unchanged_noop' hc hch'
        by_cases hmi : i ∈ w.missing
        · exact absurd heq (hm i hmi)
        · simp [hmi, heq]

theorem insideOpt_nil (p : Option Path) : insideOpt [] p = false := by
  cases p <;> simp [insideOpt, insideAny]

/-- **full commit**: without selection and exclusion the new revision is the
working tree (minus missing entries) -/
theorem commit_all (v : Validation) (basis : Tree) (w : WT) (r : Result) (h : commitModel v basis w none [] = .ok r)
    (hm : ∀ i ∈ w.missing, get basis i ≠ get w.inv i) (i : Id) :
    get r.tree i = get (effective w) i :=
  commit_paths_selected v basis w none [] r h hm i trivial (insideOpt_nil _) (insideOpt_nil _)

/-- **nothing else, part 2**: an id is recorded only if it really differs
between basis and working tree and none of its paths is excluded -/
theorem commit_only_changed (v : Validation) (basis : Tree) (w : WT) (sel : Option (List Path)) (excl : List Path)
    (r : Result) (h : commitModel v basis w sel excl = .ok r) (i : Id) (hi : i ∈ r.ids) :
    ∃ c, change basis w.inv i = some c ∧ c.isChanged = true ∧ keepChange excl c = true := by
  obtain ⟨cs, hcs, hf⟩ := commitModel_ok h
  rw [(commitFrom_ok hf).2.2.1, mem_commitIds] at hi
  obtain ⟨c, hc, hk, hid⟩ := hi
  obtain ⟨ht, hch⟩ := reported_true hcs c hc
  exact ⟨c, hid ▸ ht, hch, hk⟩

/-- **exclusion**: an id whose basis path or working path lies at or below an
excluded path keeps its basis entry -/
theorem commit_excluded_untouched (v : Validation) (basis : Tree) (w : WT) (sel : Option (List Path)) (excl : List Path)
    (r : Result) (h : commitModel v basis w sel excl = .ok r) (i : Id)
    (hx : ((get basis i).isSome = true ∧ insideOpt excl (pathOf basis i) = true) ∨
          ((get w.inv i).isSome = true ∧ insideOpt excl (pathOf w.inv i) = true)) :
    get r.tree i = get basis i := by
  obtain ⟨cs, hcs, hf⟩ := commitModel_ok h
  apply commit_unselected hf
  intro hin
  rw [mem_commitIds] at hin
  obtain ⟨c, hc, hk, hid⟩ := hin
  obtain ⟨ht, _⟩ := reported_true hcs c hc
  rw [hid] at ht
  obtain ⟨hs, htg⟩ := change_srcPath ht
  unfold keepChange at hk
  rw [hs, htg] at hk
  rcases hx with ⟨ha, hb⟩ | ⟨ha, hb⟩
  · simp [ha, hb] at hk
  · simp [ha, hb] at hk

/-- **status afterwards**: a recorded id is identical in the new basis and the
working tree (any record of it is unchanged, it is no longer missing); an
unrecorded id keeps both its basis entry and its working entry, so its pending
change is still there -/
theorem status_after_commit (v : Validation) (basis : Tree) (w : WT) (S : List Id) (r : Result)
    (h : commitFrom v basis w S = .ok r) (i : Id) :
    (i ∈ S → get r.tree i = get r.wt.inv i ∧ i ∉ r.wt.missing ∧
        ∀ c, change r.tree r.wt.inv i = some c → c.isChanged = false) ∧
    (i ∉ S → get r.tree i = get basis i ∧ get r.wt.inv i = get w.inv i ∧
        (i ∈ r.wt.missing ↔ i ∈ w.missing)) := by
  obtain ⟨_, _, _, ht, hinv, hmis⟩ := commitFrom_ok h
  have hget : get r.wt.inv i = if (!(w.missing.contains i && S.contains i)) = true then get w.inv i else none := by
    rw [hinv]; exact get_filter_key w.inv (fun k => !(w.missing.contains k && S.contains k)) i
  constructor
  · intro hi
    have h1 : get r.tree i = get r.wt.inv i := by
      rw [ht, commitTree_get, hget, get_effective]
      by_cases hm : i ∈ w.missing <;> simp [hi, hm]
    refine ⟨h1, ?_, fun c hc => unchanged_of_get_eq h1 hc⟩
    rw [hmis]; simp [hi]
  · intro hi
    refine ⟨?_, ?_, ?_⟩
    · rw [ht, commitTree_get]; simp [hi]
    · rw [hget]; simp [hi]
    · rw [hmis]; simp [hi]

/-- **Witness (usability, not a violation of C01)**: the closure of
`_handle_precise_ids` does not always give a consistent delta — on the
well-formed pair of `C10.displaced_entry_witness` the partial commit of `x` is
refused with `InconsistentDelta` (the commit raises and nothing changes). -/
theorem closure_insufficient_witness :
    wf C10.dSrc = true ∧ wf C10.dTgt = true ∧
    (match commitModel .strict C10.dSrc ⟨C10.dTgt, []⟩ (some [["x"]]) [] with
     | .error e => some e
     | .ok _ => none) = some CErr.inconsistentDelta := by decide +kernel

def cBasis : Tree :=
  [("r", ⟨none, "", .dir⟩), ("d", ⟨some "r", "d", .dir⟩), ("s", ⟨some "d", "sub", .dir⟩),
   ("f", ⟨some "s", "f", .file "1" false⟩)]

/-- `d/sub` replaced by a file, `d/sub/f` unversioned -/
def cWt : WT :=
  ⟨[("r", ⟨none, "", .dir⟩), ("d", ⟨some "r", "d", .dir⟩), ("s", ⟨some "d", "sub", .file "2" false⟩)], []⟩

/-- **Witness (property violated by the code as found)**: `commit(exclude=["d/sub/f"])`
after replacing the directory `d/sub` by a file and removing `d/sub/f`:
`filter_excluded` drops the removal of `f`, the validation does not notice that
`f` is left below a file, and the commit *succeeds* with an ill-formed
inventory (the real revision cannot be read back).  With the strict validation
the same commit is refused. -/
theorem excluded_child_corrupt_witness :
    wf cBasis = true ∧ wf cWt.inv = true ∧
    (match commitModel .lax cBasis cWt none [["d", "sub", "f"]] with
     | .ok r => some (r.ids, wf r.tree, (get r.tree "s").map (·.node.kind), (get r.tree "f").map (·.parent))
     | .error _ => none) = some (["s"], false, some Kind.file, some (some "s")) ∧
    (match commitModel .strict cBasis cWt none [["d", "sub", "f"]] with
     | .ok _ => none
     | .error e => some e) = some CErr.inconsistentDelta := by decide +kernel

/-! non-vacuity: a rename from an unselected into a selected directory, a
pending edit left behind, a missing entry -/

def exBasis : Tree :=
  [("r", ⟨none, "", .dir⟩), ("A", ⟨some "r", "a", .dir⟩), ("B", ⟨some "r", "b", .dir⟩),
   ("f", ⟨some "A", "f", .file "1" false⟩), ("g", ⟨some "A", "g", .file "1" false⟩),
   ("m", ⟨some "B", "m", .file "1" false⟩)]

def exWt : WT :=
  ⟨[("r", ⟨none, "", .dir⟩), ("A", ⟨some "r", "a", .dir⟩), ("B", ⟨some "r", "b", .dir⟩),
    ("f", ⟨some "B", "f", .file "2" true⟩), ("g", ⟨some "A", "g", .file "2" false⟩),
    ("m", ⟨some "B", "m", .symlink "?"⟩)], ["m"]⟩

example :
    (match commitModel .strict exBasis exWt (some [["b"]]) [] with
     | .ok r => some (r.ids, get r.tree "f", get r.tree "g", get r.tree "m", r.wt.missing)
     | .error _ => none)
      = some (["f", "m"], some ⟨some "B", "f", .file "2" true⟩, some ⟨some "A", "g", .file "1" false⟩, none, []) := by
  decide +kernel

example : (∀ i ∈ exWt.missing, get exBasis i ≠ get exWt.inv i) ∧
    "f" ∈ selectIds exBasis exWt.inv (minSel [["b"]]) ∧
    insideOpt [] (pathOf exBasis "f") = false := by decide +kernel

example : insideOpt [["a"]] (pathOf exBasis "g") = true ∧
    (match commitModel .strict exBasis exWt none [["a"]] with
     | .ok r => some r.ids
     | .error _ => none) = some ["m"] := by decide +kernel

/-- **selected paths, in terms of paths**: for well-formed trees, every id whose
basis path or working path is at or below one of the paths passed as
`specific_files` (prefix relation on path components) and whose paths are not
excluded has its working entry in the new revision.  This does not mention the
model's own `selectIds`; `minimum_path_selection` is accounted for. -/
theorem commit_paths_prefix (v : Validation) (basis : Tree) (w : WT) (f : List Path) (excl : List Path)
    (r : Result) (h : commitModel v basis w (some f) excl = .ok r)
    (hb : wf basis = true) (hw : wf w.inv = true)
    (hm : ∀ i ∈ w.missing, get basis i ≠ get w.inv i)
    (i : Id) (p q : Path) (hp : p ∈ f) (hq : pathOf basis i = some q ∨ pathOf w.inv i = some q) (hpre : p <+: q)
    (h1 : insideOpt excl (pathOf basis i) = false) (h2 : insideOpt excl (pathOf w.inv i) = false) :
    get r.tree i = get (effective w) i := by
  obtain ⟨p', hp', hpre'⟩ := minSel_prefix f p.length p (Nat.le_refl _) hp
  apply commit_paths_selected v basis w (some f) excl r h hm i _ h1 h2
  show i ∈ selectIds basis w.inv (minSel f)
  rcases hq with hq | hq
  · exact selectIds_of_prefix_src hb hp' hq (hpre'.trans hpre)
  · exact selectIds_of_prefix_tgt hw hp' hq (hpre'.trans hpre)

/-- **nothing else, part 3**: besides the ids at or below the selected paths, a
partial commit records only ids *pulled in* by the delta-consistency closure:
working-tree ancestors of recorded entries, basis entries displaced from the
working path of such an ancestor, and basis children of an entry that stopped
being a directory (`Pulled`) — and of those only the really changed, non-excluded
ones (`commit_only_changed`). -/
theorem commit_ids_justified (v : Validation) (basis : Tree) (w : WT) (f : List Path) (excl : List Path)
    (r : Result) (h : commitModel v basis w (some f) excl = .ok r) (i : Id) (hi : i ∈ r.ids) :
    i ∈ selectIds basis w.inv (minSel f) ∨ Pulled basis w.inv (selectIds basis w.inv (minSel f)) i := by
  obtain ⟨cs, hcs, hf⟩ := commitModel_ok h
  rw [(commitFrom_ok hf).2.2.1, mem_commitIds] at hi
  obtain ⟨c, hc, _, hid⟩ := hi
  have := filtered_ids_justified true .generic basis w.inv (minSel f) true cs hcs c hc
  rwa [hid] at this

/-- pending merges: a selection or an exclusion is refused -/
theorem commit_merge_refused (v : Validation) (basis : Tree) (w : WT) (sel : Option (List Path)) (excl : List Path)
    (h : sel ≠ none ∨ excl ≠ []) : commitModelM true v basis w sel excl = .error .selectedFileMerge := by
  unfold commitModelM
  rcases h with h | h
  · cases sel with
    | none => exact absurd rfl h
    | some f => simp
  · cases excl with
    | nil => exact absurd rfl h
    | cons a b => simp

/-- pending merges: a commit that succeeds is a full commit and records the whole
working tree -/
theorem commit_merge_all (v : Validation) (basis : Tree) (w : WT) (sel : Option (List Path)) (excl : List Path)
    (r : Result) (h : commitModelM true v basis w sel excl = .ok r)
    (hm : ∀ i ∈ w.missing, get basis i ≠ get w.inv i) (i : Id) :
    sel = none ∧ excl = [] ∧ get r.tree i = get (effective w) i := by
  unfold commitModelM at h
  cases sel with
  | some f => simp at h
  | none =>
    cases excl with
    | cons a b => simp at h
    | nil =>
      simp at h
      exact ⟨rfl, rfl, commit_all v basis w r h hm i⟩

example : (match commitModelM true .strict exBasis exWt (some [["b"]]) [] with
     | .ok _ => none
     | .error e => some e) = some CErr.selectedFileMerge ∧
    (match commitModelM true .strict exBasis exWt none [] with
     | .ok r => some r.ids
     | .error _ => none) = some ["f", "g", "m"] := by decide +kernel

/-- a full commit (no selection) does not depend on the closure at all -/
theorem commit_full_total (v : Validation) (basis : Tree) (w : WT) (excl : List Path) :
    commitModel v basis w none excl = commitFrom v basis w (commitIds excl (changesOf basis w.inv)) := by
  simp [commitModel, reportedChanges, iterChangesG]

/-- **the model always has a prediction**: the delta-consistency closure (as
repaired by /repo e6ca8fc) terminates on every pair of trees — well-formed or
not —, every selection and every exclusion list, so `fuel` is never answered -/
theorem commit_never_fuel (v : Validation) (basis : Tree) (w : WT) (sel : Option (List Path)) (excl : List Path) :
    commitModel v basis w sel excl ≠ .error .fuel := by
  have hf := fixed_loop_terminates .generic basis w.inv (sel.map minSel) false true
  unfold commitModel reportedChanges
  intro h
  split at h
  · cases h
  · rename_i heq; rw [heq] at hf; simp [isFuel] at hf
  · unfold commitFrom at h
    simp only at h
    split at h
    · cases h
    · split at h <;> cases h

/-- **Witness (termination of `_handle_precise_ids` as found, repaired by /repo
e6ca8fc)**: on a well-formed pair of trees the delta-consistency closure of the
unrepaired loop never terminates, whatever the fuel (the real generator yielded
the same record for ever, `brz status -r1..2 a/f/g` never returned): `a` renamed
to `z`, `d` renamed to `a`, and the file `a/f` moved into the unchanged
directory `d/f`, which now sits at `a/f` — the loop keeps finding the moved file
at the directory's new path and the directory as the moved file's new parent.
The repaired loop terminates and gives a consistent partial commit. -/
theorem closure_diverges_witness :
    wf loopSrc = true ∧ wf loopTgt = true ∧
    (∀ n, preciseLoop loopSrc loopTgt n loopStart = none) ∧
    isFuel (iterChanges .generic loopSrc loopTgt (some [["a", "f", "g"]]) false true) = true ∧
    (match commitModel .strict loopSrc ⟨loopTgt, []⟩ (some [["a", "f", "g"]]) [] with
     | .error _ => none
     | .ok r => some (r.ids, wf r.tree)) = some (["G", "D", "A"], true) :=
  ⟨by decide +kernel, by decide +kernel, preciseLoop_diverges, by decide +kernel, by decide +kernel⟩

def kBasis : Tree :=
  [("r", ⟨none, "", .dir⟩), ("c", ⟨some "r", "c", .dir⟩), ("a", ⟨some "c", "a", .dir⟩), ("b", ⟨some "a", "b", .file "1" false⟩)]
def kWt : WT :=
  ⟨[("r", ⟨none, "", .dir⟩), ("c", ⟨some "r", "c", .dir⟩), ("a", ⟨some "c", "b", .dir⟩), ("b", ⟨some "a", "b", .file "1" false⟩)], []⟩

/-- **Witness (the "path" part of the statement is not met for carried entries)**:
`c/a` renamed to `c/b`, its child `c/a/b` untouched; `commit(specific_files=["c/b/b"])`
records nothing — the selected entry is unchanged in id space and its moved
parent is neither selected nor needed by a recorded entry — so the selected
working path `c/b/b` does not exist in the new revision (the entry stays at
`c/a/b`).  `commit_paths_agree` covers recorded entries only. -/
theorem selected_path_carried_witness :
    wf kBasis = true ∧ wf kWt.inv = true ∧
    "b" ∈ selectIds kBasis kWt.inv (minSel [["c", "b", "b"]]) ∧
    pathOf kWt.inv "b" = some ["c", "b", "b"] ∧
    (match commitModel .strict kBasis kWt (some [["c", "b", "b"]]) [] with
     | .ok r => some (r.ids, pathOf r.tree "b")
     | .error _ => none) = some ([], some ["c", "a", "b"]) := by decide +kernel

/-! non-vacuity of `commit_paths_prefix` and `commit_ids_justified`: a new file in
a new directory, only the file selected — the directory is pulled in -/

def jBasis : Tree := [("r", ⟨none, "", .dir⟩)]
def jWt : WT := ⟨[("r", ⟨none, "", .dir⟩), ("D", ⟨some "r", "d", .dir⟩), ("f", ⟨some "D", "f", .file "1" false⟩)], []⟩

example : wf jBasis = true ∧ wf jWt.inv = true ∧ pathOf jWt.inv "f" = some ["d", "f"] ∧
    (match commitModel .strict jBasis jWt (some [["d", "f"]]) [] with
     | .ok r => some r.ids
     | .error _ => none) = some ["f", "D"] ∧
    "D" ∉ selectIds jBasis jWt.inv (minSel [["d", "f"]]) := by decide +kernel

example : Pulled jBasis jWt.inv (selectIds jBasis jWt.inv (minSel [["d", "f"]])) "D" :=
  Pulled.seed (x := "f") (r := ⟨"f", none, some ["d", "f"], true, none, some ⟨some "D", "f", .file, false⟩⟩)
    (by decide +kernel) (by decide +kernel) (by decide +kernel) (by decide +kernel)

/-! ### git trees -/

/-- a path the kept changes write carries the working content -/
theorem git_written (basis wt : GTree) (cs : List GChange) (sel : Option (List Path)) (excl : List Path)
    (p : Path) (hp : p ∈ gWritten wt (cs.filter (gKeep sel excl))) :
    glookup (gitCommitTree basis wt cs sel excl) p = glookup wt p := by
  unfold gitCommitTree
  simp only
  rw [glookup_append, glookup_written]
  simp only [hp, if_true]
  have : (glookup wt p).isSome = true := by
    unfold gWritten at hp
    rw [List.mem_filterMap] at hp
    obtain ⟨c, _, hc⟩ := hp
    cases hn : c.new with
    | none => simp [hn] at hc
    | some q =>
      simp only [hn, Option.bind_some] at hc
      split at hc
      · rename_i hq; simp at hc; subst hc; exact hq
      · cases hc
  cases hg : glookup wt p with
  | none => simp [hg] at this
  | some n => simp

/-- a path no kept change writes or deletes keeps its basis content -/
theorem git_untouched (basis wt : GTree) (cs : List GChange) (sel : Option (List Path)) (excl : List Path)
    (p : Path) (h1 : p ∉ gWritten wt (cs.filter (gKeep sel excl)))
    (h2 : p ∉ gDeleted (cs.filter (gKeep sel excl))) :
    glookup (gitCommitTree basis wt cs sel excl) p = glookup basis p := by
  unfold gitCommitTree
  simp only
  rw [glookup_append, glookup_written]
  simp only [h1, if_false, Option.orElse_none]
  rw [glookup_filter_key basis (fun q => !(gWritten wt (cs.filter (gKeep sel excl))).contains q &&
      !(gDeleted (cs.filter (gKeep sel excl))).contains q) p]
  simp [h1, h2]

/-- the old path of a kept change disappears unless a kept change writes it -/
theorem git_deleted (basis wt : GTree) (cs : List GChange) (sel : Option (List Path)) (excl : List Path)
    (p : Path) (h1 : p ∉ gWritten wt (cs.filter (gKeep sel excl)))
    (h2 : p ∈ gDeleted (cs.filter (gKeep sel excl))) :
    glookup (gitCommitTree basis wt cs sel excl) p = none := by
  unfold gitCommitTree
  simp only
  rw [glookup_append, glookup_written]
  simp only [h1, if_false, Option.orElse_none]
  rw [glookup_filter_key basis (fun q => !(gWritten wt (cs.filter (gKeep sel excl))).contains q &&
      !(gDeleted (cs.filter (gKeep sel excl))).contains q) p]
  simp [h2]

example :
    gitCommitTree [(["a"], .file "1" false), (["d", "x"], .file "1" false)]
      [(["b"], .file "1" false), (["d", "x"], .file "2" false)]
      [⟨some ["a"], some ["b"]⟩, ⟨some ["d", "x"], some ["d", "x"]⟩] (some [["b"]]) []
      = [(["b"], .file "1" false), (["d", "x"], .file "1" false)] := by decide +kernel

/-- **selected paths (git)**: a path of the working tree at or below a selected
path and not excluded carries the working content in the new revision, provided
the reported change list is complete (`gCovers`) and coherent (`gCoherent`) and
no record moves an excluded path onto it (such a record is dropped as a whole
by `filter_excluded`) -/
theorem git_selected (basis wt : GTree) (cs : List GChange) (sel : Option (List Path)) (excl : List Path)
    (p : Path) (n : Node) (hwt : glookup wt p = some n)
    (hcov : gCovers basis wt cs = true) (hcoh : gCoherent wt cs = true)
    (hsel : ∀ f, sel = some f → insideAny f p = true) (hex : insideAny excl p = false)
    (hold : ∀ c ∈ cs, c.new = some p → insideOpt excl c.old = false) :
    glookup (gitCommitTree basis wt cs sel excl) p = some n := by
  have hsome : (glookup wt p).isSome = true := by simp [hwt]
  have hkeep : ∀ c ∈ cs, c.new = some p → gKeep sel excl c = true := by
    intro c hc hn
    unfold gKeep
    have h1 : insideOpt excl c.new = false := by rw [hn]; exact hex
    rw [hold c hc hn, h1]
    cases sel with
    | none => simp
    | some f =>
      have := hsel f rfl
      simp only [insideAny, List.any_eq_true] at this
      obtain ⟨g, hg, hgp⟩ := this
      have : relatedOpt f c.new = true := by
        rw [hn]
        simp only [relatedOpt, insideOrParentOfAny, List.any_eq_true]
        exact ⟨g, hg, by simp [hgp]⟩
      simp [this]
  by_cases hw : p ∈ gWritten wt (cs.filter (gKeep sel excl))
  · rw [git_written basis wt cs sel excl p hw, hwt]
  · -- not written: no record names `p` as its new path, so the content is unchanged
    have hno : ∀ c ∈ cs, c.new ≠ some p := by
      intro c hc hn
      exact hw (mem_gWritten (List.mem_filter.mpr ⟨hc, hkeep c hc hn⟩) hn hsome)
    have hsame : glookup basis p = glookup wt p := by
      obtain ⟨x, hx, hxp⟩ := glookup_mem hwt
      unfold gCovers at hcov
      rw [List.all_eq_true] at hcov
      have := hcov x hx
      rw [hxp] at this
      simp only [Bool.or_eq_true, beq_iff_eq, List.any_eq_true] at this
      rcases this with h | ⟨c, hc, hn⟩
      · exact h
      · exact absurd hn (hno c hc)
    have hnd : p ∉ gDeleted (cs.filter (gKeep sel excl)) := by
      intro hd
      unfold gDeleted at hd
      rw [List.mem_filterMap] at hd
      obtain ⟨c, hc, ho⟩ := hd
      have hc' := (List.mem_filter.mp hc).1
      unfold gCoherent at hcoh
      rw [List.all_eq_true] at hcoh
      have := hcoh c hc'
      rw [ho] at this
      simp only [Bool.or_eq_true, beq_iff_eq, Option.isNone_iff_eq_none] at this
      rcases this with h | h
      · exact hno c hc' h
      · rw [hwt] at h; cases h
    rw [git_untouched basis wt cs sel excl p hw hnd, hsame, hwt]

/-- **nothing else (git)**: a path no kept record names keeps its basis content -/
theorem git_unselected (basis wt : GTree) (cs : List GChange) (sel : Option (List Path)) (excl : List Path)
    (p : Path) (h : ∀ c ∈ cs, c.old = some p ∨ c.new = some p → gKeep sel excl c = false) :
    glookup (gitCommitTree basis wt cs sel excl) p = glookup basis p := by
  apply git_untouched
  · intro hw
    obtain ⟨⟨c, hc, hn⟩, _⟩ := mem_gWritten_iff.mp hw
    have := List.mem_filter.mp hc
    rw [h c this.1 (Or.inr hn)] at this
    exact absurd this.2 (by simp)
  · intro hd
    unfold gDeleted at hd
    rw [List.mem_filterMap] at hd
    obtain ⟨c, hc, ho⟩ := hd
    have := List.mem_filter.mp hc
    rw [h c this.1 (Or.inl ho)] at this
    exact absurd this.2 (by simp)

/-! non-vacuity: `a` renamed to `b` (selected), `d/x` modified (selected through
its directory), `e` modified (not selected) -/

def gB : GTree := [(["a"], .file "1" false), (["d", "x"], .file "1" false), (["e"], .file "1" false)]
def gW : GTree := [(["b"], .file "1" false), (["d", "x"], .file "2" true), (["e"], .file "2" false)]
def gC : List GChange := [⟨some ["a"], some ["b"]⟩, ⟨some ["d", "x"], some ["d", "x"]⟩, ⟨some ["e"], some ["e"]⟩]

example : gCovers gB gW gC = true ∧ gCoherent gW gC = true ∧ insideAny [["b"], ["d"]] ["d", "x"] = true ∧
    insideAny [] ["d", "x"] = false ∧
    gitCommitTree gB gW gC (some [["b"], ["d"]]) [] =
      [(["b"], .file "1" false), (["d", "x"], .file "2" true), (["e"], .file "1" false)] ∧
    (∀ c ∈ gC, c.old = some ["e"] ∨ c.new = some ["e"] → gKeep (some [["b"], ["d"]]) [] c = false) := by
  decide +kernel

/-! ### the pipeline with a fault -/

/-- **abort is a no-op** (the part of the statement that holds), for any number
of texts, bound or not: a fault raised at *any* point before the write group
is committed — before or after the effect of any operation from the first
recorded text up to `add_revision`, or before `start_write_group` — makes the
commit raise and leaves the *whole* state as it was: visible revisions,
inventories and texts, the tip, the master branch, the tree basis; the write
group is closed and nothing is pending.
*Partial*: for the later fault points the statement is false, see the witnesses. -/
theorem commit_abort_noop_partial (new : Rev) (texts : List Key) (bound : Bool) (s : PState) (f : Fault)
    (hc : s.clean = true) (hk : f.executed ≤ (groupOps texts).length + 1) (h0 : ¬ (f.k = 0 ∧ f.after = true)) :
    runCommit new texts bound (some f) s = (s, true) := by
  have hkk : f.k ≤ f.executed := by unfold Fault.executed; split <;> omega
  have hlen : f.k < (program texts bound).length := by
    rw [program_length, lateOps_length]; split <;> omega
  unfold runCommit
  simp only [hlen, if_true]
  by_cases hz : f.k = 0
  · have ha : f.after = false := by
      cases h : f.after with
      | false => rfl
      | true => exact absurd ⟨hz, h⟩ h0
    have he : f.executed = 0 := by simp [Fault.executed, ha, hz]
    simp [he, inTry, hz]
  · have ht : inTry texts f.k = true := by
      simp only [inTry, Bool.and_eq_true, decide_eq_true_eq]
      omega
    simp only [ht, if_true]
    rw [abort_foldl_group new _ s (take_group texts bound hk), abort_clean hc]

example : (⟨[], [], [], [], [], [], false, none, [], none, none⟩ : PState).clean = true ∧
    (⟨4, true⟩ : Fault).executed ≤ (groupOps ["t1", "t2"]).length + 1 ∧
    (program ["t1", "t2"] true)[4]? = some Op.addInv := by decide

/-- what can be observed at a fault point about the new revision -/
structure Ordered (new : Rev) (texts : List Key) (bound : Bool) (r : PState) : Prop where
  inv_iff : new ∈ r.revs ↔ new ∈ r.invs
  texts_of_rev : new ∈ r.revs → ∀ t ∈ texts, t ∈ r.texts
  tip_rev : r.tip = some new → new ∈ r.revs
  basis_tip : r.basis = some new → r.tip = some new
  master_rev : r.mtip = some new → new ∈ r.revs ∧ new ∈ r.mrevs
  master_first : bound = true → r.tip = some new → r.mtip = some new

theorem ordered_late (new : Rev) (texts : List Key) (bound : Bool) (s : PState)
    (hn : s.tip ≠ some new ∧ s.basis ≠ some new ∧ s.mtip ≠ some new) (j : Nat) :
    Ordered new texts bound (((lateOps bound).take j).foldl (effect new) (published new texts s)) ∧
    (((lateOps bound).take j).foldl (effect new) (published new texts s)).clean = s.clean := by
  obtain ⟨h1, h2, h3⟩ := hn
  cases s
  cases bound <;> rcases j with _ | _ | _ | _ | _ | _ | _ | _ | j <;>
    (refine ⟨⟨?_, ?_, ?_, ?_, ?_, ?_⟩, ?_⟩ <;>
      simp_all [lateOps, effect, published, PState.clean])

/-- **publication is atomic and ordered, at every fault point** (any operation,
before or after its effect, bound or not, any number of texts, or no fault):
the new revision is visible exactly when its inventory is, and then all its
texts are; the tip names it only when it is visible; the tree basis names it
only after the tip does; a master branch is updated before the local tip. -/
theorem publish_ordered (new : Rev) (texts : List Key) (bound : Bool) (s : PState) (fault : Option Fault)
    (hc : s.clean = true) (hr : new ∉ s.revs) (hi : new ∉ s.invs)
    (hn : s.tip ≠ some new ∧ s.basis ≠ some new ∧ s.mtip ≠ some new) :
    Ordered new texts bound (runCommit new texts bound fault s).1 := by
  have hbase : ∀ t : PState, t.revs = s.revs → t.invs = s.invs → t.tip = s.tip → t.basis = s.basis →
      t.mtip = s.mtip → Ordered new texts bound t := by
    intro t a b c d e
    refine ⟨by rw [a, b]; simp [hr, hi], by rw [a]; intro h; exact absurd h hr, by rw [c]; intro h; exact absurd h hn.1,
      by rw [d]; intro h; exact absurd h hn.2.1, by rw [e]; intro h; exact absurd h hn.2.2,
      by rw [c]; intro _ h; exact absurd h hn.1⟩
  have hfull : Ordered new texts bound ((program texts bound).foldl (effect new) s) := by
    have := take_late new texts bound s hc (lateOps bound).length
    rw [List.take_of_length_le (by rw [program_length]; omega), List.take_of_length_le (Nat.le_refl _)] at this
    rw [this]
    have := (ordered_late new texts bound s hn (lateOps bound).length).1
    rwa [List.take_of_length_le (Nat.le_refl _)] at this
  unfold runCommit
  cases fault with
  | none => exact hfull
  | some f =>
    simp only
    split
    · -- the fault fires
      by_cases he : f.executed ≤ (groupOps texts).length + 1
      · -- before publication: only the write group was touched
        have hg := abort_foldl_group new _ s (take_group texts bound he)
        have hv : ∀ t : PState, abortGroup t = abortGroup s → Ordered new texts bound t ∧ Ordered new texts bound (abortGroup t) := by
          intro t ht
          have e1 : t.revs = s.revs := by have := congrArg PState.revs ht; simpa [abortGroup] using this
          have e2 : t.invs = s.invs := by have := congrArg PState.invs ht; simpa [abortGroup] using this
          have e3 : t.tip = s.tip := by have := congrArg PState.tip ht; simpa [abortGroup] using this
          have e4 : t.basis = s.basis := by have := congrArg PState.basis ht; simpa [abortGroup] using this
          have e5 : t.mtip = s.mtip := by have := congrArg PState.mtip ht; simpa [abortGroup] using this
          exact ⟨hbase t e1 e2 e3 e4 e5, hbase _ e1 e2 e3 e4 e5⟩
        split
        · exact (hv _ hg).2
        · exact (hv _ hg).1
      · -- after publication
        obtain ⟨j, hj⟩ : ∃ j, f.executed = (groupOps texts).length + 2 + j := ⟨f.executed - ((groupOps texts).length + 2), by omega⟩
        rw [hj, take_late new texts bound s hc j]
        obtain ⟨ho, hcl⟩ := ordered_late new texts bound s hn j
        split
        · rw [abort_clean (by rw [hcl]; exact hc)]; exact ho
        · exact ho
    · exact hfull

example : (⟨["r0"], ["r0"], [], [], [], [], false, some "r0", ["r0"], some "r0", some "r0"⟩ : PState).clean = true ∧
    (runCommit "new" ["t"] true (some ⟨9, false⟩) ⟨["r0"], ["r0"], [], [], [], [], false, some "r0", ["r0"], some "r0", some "r0"⟩)
      = (⟨["r0", "new"], ["r0", "new"], ["t"], [], [], [], false, none.orElse (fun _ => some "r0"), ["r0", "new"], some "new", some "r0"⟩, true) := by
  decide +kernel

theorem inTry_late (texts : List Key) (j : Nat) : inTry texts ((groupOps texts).length + 2 + j) = false := by
  simp only [inTry, Bool.and_eq_false_iff, decide_eq_false_iff_not]
  right; omega

/-- **Witness (property violated, DESIGN §7-F6)**: an exception raised after
`builder.commit()` and before the local tip is written — by a `pre_commit` hook,
by the update of the master branch, or by `set_last_revision_info` itself —
makes the commit raise with the tip unchanged, but the new revision (with its
inventory and texts) is visible in the repository. -/
theorem late_fault_leaves_revision_witness (new : Rev) (texts : List Key) (bound : Bool) (s : PState) (j : Nat)
    (hc : s.clean = true) (hj : j ≤ if bound then 2 else 1) :
    (runCommit new texts bound (some ⟨(groupOps texts).length + 2 + j, false⟩) s).2 = true ∧
    (runCommit new texts bound (some ⟨(groupOps texts).length + 2 + j, false⟩) s).1.tip = s.tip ∧
    (runCommit new texts bound (some ⟨(groupOps texts).length + 2 + j, false⟩) s).1.revs = s.revs ++ [new] := by
  have hlen : (groupOps texts).length + 2 + j < (program texts bound).length := by
    rw [program_length, lateOps_length]; split <;> simp_all <;> omega
  have hnt := inTry_late texts j
  unfold runCommit
  simp only [hlen, if_true, hnt, Fault.executed, Bool.false_eq_true, if_false]
  rw [take_late new texts bound s hc j]
  cases s
  cases bound <;> rcases j with _ | _ | _ | j <;> simp_all [lateOps, effect, published] <;> omega

/-- **Witness**: for a bound branch an exception from the local
`set_last_revision_info` is raised when the master branch already has the new
revision as its tip: the commit raises, the local tip is unchanged, the master
moved. -/
theorem late_fault_master_ahead_witness (new : Rev) (texts : List Key) (s : PState) (hc : s.clean = true) :
    (runCommit new texts true (some ⟨(groupOps texts).length + 4, false⟩) s).2 = true ∧
    (runCommit new texts true (some ⟨(groupOps texts).length + 4, false⟩) s).1.tip = s.tip ∧
    (runCommit new texts true (some ⟨(groupOps texts).length + 4, false⟩) s).1.mtip = some new := by
  have hlen : (groupOps texts).length + 4 < (program texts true).length := by
    rw [program_length, lateOps_length]; simp
  have hnt : inTry texts ((groupOps texts).length + 4) = false := inTry_late texts 2
  unfold runCommit
  simp only [hlen, if_true, hnt, Fault.executed, Bool.false_eq_true, if_false]
  rw [show (groupOps texts).length + 4 = (groupOps texts).length + 2 + 2 by omega, take_late new texts true s hc 2]
  cases s
  simp_all [lateOps, effect, published]

/-- **Witness**: an exception raised once the tip is written (by
`update_basis_by_delta`, a `post_commit` hook, …) makes the commit raise with
the branch already at the new revision. -/
theorem late_fault_moves_tip_witness (new : Rev) (texts : List Key) (bound : Bool) (s : PState) (j : Nat) (after : Bool)
    (hc : s.clean = true) (hj : (if bound then 3 else 2) ≤ (if after then j + 1 else j))
    (hl : j < (lateOps bound).length) :
    (runCommit new texts bound (some ⟨(groupOps texts).length + 2 + j, after⟩) s).2 = true ∧
    (runCommit new texts bound (some ⟨(groupOps texts).length + 2 + j, after⟩) s).1.tip = some new ∧
    new ∈ (runCommit new texts bound (some ⟨(groupOps texts).length + 2 + j, after⟩) s).1.revs := by
  have hlen : (groupOps texts).length + 2 + j < (program texts bound).length := by
    rw [program_length]; omega
  have hnt := inTry_late texts j
  have hex : (Fault.mk ((groupOps texts).length + 2 + j) after).executed =
      (groupOps texts).length + 2 + (if after then j + 1 else j) := by
    unfold Fault.executed; cases after <;> simp <;> omega
  unfold runCommit
  simp only [hlen, if_true, hnt, Bool.false_eq_true, if_false, hex]
  rw [take_late new texts bound s hc]
  rw [lateOps_length] at hl
  cases s
  cases bound <;> cases after <;> rcases j with _ | _ | _ | _ | _ | _ | _ | j <;>
    simp_all [lateOps, effect, published] <;> omega

/-- without a fault the revision, its inventory and its texts become visible,
then the master (bound branches), the tip and the tree basis move to it -/
theorem commit_no_fault (new : Rev) (texts : List Key) (bound : Bool) (s : PState) (hc : s.clean = true) :
    runCommit new texts bound none s =
      ({ s with revs := s.revs ++ [new], invs := s.invs ++ [new], texts := s.texts ++ texts, tip := some new,
                basis := some new, mrevs := if bound then s.mrevs ++ [new] else s.mrevs,
                mtip := if bound then some new else s.mtip }, false) := by
  have := take_late new texts bound s hc (lateOps bound).length
  rw [List.take_of_length_le (by rw [program_length]; omega), List.take_of_length_le (Nat.le_refl _)] at this
  unfold runCommit
  simp only
  rw [this]
  cases s
  cases bound <;> simp_all [lateOps, effect, published]

end BreezyVerif.C01
