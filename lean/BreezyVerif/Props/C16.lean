import BreezyVerif.Model.C16
import BreezyVerif.Lemmas.C16B
/-!
C16 — theorems.  Every well-formed revision graph (any size, merges, ghosts),
every branch/tree state, every uncommit depth, tags anywhere, standalone and
bound branches.
-/
namespace BreezyVerif.C16
open BreezyVerif.C21

/-! ### commit then uncommit is the identity -/

/-- **Inverse law.**  In any state whose tree parent list is what
`set_parent_ids` leaves (`treeOK`), whose tip is present, whose master (if
bound) is in step, committing the tree as a NEW revision `r` and uncommitting
that revision gives back exactly the state before the commit: tip, revno, the
whole parent list with its pending merges, the tags and the master's tip, revno
and tags.  (No file operation exists in `uncommit`; that the files stay is
checked on the real tree by the oracle.) -/
theorem uncommit_commit_id (g : Graph) (st : St) (r : Rev) (keep : Bool)
    (hwf : wf ((r, st.parents) :: g) = true)
    (htree : treeOK g st = true)
    (hpres : tipPresent g st.br.tip = true)
    (hmaster : ∀ m, st.master = some m → m.tip = st.br.tip ∧ m.revno = st.br.revno)
    (htags : ∀ t ∈ st.br.tags, t.2 ≠ r) :
    uncommit (commit g st r).1 (commit g st r).2 1 keep false = .ok st := by
  obtain ⟨hrp, _, _⟩ := wf_cons hwf
  obtain ⟨br, master, parents⟩ := st
  obtain ⟨tip, revno, tags⟩ := br
  simp only [treeOK, Bool.and_eq_true, beq_iff_eq, Bool.or_eq_true] at htree
  obtain ⟨⟨hhead, hfilt⟩, _⟩ := htree
  simp only at hhead hfilt hrp hpres hmaster htags
  -- tags: nothing sits on the new revision
  have hkeepT := keepTagsOutside_fresh r parents g tags hrp htags
  have hremT := removedTags_fresh r parents g tags hrp htags
  cases parents with
  | nil =>
    have htip : tip = none := by simpa using hhead.symm
    subst htip
    cases master with
    | none =>
      cases keep <;>
        simp [uncommit, commit, walk, filterParents, hkeepT, hremT, masterFor, outOfDate, newParents, finish]
    | some m =>
      obtain ⟨h1, h2⟩ := hmaster m rfl
      obtain ⟨mt, mr, mtags⟩ := m
      simp only at h1 h2
      subst h1 h2
      cases keep <;>
        simp [uncommit, commit, walk, filterParents, hkeepT, hremT, dropTags_nil, masterFor, outOfDate, newParents, finish]
  | cons p rest =>
    have htip : tip = some p := by simpa using hhead.symm
    subst htip
    have hp : present g p = true := hpres
    have hfilt' : filterParents ((r, p :: rest) :: g) (p :: rest) = p :: rest := by
      rw [filterParents_cons r _ g _ hrp]; exact hfilt
    cases master with
    | none =>
      cases keep <;>
        simp [uncommit, commit, walk, walk_zero g p _ hp, hfilt', hkeepT, hremT, masterFor, outOfDate, newParents, finish]
    | some m =>
      obtain ⟨h1, h2⟩ := hmaster m rfl
      obtain ⟨mt, mr, mtags⟩ := m
      simp only at h1 h2
      subst h1 h2
      cases keep <;>
        simp [uncommit, commit, walk, walk_zero g p _ hp, hfilt', hkeepT, hremT, dropTags_nil, masterFor, outOfDate, newParents, finish]

-- non-vacuity: a state with a pending merge, bound, satisfying every hypothesis
example :
    let g : Graph := [(3, [1]), (2, [1]), (1, [])]
    let st : St := { br := { tip := some 2, revno := 2, tags := [(7, 3)] },
                     master := some { tip := some 2, revno := 2 }, parents := [2, 3] }
    wf ((4, st.parents) :: g) = true ∧ treeOK g st = true ∧ tipPresent g st.br.tip = true := by
  decide

/-- **Inverse law, `--local`.**  In a bound branch (master anywhere, in step or
not), `commit --local` of a new revision followed by `uncommit --local` gives
back exactly the state before: the master is touched by neither. -/
theorem uncommit_commit_id_local (g : Graph) (st : St) (r : Rev) (keep : Bool)
    (hwf : wf ((r, st.parents) :: g) = true)
    (htree : treeOK g st = true)
    (hpres : tipPresent g st.br.tip = true)
    (hbound : st.master.isSome = true)
    (htags : ∀ t ∈ st.br.tags, t.2 ≠ r) :
    uncommit (commitLocal g st r).1 (commitLocal g st r).2 1 keep true = .ok st := by
  obtain ⟨hrp, _, _⟩ := wf_cons hwf
  obtain ⟨br, master, parents⟩ := st
  obtain ⟨tip, revno, tags⟩ := br
  simp only [treeOK, Bool.and_eq_true, beq_iff_eq, Bool.or_eq_true] at htree
  obtain ⟨⟨hhead, hfilt⟩, _⟩ := htree
  simp only at hhead hfilt hrp hpres htags hbound
  have hkeepT := keepTagsOutside_fresh r parents g tags hrp htags
  have hremT := removedTags_fresh r parents g tags hrp htags
  cases master with
  | none => simp at hbound
  | some m =>
    obtain ⟨mt, mr, mtags⟩ := m
    cases parents with
    | nil =>
      have htip : tip = none := by simpa using hhead.symm
      subst htip
      cases keep <;>
        simp [uncommit, commitLocal, walk, filterParents, hkeepT, hremT, dropTags_nil, masterFor, outOfDate, newParents, finish]
    | cons p rest =>
      have htip : tip = some p := by simpa using hhead.symm
      subst htip
      have hp : present g p = true := hpres
      have hfilt' : filterParents ((r, p :: rest) :: g) (p :: rest) = p :: rest := by
        rw [filterParents_cons r _ g _ hrp]; exact hfilt
      cases keep <;>
        simp [uncommit, commitLocal, walk, walk_zero g p _ hp, hfilt', hkeepT, hremT, dropTags_nil, masterFor, outOfDate,
          newParents, finish]

-- non-vacuity: bound, master elsewhere (out of step), a pending merge
example :
    let g : Graph := [(3, [1]), (2, [1]), (1, [])]
    let st : St := { br := { tip := some 2, revno := 2, tags := [(7, 3)] },
                     master := some { tip := some 1, revno := 1, tags := [(7, 3)] }, parents := [2, 3] }
    (wf ((4, st.parents) :: g) = true ∧ treeOK g st = true ∧ tipPresent g st.br.tip = true ∧ st.master.isSome = true) ∧
    uncommit (commitLocal g st 4).1 (commitLocal g st 4).2 1 false true = .ok st :=
  ⟨by decide, rfl⟩

/-! ### depth d: tip, revno, pending merges -/

/-- The new tip is the `d`-th left-hand ancestor of the old tip (`null:` past
the origin) and the revno drops by exactly `d` (no truncation: a successful
uncommit never removes more revisions than the branch records); the master of a
bound branch (unless `local`) gets the same tip and revno. -/
theorem uncommit_tip (g : Graph) (st st' : St) (d : Nat) (keep loc : Bool)
    (h : uncommit g st d keep loc = .ok st') :
    ∃ old, st.br.tip = some old ∧ lhNth g old d = .ok st'.br.tip ∧ st'.br.revno + d = st.br.revno ∧
      (loc = false → ∀ m', st'.master = some m' → m'.tip = st'.br.tip ∧ m'.revno = st'.br.revno) := by
  have hd := (uncommit_ok_guards g st st' d keep loc h).1
  obtain ⟨old, t, pm, htip, hw, rfl⟩ := uncommit_ok_inv g st st' d keep loc h
  refine ⟨old, htip, walk_lhNth g old d _ t pm hw, by simp only [finish]; omega, ?_⟩
  intro hl m' hm'
  subst hl
  cases hm : st.master with
  | none => simp [finish, hm] at hm'
  | some m => simp [finish, hm] at hm'; subst hm'; simp [finish]

/-- `lhNth` is not a private notion: on a ghost-free left-hand history it is the
head of C21's `lefthand` list with `d` revisions dropped -/
theorem lhNth_lefthand (g : Graph) (hwf : wf g = true) (r : Rev) (d : Nat) (l : List Rev)
    (hl : lefthand g r = some l) : lhNth g r d = .ok (l.drop d).head? := by
  obtain ⟨t, pm', hw, hlh⟩ := walk_lefthand g hwf r d [] l hl
  rw [walk_lhNth g r d [] t pm' hw, lhTip_head g t _ hlh]

/-- … so the new tip is the `(d+1)`-th entry of the old tip's left-hand history -/
theorem uncommit_tip_lefthand (g : Graph) (hwf : wf g = true) (st st' : St) (d : Nat) (keep loc : Bool)
    (h : uncommit g st d keep loc = .ok st') (old : Rev) (htip : st.br.tip = some old)
    (l : List Rev) (hl : lefthand g old = some l) : st'.br.tip = (l.drop d).head? := by
  obtain ⟨old', htip', hnth, _⟩ := uncommit_tip g st st' d keep loc h
  rw [htip] at htip'
  cases htip'
  rw [lhNth_lefthand g hwf old d l hl] at hnth
  exact (Except.ok.inj hnth).symm

example : lefthand [(4, [3, 2]), (3, [1]), (2, [1]), (1, [])] 4 = some [4, 3, 1] ∧
    lhNth [(4, [3, 2]), (3, [1]), (2, [1]), (1, [])] 4 2 = .ok (some 1) := ⟨by decide, rfl⟩

/-- When the old tip's left-hand history has no ghost and the recorded revno is
its length, the new revno is the length of the new tip's left-hand history. -/
theorem uncommit_revno_ok (g : Graph) (hwf : wf g = true) (st st' : St) (d : Nat) (keep loc : Bool)
    (h : uncommit g st d keep loc = .ok st')
    (hrev : revnoOf g st.br.tip = some st.br.revno) :
    revnoOf g st'.br.tip = some st'.br.revno := by
  obtain ⟨old, t, pm, htip, hw, rfl⟩ := uncommit_ok_inv g st st' d keep loc h
  rw [htip] at hrev
  simp only [revnoOf, lhTip, Option.map_eq_some_iff] at hrev
  obtain ⟨l, hl, hlen⟩ := hrev
  obtain ⟨t2, pm2, hw2, hlh⟩ := walk_lefthand g hwf old d st.parents.tail l hl
  rw [hw] at hw2
  cases hw2
  simp only [finish, revnoOf, hlh, Option.map_some, List.length_drop, hlen]

/-- **Pending merges.**  When the new tip is a revision `x`, the new tree parent
list is what the tree keeps of `[x] ++ M_d ++ … ++ M_1 ++ reverse P0`, where
`M_i` are the merged (non-left-hand) parents of the `i`-th removed revision
(1 = the old tip), each in its recorded order, and `P0` the pending merges
present before; when the branch becomes empty the tree has no parents at all. -/
theorem uncommit_pending (g : Graph) (st st' : St) (d : Nat) (keep loc : Bool)
    (h : uncommit g st d keep loc = .ok st') :
    ∃ old, st.br.tip = some old ∧
      (st'.br.tip = none → st'.parents = []) ∧
      (∀ x, st'.br.tip = some x → st'.parents = filterParents g
        (x :: ((removedMerges g old d).reverse.flatten ++ st.parents.tail.reverse))) := by
  obtain ⟨old, t, pm, htip, hw, rfl⟩ := uncommit_ok_inv g st st' d keep loc h
  refine ⟨old, htip, ?_, ?_⟩
  · intro ht
    simp only [finish] at ht
    subst ht
    simp [finish, newParents, filterParents]
  · intro x ht
    simp only [finish] at ht
    subst ht
    simp only [finish, newParents]
    rw [walk_pm g old d _ (some x) pm hw]
    simp [List.reverse_flatten, Function.comp_def]

/-- the tree always keeps the first parent it is given … -/
theorem filterParents_head (g : Graph) (p : Rev) (rest : List Rev) :
    (filterParents g (p :: rest)).head? = some p := by
  simp [filterParents]

/-- … never invents a parent … -/
theorem filterParents_sub (g : Graph) (l : List Rev) (x : Rev) (h : x ∈ filterParents g l) : x ∈ l := by
  cases l with
  | nil => simp [filterParents] at h
  | cons p rest =>
    simp only [filterParents, List.mem_cons] at h ⊢
    rcases h with h | h
    · exact Or.inl h
    · exact Or.inr (filterRest_sub _ rest [p] x h)

/-- … and keeps every requested parent that is a head of the requested list:
a removed merge is lost from the pending merges only if it is an ancestor of
another new parent (or a repetition). -/
theorem filterParents_keeps_heads (g : Graph) (l : List Rev) (x : Rev) (hx : x ∈ l)
    (hh : some x ∈ heads g (l.map some)) : x ∈ filterParents g l := by
  cases l with
  | nil => simp at hx
  | cons p rest =>
    simp only [filterParents, List.mem_cons] at hx ⊢
    by_cases hxp : x = p
    · exact Or.inl hxp
    · right
      rcases hx with hx | hx
      · exact absurd hx hxp
      · exact filterRest_keeps _ rest [p] x hx (by simpa using hxp) hh

/-- **Re-recorded merges.**  Every merged parent of a removed revision that is a
head of the requested parent list is a pending merge of the tree afterwards -/
theorem removed_merge_head_kept (g : Graph) (st st' : St) (d : Nat) (keep loc : Bool)
    (h : uncommit g st d keep loc = .ok st') (old x m : Rev) (hold : st.br.tip = some old)
    (hx : st'.br.tip = some x) (hm : m ∈ (removedMerges g old d).flatten)
    (hh : some m ∈ heads g ((x :: ((removedMerges g old d).reverse.flatten ++ st.parents.tail.reverse)).map some)) :
    m ∈ st'.parents := by
  obtain ⟨old', hold', _, h1⟩ := uncommit_pending g st st' d keep loc h
  rw [hold] at hold'
  cases hold'
  rw [h1 x hx]
  apply filterParents_keeps_heads g _ m _ hh
  simp only [List.mem_cons, List.mem_append]
  right; left
  simp only [List.mem_flatten, List.mem_reverse] at hm ⊢
  exact hm

example :
    let g : Graph := [(4, [3, 2]), (3, [1]), (2, [1]), (1, [])]
    let st : St := { br := { tip := some 4, revno := 3 }, parents := [4] }
    (removedMerges g 4 1 = [[2]] ∧ heads g [some 3, some 2] = [some 3, some 2]) ∧
    uncommit g st 1 false false = .ok { br := { tip := some 3, revno := 2 }, parents := [3, 2] } :=
  ⟨by decide, rfl⟩

/-- after every successful uncommit the tree's basis is the branch tip (and a
tree on an empty branch has no parents) -/
theorem uncommit_tree_basis (g : Graph) (st st' : St) (d : Nat) (keep loc : Bool)
    (h : uncommit g st d keep loc = .ok st') : st'.parents.head? = st'.br.tip := by
  obtain ⟨old, _, h0, h1⟩ := uncommit_pending g st st' d keep loc h
  cases ht : st'.br.tip with
  | none => rw [h0 ht]; rfl
  | some x => rw [h1 x ht]; simp [filterParents]

example : uncommit [(2, [1, 3]), (3, []), (1, [])] { br := { tip := some 2, revno := 2 }, parents := [2] } 2 false false
    = .ok { br := { tip := none, revno := 0 }, parents := [] } := by
  rfl

/-! ### tags -/

/-- A tag name is removed iff some tag of that name sits on a revision that is
an ancestor of the old tip and of none of the new parents (new tip and pending
merges): exactly the revisions that left the history. -/
theorem tags_dropped_iff (g : Graph) (tags : Tags) (old : Rev) (parents : List Rev) (n : Nat) :
    n ∈ removedTags g tags old parents ↔
      ∃ r, (n, r) ∈ tags ∧ r ∈ anc g old ∧ ∀ p ∈ parents, r ∉ anc g p :=
  mem_removedTags g tags old parents n

/-- The branch's tags after an uncommit without `keep_tags`: a tag stays iff
its revision did not leave the history. -/
theorem tags_after_uncommit (g : Graph) (st st' : St) (d : Nat) (loc : Bool)
    (h : uncommit g st d false loc = .ok st') :
    ∃ old t pm, st.br.tip = some old ∧ walk g old d st.parents.tail = .ok (t, pm) ∧
      ∀ tag, tag ∈ st'.br.tags ↔
        tag ∈ st.br.tags ∧ ¬ (tag.2 ∈ anc g old ∧ ∀ p ∈ newParents t pm, tag.2 ∉ anc g p) := by
  obtain ⟨old, t, pm, htip, hw, rfl⟩ := uncommit_ok_inv g st st' d false loc h
  refine ⟨old, t, pm, htip, hw, ?_⟩
  intro tag
  simp only [finish, Bool.false_eq_true, if_false]
  exact mem_keepTagsOutside g st.br.tags old _ tag

/-- with `keep_tags` no tag of the branch or of its master is touched -/
theorem tags_kept (g : Graph) (st st' : St) (d : Nat) (loc : Bool)
    (h : uncommit g st d true loc = .ok st') :
    st'.br.tags = st.br.tags ∧ st'.master.map (·.tags) = st.master.map (·.tags) := by
  obtain ⟨old, t, pm, htip, hw, rfl⟩ := uncommit_ok_inv g st st' d true loc h
  refine ⟨rfl, ?_⟩
  cases hm : st.master <;> simp [finish, dropTags_nil, hm]

/-- a tag on the new tip or on any of its ancestors survives -/
theorem tags_on_new_ancestry_survive (g : Graph) (st st' : St) (d : Nat) (loc : Bool)
    (h : uncommit g st d false loc = .ok st') (tag : Nat × Rev) (htag : tag ∈ st.br.tags)
    (x : Rev) (hx : st'.br.tip = some x) (hanc : tag.2 ∈ anc g x) : tag ∈ st'.br.tags := by
  obtain ⟨old, t, pm, htip, hw, hiff⟩ := tags_after_uncommit g st st' d loc h
  obtain ⟨old', htip', hnth, _⟩ := uncommit_tip g st st' d false loc h
  rw [htip] at htip'
  cases htip'
  have ht : t = some x := by
    have := walk_lhNth g old d _ t pm hw
    rw [this] at hnth
    cases hnth
    exact hx
  rw [hiff]
  refine ⟨htag, ?_⟩
  rintro ⟨_, h2⟩
  exact h2 x (by simp [ht, newParents]) hanc

/-- **Master tags.**  After an uncommit without `keep_tags` a tag of the master
stays iff no tag OF THE SAME NAME in the bound branch sat on a revision that
left the history (the removal is computed from the bound branch's tags and
applied to the master by name — `local` or not) -/
theorem master_tags_after_uncommit (g : Graph) (st st' : St) (d : Nat) (loc : Bool)
    (h : uncommit g st d false loc = .ok st') :
    ∃ old t pm, st.br.tip = some old ∧ walk g old d st.parents.tail = .ok (t, pm) ∧
      st'.master.map (·.tags) =
        st.master.map (fun m => dropTags m.tags (removedTags g st.br.tags old (newParents t pm))) ∧
      ∀ m m', st.master = some m → st'.master = some m' → ∀ tag, tag ∈ m'.tags ↔
        tag ∈ m.tags ∧ ¬ ∃ r, (tag.1, r) ∈ st.br.tags ∧ r ∈ anc g old ∧ ∀ p ∈ newParents t pm, r ∉ anc g p := by
  obtain ⟨old, t, pm, htip, hw, rfl⟩ := uncommit_ok_inv g st st' d false loc h
  refine ⟨old, t, pm, htip, hw, ?_, ?_⟩
  · cases hm : st.master <;> simp [finish, hm]
  · intro m m' hm hm' tag
    simp only [finish, hm, Option.map_some, Option.some.injEq, Bool.false_eq_true, if_false] at hm'
    subst hm'
    simp only [dropTags, List.mem_filter, Bool.not_eq_true', ← mem_removedTags]
    simp

example :
    uncommit [(2, [1]), (1, [])]
        { br := { tip := some 2, revno := 2, tags := [(7, 2), (8, 1)] },
          master := some { tip := some 2, revno := 2, tags := [(7, 2), (8, 1), (9, 2)] }, parents := [2] } 1 false false
      = .ok { br := { tip := some 1, revno := 1, tags := [(8, 1)] },
              master := some { tip := some 1, revno := 1, tags := [(8, 1), (9, 2)] }, parents := [1] } := by
  rfl

/-! ### `tree=None` and `dry_run=True` -/

/-- **No tree.**  `uncommit(branch, tree=None)` moves the tip to the same
left-hand ancestor, leaves the tree's parent list alone and — because the
removed merges are not re-recorded anywhere — keeps a tag iff its revision is
still an ancestor of the new tip (or never was one of the old tip) -/
theorem uncommit_no_tree (g : Graph) (st st' : St) (d : Nat) (keep loc : Bool)
    (h : uncommitNoTree g st d keep loc = .ok st') :
    ∃ old, st.br.tip = some old ∧ lhNth g old d = .ok st'.br.tip ∧ st'.br.revno + d = st.br.revno ∧
      st'.parents = st.parents ∧
      (keep = true → st'.br.tags = st.br.tags) ∧
      (keep = false → ∀ tag, tag ∈ st'.br.tags ↔
        tag ∈ st.br.tags ∧ ¬ (tag.2 ∈ anc g old ∧ ∀ x, st'.br.tip = some x → tag.2 ∉ anc g x)) := by
  obtain ⟨old, t, pm, htip, hw, hd, rfl⟩ := uncommitNoTree_ok_inv g st st' d keep loc h
  refine ⟨old, htip, walk_lhNth g old d _ t pm hw, by simp only [finish]; omega, rfl, ?_, ?_⟩
  · intro hk; subst hk; simp [finish]
  · intro hk tag
    subst hk
    simp only [finish, Bool.false_eq_true, if_false]
    rw [mem_keepTagsOutside]
    cases t <;> simp [newParents]

/-- with and without a tree the branch ends at the same tip and revno -/
theorem no_tree_same_branch (g : Graph) (st s1 s2 : St) (d : Nat) (k1 k2 loc : Bool)
    (h1 : uncommit g st d k1 loc = .ok s1) (h2 : uncommitNoTree g st d k2 loc = .ok s2) :
    s2.br.tip = s1.br.tip ∧ s2.br.revno = s1.br.revno := by
  obtain ⟨o1, ht1, hn1, hr1, _⟩ := uncommit_tip g st s1 d k1 loc h1
  obtain ⟨o2, ht2, hn2, hr2, _⟩ := uncommit_no_tree g st s2 d k2 loc h2
  rw [ht1] at ht2
  cases ht2
  rw [hn1] at hn2
  exact ⟨(Except.ok.inj hn2).symm, by omega⟩

example : uncommitNoTree [(4, [3, 2]), (3, [1]), (2, [1]), (1, [])]
      { br := { tip := some 4, revno := 3, tags := [(5, 2), (6, 3)] }, parents := [4] } 1 false false
    = .ok { br := { tip := some 3, revno := 2, tags := [(6, 3)] }, parents := [4] } := by rfl

/-- **Dry run.**  Nothing changes … -/
theorem dry_run_unchanged (g : Graph) (st st' : St) (d : Nat) (keep loc : Bool)
    (h : uncommitDry g st d keep loc = .ok st') : st' = st := by
  unfold uncommitDry at h
  split at h
  · cases h
  · cases h; rfl

/-- … and it fails exactly when the real run fails, with the same error -/
theorem dry_run_same_errors (g : Graph) (st : St) (d : Nat) (keep loc : Bool) (e : Err) :
    uncommitDry g st d keep loc = .error e ↔ uncommit g st d keep loc = .error e := by
  unfold uncommitDry
  cases uncommit g st d keep loc <;> simp

/-- **Witness (finding).**  `uncommit --local` in a bound branch removes the
tag from the MASTER as well, although the master keeps the revision (family
`local-uncommit-deletes-master-tags`). -/
theorem local_uncommit_master_tags_witness :
    uncommit [(2, [1]), (1, [])]
        { br := { tip := some 2, revno := 2, tags := [(7, 2)] },
          master := some { tip := some 2, revno := 2, tags := [(7, 2)] }, parents := [2] } 1 false true
      = .ok { br := { tip := some 1, revno := 1, tags := [] },
              master := some { tip := some 2, revno := 2, tags := [] }, parents := [1] } := by
  rfl

end BreezyVerif.C16
