import BreezyVerif.Common
import BreezyVerif.Model.C05
import BreezyVerif.Driver.C04Proto
/-
C05 driver.

  exec <chk T|F> <names> <files> <content> <next> <nprocs> <schedule>

names   = comma separated pack numbers (`-` = none)
files   = comma separated `<d><stem>.<ext>` (see the C04 driver)
content = `name:rev.rev…` joined by `;` (`-` = none); a name without entry holds no revision
schedule = actions joined by `;` (`-` = none):
           `<pid>:r` reload | `<pid>:f:<rev.rev…>` finish | `<pid>:k:<name.name…>` repack |
           `<pid>:s:<T|F>` save | `<pid>:o` obsolete | `<pid>:c` clearAll |
           `<pid>:fa:<name>:<rev.rev…>` finish with a given (reused) name |
           `<pid>:ka:<name>:<name.name…>` repack with a given (reused) name

reply: three fields separated by a space:
 1. the state after every step (initial one included) joined by `/`;
    state = `<disk>#<proc0>#<proc1>…`, disk as in the C04 driver, proc =
    `<L|N>~<names>~<atLoad>~<toObsolete>`;
 2. for every step that wrote a pack, in order, `<name>=<revisions it holds>`
    (sorted, duplicates removed) joined by `;` (`-` = none);
 3. the visible revisions at the end (sorted, duplicates removed).
-/
namespace BreezyVerif.C05
open BreezyVerif.C04

def parseDots (s : String) : Option (List Nat) :=
  if s == "" || s == "-" then some [] else (s.splitOn ".").mapM String.toNat?

def parseContent (s : String) : Option (List (Nat × List Nat)) :=
  if s == "-" then some [] else
  (s.splitOn ";").mapM fun t => match t.splitOn ":" with
    | [a, b] => do pure (← a.toNat?, ← parseDots b)
    | _ => none

def lookup (l : List (Nat × List Nat)) (n : Nat) : List Nat :=
  match l.find? (fun e => e.1 == n) with
  | some e => e.2
  | none => []

def parseAct (s : String) : Option (Nat × XAct) :=
  match s.splitOn ":" with
  | [p, "r"] => do pure (← p.toNat?, .base .reload)
  | [p, "f", r] => do pure (← p.toNat?, .base (.finish (← parseDots r)))
  | [p, "k", r] => do pure (← p.toNat?, .base (.repack (← parseDots r)))
  | [p, "s", c] => do pure (← p.toNat?, .base (.save (← parseBool c)))
  | [p, "o"] => do pure (← p.toNat?, .base .obsolete)
  | [p, "c"] => do pure (← p.toNat?, .base .clearAll)
  | [p, "fa", m, r] => do pure (← p.toNat?, .finishAs (← m.toNat?) (← parseDots r))
  | [p, "ka", m, r] => do pure (← p.toNat?, .repackAs (← m.toNat?) (← parseDots r))
  | _ => none

def parseSched (s : String) : Option XSchedule :=
  if s == "-" then some [] else (s.splitOn ";").mapM parseAct

/-- the name of the pack the step writes, if it writes one -/
def writtenName (s : Sys) (i : Nat) : XAct → Option Nat
  | .base (.finish _) => some (s.next + 1)
  | .base (.repack sel) => if sel.all (fun n => (s.procs i).names.contains n) then some (s.next + 1) else none
  | .finishAs m _ => some m
  | .repackAs m sel => if sel.all (fun n => (s.procs i).names.contains n) then some m else none
  | _ => none

def showProc (p : Proc) : String :=
  s!"{if p.loaded then "L" else "N"}~{showNats p.names}~{showNats p.atLoad}~{showNats p.toObsolete}"

def showSys (n : Nat) (s : Sys) : String :=
  "#".intercalate (showDisk s.disk :: (List.range n).map (fun i => showProc (s.procs i)))

def trace (s : Sys) : XSchedule → List Sys
  | [] => [s]
  | a :: rest => s :: trace (stepX s a.1 a.2) rest

def written (s : Sys) : XSchedule → List String
  | [] => []
  | a :: rest =>
    let s' := stepX s a.1 a.2
    match writtenName s a.1 a.2 with
    | some m => s!"{m}={showNats (s'.content m).eraseDups}" :: written s' rest
    | none => written s' rest

def handle : List String → String
  | ["exec", chk, names, files, content, next, nprocs, sched] =>
    match parseBool chk, parseNatList names, parseFiles files, parseContent content, next.toNat?, nprocs.toNat?,
          parseSched sched with
    | some chk, some names, some files, some content, some next, some np, some sched =>
      let s0 := Sys.init chk ⟨names, files, [], false⟩ (lookup content) next
      let tr := trace s0 sched
      let last := tr.getLast?.getD s0
      let w := written s0 sched
      s!"{"/".intercalate (tr.map (showSys np))} {if w.isEmpty then "-" else ";".intercalate w} {showNats (visible last).eraseDups}"
    | _, _, _, _, _, _, _ => "bad-op"
  | _ => "bad-op"

end BreezyVerif.C05

def main : IO Unit := BreezyVerif.runDriver BreezyVerif.C05.handle
