"""Per-run context handed to a check module: PRNG, counters, model client,
violation / mismatch recording, parallel map."""
import collections
import hashlib
import json
import multiprocessing
import os
import random
import time

from . import env, lean


def canon(obj):
    return json.dumps(obj, sort_keys=True, default=repr, ensure_ascii=True)


class Ctx:
    def __init__(self, pid, tier, seed):
        self.pid = pid
        self.tier = tier
        self.seed = seed
        self.rng = random.Random(seed)
        self._srng = random.Random(seed ^ 0x5eed)
        self.evaluations = 0
        self._distinct = set()
        self.samples = []
        self.dist = collections.Counter()
        self.violations = []      # oracle failures on the real code
        self.mismatches = []      # model vs implementation differences (T2)
        self.assumptions = []
        self.traces = 0           # cases on which impl and model were compared
        self.exhaustive = None
        self.rule = ""
        self.extra = {}
        self.t0 = time.time()
        self._driver = None
        self.model_available = True
        self.deadline = None

    # ---- bookkeeping -------------------------------------------------
    def thorough(self):
        return self.tier == "thorough"

    def pick(self, quick, thorough):
        return thorough if self.tier == "thorough" else quick

    def case(self, case, nontrivial=True, n=1):
        """count one explored case; `case` is any JSON-able canonical form"""
        self.evaluations += n
        if nontrivial:
            self._distinct.add(hashlib.sha1(canon(case).encode()).digest()[:10])
        # first 2 cases + a reservoir sample of 8 over the whole run
        self._seen = getattr(self, "_seen", 0) + 1
        if len(self.samples) < 10:
            self.samples.append(case)
        else:
            j = self._srng.randrange(self._seen)
            if j < 8:
                self.samples[2 + j] = case

    def count(self, key, n=1):
        self.dist[key] += n

    @property
    def distinct_nontrivial(self):
        return len(self._distinct)

    def elapsed(self):
        return time.time() - self.t0

    # ---- model -------------------------------------------------------
    def model(self, lines):
        """send protocol lines (without the property prefix) to the Lean driver"""
        if self._driver is None:
            self._driver = lean.Driver(self.pid)
        return self._driver.ask(list(lines))

    def diff(self, cases, lines, impl_outs, tie="T2"):
        """compare implementation outputs with the model's replies, case by case"""
        outs = self.model(lines)
        bad = 0
        for c, l, i, m in zip(cases, lines, impl_outs, outs):
            self.traces += 1
            if i != m:
                bad += 1
                self.mismatch(c, i, m, line=l, tie=tie)
        return outs

    def mismatch(self, case, impl, model, line=None, tie="T2"):
        if len(self.mismatches) < 200:
            self.mismatches.append(dict(case=case, impl=impl, model=model, line=line, tie=tie))
        else:
            self.mismatches.append(None)

    def violation(self, case, what, family=None):
        """the property itself fails on the real code for `case`.
        `family` names the specific input family / call site, used only to
        match committed known findings."""
        if len(self.violations) < 200:
            self.violations.append(dict(case=case, what=what, family=family))
        else:
            self.violations.append(dict(case=None, what=what, family=family))

    # ---- parallel map --------------------------------------------------
    def pmap(self, fn, items, procs=None, chunksize=None):
        """fork-based parallel map; fn must be a module-level function."""
        items = list(items)
        procs = procs or min(int(os.environ.get("VERIF_JOBS", "8")), max(1, len(items)))
        if procs <= 1 or len(items) <= 1:
            return [fn(x) for x in items]
        mp = multiprocessing.get_context("fork")
        with mp.Pool(procs) as pool:
            return pool.map(fn, items, chunksize or max(1, len(items) // (procs * 4)))
