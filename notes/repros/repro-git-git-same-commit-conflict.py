"""C24 finding `git-git-annotated-vs-lightweight-same-commit-reported` — standalone repro.

usage: /venv/bin/python repro-git-git-same-commit-conflict.py [/path/to/breezy/checkout]   (default /repo)

InterTagsFromGitToLocalGit.merge compares raw refs.  When the source has an
ANNOTATED tag v1 and the destination a LIGHTWEIGHT tag v1 on the very same
commit, the two tag dictionaries are identical ({v1: rev}), yet merge_to
reports the conflict ('v1', rev, rev) — source and destination value equal.
exit 1 = conflict with identical values reported, exit 0 = none.
"""
import os
import shutil
import sys
import tempfile

sys.path.insert(0, sys.argv[1] if len(sys.argv) > 1 else "/repo")
home = tempfile.mkdtemp(prefix="c24-repro-home-", dir="/var/tmp")
os.environ["HOME"] = os.environ["BRZ_HOME"] = home
import breezy  # noqa: E402

breezy.initialize()
import breezy.bzr  # noqa: E402,F401
import breezy.git  # noqa: E402,F401
from breezy import trace  # noqa: E402
from breezy.controldir import ControlDir, format_registry  # noqa: E402
from dulwich.objects import Commit, Tag  # noqa: E402

trace.be_quiet(True)
scratch = tempfile.mkdtemp(prefix="c24-repro-", dir="/var/tmp")
try:
    wt = ControlDir.create_standalone_workingtree(
        os.path.join(scratch, "src"), format=format_registry.make_controldir("git"))
    r1 = wt.commit("one", committer="T <t@example.com>")
    wt.branch.controldir.sprout(os.path.join(scratch, "dst"))
    repo = wt.branch.repository._git
    t = Tag()
    t.tagger = b"T <t@example.com>"
    t.message = b"release\n"
    t.name = b"v1"
    t.object = (Commit, r1[len(b"git-v1:"):])
    t.tag_time = 1500000000
    t.tag_timezone = 0
    repo.object_store.add_object(t)
    repo.refs[b"refs/tags/v1"] = t.id                     # source: annotated v1 -> r1
    src = ControlDir.open(os.path.join(scratch, "src")).open_branch()
    dst = ControlDir.open(os.path.join(scratch, "dst")).open_branch()
    dst.tags._set_tag_dict({})
    dst.tags.set_tag("v1", r1)                            # destination: lightweight v1 -> r1
    print("source :", src.tags.get_tag_dict())
    print("dest   :", dst.tags.get_tag_dict())
    updates, conflicts = src.tags.merge_to(dst.tags)
    print("updates:", updates, "conflicts:", sorted(conflicts))
    bad = [c for c in conflicts if c[1] == c[2]]
finally:
    shutil.rmtree(scratch, ignore_errors=True)
    shutil.rmtree(home, ignore_errors=True)
if bad:
    print("C24 VIOLATED: identical definitions reported as a conflict:", bad)
sys.stdout.flush()
os._exit(1 if bad else 0)
