"""C37 repro: InterToLocalGitRepository.fetch_refs reports a ref as updated although its conditional update failed.

 1. the ref is changed by another container between fetch_refs' snapshot and its set_if_equals: the CAS fails
    (correctly), but fetch_refs returns name -> new sha as if it had been set;
 2. the name is a symbolic ref (HEAD -> refs/heads/master): fetch_refs passes the text b'ref: refs/heads/master' as
    the expected old value, the comparison never matches, nothing is written, success is reported;
 3. the ref is packed and removed by another container meanwhile: the target's stale packed-refs cache makes the
    CAS succeed against the vanished value (the ref is resurrected).

Run:  HOME=/var/tmp/x BRZ_HOME=/var/tmp/x /venv/bin/python repro_fetch_refs.py [repo-root]    exit 1 = defect present
"""
import os, shutil, sys, tempfile
sys.path.insert(0, sys.argv[1] if len(sys.argv) > 1 else "/repo")
import breezy.bzr, breezy.git  # noqa
from breezy.controldir import ControlDir, format_registry
from breezy.repository import InterRepository
from breezy.git.transportgit import TransportRefsContainer

d = tempfile.mkdtemp(dir="/var/tmp")
src = ControlDir.create_standalone_workingtree(d + "/bzr", format=format_registry.make_controldir("2a"))
revs = []
for i in range(2):
    open(d + "/bzr/f", "a").write("%d\n" % i)
    if i == 0:
        src.add(["f"])
    revs.append(src.commit("r%d" % i, committer="a <a@b>"))
M, FAKE, bad = b"refs/heads/master", b"5" * 40, 0


def scenario(k, name, pack, conc):
    gd = "%s/git%d" % (d, k)
    ControlDir.create(gd, format=format_registry.make_controldir("git-bare"))
    repo = ControlDir.open(gd).open_repository()
    ct = repo._git._controltransport
    with src.branch.repository.lock_read():
        inter = InterRepository.get(src.branch.repository, repo)
        inter.fetch_refs(lambda old: {M: (None, revs[0])}, lossy=True)
        if pack:
            v = TransportRefsContainer(ct).read_ref(M)
            ct.put_bytes("packed-refs", b"# pack-refs with: peeled\n" + v + b" " + M + b"\n")
            ct.delete("refs/heads/master")
            inter = InterRepository.get(src.branch.repository, ControlDir.open(gd).open_repository())

        def update_refs(old):
            other = TransportRefsContainer(ct)
            if conc == "set":
                other.set_if_equals(M, None, FAKE)
            elif conc == "rm":
                other.remove_if_equals(M, None)
            return {name: (None, revs[1])}
        mid = []
        try:
            _, _, res = inter.fetch_refs(lambda old: (update_refs(old), mid.append(TransportRefsContainer(ct).get(name)))[0], lossy=True)
            claimed = res[name][0]
        except Exception as e:
            claimed = "raised %s" % type(e).__name__
    actual = TransportRefsContainer(ct).get(name)
    print("%d. %s, %s, other container: %s -> fetch_refs reports %s; ref when the CAS ran %s; ref afterwards %s"
          % (k, name.decode(), "packed" if pack else "loose", conc, claimed, mid and mid[0], actual))
    return claimed, mid and mid[0], actual


c, m, a = scenario(1, M, False, "set")
bad += isinstance(c, bytes) and c != a
c, m, a = scenario(2, b"HEAD", False, "none")
bad += isinstance(c, bytes) and c != a
c, m, a = scenario(3, M, True, "rm")
bad += a is not None and m is None
shutil.rmtree(d, ignore_errors=True)
sys.exit(1 if bad else 0)
