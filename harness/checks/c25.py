"""C25 — log lists the requested history completely and consistently.

Mechanism: breezy/log.py: _calc_view_revisions, _linear_view_revisions,
_generate_all_revisions (delayed graph generation), _graph_view_revisions
(depth adjustment), reverse_by_depth, _rebase_merge_depth,
_get_revision_limits, _DefaultLogGenerator.iter_log_revisions (levels, limit),
_filter_revisions_touching_path, _make_delta_filter / _generate_deltas.

T2 (every run):
  (a) reverse_by_depth and _rebase_merge_depth (pure) against the Lean model on
      generated view lists: merge-sorted shapes, sub-ranges of them and
      arbitrary depth sequences; on the same lists the oracle's specification of
      the per-file filter (enclosing_expected, stepwise) and its well_nested
      against the Lean definitions the theorems are about (`enclosingExpected`,
      `stepwise`, `wellNested`);
  (b) real 2a branches with file contents (BranchBuilder, memory transport;
      generated histories with merges of merges, criss-cross, ghosts — also as
      left-most parents off the mainline —, second roots, files changed on both
      sides / taken from the other side / kept):
      _linear_view_revisions, _graph_view_revisions, _calc_view_revisions and
      whole log requests through _DefaultLogGenerator(**make_log_request_dict)
      for sampled (start, end, direction, levels, limit,
      exclude_common_ancestry), and _filter_revisions_touching_path on the real
      per-file graph, against the Lean model (`vd_C25`, built on the shared
      `mergeSort` of Model/C22.lean); the `(ghost, None, None)` tuple of a
      left-hand walk that runs into a ghost is modelled for
      _linear_view_revisions (`linearGhost`); calc / log requests whose walk
      reaches a ghost are answered E:Unsupported by the driver and skipped;
      every real complete view is checked to be `stepwise` and the Lean
      `enclosingExpected` is compared with the oracle's on it.
Oracle (independent of the model, from the raw parent dictionary and the
external merge_sort numbering): a full log lists every ancestor of the tip
exactly once with its dotted revno and depth; forward = an independent
tree-based reverse-by-depth of reverse; levels=1 lists exactly the left-hand
history; levels=k is the depth<k filter of levels=0; limit n is the n-prefix —
also together with a range (compared with the unlimited request of the same
range); a mainline range X..Y lists exactly ancestry(Y) - ancestry(left parent
of X) in merge-sorted order, its forward listing is the reverse-by-depth of its
reverse listing, and with levels=1 it lists exactly the left-hand segment at
depth 0; a range ending at a merged (dotted) revision lists a sub-sequence of
that set in merge-sorted order containing the whole left-hand segment, the
same set in both directions; a ghost met by a linear walk is reported as
(id, None, None) at the end; per-file log: neither generator fails where the
other lists the history; the mainline revisions listed by the
per-file-graph generator and by the delta-matching generator are the same, and
every revision that changed the file (compared with its left parent) is listed.

Findings (reported; see known_findings.json / fix: commits): the model follows the
code *with* the three fixes `fix-1..3` (forward delta matching, a start without
an end, _is_obvious_ancestor comparing one number); two families remain and are
classified from the concrete input by file_family():
  delta-matching-stops-at-merged-add, perfile-graph-lists-merge-keeping-this-text.
New (improvement round, left ghosts switched on): delta-matching-crashes-on-ghost-left-parent —
Repository.get_revision_deltas asks for the tree of a ghost left-most parent: `log FILE` by delta matching
(and `log -v`) dies with NoSuchRevision where the per-file graph lists the history.

Mutants this was built against (scratch worktree /var/tmp/wt-C25 with the fixes applied; see report):
  M1 reverse_by_depth: zd_revisions.reverse() dropped                                   -> oracle
  M2 reverse_by_depth: sub-chunks not reversed (recursion dropped)                      -> oracle
  M3 _rebase_merge_depth: `d - min_depth` -> `d - min_depth + 1`                        -> oracle
  M4 _graph_view_revisions: depth adjustment never reduced                              -> oracle (negative depth)
  M5 _linear_view_revisions: start revision dropped (`if not exclude_common_ancestry` inverted) -> oracle
  M6 _calc_view_revisions: forward linear view not reversed                             -> oracle
  M7 iter_log_revisions: `merge_depth >= self.levels` -> `>`                            -> oracle
  M8 iter_log_revisions: limit off by one (`log_count > self.limit`)                    -> oracle
  M9 _filter_revisions_touching_path: `del current_merge_stack[depth + 1:]` -> `[depth + 2:]` -> oracle
  M10 _generate_all_revisions: initial (delayed) revisions dropped from the chain       -> oracle
  M11 _graph_view_revisions: stop rule 'with-merges' -> 'include'                       -> oracle
  M13 _filter_revisions_touching_path: `node[2] == 0` -> `node[2] <= 1` without merges  -> oracle
  S1 (seeded by the coordinator) _filter_revisions_touching_path: merge stack popped one level instead of truncated
     to the current depth -> oracle (enclosing_expected) on generated nested-merge motifs and the pinned corpus case
  M14 _calc_view_revisions: a forward *range* is plainly reversed instead of reversed by depth  -> oracle (forward
      range vs reverse-by-depth of the reverse listing; before: set comparison only)
  M15 iter_log_revisions: the limit is ignored when a start revision is given            -> oracle (limit + range)
  M16 _linear_view_revisions: the ghost tuple is yielded with depth 0                    -> oracle (ghost tuple)
  H1 harmless: min() in _rebase_merge_depth replaced by a loop                          -> clean
  H3 harmless: `found_start = start_rev_id is None` -> `not start_rev_id`                -> clean
  H2 equivalent: reverse_by_depth `val[2] == _depth` -> `<=` (all depths are >= _depth there,
     theorem rbd_core) -> clean
"""
import random

from vlib import env
from checks import c22

THEOREMS = [
    "rbd_total", "rbd_perm", "rbd_length", "rbd_depth0_reversed", "rebase_shape",
    "view_complete_once", "forward_is_rbd_of_reverse", "level1_is_lefthand", "level1_numbers_agree_with_full",
    "level1_range", "levels_is_filter", "limit_is_prefix", "limit_is_prefix_request", "graph_view_sublist",
    "graph_view_sublist_any", "touching_contains_modified", "touching_members", "pushStack_discipline",
    "mergeSort_stepwise", "touching_eq_spec", "touching_full_view", "touching_lists_modified",
    "touching_listed_reason", "touching_sublist",
    "rbd_involution", "mergeSort_wellNested", "forward_reverse_involution",
]
RULE = ("case = (history DAG with file contents, tip, one request); requests: pure view lists for reverse_by_depth / "
        "_rebase_merge_depth; per history sampled (start, end, direction, levels, limit, exclude_common_ancestry) for the "
        "linear view, the graph view, _calc_view_revisions and whole log requests; every file for the per-file filter; "
        "non-trivial = the tip's ancestry contains a merged (depth > 0) revision and the reply is not an error; distinct by "
        "canonical (graph, tip, request)")
ASSUMPTIONS = list(c22.ASSUMPTIONS[:2]) + [
    "ghosts as left-most parents occur off the mainline only (the branch's own left-hand history never runs into "
    "one); a calc / log request whose left-hand walk reaches a ghost is outside the model (only "
    "_linear_view_revisions is modelled there: E:Unsupported, skipped)",
    "levels is an integer (the log command always sets it); exclude_common_ancestry without an end revision is not "
    "requested (find_unique_ancestors(None, ...) raises ValueError; the model answers E:Unsupported)",
]
TRUSTED = ["the set of revisions that modified a file is taken from the real per-file graph and handed to the model of "
           "_filter_revisions_touching_path; tree deltas are computed by the real repository"]

NULL = b"null:"
name = c22.name


# --------------------------------------------------------------------------
# pure part

def fmt_views(l):
    return ";".join("%s:%s:%s" % (r, "~" if n is None else n, "~" if d is None else d) for r, n, d in l) or "-"


def gen_views(rng):
    """(rev, revno string, depth) lists: merge-sorted shapes, ranges of them, arbitrary depths"""
    kind = rng.random()
    n = rng.randrange(0, 12)
    out = []
    d = 0
    for i in range(n):
        if kind < 0.6:
            d = 0 if i == 0 else max(0, min(d + rng.choice([-2, -1, -1, 0, 0, 1, 1]), 4))
        else:
            d = rng.randrange(0, 4)
        out.append((str(100 - i), "%d.%d.%d" % (i + 1, d + 1, 1) if d else str(n - i), d))
    if kind < 0.6 and out and rng.random() < 0.4:
        a = rng.randrange(len(out))
        out = out[a:rng.randrange(a, len(out)) + 1]
    return out


def forest_rbd(l, depth=0):
    """independent reverse-by-depth: group under each revision of the current
    depth what follows it at greater depth, reverse the groups, recurse"""
    groups = [[None, []]]
    for v in l:
        if v[2] == depth:
            groups.append([v, []])
        else:
            groups[-1][1].append(v)
    out = []
    for head, sub in reversed(groups):
        if head is not None:
            out.append(head)
        if sub:
            out.extend(forest_rbd(sub, depth + 1))
    return out


def well_nested(l, depth=0):
    if not l:
        return True
    if l[0][2] != depth:
        return False
    i = 0
    while i < len(l):
        j = i + 1
        while j < len(l) and l[j][2] != depth:
            j += 1
        if not well_nested(l[i + 1:j], depth + 1):
            return False
        i = j
    return True


def stepwise(l, n=1):
    """depths go up by at most one per step (first depth <= n); Lean: `stepwise`"""
    for v in l:
        if v[2] > n:
            return False
        n = v[2] + 1
    return True


def pure_part(ctx, n):
    from breezy import log
    cases, lines, impls = [], [], []
    for _ in range(n):
        l = gen_views(ctx.rng)
        case = dict(kind="rbd", views=[list(v) for v in l])
        try:
            r = log.reverse_by_depth(list(l))
            impl = fmt_views(r)
            if sorted(r) != sorted(l):
                ctx.violation(case, "reverse_by_depth is not a permutation: %r -> %r" % (l, r))
            if [v for v in r if v[2] == 0] != [v for v in l if v[2] == 0][::-1]:
                ctx.violation(case, "reverse_by_depth does not reverse the depth-0 revisions: %r -> %r" % (l, r))
            if r != forest_rbd(l):
                ctx.violation(case, "reverse_by_depth differs from grouping by depth: %r -> %r" % (l, r))
            if well_nested(l) and log.reverse_by_depth(list(r)) != l:
                ctx.violation(case, "reverse_by_depth is not an involution on the well-nested %r" % (l,))
        except RecursionError:
            impl = "E:Recursion"
        ctx.case(case, nontrivial=any(v[2] for v in l))
        ctx.count("rbd:well-nested" if well_nested(l) else "rbd:other")
        cases.append(case); lines.append("rbd " + fmt_views(l)); impls.append(impl)
        case2 = dict(kind="rebase", views=[list(v) for v in l])
        r2 = log._rebase_merge_depth(list(l))
        if [(a, b) for a, b, _ in r2] != [(a, b) for a, b, _ in l]:
            ctx.violation(case2, "_rebase_merge_depth changes revisions: %r -> %r" % (l, r2))
        if l:
            sh = {a[2] - b[2] for a, b in zip(l, r2)}
            if len(sh) != 1 or min(v[2] for v in r2) < 0:
                ctx.violation(case2, "_rebase_merge_depth does not shift all depths alike: %r -> %r" % (l, r2))
            if l[0][2] and l[-1][2] and min(v[2] for v in r2) != 0:
                ctx.violation(case2, "_rebase_merge_depth leaves the top level at %d" % min(v[2] for v in r2))
        ctx.case(case2, nontrivial=bool(l) and r2 != l)
        cases.append(case2); lines.append("rebase " + fmt_views(l)); impls.append(fmt_views(r2))
        # the specification the per-file oracle uses (enclosing_expected) is the one the theorems are about
        # (`enclosingExpected`, `stepwise`): same function on arbitrary views
        mod = sorted({int(v[0]) for v in l if ctx.rng.random() < 0.3})
        inc = ctx.rng.random() < 0.5
        case3 = dict(kind="enclosing", views=[list(v) for v in l], mod=mod, inc=inc)
        ctx.case(case3, nontrivial=bool(mod) and any(v[2] for v in l))
        cases.append(case3)
        lines.append("enclosing %s %s %s" % (",".join(map(str, mod)) or "-", "T" if inc else "F", fmt_views(l)))
        impls.append(fmt_views(enclosing_expected(l, set(mod), inc)))
        case4 = dict(kind="stepwise", views=[list(v) for v in l])
        ctx.case(case4, nontrivial=any(v[2] for v in l))
        cases.append(case4); lines.append("stepwise " + fmt_views(l)); impls.append("T" if stepwise(l) else "F")
        # ... and the hypothesis of rbd_involution (`wellNested`) is the oracle's well_nested
        case5 = dict(kind="wellnested", views=[list(v) for v in l])
        ctx.case(case5, nontrivial=any(v[2] for v in l))
        cases.append(case5); lines.append("wellnested " + fmt_views(l)); impls.append("T" if well_nested(l) else "F")
    ctx.diff(cases, lines, impls)


# --------------------------------------------------------------------------
# worlds with file contents

FILES = ["f0", "f1", "f2"]


def gen_fworld(rng, nmax):
    n = rng.choice([1, 2, 3]) if rng.random() < 0.06 else rng.randrange(3, nmax + 1)
    g = c22.gen_graph(rng, n, left_ghosts=rng.random() < 0.4)
    gi = c22.GI(g)
    r = rng.random()
    if r < 0.03:
        tip = None
    elif r < 0.70:
        tip = max(range(n), key=lambda x: (len(gi.panc(x)), x))
    elif r < 0.85:
        tip = n - 1
    else:
        tip = rng.randrange(n)
    # motif: a side branch whose FIRST own commit is itself a merge (nested 2 or 3 deep), merged into the
    # mainline: the merge-sorted view then drops two or more depth levels in one step
    #     p --- M          M = merge(p, B), B = merge(p, C), C = commit on p   ->   M(0) B(1) C(2) p(0)
    motif = []
    if tip is not None and rng.random() < 0.55:
        p = tip
        depth = rng.choice([2, 2, 3])
        inner = None
        for _ in range(depth):
            k = len(g)
            g[k] = (p,) if inner is None else (p, inner)
            motif.append(k)
            inner = k
        k = len(g)
        g[k] = (p, inner)
        motif.append(k)
        tip = k
        for _ in range(rng.choice([0, 0, 1, 2])):      # plain commits on top
            k = len(g)
            g[k] = (tip,)
            tip = k
        n = len(g)
    # ghosts as left-most parents only off the mainline (the branch's own history never runs into one)
    x = tip
    while x is not None and g[x]:
        if g[x][0] not in g:
            g[x] = tuple(g[x][1:])       # ... and look again: the next parent is the left-most one now
            continue
        x = g[x][0]
    # how often each file is touched by a plain commit: one busy file, one quiet file
    probs = dict(zip(FILES, rng.sample([0.5, 0.25, 0.07], 3)))
    # file contents per node: content[i][f]
    content = {}
    for i in range(n):
        ps = [p for p in g[i] if p in g]
        if not g[i] or g[i][0] not in g:
            cur = {f: "%s@%d" % (f, i) for f in FILES}
        else:
            left = content[g[i][0]]
            cur = dict(left)
            for q in ps[1:]:
                for f in FILES:
                    if content[q][f] != left[f] and cur[f] == left[f]:
                        x = rng.random()
                        if x < 0.65:
                            cur[f] = content[q][f]        # take the other side's change
                        elif x < 0.80:
                            cur[f] = "%s@%d" % (f, i)     # resolve to something new
                        # else: keep this side's text
            if i in motif:
                # the nested merges touch at most one file each
                if rng.random() < 0.6:
                    f = rng.choice(FILES)
                    cur[f] = "%s@%d" % (f, i)
            else:
                for f in FILES:
                    if rng.random() < (probs[f] if len(ps) == 1 else probs[f] / 4):
                        cur[f] = "%s@%d" % (f, i)
        content[i] = cur
    return dict(g={str(k): list(v) for k, v in g.items()}, tip=tip,
                content={str(k): v for k, v in content.items()}, qseed=rng.randrange(1 << 30))


def enclosing_expected(views, mod, include_merges):
    """independent statement of _filter_revisions_touching_path on a merge-sorted view: a revision is listed
    iff it modified the file or one of the revisions grouped under it (the following ones of greater depth)
    did; without merges only the depth-0 ones"""
    out = []
    for i, v in enumerate(views):
        keep = int(v[0]) in mod
        j = i + 1
        while not keep and j < len(views) and views[j][2] > v[2]:
            keep = int(views[j][0]) in mod
            j += 1
        if keep and (include_merges or v[2] == 0):
            out.append(v)
    return out


class FWorld:
    def __init__(self, w):
        from breezy.branchbuilder import BranchBuilder
        from breezy.controldir import format_registry
        from dromedary.memory import MemoryTransport
        self.w = w
        self.g = c22.world_graph(w)
        g = self.g
        FWorld.counter = getattr(FWorld, "counter", 0) + 1
        t = MemoryTransport("memory:///c25-%d/" % FWorld.counter)
        bb = BranchBuilder(t, format=format_registry.make_controldir("2a"))
        bb.start_series()
        depth_of = {}
        for k in sorted(g):
            ps = [name(g, p) for p in g[k]]
            cur = w["content"][str(k)]
            if not g[k] or g[k][0] not in g:
                actions = [("add", ("", b"root-id", "directory", None))]
                actions += [("add", (f, f.encode() + b"-id", "file", cur[f].encode())) for f in FILES]
            else:
                left = w["content"][str(g[k][0])]
                actions = [("modify", (f, cur[f].encode())) for f in FILES if cur[f] != left[f]]
            # BranchBuilder moves the branch pointer through find_distance_to_null, which fails on lines of
            # development that start at a ghost: move it directly (the revno is only a counter here)
            left = g[k][0] if g[k] and g[k][0] in g else None
            self._move(bb, NULL if left is None else name(g, left), 0 if left is None else depth_of[left])
            depth_of[k] = 1 if left is None else depth_of[left] + 1
            bb.build_snapshot(ps, actions, revision_id=name(g, k), allow_leftmost_as_ghost=left is None and bool(g[k]))
        bb.finish_series()
        self.branch = bb.get_branch()
        self.branch.generate_revision_history(NULL if w["tip"] is None else name(g, w["tip"]))


    @staticmethod
    def _move(bb, rev_id, revno):
        if bb._branch.last_revision() == rev_id:
            return
        with bb._branch.lock_write():
            bb._branch.set_last_revision_info(revno, rev_id)
        new_tree = bb._branch.create_memorytree()
        new_tree.lock_write()
        bb._tree.unlock()
        bb._tree = new_tree


def rid(g, x):
    return None if x is None else name(g, x)


def info_of(b, rev_id):
    from breezy.revisionspec import RevisionInfo
    return None if rev_id is None else RevisionInfo.from_revision_id(b, rev_id)


def canon_views(l):
    out = []
    for r, n, d in l:
        out.append((r[1:].decode(), None if n is None else str(n), d))
    return out


def run_request(b, g, q):
    """-> (canonical string, structured) for one request against the real code"""
    from breezy import errors, log
    k = q[0]
    try:
        if k == "linear":
            _, s, e, x = q
            try:
                l = canon_views(list(log._linear_view_revisions(b, rid(g, s), rid(g, e), exclude_common_ancestry=x)))
            except log._StartNotLinearAncestor:
                return "E:StartNotLinearAncestor", None
            return fmt_views(l), l
        if k == "graph":
            _, s, e, rb, x = q
            l = canon_views(list(log._graph_view_revisions(b, rid(g, s), rid(g, e), rebase_initial_depths=rb,
                                                           exclude_common_ancestry=x)))
            return fmt_views(l), l
        if k == "calc":
            _, s, e, d, gm, dl, x = q
            l = canon_views(list(log._calc_view_revisions(b, rid(g, s), rid(g, e), "forward" if d == "f" else "reverse",
                                                          gm, delayed_graph_generation=dl, exclude_common_ancestry=x)))
            return fmt_views(l), l
        if k == "log":
            _, s, e, d, lv, lim, x = q
            rq = log.make_log_request_dict(direction="forward" if d == "f" else "reverse",
                                           start_revision=info_of(b, rid(g, s)), end_revision=info_of(b, rid(g, e)),
                                           limit=lim or None, levels=lv, exclude_common_ancestry=x, generate_tags=False)
            gen = log._DefaultLogGenerator(b, **rq)
            l = canon_views([(lr.rev.revision_id, lr.revno, lr.merge_depth) for lr in gen.iter_log_revisions()])
            return fmt_views(l), l
        if k == "filelog":
            _, path, d, lv, deltas = q
            rq = log.make_log_request_dict(direction="forward" if d == "f" else "reverse", specific_files=[path],
                                           levels=lv, generate_tags=False, _match_using_deltas=deltas)
            gen = log._DefaultLogGenerator(b, **rq)
            l = canon_views([(lr.rev.revision_id, lr.revno, lr.merge_depth) for lr in gen.iter_log_revisions()])
            return fmt_views(l), l
        if k == "touch":
            _, path, inc = q
            views = list(log._calc_view_revisions(b, None, None, "reverse", True))
            if not views:
                return "-", ([], [], [])
            graph = b.repository.get_file_graph()
            fid = b.repository.revision_tree(views[0][0]).path2id(path)
            mod = sorted(int(k_[1][1:]) for k_ in graph.get_parent_map([(fid, v[0]) for v in views]))
            l = canon_views(log._filter_revisions_touching_path(b, path, views, include_merges=inc))
            return fmt_views(l), (canon_views(views), mod, l)
    except errors.CommandError:
        return "E:CommandError", None
    except log._StartNotLinearAncestor:
        return "E:StartNotLinearAncestor", None
    except Exception as e:
        return c22.err(e), None
    raise ValueError(q)


def model_line(w, q, extra=None):
    g = c22.world_graph(w)
    p = "%s %s" % (c22.enc_graph(g), "~" if w["tip"] is None else w["tip"])
    o = lambda x: "~" if x is None else str(x)
    tf = lambda x: "T" if x else "F"
    k = q[0]
    if k == "linear":
        return "linear %s %s %s %s" % (p, o(q[1]), o(q[2]), tf(q[3]))
    if k == "graph":
        return "graph %s %s %s %s %s" % (p, o(q[1]), o(q[2]), tf(q[3]), tf(q[4]))
    if k == "calc":
        return "calc %s %s %s %s %s %s %s" % (p, o(q[1]), o(q[2]), q[3], tf(q[4]), tf(q[5]), tf(q[6]))
    if k == "log":
        return "log %s %s %s %s %d %d %s" % (p, o(q[1]), o(q[2]), q[3], q[4], q[5], tf(q[6]))
    if k == "touch" and extra is not None:
        views, mod, _ = extra
        return "touch %s %s %s" % (",".join(map(str, mod)) or "-", tf(q[2]), fmt_views(views))
    return None


def spec_lines(q, extra):
    """(model line, expected reply) pairs tying the Lean specification of the per-file filter to the oracle's:
    the real complete view is stepwise, and `enclosingExpected` = enclosing_expected on it"""
    views, mod, _ = extra
    tf = lambda x: "T" if x else "F"
    return [("stepwise " + fmt_views(views), tf(stepwise(views))),
            ("enclosing %s %s %s" % (",".join(map(str, mod)) or "-", tf(q[2]), fmt_views(views)),
             fmt_views(enclosing_expected(views, set(mod), q[2])))]


def gen_requests(w, rng, per):
    g = c22.world_graph(w)
    n = len(g)
    nodes = [None] + list(range(n))
    qs = []

    def pick():
        return rng.choice(nodes) if rng.random() < 0.85 else None

    seen = set()
    for _ in range(per["range"]):
        s, e = pick(), pick()
        x = rng.random() < 0.15
        d = rng.choice("rf")
        for q in (("linear", s, e, x), ("graph", s, e, rng.random() < 0.5, x),
                  ("calc", s, e, d, rng.random() < 0.7, rng.random() < 0.5, x),
                  ("log", s, e, d, rng.choice([0, 0, 1, 1, 2, 3]), rng.choice([0, 0, 0, 1, 2, 5]), x)):
            if q[0] in ("graph",) and x and e is None:
                continue
            if q not in seen:
                seen.add(q)
                qs.append(q)
    # the full logs in every combination
    for d in "rf":
        for lv in (0, 1, 2):
            for lim in (0, 2):
                q = ("log", None, None, d, lv, lim, False)
                if q not in seen:
                    seen.add(q); qs.append(q)
    if w["tip"] is not None:
        for f in FILES:
            for inc in (True, False):
                qs.append(("touch", f, inc))
            for d in "rf":
                for lv in (0, 1):
                    for deltas in (False, True):
                        qs.append(("filelog", f, d, lv, deltas))
    return qs


# --------------------------------------------------------------------------
# oracle

def oracle(w, gi, facts, q, res, results, extra_run=None, sres=None):
    g = gi.g
    tip = w["tip"]
    bad = []
    k = q[0]
    full, numbering, lh = facts["full"], facts["numbering"], facts["lh"]
    anc_tip = facts["anc"]
    nm = lambda x: name(g, x)[1:].decode()
    if k in ("log", "calc", "graph", "linear") and res is not None:
        revs = [v[0] for v in res]
        if len(set(revs)) != len(revs):
            bad.append("a revision is listed twice: %r" % (revs,))
        for r, n_, d in res:
            i = int(r)
            node = i if i < len(g) else None
            if node is not None and node in numbering:
                exp = ".".join(map(str, numbering[node]))
                if n_ != exp:
                    bad.append("revision r%s is listed with revno %r, its dotted revno is %s" % (r, n_, exp))
    if k == "linear" and res is not None:
        for i_, (r, n_, d_) in enumerate(res):
            if int(r) >= len(g):
                # a ghost met on the left-hand walk: reported without revno and depth, and the walk ends there
                if n_ is not None or d_ is not None or i_ != len(res) - 1:
                    bad.append("the linear view reports the ghost r%s as %r (position %d of %d)"
                               % (r, (n_, d_), i_ + 1, len(res)))
            elif d_ != 0:
                bad.append("the linear view lists r%s at depth %r" % (r, d_))
    if k in ("log", "filelog") and res:
        lv_ = q[4] if k == "log" else q[3]
        if any(v[2] is not None and v[2] < 0 for v in res):
            bad.append("a revision is listed with a negative merge depth: %r" % (res,))
        if lv_ and any(v[2] is not None and v[2] >= lv_ for v in res):
            bad.append("levels=%d lists a revision of depth >= %d: %r" % (lv_, lv_, res))
        if k == "log" and q[3] == "r" and res[0][2] not in (0, None):
            bad.append("the newest revision of a reverse log is shown at depth %r: %r" % (res[0][2], res))
    if k == "log" and res is not None:
        _, s, e, d, lv, lim, x = q
        if s is None and e is None and not x:
            unlimited = results.get(("log", None, None, d, lv, 0, False))
            if lim and unlimited is not None and res != unlimited[:lim]:
                bad.append("limit %d is not the prefix of the unlimited log: %r vs %r" % (lim, res, unlimited[:lim]))
            if lim == 0:
                if lv == 0:
                    exp = [(nm(a), ".".join(map(str, r_)), dd) for a, dd, r_ in full]
                    if d == "f":
                        exp = forest_rbd(exp)
                    if res != exp:
                        bad.append("full %s log differs from the merge-sorted ancestry: %r vs %r" %
                                   ("forward" if d == "f" else "reverse", res, exp))
                    if sorted(int(v[0]) for v in res) != sorted(anc_tip):
                        bad.append("full log does not list the ancestry exactly once")
                elif lv == 1:
                    exp = [(nm(a), str(i + 1), 0) for i, a in enumerate(lh)]
                    if d == "r":
                        exp = exp[::-1]
                    if res != exp:
                        bad.append("levels=1 log is not the left-hand history: %r vs %r" % (res, exp))
                else:
                    base = results.get(("log", None, None, d, 0, 0, False))
                    if base is not None and res != [v for v in base if v[2] < lv]:
                        bad.append("levels=%d log is not the depth filter of the complete log" % lv)
        elif lim == 0 and not x and tip is not None:
            # a range whose end is any revision of the branch (mainline or dotted) and whose start is a
            # left-hand ancestor of the end
            ee = tip if e is None else e
            lhe = gi.lefthand(ee) if ee in anc_tip else []
            if lhe and (s is None or s in lhe) and lv in (0, 1):
                kind_ = "mainline" if ee in lh else "dotted"
                if lv == 1:
                    lo = 0 if s is None else lhe.index(s)
                    exp = [nm(a) for a in lhe[lo:]]
                    if d == "r":
                        exp = exp[::-1]
                    if [v[0] for v in res] != exp:
                        bad.append("levels=1 %s range %r..%r lists %r, expected the left-hand ancestry %r"
                                   % (kind_, s, e, [v[0] for v in res], exp))
                    if any(v[2] != 0 for v in res):
                        bad.append("levels=1 range %r..%r lists a revision at a depth other than 0: %r" % (s, e, res))
                else:
                    keep = gi.panc(ee)
                    if s is not None:
                        lp = g[s][0] if g[s] else None
                        if lp is not None and lp in g:
                            keep = keep - gi.panc(lp)
                    exp = [nm(a) for a, dd, r_ in full if a in keep]
                    got = [v[0] for v in res]
                    if ee in lh:
                        if d == "r" and got != exp:
                            bad.append("range %r..%r lists %r, expected ancestry(end) - ancestry(left parent of start) = %r"
                                       % (s, e, got, exp))
                        if d == "f" and sorted(got) != sorted(exp):
                            bad.append("forward range %r..%r lists %r, expected the set %r" % (s, e, sorted(got), sorted(exp)))
                    else:
                        # the end is a merged revision: what it merged from older lines of development is numbered
                        # (and listed) with those lines, so only bounds are fixed: nothing outside
                        # ancestry(end) - ancestry(left parent of start), all of the left-hand segment, in
                        # merge-sorted order, and the same set in both directions
                        it = iter(exp)
                        if d == "r" and not all(x in it for x in got):
                            bad.append("dotted range %r..%r lists %r, which is not a sub-sequence of ancestry(end) - "
                                       "ancestry(left parent of start) in merge-sorted order %r" % (s, e, got, exp))
                        if not set(got) <= set(exp):
                            bad.append("dotted range %r..%r lists %r outside ancestry(end) - ancestry(left parent of start)"
                                       % (s, e, sorted(set(got) - set(exp))))
                        seg = [nm(a) for a in lhe[(0 if s is None else lhe.index(s)):]]
                        if not set(seg) <= set(got):
                            bad.append("dotted range %r..%r does not list the left-hand revisions %r"
                                       % (s, e, sorted(set(seg) - set(got))))
                        if d == "f" and extra_run is not None:
                            _, rres = extra_run(("log", s, e, "r", lv, 0, False))
                            if rres is not None and sorted(v[0] for v in rres) != sorted(got):
                                bad.append("dotted range %r..%r: forward lists %r, reverse lists %r"
                                           % (s, e, sorted(got), sorted(v[0] for v in rres)))
                    if d == "f" and ee in lh and extra_run is not None:
                        # forward = reverse-by-depth of the reverse listing of the same range (the end is on the
                        # mainline: no depth rebasing on either side)
                        _, rres = extra_run(("log", s, e, "r", lv, 0, False))
                        if rres is not None and res != forest_rbd(rres):
                            bad.append("forward range %r..%r is not the reverse-by-depth of the reverse listing: %r vs %r"
                                       % (s, e, res, forest_rbd(rres)))
        elif lim and tip is not None and extra_run is not None:
            # a limit together with a range (or exclude_common_ancestry): the prefix of the unlimited request
            _, ures = extra_run(("log", s, e, d, lv, 0, x))
            if ures is not None and res != ures[:lim]:
                bad.append("limit %d with the range %r..%r is not the prefix of the unlimited listing: %r vs %r"
                           % (lim, s, e, res, ures[:lim]))
    if k in ("log", "calc") and sres == "E:StartNotLinearAncestor":
        bad.append(("the internal exception _StartNotLinearAncestor escapes from the request %r" % (q,), None))
    if k == "log" and q[1] is not None and q[2] is None and tip is not None and extra_run is not None:
        # a request with a start but no end means "up to the tip"
        s2, res2 = extra_run(("log", q[1], tip) + tuple(q[3:]))
        if res2 is not None and res != res2:
            bad.append(("log from r%s without an end revision gives %s, with the tip as explicit end %s"
                        % (q[1], "an error" if res is None else fmt_views(res), fmt_views(res2)),
                        None))
    if k == "filelog" and res is not None and not q[4]:
        # the per-file-graph generator: exactly the view revisions that modified the file or merge one that did
        _, path, d, lv, _ = q
        tr = results.get(("touch", path, True))
        view = results.get(("log", None, None, d, 0, 0, False))
        if tr is not None and view is not None:
            exp = enclosing_expected(view, set(tr[1]), lv != 1)
            if [v[0] for v in res] != [v[0] for v in exp]:
                bad.append(("per-file-graph log of %s (%s, levels=%d) lists %r; the revisions that modified it (%r) or "
                            "merge such a revision are %r" % (path, "forward" if d == "f" else "reverse", lv,
                                                              [v[0] for v in res], tr[1], [v[0] for v in exp]), None))
    if k == "filelog" and q[4] and ("filelog", q[1], q[2], q[3], False) in results:
        # one generator fails where the other lists the file's history
        _, path, d, lv, deltas = q
        other = results[("filelog", path, d, lv, False)]
        if (res is None) != (other is None):
            fam = None
            if (res is None and sres == "E:NoSuchRevision"
                    and any(g[a] and g[a][0] not in g for a in anc_tip)):
                # Repository.get_revision_deltas asks for the tree of a ghost left-most parent
                fam = "delta-matching-crashes-on-ghost-left-parent"
            bad.append(("log of %s (%s, levels=%d): delta matching %s, the per-file graph %s"
                        % (path, "forward" if d == "f" else "reverse", lv,
                           ("fails with " + str(sres)) if res is None else "lists %r" % [v[0] for v in res],
                           "fails" if other is None else "lists %r" % [v[0] for v in other]), fam))
    if k == "filelog" and res is not None:
        _, path, d, lv, deltas = q
        cont = w["content"]
        other = results.get(("filelog", path, d, lv, not deltas))
        main_d = main_g = None
        if other is not None and deltas:
            main_d = [v[0] for v in res if v[2] == 0]
            main_g = [v[0] for v in other if v[2] == 0]
            if main_d != main_g:
                bad.append(("log of %s (%s, levels=%d): mainline revisions by delta matching %r, by per-file graph %r"
                            % (path, "forward" if d == "f" else "reverse", lv, main_d, main_g),
                            file_family(w, gi, facts, q, main_d, main_g, results)))
        # every mainline revision that changed the file against its left parent is listed
        changed = []
        for a in lh:
            lp = g[a][0] if g[a] and g[a][0] in g else None
            if lp is None or cont[str(a)][path] != cont[str(lp)][path]:
                changed.append(nm(a))
        listed = [v[0] for v in res]
        missing = [c for c in changed if c not in listed]
        if missing:
            fam = None
            if deltas:
                fam = file_family(w, gi, facts, q, [x for x in changed if x in listed], changed, results)
            bad.append(("log of %s (%s, levels=%d, %s) does not list the mainline revisions %r that changed it"
                        % (path, "forward" if d == "f" else "reverse", lv, "deltas" if deltas else "per-file graph", missing),
                        fam))
    return [b_ if isinstance(b_, tuple) else (b_, None) for b_ in bad]


def file_family(w, gi, facts, q, got, expected, results=None):
    """family slug of a per-file log discrepancy, computed from the concrete case:
    `got` = mainline revisions listed by delta matching, `expected` = by the per-file graph / by content"""
    g = gi.g
    _, path, d, lv, deltas = q
    cont = w["content"]
    lh = facts["lh"]
    order = [c22.name(g, a)[1:].decode() for a in (lh if d == "f" else lh[::-1])]
    exp_sorted = [x for x in order if x in expected]
    got_sorted = [x for x in order if x in got]
    only_exp = [x for x in exp_sorted if x not in got]
    only_got = [x for x in got_sorted if x not in expected]
    if only_got:
        return None
    def keeps_this(x):
        # a mainline merge whose text is its left parent's (the tree delta does not touch the file) while the
        # per-file graph has a node for it or for a revision it merged
        a = int(x)
        ps = [p for p in g[a] if p in g]
        if not (len(ps) >= 2 and cont[str(a)][path] == cont[str(ps[0])][path]):
            return False
        # ... and the real per-file graph has a node for it or for a revision it merged
        tr = (results or {}).get(("touch", path, True))
        if tr is None:
            return False
        mod = set(tr[1])
        return a in mod or bool((gi.panc(a) - gi.panc(ps[0])) & mod)

    if all(keeps_this(x) for x in only_exp):
        return "perfile-graph-lists-merge-keeping-this-text"
    if d == "f":
        return None
    # delta matching stops at the first revision that *adds* the path: a root that is not the mainline's own
    roots_off = [a for a in facts["anc"] if (not g[a] or g[a][0] not in g) and a not in lh]
    rest = [x for x in only_exp if not keeps_this(x)]
    if roots_off and got_sorted == [x for x in exp_sorted if x in got] and all(
            order.index(x) > max([order.index(y) for y in got_sorted] or [-1]) for x in rest):
        return "delta-matching-stops-at-merged-add"
    return None


def run_fworld(args):
    w, per = args
    rng = random.Random(w["qseed"])
    g = c22.world_graph(w)
    gi = c22.GI(g)
    tip = w["tip"]
    from vcsgraph.known_graph import KnownGraph
    ms = list(KnownGraph({k: tuple(v) for k, v in g.items()}).merge_sort(tip)) if tip is not None else []
    facts = dict(lh=gi.lefthand(tip) if tip is not None else [],
                 numbering={x.key: tuple(x.revno) for x in ms},
                 anc=sorted(gi.panc(tip)) if tip is not None else [],
                 full=[(x.key, x.merge_depth, tuple(x.revno)) for x in ms])
    world = FWorld(w)
    b = world.branch
    out = []
    results = {}
    qs = gen_requests(w, rng, per)
    # the unlimited full logs first: other requests are compared with them
    qs.sort(key=lambda q: 0 if (q[0] == "log" and q[1] is None and q[2] is None and q[5] == 0) else 1)
    b.lock_read()
    try:
        for q in qs:
            s, res = run_request(b, g, q)
            if q[0] in ("log", "filelog", "touch"):
                results[q] = res
            extra = res if q[0] == "touch" else None
            if q[0] == "touch":
                fails = []
                if res is not None:
                    views, mod, l = res
                    if not q[2] and any(v[2] for v in l):
                        fails.append(("without merges a merged revision is listed for %s: %r" % (q[1], l), None))
                    exp = enclosing_expected(views, set(mod), q[2])
                    if l != exp:
                        fails.append(("revisions touching %s (modified in %r): listed %r, but exactly %r modified it or "
                                      "merge a revision that did" % (q[1], mod, [v[0] for v in l], [v[0] for v in exp]), None))
                    if inc_missing(q, views, mod, l):
                        fails.append(("a revision that modified %s is not in the filtered list: %r" % (q[1], inc_missing(q, views, mod, l)), None))
                    if not stepwise(views):
                        fails.append(("the complete view of the branch is not stepwise (a depth goes up by more than one): %r"
                                      % (views,), None))
            else:
                fails = oracle(w, gi, facts, q, res, results, extra_run=lambda qq: run_request(b, g, qq), sres=s)
            out.append((q, s, fails, model_line(w, q, extra)))
            if q[0] == "touch" and res is not None and res[0]:
                for line, expect in spec_lines(q, res):
                    out.append((("spec", line), expect, [], line))
    finally:
        b.unlock()
    return dict(w=w, merged=any(x.merge_depth > 0 for x in ms), results=out)


def inc_missing(q, views, mod, l):
    if not q[2]:
        return []
    listed = {v[0] for v in l}
    return [m for m in mod if str(m) not in listed and str(m) in {v[0] for v in views}]


def run_corpus(ctx):
    """minimised past failures first (corpus/C25/*.json): the fixed families must stay fixed"""
    import glob
    import json
    import os
    for f in sorted(glob.glob(os.path.join(env.VERIF, "corpus", "C25", "*.json"))):
        case = json.load(open(f))
        r = replay(ctx, case)
        ctx.case(dict(corpus=os.path.basename(f)), nontrivial=True)
        ctx.count("corpus")
        if r.get("model") is not None:
            ctx.traces += 1
            if not r["agree"]:
                ctx.mismatch(case, r["impl"], r["model"], line="corpus:" + os.path.basename(f))


def run(ctx, nworlds=None):
    import os
    os.chdir(env.scratch())
    run_corpus(ctx)
    pure_part(ctx, ctx.pick(2200, 20000))
    nworlds = nworlds or ctx.pick(44, 320)
    per = dict(range=ctx.pick(40, 110))
    nmax = ctx.pick(12, 14)
    worlds = [gen_fworld(ctx.rng, nmax) for _ in range(nworlds)]
    results = ctx.pmap(run_fworld, [(w, per) for w in worlds], chunksize=1)
    cases, lines, impls = [], [], []
    for r in results:
        w = r["w"]
        ctx.count("world-size:%d" % (len(w["g"]) // 3 * 3))
        ctx.count("world-merged" if r["merged"] else "world-linear")
        for q, s, fails, line in r["results"]:
            if q[0] == "spec":
                case = dict(kind="spec", line=line, expect=s)
                ctx.case(case, nontrivial=r["merged"])
                ctx.count("q:spec")
                cases.append(case); lines.append(line); impls.append(s)
                continue
            case = dict(g=w["g"], tip=w["tip"], content=w["content"], q=list(q))
            for f, fam in fails:
                ctx.violation(case, f, family=fam)
            ctx.case(dict(g=w["g"], tip=w["tip"], q=list(q)), nontrivial=r["merged"] and not s.startswith("E:"))
            ctx.count("q:" + q[0])
            if s.startswith("E:"):
                ctx.count(q[0] + "-" + s)
            if q[0] == "log":
                ctx.count("log-levels:%d" % q[4]); ctx.count("log-dir:" + q[3])
                if q[1] is not None or q[2] is not None:
                    ctx.count("log-range-limit" if q[5] else "log-range")
            if q[0] == "linear" and s.endswith(":~:~"):
                ctx.count("linear-ghost-tuple")
            if line is not None:
                cases.append(case); lines.append(line); impls.append(s)
    outs = ctx.model(lines)
    for c, l, i, m in zip(cases, lines, impls, outs):
        if "E:Unsupported" in m:
            ctx.count("model-unsupported")
            continue
        ctx.traces += 1
        if i != m:
            ctx.mismatch(c, i, m, line=l)
    # unclassified violations first: a pending / known family must not hide them
    ctx.violations.sort(key=lambda v: v["family"] is not None)


def widen(ctx):
    run(ctx, nworlds=120)


def replay(ctx, case):
    from breezy import log
    if case.get("kind") == "spec":
        m = ctx.model([case["line"]])[0]
        return dict(impl=case["expect"], model=m, agree=case["expect"] == m)
    if case.get("kind") in ("enclosing", "stepwise", "wellnested"):
        l = [tuple(v) for v in case["views"]]
        if case["kind"] == "stepwise":
            line, impl = "stepwise " + fmt_views(l), "T" if stepwise(l) else "F"
        elif case["kind"] == "wellnested":
            line, impl = "wellnested " + fmt_views(l), "T" if well_nested(l) else "F"
        else:
            line = "enclosing %s %s %s" % (",".join(map(str, case["mod"])) or "-", "T" if case["inc"] else "F",
                                           fmt_views(l))
            impl = fmt_views(enclosing_expected(l, set(case["mod"]), case["inc"]))
        m = ctx.model([line])[0]
        return dict(impl=impl, model=m, agree=impl == m)
    if case.get("kind") in ("rbd", "rebase"):
        l = [tuple(v) for v in case["views"]]
        if case["kind"] == "rbd":
            impl = fmt_views(log.reverse_by_depth(list(l)))
        else:
            impl = fmt_views(log._rebase_merge_depth(list(l)))
        m = ctx.model(["%s %s" % (case["kind"], fmt_views(l))])[0]
        return dict(impl=impl, model=m, agree=impl == m)
    w = dict(g=case["g"], tip=case["tip"], content=case["content"], qseed=0)
    q = tuple(case["q"])
    g = c22.world_graph(w)
    gi = c22.GI(g)
    tip = w["tip"]
    from vcsgraph.known_graph import KnownGraph
    ms = list(KnownGraph({k: tuple(v) for k, v in g.items()}).merge_sort(tip)) if tip is not None else []
    facts = dict(lh=gi.lefthand(tip) if tip is not None else [],
                 numbering={x.key: tuple(x.revno) for x in ms},
                 anc=sorted(gi.panc(tip)) if tip is not None else [],
                 full=[(x.key, x.merge_depth, tuple(x.revno)) for x in ms])
    world = FWorld(w)
    b = world.branch
    results = {}
    with b.lock_read():
        # the requests the oracle compares with
        base = [("log", None, None, d, lv, 0, False) for d in "rf" for lv in (0, 1, 2)]
        if q[0] == "filelog":
            base.append(("touch", q[1], True))
            base.append(("filelog", q[1], q[2], q[3], not q[4]))
        for bq in base:
            results[bq] = run_request(b, g, bq)[1]
        s, res = run_request(b, g, q)
        if q[0] == "touch":
            fails = []
            if res is not None and inc_missing(q, *res):
                fails.append(("a revision that modified %s is not in the filtered list: %r" % (q[1], inc_missing(q, *res)), None))
            if res is not None and res[0]:
                exp = enclosing_expected(res[0], set(res[1]), q[2])
                if res[2] != exp:
                    fails.append(("revisions touching %s (modified in %r): listed %r, but exactly %r modified it or merge "
                                  "a revision that did" % (q[1], res[1], [v[0] for v in res[2]], [v[0] for v in exp]), None))
        else:
            fails = oracle(w, gi, facts, q, res, results, extra_run=lambda qq: run_request(b, g, qq), sres=s)
    line = model_line(w, q, res if q[0] == "touch" else None)
    m = ctx.model([line])[0] if line else None
    for f, fam in fails:
        ctx.violation(case, f, family=fam)
    return dict(query=list(q), impl=s, model=m, agree=(m is None or s == m or "E:Unsupported" in m),
                oracle_failures=[f for f, fam in fails], families=[fam for f, fam in fails])
