import BreezyVerif.Lemmas.C15
/-!
C15 — tree-level lemmas: well-formedness only looks at the skeleton of a tree
(presence, parent, name, is-a-directory), what shelving everything / nothing
leaves per id, and shelves keeping their payload.
-/
namespace BreezyVerif.C15

/-- the part of an entry that well-formedness looks at -/
def skel : Option Entry → Option (Option Id × Nat × Bool)
  | some e => some (e.parent, e.name, e.kind == .dir)
  | none => none

theorem skel_isSome (x y : Option Entry) (h : skel x = skel y) : x.isSome = y.isSome := by
  cases x <;> cases y <;> simp_all [skel]

theorem reachesRoot_congr (t t' : Tree) (h : ∀ i, skel (t i) = skel (t' i)) :
    ∀ n i, reachesRoot t n i = reachesRoot t' n i := by
  intro n
  induction n with
  | zero => intro i; rfl
  | succ n ih =>
    intro i
    have hi := h i
    simp only [reachesRoot]
    cases hti : t i with
    | none =>
      cases ht'i : t' i with
      | none => rfl
      | some e' => simp [hti, ht'i, skel] at hi
    | some e =>
      cases ht'i : t' i with
      | none => simp [hti, ht'i, skel] at hi
      | some e' =>
        simp only [hti, ht'i, skel, Option.some.injEq, Prod.mk.injEq] at hi
        obtain ⟨hp, _, _⟩ := hi
        dsimp only
        rw [← hp]
        cases hpar : e.parent with
        | none => rfl
        | some p =>
          have hpp := h p
          simp only
          rw [ih p]
          cases htp : t p with
          | none =>
            cases ht'p : t' p with
            | none => rfl
            | some pe' => simp [htp, ht'p, skel] at hpp
          | some pe =>
            cases ht'p : t' p with
            | none => simp [htp, ht'p, skel] at hpp
            | some pe' =>
              simp only [htp, ht'p, skel, Option.some.injEq, Prod.mk.injEq] at hpp
              simp [hpp.2.2]

theorem isRootAt_congr (t t' : Tree) (h : ∀ i, skel (t i) = skel (t' i)) (i : Id) :
    isRootAt t i = isRootAt t' i := by
  have hi := h i
  unfold isRootAt
  cases hti : t i <;> cases ht'i : t' i <;> simp_all [skel]

theorem clash_congr (t t' : Tree) (h : ∀ i, skel (t i) = skel (t' i)) (i j : Id) :
    clash t i j = clash t' i j := by
  have hi := h i
  have hj := h j
  unfold clash
  cases hti : t i <;> cases ht'i : t' i <;> cases htj : t j <;> cases ht'j : t' j <;> simp_all [skel]

/-- **well-formedness is a property of the skeleton** -/
theorem wf_congr (ids : List Id) (t t' : Tree) (h : ∀ i, skel (t i) = skel (t' i)) : wf ids t = wf ids t' := by
  have h1 : (fun i => (t i).isSome) = fun i => (t' i).isSome := funext fun i => skel_isSome _ _ (h i)
  have h2 : (fun i => reachesRoot t (ids.length + 1) i) = fun i => reachesRoot t' (ids.length + 1) i :=
    funext fun i => reachesRoot_congr t t' h _ i
  have h3 : isRootAt t = isRootAt t' := funext fun i => isRootAt_congr t t' h i
  have h4 : clash t = clash t' := funext fun i => funext fun j => clash_congr t t' h i j
  simp only [wf, h1, h2, h3, h4]

/-- in a well-formed tree every present entry's parent is a directory -/
theorem wf_noNonDirParent (ids : List Id) (t : Tree) (h : wf ids t = true) : hasNonDirParent ids t = false := by
  simp only [wf, Bool.and_eq_true, List.all_eq_true, List.mem_filter] at h
  obtain ⟨⟨hr, _⟩, _⟩ := h
  rw [hasNonDirParent, List.any_eq_false]
  intro i hi
  cases hti : t i with
  | none => simp
  | some e =>
    have := hr i ⟨hi, by simp [hti]⟩
    simp only [reachesRoot, hti] at this
    cases hp : e.parent with
    | none => simp [hp]
    | some p =>
      simp only [hp, Bool.and_eq_true] at this
      cases htp : t p with
      | none => simp [hp, htp]
      | some pe => simp_all

/-! ### shelving everything / nothing, per id -/

/-- every shelvable aspect of the id is selected -/
def Sel.isAll (s : Sel) : Bool := s.whole && s.rename && s.content == .whole

/-- `be` with the executable bit the working file has (a chmod alone is not shelvable) -/
def withExecOf (x y : Option Entry) : Option Entry :=
  match x, y with
  | some xe, some ye => some { xe with exec := if xe.kind = .file ∧ ye.kind = .file then ye.exec else xe.exec }
  | x, _ => x

theorem withExecOf_skel (x y : Option Entry) : skel (withExecOf x y) = skel x := by
  cases x <;> cases y <;> simp [withExecOf, skel]

theorem shelveWork_nothing (v : Variant) (b w : Option Entry) : shelveWork v Sel.nothing b w = w := by
  cases b <;> cases w <;> simp [shelveWork, Sel.nothing]

theorem shelveShelf_nothing (v : Variant) (b w : Option Entry) : shelveShelf v Sel.nothing b w = b := by
  cases b <;> cases w <;> simp [shelveShelf, Sel.nothing]

theorem shelveWork_all (v : Variant) (s : Sel) (b w : Option Entry) (hv : v.keepExec = true)
    (hs : s.isAll = true) (hb : norm b = true) : shelveWork v s b w = withExecOf b w := by
  simp only [Sel.isAll, Bool.and_eq_true, beq_iff_eq] at hs
  obtain ⟨⟨h1, h2⟩, h3⟩ := hs
  cases b with
  | none => cases w <;> simp [shelveWork, withExecOf, h1]
  | some be =>
    obtain ⟨p, n, k, c, e⟩ := be
    cases w with
    | none =>
      cases hk : s.kept <;> cases k <;> simp_all [shelveWork, withExecOf, recreatedExec, norm]
    | some we =>
      obtain ⟨p', n', k', c', e'⟩ := we
      cases k <;> cases k' <;> simp_all [shelveWork, withExecOf, recreatedExec, norm]

theorem shelveShelf_all (v : Variant) (s : Sel) (b w : Option Entry) (hv : v.keepExec = true)
    (hs : s.isAll = true) (hw : norm w = true) : shelveShelf v s b w = withExecOf w b := by
  simp only [Sel.isAll, Bool.and_eq_true, beq_iff_eq] at hs
  obtain ⟨⟨h1, h2⟩, h3⟩ := hs
  cases w with
  | none => cases b <;> simp [shelveShelf, withExecOf, h1]
  | some we =>
    obtain ⟨p', n', k', c', e'⟩ := we
    cases b with
    | none => cases k' <;> simp_all [shelveShelf, withExecOf, recreatedExec, norm]
    | some be =>
      obtain ⟨p, n, k, c, e⟩ := be
      cases k <;> cases k' <;> simp_all [shelveShelf, withExecOf, recreatedExec, norm] <;> grind

/-! ### shelves keep their payload -/
namespace Mgr

theorem lookup_mem_ids (sh : Shelves) (k p : Nat) (h : lookup sh k = some p) : k ∈ idsOf sh := by
  induction sh with
  | nil => simp [lookup] at h
  | cons e es ih =>
    by_cases he : e.1 = k
    · simp [idsOf, he]
    · have : lookup es k = some p := by simpa [lookup, List.find?_cons, he] using h
      have := ih this
      simp only [idsOf, List.map_cons, List.mem_cons] at this ⊢
      exact Or.inr this

theorem lookup_filter_ne (sh : Shelves) (k k' : Nat) (hne : k' ≠ k) :
    lookup (sh.filter fun e => e.1 != k') k = lookup sh k := by
  induction sh with
  | nil => rfl
  | cons e es ih =>
    by_cases he : e.1 = k
    · have : (e.1 != k') = true := by simp [he]; exact fun h => hne h.symm
      simp only [List.filter_cons, this, if_true]
      simp [lookup, he]
    · by_cases he' : e.1 = k'
      · have : (e.1 != k') = false := by simp [he']
        simp only [List.filter_cons, this]
        rw [show lookup (e :: es) k = lookup es k by simp [lookup, List.find?_cons, he]]
        exact ih
      · have : (e.1 != k') = true := by simp [he']
        simp only [List.filter_cons, this, if_true]
        rw [show lookup (e :: es) k = lookup es k by simp [lookup, List.find?_cons, he]]
        rw [show lookup (e :: List.filter (fun e => e.1 != k') es) k = lookup (List.filter (fun e => e.1 != k') es) k by
          simp [lookup, List.find?_cons, he]]
        exact ih

theorem stepC_keeps (sh : Shelves) (op : OpC) (k p : Nat) (h : lookup sh k = some p) (hop : op ≠ .delete k)
    (sh' : Shelves) (hs : stepC sh op = some sh') : lookup sh' k = some p := by
  cases op with
  | new q =>
    simp only [stepC, Option.some.injEq] at hs
    subst hs
    have hk := lookup_mem_ids sh k p h
    have hlt := (nextId_fresh' (idsOf sh)).1 k hk
    have hne : ¬ nextId (idsOf sh) = k := by omega
    simpa [lookup, List.find?_cons, hne] using h
  | delete k' =>
    have hne : k' ≠ k := fun e => hop (by rw [e])
    simp only [stepC] at hs
    split at hs
    · simp only [Option.some.injEq] at hs
      subst hs
      rw [lookup_filter_ne sh k k' hne]; exact h
    · simp at hs

end Mgr

end BreezyVerif.C15
