import BreezyVerif.Model.C36
/-! C36 — lemmas about the git-config association list. -/
namespace BreezyVerif.C36

theorem cfgGet_set_same (c : Cfg) (k : CfgKey) (v : NBytes) : cfgGet (cfgSet c k v) k = some v := by
  induction c with
  | nil => simp [cfgSet, cfgGet]
  | cons e rest ih =>
    obtain ⟨k', v'⟩ := e
    simp only [cfgSet]
    split
    · simp [cfgGet]
    · rename_i hne
      simp [cfgGet, hne, ih]

theorem cfgGet_set_other (c : Cfg) (k k' : CfgKey) (v : NBytes) (h : k ≠ k') :
    cfgGet (cfgSet c k v) k' = cfgGet c k' := by
  induction c with
  | nil => simp [cfgSet, cfgGet, h]
  | cons e rest ih =>
    obtain ⟨k0, v0⟩ := e
    simp only [cfgSet]
    split
    · rename_i h0
      subst h0
      simp [cfgGet, h]
    · simp only [cfgGet, ih]

end BreezyVerif.C36
