"""C22 — revision numbers and revision specifiers resolve consistently.

Mechanism: breezy/branch.py (get_revision_id_to_revno_map, _gen_revno_map,
dotted_revno_to_revision_id, revision_id_to_dotted_revno,
iter_merge_sorted_revisions with _filter_merge_sorted_revisions /
_filter_start_non_ancestors), breezy/bzr/branch.py (get_rev_id,
revision_id_to_revno, _gen_revision_history), breezy/revisionspec.py
(RevisionSpec.from_string, RevisionSpec_dwim, _revno, _revid, _last, _before,
_tag, _ancestor, _mainline; in_history and as_revision_id).

T2 (every run):
  (a) the Lean `mergeSort` specification against the external
      vcsgraph KnownGraph.merge_sort on generated DAGs (ghosts, also as
      left-most parents, several roots, octopus merges, merges of merges);
  (b) real 2a branches in a shared repository (BranchBuilder, memory
      transport): a generated history, a tip that is not always the newest
      revision, other branches for `ancestor:`, tags (also tags named like
      numbers / revision ids, and tags pointing at absent revisions).  Every
      query — last_revision_info, get_rev_id, revision_id_to_revno, the revno
      map, dotted_revno_to_revision_id, revision_id_to_dotted_revno,
      iter_merge_sorted_revisions(start, stop, stop_rule, direction) and every
      specifier string through RevisionSpec.from_string(s).in_history(b) and
      .as_revision_id(b) — is answered by the real code and by the Lean model
      (`vd_C22`) and compared textually.  ~10 % of the specifier strings are
      random mutations of valid ones (malformed stream).
  (c) the same histories as STACKING CHAINS of real 2a branches, each with its own repository (base0 <- base1 <-
      main, one or two levels, stacking points anywhere on the mainline, also unstacked and "freshly stacked"
      layouts in which a repository holds nothing of the mainline), opened locally (repository with fallbacks) and
      through breezy's own smart server (SmartTCPServer on 127.0.0.1 -> RemoteBranch, relative stacked-on URLs
      so that every fallback is a RemoteRepository).  What each repository stores itself is read back from the
      real repositories and handed to the model.  Locally every query must equal the plain model.  Through the
      server get_rev_id / one-component dotted numbers are answered by the model of
      Repository.get_rev_id_for_revno + _iter_for_revno + the history-incomplete hand-over to the fallbacks
      (Model/C22Remote.lean: walkFor, chainRevIdForRevno, remoteGetRevId) and revision_id_to_revno /
      revision_id_to_dotted_revno by the model of the server-side walk without fallbacks (serverWalk: answer or
      the refusal GhostRevisionsHaveNoRevno); everything else by the plain model, a refused specifier part is
      not compared.  A probe at the start of the run finds out which variant of RemoteRepository.get_rev_id_for_revno
      the tree has (gives up / goes on in the fallbacks when the server does not store the known revision) and
      the model is asked for that variant.
Oracle (independent of the model, from the raw parent dictionary): revno n is
the n-th revision of the left-hand history and back; the revno map covers
exactly the tip's ancestry, is injective, gives (k,) to the k-th mainline
revision and both conversions invert each other; merge-sorted iteration lists
every ancestor once, children before parents, respects start/stop rules;
every structured specifier denotes the revision its definition describes
(number, negative number with clamping, dotted number = the external
merge_sort numbering, last:, before: = left parent, revid:, tag:, ancestor: =
unique LCA, mainline: = oldest left-hand revision having it as an ancestor)
and in_history / as_revision_id agree.  For stacked / served branches the same definitions are evaluated; over the
smart server an identifier -> number conversion may be refused, but not for a mainline revision the stacked
repository stores itself, and a given answer must be right; number -> identifier must always be answered.

Mutants this was built against (scratch worktree /var/tmp/wt-C22; all caught by the oracle with a
concrete input unless noted; see report):
  M1 revisionspec.RevisionSpec_revno._lookup: negative clamp `last + revno + 1` -> `last + revno`
  M2 revisionspec.RevisionSpec_before._match_on: `r.revno - 1` -> `r.revno - 2` for mainline revisions > 2
  M3 revisionspec.RevisionSpec_before._as_revision_id: parents[0] -> parents[-1]
  M4 branch._do_dotted_revno_to_revision_id: match on revno[:2] and `len(revision_ids) >= 1`
  M5 branch._filter_merge_sorted_revisions 'include' rule: stop test before the yield (= exclude)
  M6 branch._filter_start_non_ancestors: whitelist.update(parents) dropped
  M7 branch._filter_merge_sorted_revisions 'with-merges': whitelist.extend(rev.parent_ids[:1])
  M8 bzr/branch.revision_id_to_revno: `self.revno() - index` -> `- index - (1 if index > 2 else 0)`
  M9 revisionspec.RevisionSpec_last: `last_revno - offset + 1` -> `last_revno - offset`
  M10 revisionspec.RevisionSpec_dwim: tag tried after revid
  M11 branch._filter_start_non_ancestors: `if not merge_depth` -> `if merge_depth <= 1`
  M12 bzr/branch.get_rev_id: `revno > last_revno` -> `revno >= last_revno`
  M13 branch 'with-merges-without-common-ancestry': mainline revisions never filtered
  H1 harmless: _gen_revno_map dict comprehension replaced by a loop -> clean
  S1 (seeded by the coordinator) branch.dotted_revno_to_revision_id: reverse-cache entry written after the internal
     read lock is released -> stale dotted revno on a long-lived Branch object; caught by the sequence stream
     (specifiers resolved without an outer lock, tip moved through another object, all conversions re-checked)
  S2 (seeded by the coordinator) repository.Repository.get_rev_id_for_revno: `earliest_revno = known_revno -
     distance_from_known + 1` on the history-incomplete path -> wrong revision for revnos two or more below the stacking
     point of a stacked branch served by the smart server; caught by stream (c) (get_rev_id, dotted (n,), specifiers)
  R2 repository.get_rev_id_for_revno: the missing revision is not appended to the partial history -> NoSuchRevision
     from the fallback (stream (c))
  R3 remote.RemoteRepository.get_rev_id_for_revno: `known_pair = (known_pair[0], response[2])` (client keeps its own
     revno) -> wrong answers / NoSuchRevision below the stacking point (stream (c))
  R8 smart/branch.SmartServerBranchRequestRevisionIdToRevno: GhostRevisionsHaveNoRevno answered as NoSuchRevision
     -> "not on the mainline" for mainline revisions below the stacking point (stream (c), oracle + model)
  R9 remote.RemoteBranch.revision_id_to_revno: `len(response) == 2` -> `>= 2` -> a merged revision gets the first
     component of its dotted revno as revno on an unstacked served branch (stream (c), unstacked layout)
  H2 harmless: `earliest_revno = known_revno - (len(partial_history) - 1)` -> clean
Finding of stream (c) on the unchanged tree (family remote-stacked-known-revision-only-in-fallback): a freshly stacked
branch (its tip lives in the fallback only) served by the smart server answers NoSuchRevision to every get_rev_id(n);
Lean witness remote_get_rev_id_only_in_fallback_witness; repro and patch in /var/tmp/imp-C22.
"""
import random

from vlib import env

THEOREMS = [
    "mergeSort_total", "mergeSort_covers", "mergeSort_nodup", "dotted_injective", "mergeSort_tip_first",
    "get_rev_id_nth", "revno_roundtrip", "revno_zero", "get_rev_id_pred_is_left_parent",
    "revno_map_bijection", "mainline_revno", "dotted_roundtrip", "dotted_roundtrip_inv",
    "dotted_roundtrip_of_coherent", "dotted_roundtrip_inv_of_coherent",
    "spec_neg", "spec_last", "spec_revid", "spec_tag", "spec_before", "spec_before_null",
    "spec_mainline", "spec_ancestor", "iter_sublist", "iter_exclude_include",
    "iter_all", "iter_exclude_omits_stop",
    # both entry points of a specifier; the fuel of the model
    "in_history_as_revision_id_agree", "in_history_revno_coherent", "fuel_adequate",
    "spec_revno_as_revision_id", "spec_last_as_revision_id", "spec_mainline_as_revision_id",
    "spec_ancestor_as_revision_id",
    # stacked branches served by the smart server (Model/C22Remote.lean)
    "history_incomplete_pair", "remote_get_rev_id_partial", "remote_get_rev_id_fixed", "remote_get_rev_id_nth",
    "remote_get_rev_id_only_in_fallback_witness", "remote_dotted_sound", "remote_revno_sound",
    "remote_revno_answers_own",
]
RULE = ("case = (history DAG, branch tip, tags, other branches, one query) or one answer of a long-lived branch object "
        "inside a sequence (specifiers resolved with / without an outer lock, the tip moved through another object, then all "
        "number <-> id conversions), or (history DAG, tip, stacking points on the mainline, local | smart server, one "
        "query) for the stacked layouts; queries are enumerated per history "
        "(all revnos, all dotted revnos, all revids, all tags, nested before:/mainline:, sampled (start, stop, rule, "
        "direction) combinations); non-trivial = the tip's ancestry contains a merged (depth > 0) revision and the "
        "query does not end in an error; distinct by canonical (graph, tip, query)")
ASSUMPTIONS = [
    "vcsgraph KnownGraph.merge_sort, Graph.find_unique_lca and Graph.find_lefthand_merger (external, compiled) "
    "behave as the Lean specifications mergeSort / findUniqueLca / findLefthandMerger (compared on every generated case)",
    "branch-level cases have no ghost as a left-most parent on the mainline (GhostRevisionsHaveNoRevno paths are not modelled); "
    "ghost left-most parents are covered for merge_sort itself",
    "stacked layouts: 2a on 2a, linear chains of at most two fallbacks, stacking points on the mainline, every fallback "
    "reached through the same smart server; over the smart server GhostRevisionsHaveNoRevno is a refusal, not an answer: "
    "refused identifier -> number conversions (and specifier parts that need them) are counted and not compared",
    "over the smart server specifier strings containing white space are not asked (a revision id with white space is not "
    "a revision id and corrupts the client's next get_parent_map search recipe)",
    "specifier strings are ASCII without newline; a branch location after revno:N:, date:, branch:, submit:, annotate:, "
    "git:, svn: are out of scope (model answers E:Unsupported and the case is skipped)",
]
TRUSTED = ["revision ids are modelled as topologically numbered naturals (creation order); tags and other branches as association lists",
           "graph.iter_lefthand_ancestry (external, compiled) is specified by walkFor / serverWalk: it yields a revision only after "
           "it found its parents and names the first missing one in RevisionNotPresent (compared on every stacked case); the "
           "smart protocol itself (encoding, error translation) is exercised, not modelled"]

NULL = b"null:"
KNOWN_PREFIXES = {"revno:", "revid:", "last:", "before:", "tag:", "ancestor:", "mainline:", "date:", "branch:",
                  "submit:", "annotate:", "git:", "svn:"}


# --------------------------------------------------------------------------
# generated histories

def gen_graph(rng, n, ghosts=True, left_ghosts=False):
    """history script: commit on a head / merge / octopus / new root; parents
    refer to earlier nodes; ghost parents are numbers >= 1000"""
    g = {}
    heads = []

    def pick_head():
        if heads and rng.random() < 0.8:
            return heads[-1] if rng.random() < 0.5 else rng.choice(heads)
        return rng.randrange(i)

    for i in range(n):
        r = rng.random()
        if i == 0 or r < 0.03:
            ps = []
        elif i < 2 or r < 0.25:
            ps = [pick_head()]                       # commit
        elif r < 0.45 or (len(heads) < 2 and r < 0.93):
            ps = [rng.randrange(i)]                  # fork: a new line of development
        elif r < 0.93:
            a = pick_head()                          # merge another line
            rest = [h for h in heads if h != a]
            b = rng.choice(rest) if rest and rng.random() < 0.85 else rng.randrange(i)
            ps = [a] if a == b else [a, b]
        else:
            ps = rng.sample(range(i), min(i, rng.choice([3, 3, 4])))
        if ghosts and ps and rng.random() < 0.06:
            ps = ps + [1000 + rng.randrange(2)]
        if left_ghosts and rng.random() < 0.05:
            ps = [1000 + rng.randrange(2)] + ps
        g[i] = tuple(ps)
        heads = [h for h in heads if h not in ps] + [i]
    return g


def enc_graph(g):
    n = len(g)
    if n == 0:
        return "~"
    return ";".join(",".join(str(p if p < 1000 else n + p - 1000) for p in g[i]) or "-" for i in range(n))


def name(g, p):
    """revision id of node / ghost number p"""
    return b"r%d" % (p if p < 1000 else len(g) + p - 1000)


class GI:
    """independent graph facts for the oracle"""

    def __init__(self, g):
        self.g = g
        self.n = len(g)
        self._anc = {}

    def anc(self, x):
        """x and its ancestors, ghosts (>= 1000) included"""
        if x not in self._anc:
            s = {x}
            if x in self.g:
                for p in self.g[x]:
                    s |= self.anc(p)
            self._anc[x] = s
        return self._anc[x]

    def panc(self, x):
        return {a for a in self.anc(x) if a in self.g}

    def lefthand(self, tip):
        out = []
        x = tip
        while x is not None and x in self.g:
            out.append(x)
            x = self.g[x][0] if self.g[x] else None
        return out[::-1]     # oldest first

    def unique_lca(self, a, b):
        revs = [a, b]
        for _ in range(self.n + 2):
            # ghosts are nodes of the graph too: a ghost referenced from both sides is a common ancestor
            common = set.intersection(*[self.anc(r) for r in revs])
            heads = [c for c in common if not any(c != d and c in self.anc(d) for d in common)]
            if len(heads) == 1:
                return heads[0]
            if not heads:
                return None
            revs = heads
        return None


def hexs(s):
    if isinstance(s, str):
        s = s.encode("ascii")
    return s.hex() if s else "-"


ERRMAP = {"NoSuchRevision": "E:NoSuchRevision", "RevnoOutOfBounds": "E:RevnoOutOfBounds",
          "InvalidRevisionSpec": "E:InvalidRevisionSpec", "NoSuchTag": "E:NoSuchTag", "NoCommits": "E:NoCommits",
          "NoCommonAncestor": "E:NoCommonAncestor",
          # the smart server opens a stacked branch without its fallback repository and refuses
          # identifier -> number conversions that need history below the stacking point
          "GhostRevisionsHaveNoRevno": "E:Refused"}
REFUSED = "E:Refused"


INFRA_ERRORS = ("ConnectionError", "ConnectionReset", "ConnectionRefusedError", "ConnectionResetError", "BrokenPipeError",
                "ConnectionTimeout", "SocketConnectionError", "TimeoutError", "timeout")


def err(e):
    n = type(e).__name__
    if n in INFRA_ERRORS:
        # the loopback connection to the in-process smart server failed: not an answer of the code under test
        raise env.InfraError("smart server connection: %s: %s" % (n, str(e)[:200]))
    return ERRMAP.get(n, "E:?" + n)


# --------------------------------------------------------------------------
# worlds

def gen_world(rng, nmax):
    n = rng.choice([1, 2, 3]) if rng.random() < 0.08 else rng.randrange(3, nmax + 1)
    g = gen_graph(rng, n)
    # the mainline must not run into a ghost: gen_graph only appends ghosts
    r = rng.random()
    if r < 0.04:
        tip = None
    elif r < 0.60:
        gi = GI(g)
        tip = max(range(n), key=lambda x: (len(gi.panc(x)), x))     # the revision with the largest ancestry
    elif r < 0.80:
        tip = n - 1
    else:
        tip = rng.randrange(n)
    if tip is not None and rng.random() < 0.6:
        # prefer a tip that has merged something: otherwise every dotted revno is a plain number
        gi = GI(g)
        merged = [x for x in range(n) if any(len([p for p in g[a] if p in g]) > 1 for a in gi.panc(x))]
        if merged and tip not in merged:
            tip = max(merged, key=lambda x: (len(gi.panc(x)), x)) if rng.random() < 0.5 else rng.choice(merged)
    nodes = list(range(n))
    tags = {}
    pool = ["t1", "rel-1.0", "7", "1.1.1", "-1", "r1", "x:y", "last:1"]
    for nm in rng.sample(pool, rng.randrange(0, 5)):
        q = rng.random()
        if q < 0.7:
            tags[nm] = name(g, rng.choice(nodes))
        elif q < 0.85:
            tags[nm] = b"zzz"
        else:
            tags[nm] = name(g, 1000)
    others = {}
    for k in range(rng.randrange(0, 3)):
        others["o%d" % k] = rng.choice(nodes) if rng.random() < 0.93 else None
    return dict(g={str(k): list(v) for k, v in g.items()}, tip=tip, tags={k: v.decode() for k, v in tags.items()},
                others=others, qseed=rng.randrange(1 << 30))


def world_graph(w):
    return {int(k): tuple(v) for k, v in w["g"].items()}


class World:
    """a real shared repository with the main branch and the other branches"""

    def __init__(self, w):
        from breezy.branchbuilder import BranchBuilder
        from breezy.controldir import ControlDir, format_registry
        from dromedary.memory import MemoryServer
        self.w = w
        self.g = world_graph(w)
        self.srv = MemoryServer()
        self.srv.start_server()
        self.url = self.srv.get_url()
        fmt = format_registry.make_controldir("2a")
        ControlDir.create(self.url, format=fmt).create_repository(shared=True)
        main = ControlDir.create_branch_convenience(self.url + "main", format=fmt, force_new_tree=False)
        bb = BranchBuilder(branch=main)
        bb.start_series()
        for k in sorted(self.g):
            ps = [name(self.g, p) for p in self.g[k]]
            left_present = bool(self.g[k]) and self.g[k][0] in self.g
            actions = [] if left_present else [("add", ("", b"root-id", "directory", None))]
            bb.build_snapshot(ps, actions, revision_id=name(self.g, k), allow_leftmost_as_ghost=True)
        bb.finish_series()
        main.generate_revision_history(NULL if w["tip"] is None else name(self.g, w["tip"]))
        for t, r in w["tags"].items():
            main.tags.set_tag(t, r.encode())
        for loc, tip in w["others"].items():
            o = ControlDir.create_branch_convenience(self.url + loc, format=fmt, force_new_tree=False)
            o.generate_revision_history(NULL if tip is None else name(self.g, tip))

    def open(self):
        from breezy.branch import Branch
        return Branch.open(self.url + "main")

    def close(self):
        self.srv.stop_server()


# --------------------------------------------------------------------------
# stacked branches, opened locally and through the smart server

FAMILY_ONLY_IN_FALLBACK = "remote-stacked-known-revision-only-in-fallback"


STACK_KINDS = ["one", "two", "unstacked", "one", "two", "empty", "one", "two", "unstacked", "one", "two", "one"]


def gen_stacked_world(rng, nmax, kind):
    """a world whose main branch is stacked: w["stack"]["ks"] = the stacking points as mainline revnos, oldest
    fallback first ([] = not stacked, only served remotely).  base<i> holds the ancestry of mainline revision
    ks[i] that base<i-1> does not hold; main holds the rest.  kind: one / two levels, unstacked, or empty = a
    repository of the chain holds nothing of the mainline (a freshly stacked branch)."""
    best = None
    for _ in range(6):
        w = gen_world(rng, nmax)
        if w["tip"] is None:
            continue
        L = len(GI(world_graph(w)).lefthand(w["tip"]))
        if best is None or L > best[0]:
            best = (L, w)
        if L >= 5:
            break
    if best is None:
        return None
    L, w = best
    if L < 2 or kind == "unstacked":
        ks = []                                           # served remotely, not stacked
    elif kind == "empty":
        k = rng.randrange(1, L + 1)
        ks = [L] if rng.random() < 0.6 else [k, k]
    elif kind == "one" or L < 3:
        ks = [rng.randrange(1, L)]
    else:
        ks = sorted(rng.sample(range(1, L), 2))
    w["stack"] = dict(ks=ks)
    return w


def empty_segment(ks, L):
    """some repository of the chain stores no mainline revision although older history remains"""
    return bool(ks) and (ks[-1] >= L or len(set(ks)) < len(ks))


class StackedWorld:
    """the stacking chain base0 <- base1 <- … <- main of real 2a branches (each with its own repository) in a
    memory directory served by breezy's SmartTCPServer on 127.0.0.1; built from the plain World's repository"""

    def __init__(self, world, w):
        from breezy import transport as T
        from breezy.bzr.smart import server as S
        from breezy.controldir import ControlDir, format_registry
        from breezy.repository import Repository
        from dromedary.memory import MemoryServer
        g = world.g
        ks = w["stack"]["ks"]
        self.msrv = MemoryServer()
        self.msrv.start_server()
        self.tcp = None
        self.url = self.msrv.get_url()
        fmt = format_registry.make_controldir("2a")
        src = world.open()
        lh = GI(g).lefthand(w["tip"])
        prev = None
        levels = []
        for lvl, k in enumerate(ks):
            nm = "base%d" % lvl
            b = ControlDir.create_branch_convenience(self.url + nm, format=fmt, force_new_tree=False)
            if prev:
                b.set_stacked_on_url("../" + prev)
            b.pull(src, stop_revision=name(g, lh[k - 1]), overwrite=True)
            prev = nm
            levels.append(nm)
        st = ControlDir.create_branch_convenience(self.url + "main", format=fmt, force_new_tree=False)
        if prev:
            st.set_stacked_on_url("../" + prev)
        st.pull(src, stop_revision=name(g, w["tip"]), overwrite=True)
        st.repository.fetch(src.repository)             # the revisions outside the tip's ancestry, too
        for t, r in w["tags"].items():
            st.tags.set_tag(t, r.encode())
        for loc, tip in w["others"].items():
            o = ControlDir.create_branch_convenience(self.url + loc, format=fmt, force_new_tree=False)
            o.pull(src, stop_revision=NULL if tip is None else name(g, tip), overwrite=True)
        # what each repository stores itself (opened without fallbacks), the stacked one first
        self.chain = []
        for nm in ["main"] + levels[::-1]:
            r = Repository.open(self.url + nm)
            if r._fallback_repositories:
                raise env.InfraError("Repository.open attached fallbacks")
            self.chain.append(sorted(int(x[1:]) for x in r.all_revision_ids()))
        try:
            self.tcp = S.SmartTCPServer(T.get_transport(self.url), client_timeout=300)
            self.tcp.start_server("127.0.0.1", 0)
            self.tcp.start_background_thread("-c22")
        except OSError as e:
            raise env.InfraError("smart server: %s" % e)
        self.rurl = self.tcp.get_url()

    def open(self, via):
        from breezy.branch import Branch
        b = Branch.open((self.url if via == "local" else self.rurl) + "main")
        if (type(b).__name__ == "RemoteBranch") != (via == "remote"):
            raise env.InfraError("opened %r for via=%s" % (b, via))
        return b

    def close(self):
        try:
            if self.tcp is not None:
                self.tcp.stop_background_thread()
        finally:
            self.msrv.stop_server()


class _Loc:
    def __init__(self, url):
        self.url = url


def enc_chain(chain):
    return "|".join(",".join(map(str, r)) or "-" for r in chain)


def stacked_model_line(w, q, via, chain, fx):
    """a RemoteBranch computes number <-> identifier conversions from repositories opened without fallbacks
    (model: Model/C22Remote.lean); everything else, and everything on a locally opened stacked branch, is the
    plain model"""
    if via == "remote":
        p = model_prefix(w)
        k = q[0]
        if k == "getrevid":
            return "%s rgetrevid %s %s %d" % (p, "T" if fx else "F", enc_chain(chain), q[1])
        if k == "d2id":
            return "%s rd2id %s %s %s" % (p, "T" if fx else "F", enc_chain(chain), q[1])
        if k in ("id2revno", "id2d"):
            return "%s r%s %s %s" % (p, k, enc_chain(chain), hexs(q[1]))
    return model_line(w, q)


def stacked_queries(w, rng, per, narrow, via="local"):
    qs = gen_queries(w, rng, per)
    if via == "remote":
        # a specifier with white space can end up as a revision id with white space (revid:, prefix-less form); such an
        # id is not a revision id, and once the client has recorded it as missing it corrupts the space-separated search
        # recipe of the next Repository.get_parent_map request (the server then answers a bare NoSuchRevision)
        qs = [q for q in qs if not (q[0] == "spec" and any(c in q[1] for c in " \t\r\x0b\x0c"))]
    if narrow:
        # a repository of the chain stores none of the mainline: only the number -> identifier conversions
        qs = [q for q in qs if q[0] == "getrevid" or (q[0] == "d2id" and "." not in q[1])]
    return qs


def run_stacked(world, w, gi, facts, rng, per, fx):
    """-> (chain, [(via, q, impl string, oracle failures, family)])"""
    g = gi.g
    ks = w["stack"]["ks"]
    lh = facts["lh"]
    L = len(lh)
    narrow = empty_segment(ks, L)
    sw = StackedWorld(world, w)
    out = []
    try:
        # the mainline revisions the stacked repository stores itself: the server must answer for these
        top = set(sw.chain[0])
        own = set()
        for x in lh[::-1]:
            if x not in top:
                break
            own.add(name(g, x))
        for via in (["local", "remote"] if ks else ["remote"]):
            qs = stacked_queries(w, random.Random(w["qseed"] ^ (1 if via == "remote" else 2)), per, narrow, via)
            b = sw.open(via)
            loc = _Loc(sw.url if via == "local" else sw.rurl)
            with b.lock_read():
                for q in qs:
                    s, res = run_query(loc, b, q)
                    fails, fam = stacked_oracle(w, gi, facts, q, res, via, ks, own)
                    out.append((via, q, s, fails, fam))
    finally:
        sw.close()
    return sw.chain, out


def stacked_oracle(w, gi, facts, q, res, via, ks, own):
    """the definitions of `oracle` hold for a stacked branch as they do for a plain one.  Through the smart server
    an identifier -> number conversion may be REFUSED (GhostRevisionsHaveNoRevno: the server cannot see below the
    stacking point) — but never for a mainline revision the stacked repository stores itself, and an answer that
    is given must be right."""
    k = q[0]
    L = len(facts["lh"])
    refused = lambda r: isinstance(r, Exception) and err(r) == REFUSED
    if via == "remote":
        if k in ("id2revno", "id2d") and refused(res):
            if q[1].encode() in own:
                return (["%s(%r) is refused over the smart server although the stacked repository itself stores the "
                         "mainline down to that revision" % (k, q[1])], None)
            return [], None
        if k == "spec":
            a, c = res
            if a == ("err", REFUSED) and c == ("err", REFUSED):
                return [], None
            if a == ("err", REFUSED):
                res = (None, c)
            elif c == ("err", REFUSED):
                res = (a, None)
    fails = oracle(w, gi, facts, q, res)
    fam = None
    if fails and via == "remote" and empty_segment(ks, L) and isinstance(res, Exception) \
            and type(res).__name__ == "NoSuchRevision":
        n = q[1] if k == "getrevid" else int(q[1]) if (k == "d2id" and "." not in q[1]) else None
        if n is not None and 1 <= n <= L:
            fam = FAMILY_ONLY_IN_FALLBACK
    return fails, fam


def model_prefix(w):
    g = world_graph(w)
    tags = ";".join("%s=%s" % (hexs(k), hexs(v)) for k, v in sorted(w["tags"].items())) or "-"
    others = ";".join("%s=%s" % (hexs("@" + k), "~" if v is None else v) for k, v in sorted(w["others"].items())) or "-"
    return "b %s %s %s %s" % (enc_graph(g), "~" if w["tip"] is None else w["tip"], tags, others)


# --------------------------------------------------------------------------
# queries

def spec_str(st):
    k = st[0]
    if k == "int":
        return str(st[1])
    if k == "dotted":
        return ".".join(map(str, st[1]))
    if k == "revno":
        return "revno:" + spec_str(st[1])
    if k == "revid":
        return "revid:" + st[1]
    if k == "last":
        return "last:%d" % st[1]
    if k == "before":
        return "before:" + spec_str(st[1])
    if k == "tag":
        return "tag:" + st[1]
    if k == "ancestor":
        return "ancestor:@" + st[1]
    if k == "mainline":
        return "mainline:" + spec_str(st[1])
    if k == "name":
        return st[1]
    raise ValueError(st)


def gen_queries(w, rng, per):
    g = world_graph(w)
    gi = GI(g)
    n = len(g)
    tip = w["tip"]
    lh = gi.lefthand(tip) if tip is not None else []
    L = len(lh)
    qs = [("info",), ("lh",), ("map",)]
    for k in range(-2, L + 3):
        qs.append(("getrevid", k))
    ids = [name(g, i).decode() for i in range(n)] + ["null:", "zzz", name(g, 1000).decode(), name(g, 1001).decode()]
    for i in ids:
        qs.append(("id2revno", i))
        if i != "null:":
            # revision_id_to_dotted_revno(b"null:") answers (0,) or NoSuchRevision depending on
            # whether the revno map has been cached; null: is not a revision, not compared
            qs.append(("id2d", i))
    # dotted revnos of the external numbering (+ some absent ones)
    dotted = []
    if tip is not None:
        from vcsgraph.known_graph import KnownGraph
        dotted = [tuple(x.revno) for x in KnownGraph({k: tuple(p for p in v) for k, v in g.items()}).merge_sort(tip)]
    absent = [(1, 9, 1), (0, 1, 1), (1, 1), (2, 1, 1), (1, 1, 1, 1), (L + 1,), (0,), (1, 2, 1), (1, 1, 3)]
    for d in dotted + absent:
        qs.append(("d2id", ".".join(map(str, d))))
    # iteration
    cands = [None] + ids
    present = [None] + [name(g, i).decode() for i in range(n)]
    combos = []
    for _ in range(per["iter"]):
        s = rng.choice(present if rng.random() < 0.9 else cands)
        t = rng.choice(present if rng.random() < 0.9 else cands)
        combos.append((s, t, rng.choice("eiwn"), rng.choice("rf")))
    for s, t, r, d in dict.fromkeys(combos):
        if r == "n" and s is None:
            continue        # find_unique_ancestors(None, …): not a call breezy makes
        qs.append(("iter", s, t, r, d))
    # specifiers
    base = [("int", k) for k in range(-L - 2, L + 3)]
    base += [("dotted", d) for d in dotted if len(d) > 1] + [("dotted", d) for d in absent if len(d) > 1]
    base += [("revid", i) for i in ids]
    base += [("last", k) for k in range(0, L + 3)]
    base += [("tag", t) for t in list(w["tags"]) + ["nosuch"]]
    base += [("ancestor", o) for o in w["others"]]
    base += [("name", i) for i in ids[:n][:6] + ["zzz", "T1"]] + [("name", t) for t in w["tags"]]
    specs = list(base)
    specs += [("revno", s) for s in base if s[0] in ("int", "dotted") and rng.random() < 0.4]
    lvl1 = [("before", s) for s in base if rng.random() < 0.6] + [("mainline", s) for s in base if rng.random() < 0.6]
    specs += lvl1
    specs += [(rng.choice(["before", "mainline"]), s) for s in lvl1 if rng.random() < 0.25]
    if len(specs) > per["spec"]:
        # the rare kinds (there are only a few tags / other branches per world) are always kept
        def rare(st):
            while st[0] in ("before", "mainline", "revno"):
                st = st[1]
            return st[0] in ("ancestor", "tag")
        keep = [st for st in specs if rare(st)][:per["spec"] // 3]
        rest = [st for st in specs if not rare(st)]
        specs = keep + rng.sample(rest, min(len(rest), per["spec"] - len(keep)))
    for st in specs:
        qs.append(("spec", spec_str(st), st))
    # malformed stream: mutations of valid strings, plus fixed oddities
    alphabet = "0123456789.-:_+ rtz"
    odd = ["", ":", "revno:", "revno::", "1:", "-1:", "1.1.1:", "last:", "before:", "mainline:", "tag:", "revid:",
           " 1", "1 ", "+1", "revno:+1", "revno: 1", "revno:1_0", "revno:1__0", "last:+1", "last: 2", "last:-1",
           "1.01.1", "01", "-0", "--1", "1.-1.1", "1..1", ".1", "1.", "before:before:before:1", "before:-1",
           "mainline:-1", "mainline:mainline:1.1.1", "before:mainline:1.1.1", "revno:-0", "00", "last:0x1", "last:1.0"]
    strs = [spec_str(s) for s in rng.sample(specs, min(len(specs), per["malformed"]))] if specs else []
    for s in strs:
        s = list(s)
        lo = 0
        if ":" in s and rng.random() < 0.7:
            lo = len(s) - s[::-1].index(":")      # keep the prefixes, damage the argument
        for _ in range(rng.choice([1, 1, 2])):
            op = rng.random()
            pos = rng.randrange(min(lo, len(s)), len(s) + 1)
            if op < 0.4:
                s.insert(pos, rng.choice(alphabet))
            elif op < 0.7 and s:
                del s[min(pos, len(s) - 1)]
            elif s:
                s[min(pos, len(s) - 1)] = rng.choice(alphabet)
        odd.append("".join(s))
    for s in dict.fromkeys(odd):
        if "\n" in s or any(ord(c) > 126 for c in s):
            continue
        qs.append(("spec", s, None))
    return qs


def model_line(w, q):
    p = model_prefix(w)
    k = q[0]
    if k in ("info", "lh", "map"):
        return "%s %s" % (p, k)
    if k == "getrevid":
        return "%s getrevid %d" % (p, q[1])
    if k in ("id2revno", "id2d"):
        return "%s %s %s" % (p, k, hexs(q[1]))
    if k == "d2id":
        return "%s d2id %s" % (p, q[1])
    if k == "iter":
        return "%s iter %s %s %s %s" % (p, "~" if q[1] is None else hexs(q[1]), "~" if q[2] is None else hexs(q[2]), q[3], q[4])
    if k == "spec":
        return "%s spec %s" % (p, hexs(q[1]))
    raise ValueError(q)


RULES = {"e": "exclude", "i": "include", "w": "with-merges", "n": "with-merges-without-common-ancestry"}


def fmt_ms(l):
    return ";".join("%s:%d:%s:%s" % (r[1:].decode(), d, ".".join(map(str, rn)), "T" if e else "F") for r, d, rn, e in l) or "-"


def run_query(world, b, q):
    """-> (canonical string, structured result or exception)"""
    from breezy.revisionspec import RevisionSpec
    k = q[0]
    try:
        if k == "info":
            rn, rid = b.last_revision_info()
            return "%d %s" % (rn, hexs(rid)), (rn, rid)
        if k == "lh":
            h = b._revision_history()[::-1]
            return ",".join(x[1:].decode() for x in h) or "-", h
        if k == "map":
            m = dict(b.get_revision_id_to_revno_map())
            return ",".join("%s=%s" % (r[1:].decode(), ".".join(map(str, v)))
                            for r, v in sorted(m.items(), key=lambda kv: int(kv[0][1:]))) or "-", m
        if k == "getrevid":
            r = b.get_rev_id(q[1])
            return hexs(r), r
        if k == "id2revno":
            r = b.revision_id_to_revno(q[1].encode())
            return str(r), r
        if k == "id2d":
            r = b.revision_id_to_dotted_revno(q[1].encode())
            return ".".join(map(str, r)), tuple(r)
        if k == "d2id":
            r = b.dotted_revno_to_revision_id(tuple(int(x) for x in q[1].split(".")))
            return hexs(r), r
        if k == "iter":
            s = None if q[1] is None else q[1].encode()
            t = None if q[2] is None else q[2].encode()
            l = [(x[0], x[1], tuple(x[2]), x[3]) for x in
                 b.iter_merge_sorted_revisions(s, t, RULES[q[3]], "reverse" if q[4] == "r" else "forward")]
            return fmt_ms(l), l
        if k == "spec":
            text = q[1].replace("ancestor:@", "ancestor:" + world.url)
            try:
                info = RevisionSpec.from_string(text).in_history(b)
                a = ("ok", info.revno, info.rev_id)
                sa = "%s,%s" % ("~" if info.revno is None else info.revno, hexs(info.rev_id))
            except Exception as e:
                a = ("err", err(e))
                sa = err(e)
            try:
                rid = RevisionSpec.from_string(text).as_revision_id(b)
                c = ("ok", rid)
                sc = hexs(rid)
            except Exception as e:
                c = ("err", err(e))
                sc = err(e)
            return sa + " " + sc, (a, c)
    except env.InfraError:
        raise
    except Exception as e:
        return err(e), e
    raise ValueError(q)


# --------------------------------------------------------------------------
# oracle

class Undefined(Exception):
    pass


class NoOpinion(Exception):
    pass


def denote(w, gi, lh, numbering, st, strict=False):
    """the revision a structured specifier names, by its definition"""
    g = gi.g
    L = len(lh)
    k = st[0]
    if k == "revno":
        return denote(w, gi, lh, numbering, st[1], strict=True)
    if k == "int":
        n = st[1]
        if n == 0:
            return NULL
        if 1 <= n <= L:
            return name(g, lh[n - 1])
        if n < 0 and L > 0:
            return name(g, lh[max(L + n, 0)])
        if not strict:
            raise NoOpinion      # a bare number that is no revno is tried as a tag, revision id, …
        raise Undefined
    if k == "dotted":
        hits = [r for r, d in numbering.items() if d == tuple(st[1])]
        if len(hits) == 1:
            return name(g, hits[0])
        if not strict:
            raise NoOpinion
        raise Undefined
    if k == "revid":
        return st[1].encode()
    if k == "last":
        n = st[1]
        if n < 1:
            raise Undefined
        kk = L - n + 1
        if kk >= 1:
            return name(g, lh[kk - 1])
        if kk == 0:
            return NULL
        raise Undefined
    if k == "tag":
        if st[1] in w["tags"]:
            return w["tags"][st[1]].encode()
        raise Undefined
    if k == "ancestor":
        o = w["others"][st[1]]
        if w["tip"] is None or o is None:
            raise Undefined
        r = gi.unique_lca(w["tip"], o)
        if r is None:
            raise Undefined
        if r not in g:
            raise NoOpinion
        return name(g, r)
    if k == "name":
        # prefix-less specifiers: a revno first, then a tag, then a revision id (documented order)
        import re
        nm = st[1]
        if re.match(r"^(?:(\d+(\.\d+)*)|-\d+)(:.*)?$", nm) or ":" in nm:
            raise NoOpinion
        if nm in w["tags"]:
            v = w["tags"][nm]
            if v.startswith("r") and v[1:].isdigit() and int(v[1:]) in g:
                return v.encode()
            raise Undefined      # both entry points go through in_history, which needs the revision
        if nm.startswith("r") and nm[1:].isdigit() and int(nm[1:]) in g and nm == "r%d" % int(nm[1:]):
            return nm.encode()
        raise NoOpinion
    if k in ("before", "mainline"):
        x = denote(w, gi, lh, numbering, st[1])
        if x == NULL:
            if k == "before":
                raise Undefined
            raise NoOpinion
        if not (x.startswith(b"r") and x[1:].isdigit()):
            raise Undefined
        i = int(x[1:])
        if k == "before":
            if i not in g:
                raise Undefined
            # in_history additionally requires the inner specifier to exist in the branch's repository
            return name(g, g[i][0]) if g[i] else NULL
        node = i if i < len(g) else 1000 + i - len(g)
        for m in lh:
            if node in gi.anc(m):
                return name(g, m)
        raise Undefined
    raise NoOpinion


def oracle(w, gi, facts, q, res):
    """-> list of failure descriptions for one query"""
    g = gi.g
    tip = w["tip"]
    lh, numbering, ancs = facts["lh"], facts["numbering"], facts["anc"]
    L = len(lh)
    k = q[0]
    bad = []
    isexc = isinstance(res, Exception)
    if k == "info":
        if isexc or res != (L, NULL if tip is None else name(g, tip)):
            bad.append("last_revision_info() = %r, left-hand history has %d revisions" % (res, L))
    elif k == "lh":
        if isexc or res != [name(g, x) for x in lh][::-1]:
            bad.append("revision history %r is not the left-hand ancestry of the tip" % (res,))
    elif k == "getrevid":
        n = q[1]
        exp = NULL if n == 0 else name(g, lh[n - 1]) if 1 <= n <= L else None
        if exp is None:
            if not isexc:
                bad.append("get_rev_id(%d) = %r on a branch with %d mainline revisions" % (n, res, L))
        elif isexc or res != exp:
            bad.append("get_rev_id(%d) = %r, the %d-th left-hand revision is %r" % (n, res, n, exp))
    elif k == "id2revno":
        rid = q[1].encode()
        names = [name(g, x) for x in lh]
        exp = 0 if rid == NULL else names.index(rid) + 1 if rid in names else None
        if exp is None:
            if not isexc:
                bad.append("revision_id_to_revno(%r) = %r for a revision off the mainline" % (rid, res))
        elif isexc or res != exp:
            bad.append("revision_id_to_revno(%r) = %r, expected %d" % (rid, res, exp))
    elif k == "map":
        if isexc:
            bad.append("get_revision_id_to_revno_map raised %r" % (res,))
        else:
            if set(res) != {name(g, x) for x in ancs}:
                bad.append("revno map keys %r are not the tip's ancestry %r" % (sorted(res), sorted(ancs)))
            if len(set(res.values())) != len(res):
                bad.append("revno map is not injective: %r" % (res,))
            for i, x in enumerate(lh):
                if res.get(name(g, x)) != (i + 1,):
                    bad.append("mainline revision %r has dotted revno %r, expected (%d,)" % (name(g, x), res.get(name(g, x)), i + 1))
            mainline = {name(g, x) for x in lh}
            for r_, d_ in res.items():
                # theorem mainline_revno, observed on the real map
                if (len(d_) == 1) != (r_ in mainline):
                    bad.append("revision %r has dotted revno %r but is %s the mainline" % (r_, d_, "on" if r_ in mainline else "off"))
            if {name(g, r): d for r, d in numbering.items()} != res:
                bad.append("revno map differs from the merge_sort numbering")
    elif k == "id2d":
        rid = q[1].encode()
        exp = (0,) if rid == NULL else next((d for r, d in numbering.items() if name(g, r) == rid), None)
        if exp is None:
            if not isexc:
                bad.append("revision_id_to_dotted_revno(%r) = %r for a revision outside the ancestry" % (rid, res))
        elif isexc or res != exp:
            bad.append("revision_id_to_dotted_revno(%r) = %r, expected %r" % (rid, res, exp))
    elif k == "d2id":
        d = tuple(int(x) for x in q[1].split("."))
        hits = [r for r, dd in numbering.items() if dd == d]
        if d == (0,):
            hits = ["null"]
        if len(hits) == 1:
            exp = NULL if hits[0] == "null" else name(g, hits[0])
            if isexc or res != exp:
                bad.append("dotted_revno_to_revision_id(%r) = %r, expected %r" % (d, res, exp))
        elif not isexc:
            bad.append("dotted_revno_to_revision_id(%r) = %r although no revision has that number" % (d, res))
    elif k == "iter":
        bad += oracle_iter(w, gi, facts, q, res)
    elif k == "spec" and q[2] is not None:
        a, c = res
        st = q[2]
        try:
            exp = denote(w, gi, lh, numbering, st)
        except Undefined:
            exp = None
        except NoOpinion:
            return bad
        # a part that is None was refused by the smart server (stacked_oracle) and is not judged
        if exp is None:
            if (c is not None and c[0] == "ok") or (a is not None and a[0] == "ok"):
                bad.append("specifier %r resolved to %r / %r although it names no revision" % (q[1], a, c))
        else:
            present = exp == NULL or (exp.startswith(b"r") and exp[1:].isdigit() and int(exp[1:]) in g)
            if c is not None and c != ("ok", exp):
                bad.append("as_revision_id(%r) = %r, the definition gives %r" % (q[1], c, exp))
            names = [name(g, x) for x in lh]
            exprevno = 0 if exp == NULL else names.index(exp) + 1 if exp in names else None
            if a is None:
                pass
            elif present:
                if a[0] != "ok" or a[2] != exp:
                    bad.append("in_history(%r) = %r, the definition gives %r" % (q[1], a, exp))
                elif a[1] != exprevno:
                    bad.append("in_history(%r).revno = %r, expected %r" % (q[1], a[1], exprevno))
            elif a[0] == "ok":
                bad.append("in_history(%r) = %r for a revision that is not in the repository" % (q[1], a))
    elif k == "spec":
        a, c = res
        if a is not None and c is not None and a[0] == "ok" and c[0] == "ok" and a[2] != c[1]:
            bad.append("in_history(%r) and as_revision_id disagree: %r / %r" % (q[1], a, c))
    return bad


def oracle_iter(w, gi, facts, q, res):
    g = gi.g
    bad = []
    full = facts["full"]            # [(name, depth, revno, eom)] newest first, from the external merge_sort
    if isinstance(res, Exception):
        # only the documented failure: with-merges needs the stop revision itself
        ok = q[3] == "w" and q[2] is not None and not (q[2].startswith("r") and q[2][1:].isdigit() and int(q[2][1:]) in g)
        if not ok:
            bad.append("iter_merge_sorted_revisions%r raised %r" % (q[1:], res))
        return bad
    l = res if q[4] == "r" else res[::-1]
    s, t, rule = q[1], q[2], q[3]
    pos = {e[0]: i for i, e in enumerate(full)}
    idx = [pos.get(e[0]) for e in l]
    if any(i is None for i in idx) or any(e != full[i] for e, i in zip(l, idx)):
        bad.append("iteration yields entries that are not in the merge-sorted list: %r" % (l,))
        return bad
    if idx != sorted(idx) or len(set(idx)) != len(idx):
        bad.append("iteration is not a sub-sequence of the merge-sorted order: %r" % ([e[0] for e in l],))
    nm = lambda x: name(g, x)
    num = lambda b_: int(b_[1:]) if int(b_[1:]) < len(g) else 1000 + int(b_[1:]) - len(g)
    if s is None:
        start = w["tip"]
    else:
        sb = s.encode()
        start = num(sb) if (sb.startswith(b"r") and sb[1:].isdigit() and sb in pos) else "absent"
    if start == "absent" or start is None:
        if l:
            bad.append("start revision %r is not in the ancestry but %d revisions are listed" % (s, len(l)))
        return bad
    sa = {nm(x) for x in gi.panc(start)}
    names = [e[0] for e in l]
    if not set(names) <= sa:
        bad.append("revisions outside the ancestry of the start revision are listed: %r" % (sorted(set(names) - sa),))
    seg = [e[0] for e in full[pos[nm(start)]:] if e[0] in sa]      # ancestry of start, merge-sorted
    tb = None if t is None else t.encode()
    if t is None:
        if names != seg:
            bad.append("without a stop revision the whole ancestry of the start must be listed: %r vs %r" % (names, seg))
        return bad
    after = [e[0] for e in full[pos[nm(start)]:]]
    if rule in "ei":
        cut = after.index(tb) if tb in after else len(after)
        upto = after[:cut + (1 if rule == "i" else 0)]
        # filtering by the ancestry of the start happens after cutting
        exp = [x for x in upto if x in sa] if full[pos[nm(start)]][1] else upto
        if names != exp and set(names) != set(exp):
            bad.append("stop rule %s: listed %r, expected %r" % (RULES[rule], names, exp))
        if rule == "e" and tb in names:
            bad.append("stop rule exclude lists the stop revision")
        if rule == "i" and tb in exp and (not names or names[-1] != tb):
            bad.append("stop rule include does not end with the stop revision: %r" % (names,))
    elif rule == "n":
        ta = set()
        if tb.startswith(b"r") and tb[1:].isdigit():
            ta = {nm(x) for x in gi.panc(num(tb))} if num(tb) in g else set()
        exp = [x for x in seg if x not in ta]
        if names != exp:
            bad.append("without-common-ancestry: listed %r, expected ancestry(start) - ancestry(stop) = %r" % (names, exp))
    elif rule == "w":
        tn = num(tb)
        if tn in g and full[pos[nm(start)]][1] == 0 and tb in pos and full[pos[tb]][1] == 0 and tb in after:
            # mainline start and stop: everything down to the stop revision plus what it merged
            lp = g[tn][0] if g[tn] else None
            lpa = {nm(x) for x in gi.panc(lp)} if lp is not None and lp in g else set()
            merged = {nm(x) for x in gi.panc(tn)} - lpa
            upto = after[:after.index(tb) + 1]
            exp = upto + [x for x in after[after.index(tb) + 1:] if x in merged]
            if names != exp:
                bad.append("with-merges: listed %r, expected %r (down to the stop revision plus the revisions it merged)" % (names, exp))
    return bad


# --------------------------------------------------------------------------

def run_world(args):
    w, per, fx = args
    rng = random.Random(w["qseed"])
    g = world_graph(w)
    gi = GI(g)
    tip = w["tip"]
    qs = gen_queries(w, rng, per)
    from vcsgraph.known_graph import KnownGraph
    if tip is not None:
        ms = list(KnownGraph({k: tuple(v) for k, v in g.items()}).merge_sort(tip))
    else:
        ms = []
    facts = dict(
        lh=gi.lefthand(tip) if tip is not None else [],
        numbering={x.key: tuple(x.revno) for x in ms},
        anc=gi.panc(tip) if tip is not None else set(),
        full=[(name(g, x.key), x.merge_depth, tuple(x.revno), x.end_of_merge) for x in ms],
    )
    world = World(w)
    out = []
    if w.get("stack") is not None:
        # the same history as a stacking chain, opened locally and through the smart server
        try:
            chain, sres = run_stacked(world, w, gi, facts, rng, per, fx)
        except (ConnectionError, TimeoutError) as e:
            raise env.InfraError("smart server connection: %r" % (e,))
        finally:
            world.close()
        return dict(w=w, merged=any(x.merge_depth > 0 for x in ms), results=[], steps=[], seq=[], chain=chain,
                    stacked=sres, fx=fx)
    try:
        b = world.open()
        b.lock_read()
        fresh_every = rng.random() < 0.25
        try:
            for q in qs:
                if fresh_every:
                    b.unlock()
                    b = world.open()
                    b.lock_read()
                s, res = run_query(world, b, q)
                fails = oracle(w, gi, facts, q, res)
                out.append((q, s, fails))
        finally:
            b.unlock()
        steps = gen_sequence(w, rng)
        seq = run_sequence(world, w, steps)
    finally:
        world.close()
    return dict(w=w, merged=any(x.merge_depth > 0 for x in ms), results=out, steps=steps, seq=seq)


# --------------------------------------------------------------------------
# stateful stream: one long-lived Branch object X, the tip moved through another object Y

def gen_sequence(w, rng):
    """steps: ["resolve", spec, locked] on X | ["move", tip] through Y | ["check"] on X"""
    g = world_graph(w)
    n = len(g)
    from vcsgraph.known_graph import KnownGraph
    kg = KnownGraph({k: tuple(v) for k, v in g.items()})
    tip = w["tip"]
    steps = []
    for _ in range(rng.choice([2, 3])):
        if tip is not None:
            dotted = [".".join(map(str, x.revno)) for x in kg.merge_sort(tip)]
        else:
            dotted = []
        specs = [rng.choice(dotted) for _ in range(min(len(dotted), 4))]
        specs = [("revno:" + d) if rng.random() < 0.3 else d for d in specs]
        specs += ["revid:r%d" % rng.randrange(n), "-1", "last:1"]
        rng.shuffle(specs)
        for sp in specs:
            steps.append(["resolve", sp, rng.random() < 0.35])
        # the last resolution before the move: a dotted number off the mainline, no outer lock
        off = [d for d in dotted if "." in d]
        if off:
            steps.append(["resolve", rng.choice(off), False])
        tip = rng.randrange(n) if rng.random() < 0.9 else None
        steps.append(["move", tip])
        steps.append(["check"])
    return steps


def run_sequence(world, w, steps):
    """-> list of (tip at that moment, query, impl string, oracle failures)"""
    from breezy.branch import Branch
    from breezy.revisionspec import RevisionSpec
    from vcsgraph.known_graph import KnownGraph
    g = world_graph(w)
    gi = GI(g)
    kg = KnownGraph({k: tuple(v) for k, v in g.items()})
    n = len(g)
    X = world.open()
    tip = w["tip"]
    out = []
    prev_dotted = set()
    for st in steps:
        if st[0] == "resolve":
            text = st[1]
            try:
                if st[2]:
                    with X.lock_read():
                        RevisionSpec.from_string(text).as_revision_id(X)
                        RevisionSpec.from_string(text).in_history(X)
                else:
                    RevisionSpec.from_string(text).as_revision_id(X)
            except Exception:
                pass
        elif st[0] == "move":
            if tip is not None:
                prev_dotted |= {tuple(x.revno) for x in kg.merge_sort(tip)}
            tip = st[1]
            Y = Branch.open(world.url + "main")
            Y.generate_revision_history(NULL if tip is None else name(g, tip))
        elif st[0] == "check":
            ms = list(kg.merge_sort(tip)) if tip is not None else []
            numbering = {x.key: tuple(x.revno) for x in ms}
            lh = gi.lefthand(tip) if tip is not None else []
            fresh = Branch.open(world.url + "main")
            with fresh.lock_read():
                fresh_map = dict(fresh.get_revision_id_to_revno_map())
            qs = [("id2d", name(g, i).decode()) for i in range(n)] + [("id2d", "zzz")]
            qs += [("id2revno", name(g, i).decode()) for i in range(n)]
            qs += [("d2id", ".".join(map(str, d))) for d in sorted(set(numbering.values()) | prev_dotted) if len(d) > 1]
            qs += [("getrevid", k) for k in range(0, len(lh) + 2)]
            with X.lock_read():
                for q in qs:
                    s_, res = run_query(world, X, q)
                    fails = []
                    isexc = isinstance(res, Exception)
                    if q[0] == "id2d":
                        rid = q[1].encode()
                        exp = next((d for r, d in numbering.items() if name(g, r) == rid), None)
                        if exp is None and not isexc:
                            fails.append("a long-lived branch object answers revision_id_to_dotted_revno(%r) = %r although the "
                                         "revision is not in the ancestry of the current tip" % (rid, res))
                        elif exp is not None and (isexc or res != exp):
                            fails.append("a long-lived branch object answers revision_id_to_dotted_revno(%r) = %r, the current "
                                         "numbering (and a freshly opened branch: %r) gives %r" % (rid, res, fresh_map.get(rid), exp))
                    elif q[0] == "d2id":
                        d = tuple(int(x) for x in q[1].split("."))
                        hits = [r for r, dd in numbering.items() if dd == d]
                        if hits and (isexc or res != name(g, hits[0])):
                            fails.append("a long-lived branch object answers dotted_revno_to_revision_id(%r) = %r, expected %r"
                                         % (d, res, name(g, hits[0])))
                        elif not hits and not isexc:
                            fails.append("a long-lived branch object answers dotted_revno_to_revision_id(%r) = %r although no "
                                         "revision has that number now" % (d, res))
                    elif q[0] == "getrevid":
                        k = q[1]
                        exp = NULL if k == 0 else name(g, lh[k - 1]) if 1 <= k <= len(lh) else None
                        if (exp is None) != isexc or (exp is not None and res != exp):
                            fails.append("a long-lived branch object answers get_rev_id(%d) = %r, expected %r" % (k, res, exp))
                    elif q[0] == "id2revno":
                        names = [name(g, x) for x in lh]
                        rid = q[1].encode()
                        exp = names.index(rid) + 1 if rid in names else None
                        if (exp is None) != isexc or (exp is not None and res != exp):
                            fails.append("a long-lived branch object answers revision_id_to_revno(%r) = %r, expected %r" % (rid, res, exp))
                    out.append((tip, q, s_, fails))
    return out


def check_plugins(ctx):
    from breezy.revisionspec import revspec_registry
    extra = set(revspec_registry.keys()) - KNOWN_PREFIXES
    if extra:
        ctx.count("unknown-registered-prefix", len(extra))
        ctx.assumptions.append("registered specifier prefixes unknown to the model: %r" % sorted(extra))


def pure_merge_sort(ctx, n):
    """T2 (a): Lean mergeSort against vcsgraph on generated DAGs"""
    from vcsgraph.known_graph import KnownGraph
    cases, lines, impls = [], [], []
    for _ in range(n):
        size = ctx.rng.randrange(1, ctx.pick(15, 22))
        g = gen_graph(ctx.rng, size, ghosts=True, left_ghosts=True)
        tip = size - 1 if ctx.rng.random() < 0.7 else ctx.rng.randrange(size)
        ms = list(KnownGraph(g).merge_sort(tip))
        impl = ";".join("%d:%d:%s:%s" % (x.key, x.merge_depth, ".".join(map(str, x.revno)), "T" if x.end_of_merge else "F")
                        for x in ms)
        case = dict(kind="merge_sort", g={str(k): list(v) for k, v in g.items()}, tip=tip)
        # oracle on the external numbering itself: covers the ancestry once, numbers are distinct
        gi = GI(g)
        keys = [x.key for x in ms]
        if sorted(keys) != sorted(gi.panc(tip)):
            ctx.violation(case, "merge_sort does not list the ancestry of the tip exactly once: %r" % (keys,), family=None)
        if len({tuple(x.revno) for x in ms}) != len(ms):
            ctx.violation(case, "merge_sort gives the same dotted revno to two revisions", family=None)
        ctx.case(case, nontrivial=any(x.merge_depth for x in ms))
        ctx.count("ms-size:%d" % (len(ms) // 4 * 4))
        ctx.count("ms-maxdepth:%d" % max(x.merge_depth for x in ms))
        cases.append(case)
        lines.append("ms %s %d" % (enc_graph(g), tip))
        impls.append(impl)
    ctx.diff(cases, lines, impls)


def _consume(ctx, r):
    w = r["w"]
    cases, lines, impls = [], [], []
    for q, s, fails in r["results"]:
        case = dict(g=w["g"], tip=w["tip"], tags=w["tags"], others=w["others"], q=list(q))
        for f in fails:
            ctx.violation(case, f, family=None)
        ctx.case(dict(g=w["g"], tip=w["tip"], q=list(q[:2]) + [repr(x) for x in q[2:]]),
                 nontrivial=r["merged"] and not s.startswith("E:") and " E:" not in s)
        ctx.count("q:" + q[0])
        if q[0] == "spec":
            ctx.count("spec:" + (q[2][0] if q[2] else "malformed"))
            for part in s.split(" "):
                if part.startswith("E:"):
                    ctx.count("spec-" + part)
        elif s.startswith("E:"):
            ctx.count(q[0] + "-" + s)
        if q[0] == "iter":
            ctx.count("iter-rule:" + q[3])
        cases.append(case)
        lines.append(model_line(w, q))
        impls.append(s)
    return cases, lines, impls


def _spec_parts_refused(impl, model):
    """a specifier part the smart server refused (identifier -> number below the stacking point) is not compared:
    take the model's part"""
    i, m = impl.split(" "), model.split(" ")
    if len(i) == 2 and len(m) == 2:
        return " ".join(m[j] if i[j] == REFUSED else i[j] for j in range(2))
    return impl


def _consume_stacked(ctx, r, deferred):
    w = r["w"]
    ks = w["stack"]["ks"]
    L = len(GI(world_graph(w)).lefthand(w["tip"]))
    kind = "unstacked" if not ks else "empty-segment" if empty_segment(ks, L) else "levels:%d" % len(ks)
    ctx.count("stacked-world:" + kind)
    cases, lines, impls = [], [], []
    for via, q, s, fails, fam in r["stacked"]:
        case = dict(g=w["g"], tip=w["tip"], tags=w["tags"], others=w["others"], stack=dict(ks=ks, via=via), q=list(q))
        for f in fails:
            what = "%s branch %s: %s" % ("stacked (mainline revnos %r)" % (ks,) if ks else "unstacked",
                                         "served by the smart server" if via == "remote" else "opened locally", f)
            if fam is None:
                ctx.violation(case, what, family=None)
            else:
                deferred.append((case, what, fam))
        ctx.case(dict(g=w["g"], tip=w["tip"], ks=ks, via=via, q=list(q[:2]) + [repr(x) for x in q[2:]]),
                 nontrivial=r["merged"] and not s.startswith("E:") and " E:" not in s)
        ctx.count("stacked-%s-q:%s" % (via, q[0]))
        if REFUSED in s:
            ctx.count("stacked-%s-refused:%s" % (via, q[0]))
        elif q[0] == "spec":
            for part in s.split(" "):
                if part.startswith("E:"):
                    ctx.count("stacked-%s-spec-%s" % (via, part))
        elif s.startswith("E:"):
            ctx.count("stacked-%s-%s-%s" % (via, q[0], s))
        if via == "remote" and q[0] == "getrevid" and ks and 1 <= q[1] <= L:
            d = ks[-1] - q[1]
            ctx.count("stacked-remote-getrevid-below-stacking-point:%s" % ("no" if d <= 0 else "1" if d == 1 else "2+"))
        cases.append(case)
        lines.append(stacked_model_line(w, q, via, r["chain"], r["fx"]))
        impls.append(s)
    return cases, lines, impls


def _consume_seq(ctx, w, steps, seq, merged):
    cases, lines, impls = [], [], []
    case = dict(g=w["g"], tip=w["tip"], tags=w["tags"], others=w["others"], q=["seq", steps])
    ctx.count("sequences")
    for tip, q, s_, fails in seq:
        for f in fails:
            ctx.violation(case, f + "; sequence: %r" % (steps,), family=None)
        ctx.case(dict(g=w["g"], tip=tip, seq=steps, q=list(q)), nontrivial=merged and not s_.startswith("E:"))
        ctx.count("seq-q:" + q[0])
        cases.append(dict(case, at_tip=tip, check=list(q)))
        lines.append(model_line(dict(w, tip=tip), q))
        impls.append(s_)
    return cases, lines, impls


def run_corpus(ctx):
    """inputs that needed care while the check was built (corpus/C22/*.json), run first"""
    import glob
    import json
    import os
    for f in sorted(glob.glob(os.path.join(env.VERIF, "corpus", "C22", "*.json"))):
        case = json.load(open(f))
        r = replay(ctx, case)
        ctx.case(dict(corpus=os.path.basename(f)), nontrivial=True)
        ctx.count("corpus")
        ctx.traces += 1
        if not r["agree"]:
            ctx.mismatch(case, r["impl"], r["model"], line="corpus:" + os.path.basename(f))


PROBE = dict(g={"0": [], "1": [0], "2": [1]}, tip=2, tags={}, others={}, qseed=0, stack=dict(ks=[3]))


_PROBED = {}


def probe_fx(ctx, deferred):
    """which variant of RemoteRepository.get_rev_id_for_revno the tree implements: a freshly stacked branch (its
    tip lives in the fallback only) served by the smart server.  The probe is an oracle case too."""
    if "r" in _PROBED:
        return _PROBED["r"]["fx"], _PROBED["r"]
    r = run_world((PROBE, dict(iter=0, spec=0, malformed=0), False))
    _PROBED["r"] = r
    answers = {q[1]: s for via, q, s, fails, fam in r["stacked"] if via == "remote" and q[0] == "getrevid" and 1 <= q[1] <= 3}
    # anything but three answers is the "gives up" variant for the model; wrong or odd answers are reported by the
    # oracle / the correspondence like those of every other case
    fx = len(answers) == 3 and all(not a.startswith("E:") for a in answers.values())
    ctx.count("probe-fx:%s" % fx)
    ctx.extra["remote_get_rev_id_for_revno_variant"] = "continues-in-fallbacks" if fx else "gives-up-when-known-revision-is-not-stored"
    r["fx"] = fx
    return fx, r


def run(ctx, nworlds=None):
    import os
    os.chdir(env.scratch())       # a prefix-less specifier may be tried as a relative branch location
    check_plugins(ctx)
    run_corpus(ctx)
    pure_merge_sort(ctx, ctx.pick(1200, 12000))
    deferred = []                 # violations of a named family: reported after every other violation
    fx, probe = probe_fx(ctx, deferred)
    nworlds = nworlds or ctx.pick(40, 400)
    per = dict(iter=ctx.pick(40, 120), spec=ctx.pick(140, 400), malformed=ctx.pick(14, 40))
    sper = dict(iter=ctx.pick(6, 20), spec=ctx.pick(36, 100), malformed=ctx.pick(4, 10))
    nmax = ctx.pick(12, 14)
    worlds = [gen_world(ctx.rng, nmax) for _ in range(nworlds)]
    stacked = [gen_stacked_world(ctx.rng, nmax, STACK_KINDS[i % len(STACK_KINDS)])
               for i in range(ctx.pick(12, 120) if nworlds != 150 else 48)]
    stacked = [w for w in stacked if w is not None]
    results = ctx.pmap(run_world, [(w, sper, fx) for w in stacked] + [(w, per, fx) for w in worlds], chunksize=1)
    cases, lines, impls = [], [], []
    for r in [probe] + results:
        if "stacked" in r:
            c, l, i = _consume_stacked(ctx, r, deferred)
            cases += c; lines += l; impls += i
            continue
        ctx.count("world-size:%d" % (len(r["w"]["g"]) // 3 * 3))
        ctx.count("world-merged" if r["merged"] else "world-linear")
        c, l, i = _consume(ctx, r)
        cases += c; lines += l; impls += i
        c, l, i = _consume_seq(ctx, r["w"], r["steps"], r["seq"], r["merged"])
        cases += c; lines += l; impls += i
    outs = ctx.model(lines)
    for c, l, i, m in zip(cases, lines, impls, outs):
        if "E:Unsupported" in m:
            ctx.count("model-unsupported")
            continue
        ctx.traces += 1
        if REFUSED in i and c.get("stack", {}).get("via") == "remote" and c["q"][0] == "spec":
            i = _spec_parts_refused(i, m)
        if i != m:
            ctx.mismatch(c, i, m, line=l)
    for case, what, fam in deferred:
        ctx.violation(case, what, family=fam)


def widen(ctx):
    run(ctx, nworlds=150)


def replay(ctx, case):
    if case.get("kind") == "merge_sort":
        from vcsgraph.known_graph import KnownGraph
        g = {int(k): tuple(v) for k, v in case["g"].items()}
        ms = list(KnownGraph(g).merge_sort(case["tip"]))
        impl = ";".join("%d:%d:%s:%s" % (x.key, x.merge_depth, ".".join(map(str, x.revno)), "T" if x.end_of_merge else "F") for x in ms)
        m = ctx.model(["ms %s %d" % (enc_graph(g), case["tip"])])[0]
        return dict(impl=impl, model=m, agree=impl == m)
    w = dict(g=case["g"], tip=case["tip"], tags=case["tags"], others=case["others"], qseed=0)
    if case.get("stack") is not None:
        return replay_stacked(ctx, case, w)
    if case["q"][0] == "seq":
        steps = case["q"][1]
        world = World(w)
        try:
            seq = run_sequence(world, w, steps)
        finally:
            world.close()
        lines = [model_line(dict(w, tip=t), q) for t, q, s_, f in seq]
        outs = ctx.model(lines) if lines else []
        diffs = [dict(at_tip=t, check=list(q), impl=s_, model=m) for (t, q, s_, f), m in zip(seq, outs) if s_ != m]
        fails = [x for t, q, s_, f in seq for x in f]
        for f in fails:
            ctx.violation(case, f + "; sequence: %r" % (steps,))
        return dict(query=["seq", steps], impl="%d answers" % len(seq), model="%d differ" % len(diffs),
                    agree=not diffs, differences=diffs[:5], oracle_failures=fails[:8])
    q = case["q"]
    q = tuple(q[:2]) + tuple(_detuple(x) for x in q[2:])
    g = world_graph(w)
    gi = GI(g)
    from vcsgraph.known_graph import KnownGraph
    ms = list(KnownGraph({k: tuple(v) for k, v in g.items()}).merge_sort(w["tip"])) if w["tip"] is not None else []
    facts = dict(lh=gi.lefthand(w["tip"]) if w["tip"] is not None else [],
                 numbering={x.key: tuple(x.revno) for x in ms},
                 anc=gi.panc(w["tip"]) if w["tip"] is not None else set(),
                 full=[(name(g, x.key), x.merge_depth, tuple(x.revno), x.end_of_merge) for x in ms])
    world = World(w)
    try:
        b = world.open()
        with b.lock_read():
            s, res = run_query(world, b, q)
        fails = oracle(w, gi, facts, q, res)
    finally:
        world.close()
    for f in fails:
        ctx.violation(case, f)
    m = ctx.model([model_line(w, q)])[0]
    return dict(query=list(q[:2]), impl=s, model=m, agree=(s == m or "E:Unsupported" in m), oracle_failures=fails)


def replay_stacked(ctx, case, w):
    via = case["stack"]["via"]
    w["stack"] = dict(ks=case["stack"]["ks"])
    q = case["q"]
    q = tuple(q[:2]) + tuple(_detuple(x) for x in q[2:])
    g = world_graph(w)
    gi = GI(g)
    from vcsgraph.known_graph import KnownGraph
    ms = list(KnownGraph({k: tuple(v) for k, v in g.items()}).merge_sort(w["tip"]))
    facts = dict(lh=gi.lefthand(w["tip"]), numbering={x.key: tuple(x.revno) for x in ms}, anc=gi.panc(w["tip"]),
                 full=[(name(g, x.key), x.merge_depth, tuple(x.revno), x.end_of_merge) for x in ms])
    fx, _ = probe_fx(ctx, [])
    world = World(w)
    try:
        sw = StackedWorld(world, w)
        try:
            top = set(sw.chain[0])
            own = set()
            for x in facts["lh"][::-1]:
                if x not in top:
                    break
                own.add(name(g, x))
            b = sw.open(via)
            with b.lock_read():
                s, res = run_query(_Loc(sw.url if via == "local" else sw.rurl), b, q)
            fails, fam = stacked_oracle(w, gi, facts, q, res, via, w["stack"]["ks"], own)
            chain = sw.chain
        finally:
            sw.close()
    finally:
        world.close()
    ks = w["stack"]["ks"]
    fails = ["%s branch %s: %s" % ("stacked (mainline revnos %r)" % (ks,) if ks else "unstacked",
                                   "served by the smart server" if via == "remote" else "opened locally", f) for f in fails]
    for f in fails:
        ctx.violation(case, f, family=fam)
    line = stacked_model_line(w, q, via, chain, fx)
    m = ctx.model([line])[0]
    s2 = _spec_parts_refused(s, m) if (q[0] == "spec" and via == "remote") else s
    return dict(query=list(q[:2]), via=via, chain=chain, impl=s, model=m, model_line=line,
                agree=(s2 == m or "E:Unsupported" in m), oracle_failures=fails)


def _detuple(x):
    if isinstance(x, list):
        return tuple(_detuple(y) for y in x)
    return x
