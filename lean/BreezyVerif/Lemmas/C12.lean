import BreezyVerif.Model.C12
import Std.Data.String.ToNat
/-! C12 helper: the candidates `base.~k~` are pairwise different. -/
namespace BreezyVerif.C12

theorem backupCand_injective (base : String) (a b : Nat) (h : backupCand base a = backupCand base b) : a = b := by
  unfold backupCand at h
  have h1 := congrArg String.toList h
  simp only [String.toList_append] at h1
  have h2 := List.append_cancel_right h1
  have h3 := List.append_cancel_left h2
  have h4 : toString a = toString b := String.toList_inj.mp h3
  exact Nat.repr_injective h4

end BreezyVerif.C12
